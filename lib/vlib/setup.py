"""./check --setup : offline, touches only /verif/.work and the Go build cache."""
import os
import shutil
import subprocess
import sys

from . import core


def run():
    ok = True
    for tool in ("java", "go", "python3"):
        if not shutil.which(tool):
            print("setup: missing tool", tool)
            ok = False
    if not os.path.exists("/opt/veriftools/tla/tla2tools.jar"):
        print("setup: tla2tools.jar missing")
        ok = False
    ctx = core.Ctx("setup", "quick", 0)
    try:
        d = ctx.spec_copy()
        mods = sorted(f for f in os.listdir(d) if f.endswith(".tla"))
        bad = []
        for m in mods:
            p = subprocess.run(["java", "-cp", core.JAR, "tla2sany.SANY", m], cwd=d, stdout=subprocess.PIPE,
                               stderr=subprocess.STDOUT)
            txt = p.stdout.decode("utf-8", "replace")
            if p.returncode != 0 or "*** Errors" in txt or "Fatal errors" in txt or "Could not find module" in txt:
                bad.append(m)
                print(txt[-1500:])
        print("setup: %d TLA+ modules parsed, %d with errors %s" % (len(mods), len(bad), bad))
        # a module that does not parse makes the checks that use it exit 2; setup itself only needs the tools
        # warm the Go build cache: the repository and the test dependencies of the packages the harnesses live in
        env = ctx.go_env()
        p = subprocess.run(["go", "build", "./..."], cwd=ctx.repo, env=env)
        ok = ok and p.returncode == 0
        hroot = os.path.join(core.VERIF, "harness", "inpkg")
        pkgs = []
        for root, dirs, files in os.walk(hroot):
            if any(f.endswith(".go") for f in files):
                pkgs.append("./" + os.path.relpath(root, hroot))
        if pkgs:
            p = subprocess.run(["go", "test", "-vet=off", "-tags", "verif", "-count=1", "-run", "^$"] + sorted(pkgs),
                               cwd=ctx.repo, env=env, stdout=subprocess.PIPE, stderr=subprocess.STDOUT)
            print("setup: warmed test builds of %d packages (rc=%d)" % (len(pkgs), p.returncode))
            ok = ok and p.returncode == 0
    finally:
        ctx.cleanup()
    print("setup:", "ok" if ok else "FAILED")
    return 0 if ok else 1
