"""./check --setup : offline, touches only /verif/.work and the Go build cache."""
import os
import shutil
import subprocess
import sys

from . import core


def run():
    ok = True
    for tool in ("java", "go", "python3"):
        if not shutil.which(tool):
            print("setup: missing tool", tool)
            ok = False
    if not os.path.exists("/opt/veriftools/tla/tla2tools.jar"):
        print("setup: tla2tools.jar missing")
        ok = False
    ctx = core.Ctx("setup", "quick", 0)
    try:
        d = ctx.spec_copy()
        mods = sorted(f for f in os.listdir(d) if f.endswith(".tla"))
        bad = []
        for m in mods:
            p = subprocess.run(["java", "-cp", core.JAR, "tla2sany.SANY", m], cwd=d, stdout=subprocess.PIPE,
                               stderr=subprocess.STDOUT)
            txt = p.stdout.decode("utf-8", "replace")
            if p.returncode != 0 or "*** Errors" in txt or "Fatal errors" in txt or "Could not find module" in txt:
                bad.append(m)
                print(txt[-1500:])
        print("setup: %d TLA+ modules parsed, %d with errors %s" % (len(mods), len(bad), bad))
        ok = ok and not bad
        # warm the Go build cache: build the repo and every harness test binary once
        env = ctx.go_env()
        p = subprocess.run(["go", "build", "./..."], cwd=ctx.repo, env=env)
        ok = ok and p.returncode == 0
        hroot = os.path.join(core.VERIF, "harness", "inpkg")
        for root, dirs, files in os.walk(hroot):
            gof = [f for f in files if f.endswith(".go")]
            if not gof:
                continue
            pkg = os.path.relpath(root, hroot)
            try:
                ctx.go_build_test(pkg, None)
            except core.Undecided as e:
                print("setup: harness for %s does not build: %s" % (pkg, str(e)[:2000]))
                ok = False
    finally:
        ctx.cleanup()
    print("setup:", "ok" if ok else "FAILED")
    return 0 if ok else 1
