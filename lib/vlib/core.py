"""Runner core: context, TLC driver, Go harness builder (overlay), evidence writer,
known-findings matcher.  Python stdlib only.

Exit codes of ./check:  0 = property held on everything explored (known findings printed
as KNOWN-FINDING lines), 1 = VIOLATION (observed on real code, validated by TLC, not a
listed finding), 2 = machinery could not decide (build error, TLC error/timeout, ...).
"""
import json
import os
import re
import shutil
import subprocess
import sys
import time

from . import tlaparse

VERIF = os.path.dirname(os.path.dirname(os.path.dirname(os.path.abspath(__file__))))
JAR = "/opt/veriftools/tla/tla2tools.jar:/opt/veriftools/tla/CommunityModules-deps.jar"
TLA_ERR_CODES = {}


import threading
_spec_copy_lock = threading.Lock()


class Undecided(Exception):
    """The machinery could not decide (exit 2)."""


def log(*a):
    print("[check]", *a, file=sys.stderr, flush=True)


class TLCResult:
    def __init__(self):
        self.rc = None
        self.out = ""
        self.generated = 0
        self.distinct = 0
        self.depth = 0
        self.violations = []   # list of dict(kind, name, trace=[(hdr,state)...])
        self.errors = []       # non-property errors (evaluation errors, parse errors)
        self.timed_out = False
        self.wall = 0.0
        self.printed = []      # PrintT lines that parse as TLA values (tuples starting with a tag)
        self.coverage = {}

    @property
    def ok(self):
        return (not self.timed_out) and not self.errors and not self.violations


class Ctx:
    def __init__(self, prop, tier, seed):
        self.prop = prop
        self.tier = tier
        self.seed = seed
        self.repo = os.environ.get("VERIF_REPO", "/repo")
        self.verif = VERIF
        self.evidence_dir = os.environ.get("VERIF_EVIDENCE_DIR", os.path.join(VERIF, "evidence"))
        base = os.environ.get("VERIF_WORK", os.path.join(VERIF, ".work"))
        self.work = os.path.join(base, "%s-%s-%d" % (prop, tier, os.getpid()))
        shutil.rmtree(self.work, ignore_errors=True)
        os.makedirs(self.work)
        self.t0 = time.time()
        # /verif/.busy (not committed) marks a shared development box: stay small
        default_cores = 3 if os.path.exists(os.path.join(VERIF, ".busy")) else (os.cpu_count() or 4)
        self.cores = int(os.environ.get("VERIF_CORES", str(default_cores)))
        self.keep = os.environ.get("VERIF_KEEP") == "1"
        self.tlc_stats = []    # (label, generated, distinct, depth)
        self.notes = []

    # ------------------------------------------------------------------ scratch
    def cleanup(self):
        if not self.keep:
            shutil.rmtree(self.work, ignore_errors=True)

    def subdir(self, name):
        d = os.path.join(self.work, name)
        os.makedirs(d, exist_ok=True)
        return d

    # ------------------------------------------------------------------ TLC
    def spec_copy(self, name="spec"):
        """Copy /verif/spec (flat *.tla + mc/ + trace/) into the work dir so that TLC's
        litter and relative trace files stay in scratch. Returns the directory; all
        modules and cfgs are flattened into it."""
        d = os.path.join(self.work, name)
        with _spec_copy_lock:
            if os.path.isdir(d):
                return d
            tmp = d + ".tmp"
            os.makedirs(tmp)
            src = os.path.join(VERIF, "spec")
            for root, dirs, files in os.walk(src):
                for f in files:
                    if f.endswith((".tla", ".cfg")):
                        shutil.copy(os.path.join(root, f), os.path.join(tmp, f))
            os.rename(tmp, d)
        return d

    def tlc(self, module, cfg=None, *, cwd=None, workers=None, timeout=600, simulate=None,
            depth=None, dump=None, cont=False, deque=False, heap="4g", coverage=False,
            label=None, seed=None, extra=(), must_pass=False, difftrace=False):
        """Run TLC on <module>.tla with <cfg> in directory cwd (default: spec copy)."""
        cwd = cwd or self.spec_copy()
        cfg = cfg or (module + ".cfg")
        label = label or cfg
        meta = os.path.join(self.work, "meta-%s-%d" % (re.sub(r'\W', '_', label), len(self.tlc_stats)))
        workers = min(workers or self.cores, self.cores, 16)
        jtmp = os.path.join(self.work, "jtmp")     # TLC leaves an empty tlc-<n> directory per run in java.io.tmpdir
        os.makedirs(jtmp, exist_ok=True)
        cmd = ["java", "-XX:+UseParallelGC", "-XX:ParallelGCThreads=%d" % max(1, min(4, workers)),
               "-Xmx" + heap, "-Xss64m", "-Djava.io.tmpdir=" + jtmp]
        if deque:
            cmd.append("-Dtlc2.tool.queue.IStateQueue=StateDeque")
        cmd += ["-cp", JAR, "tlc2.TLC", "-noGenerateSpecTE", "-metadir", meta,
                "-workers", str(workers), "-config", cfg]
        if cont:
            cmd.append("-continue")
        if coverage:
            cmd += ["-coverage", "1"]
        if simulate is not None:
            cmd += ["-simulate", simulate]
            cmd += ["-depth", str(depth or 100)]
        if seed is not None:
            cmd += ["-seed", str(seed)]
        if dump:
            cmd += ["-dump"] + list(dump)
        if difftrace:
            cmd.append("-difftrace")
        cmd += list(extra)
        cmd.append(module + ".tla")
        r = TLCResult()
        t0 = time.time()
        env = dict(os.environ)
        env.pop("JAVA_TOOL_OPTIONS", None)
        try:
            p = subprocess.run(cmd, cwd=cwd, stdout=subprocess.PIPE, stderr=subprocess.STDOUT,
                               timeout=timeout, env=env)
            r.rc = p.returncode
            r.out = p.stdout.decode("utf-8", "replace")
        except subprocess.TimeoutExpired as e:
            r.timed_out = True
            r.out = (e.stdout or b"").decode("utf-8", "replace")
            subprocess.run(["pkill", "-f", meta], stderr=subprocess.DEVNULL)
        r.wall = time.time() - t0
        shutil.rmtree(meta, ignore_errors=True)
        self._parse_tlc(r)
        self.tlc_stats.append((label, r.generated, r.distinct, r.depth, round(r.wall, 1)))
        log("tlc %s: rc=%s gen=%d distinct=%d depth=%d viol=%d err=%d %.1fs%s" % (
            label, r.rc, r.generated, r.distinct, r.depth, len(r.violations), len(r.errors), r.wall,
            " TIMEOUT" if r.timed_out else ""))
        if must_pass and not r.ok:
            self.save_log(label, r.out)
            raise Undecided("TLC run %s did not pass cleanly: %s" % (
                label, (r.errors or [v["name"] for v in r.violations] or ["timeout"])[:3]))
        return r

    def save_log(self, label, text):
        d = os.path.join(VERIF, ".work", "logs")
        os.makedirs(d, exist_ok=True)
        p = os.path.join(d, "%s-%s.log" % (self.prop, re.sub(r'\W', '_', label)))
        with open(p, "w") as f:
            f.write(text)
        log("log saved:", p)
        return p

    def _parse_tlc(self, r):
        out = r.out
        for m in re.finditer(r'^(\d+) states generated, (\d+) distinct states found', out, re.M):
            r.generated, r.distinct = int(m.group(1)), int(m.group(2))
        m = re.search(r'The depth of the complete state graph search is (\d+)', out)
        if m:
            r.depth = int(m.group(1))
        # simulation mode statistics
        m = re.search(r'The number of states generated: (\d+)', out)
        if m:
            r.generated = int(m.group(1))
            r.distinct = r.distinct or 0
        lines = out.splitlines()
        i = 0
        n = len(lines)
        while i < n:
            ln = lines[i]
            m = re.match(r'^Error: (Invariant|Action property|Temporal property|Temporal properties|Deadlock|The postcondition)(?: (\S+))?(.*)$', ln)
            if m:
                kind = m.group(1)
                name = m.group(2) or ""
                if kind == "Deadlock":
                    name = "Deadlock"
                if kind == "Temporal properties":
                    name = "Temporal"
                # collect following behaviour text until next "Error: Invariant" or stats
                j = i + 1
                buf = []
                while j < n and not re.match(r'^Error: (Invariant|Action property|Deadlock)', lines[j]) \
                        and not re.match(r'^\d+ states generated', lines[j]) \
                        and not lines[j].startswith("Model checking completed"):
                    buf.append(lines[j])
                    j += 1
                try:
                    trace = tlaparse.parse_behaviour_text("\n".join(buf))
                except Exception as e:  # keep the raw text if unparsable
                    trace = []
                    r.errors.append("unparsable counterexample: %s" % e)
                r.violations.append({"kind": kind, "name": name.rstrip("."), "trace": trace})
                i = j
                continue
            if ln.startswith("Error:") and "The behavior up to this point" not in ln \
                    and "Evaluating invariant" not in ln:
                r.errors.append(ln + " " + " ".join(lines[i + 1:i + 4]))
            if ln.startswith("<<\"") or ln.startswith("<< \""):
                try:
                    r.printed.append(tlaparse.parse_value(ln))
                except Exception:
                    pass
            i += 1
        if r.rc not in (0, None) and not r.violations and not r.errors and not r.timed_out:
            # exit codes: 12 = safety violation, 13 liveness, 10/11 assumption/deadlock
            if r.rc not in (12, 13, 11):
                r.errors.append("tlc exit code %s" % r.rc)
        if coverage_re.search(out):
            for m in coverage_re.finditer(out):
                r.coverage[m.group(1)] = int(m.group(2))

    # ------------------------------------------------------------------ Go
    def go_env(self):
        env = dict(os.environ)
        env.update({"GOFLAGS": "-mod=mod", "GOPROXY": "off", "GOSUMDB": "off",
                    "GOTOOLCHAIN": "local", "CGO_ENABLED": env.get("CGO_ENABLED", "0")})
        return env

    def go_build_test(self, pkg, files, tags="verif", name=None):
        """Build the test binary of /repo/<pkg> with harness files injected by -overlay.
        files: list of paths relative to /verif/harness/inpkg/<pkg>/ (or absolute)."""
        ov = {"Replace": {}}
        hdir = os.path.join(VERIF, "harness", "inpkg", pkg)
        if files is None:
            files = sorted(f for f in os.listdir(hdir) if f.endswith(".go"))
        for f in files:
            src = f if os.path.isabs(f) else os.path.join(hdir, f)
            ov["Replace"][os.path.join(self.repo, pkg, os.path.basename(src))] = src
        ovp = os.path.join(self.work, "overlay-%s.json" % pkg.replace("/", "_"))
        with open(ovp, "w") as fh:
            json.dump(ov, fh)
        binp = os.path.join(self.work, (name or pkg.replace("/", "_")) + ".test")
        cmd = ["go", "test", "-c", "-vet=off", "-tags", tags, "-overlay", ovp, "-o", binp, "./" + pkg]
        t0 = time.time()
        p = subprocess.run(cmd, cwd=self.repo, env=self.go_env(), stdout=subprocess.PIPE,
                           stderr=subprocess.STDOUT)
        log("go build %s: rc=%d %.1fs" % (pkg, p.returncode, time.time() - t0))
        if p.returncode != 0:
            self.save_log("gobuild-" + pkg, p.stdout.decode("utf-8", "replace"))
            raise Undecided("harness for %s does not compile against %s:\n%s" % (
                pkg, self.repo, p.stdout.decode("utf-8", "replace")[-3000:]))
        return binp

    def run_test(self, binp, run, env=None, timeout=1200, cwd=None, label=None):
        """Run a harness test binary. Returns (rc, output)."""
        e = self.go_env()
        e["VERIF_SEED"] = str(self.seed)
        e["VERIF_TIER"] = self.tier
        e["VERIF_WORK"] = self.work
        e["TMPDIR"] = self.subdir("tmp")
        if env:
            e.update({k: str(v) for k, v in env.items()})
        cmd = [binp, "-test.run", run, "-test.count=1", "-test.timeout", "%ds" % timeout, "-test.v"]
        t0 = time.time()
        try:
            p = subprocess.run(cmd, cwd=cwd or self.subdir("run"), env=e, stdout=subprocess.PIPE,
                               stderr=subprocess.STDOUT, timeout=timeout + 30)
            rc, out = p.returncode, p.stdout.decode("utf-8", "replace")
        except subprocess.TimeoutExpired as ex:
            rc, out = 124, (ex.stdout or b"").decode("utf-8", "replace")
        log("harness %s: rc=%d %.1fs" % (label or run, rc, time.time() - t0))
        return rc, out

    # ------------------------------------------------------------------ evidence
    def write_evidence(self, coverage, assumptions, violations, level="model_checking", extra=None):
        ev = {
            "property_id": self.prop,
            "tier": self.tier,
            "seed": int(self.seed),
            "level": level,
            "coverage": coverage,
            "assumptions": assumptions,
            "wall_s": round(time.time() - self.t0, 2),
            "violations": int(violations),
        }
        if extra:
            ev.update(extra)
        os.makedirs(self.evidence_dir, exist_ok=True)
        p = os.path.join(self.evidence_dir, self.prop + ".json")
        with open(p, "w") as f:
            json.dump(ev, f, indent=1, sort_keys=True, default=str)
        return p


coverage_re = re.compile(r'^<(\w+) line \d+, col \d+ to line \d+, col \d+ of module \w+>: (\d+):', re.M)


# ---------------------------------------------------------------------- findings
def load_findings(prop):
    out = []
    paths = [os.path.join(VERIF, "known-findings.json")]
    dd = os.path.join(VERIF, "known-findings.d")
    if os.path.isdir(dd):
        paths += [os.path.join(dd, f) for f in sorted(os.listdir(dd)) if f.endswith(".json")]
    for p in paths:
        if not os.path.exists(p):
            continue
        with open(p) as f:
            data = json.load(f)
        out += [x for x in data.get("findings", []) if x.get("property") == prop]
    return out


def match_finding(findings, sig):
    """sig: flat dict describing the minimal failing step. A finding with status 'known'
    matches if every key of its signature equals sig's value (strings compared exactly;
    a list in the signature means 'one of')."""
    for f in findings:
        if f.get("status") != "known":
            continue
        ok = True
        for k, v in f.get("signature", {}).items():
            sv = sig.get(k)
            if isinstance(v, list):
                if sv not in v:
                    ok = False
            elif sv != v:
                ok = False
            if not ok:
                break
        if ok:
            return f
    return None


class Verdict:
    """Collects violations observed on real code (already validated by TLC at level 2)."""

    def __init__(self, ctx):
        self.ctx = ctx
        self.findings = load_findings(ctx.prop)
        self.known = {}      # finding id -> count
        self.new = []        # list of (sig, replay payload)

    def add(self, sig, replay):
        f = match_finding(self.findings, sig)
        if f is not None:
            self.known[f["id"]] = self.known.get(f["id"], 0) + 1
        else:
            self.new.append((sig, replay))

    def finish(self):
        """Print lines, store replays, return exit code."""
        ctx = self.ctx
        for f in self.findings:
            if f.get("status") == "known" and f["id"] in self.known:
                print("KNOWN-FINDING: property=%s %s [%s] (reproduced %d times)" % (
                    ctx.prop, f["description"], f["id"], self.known[f["id"]]), flush=True)
        if not self.new:
            return 0
        d = os.path.join(os.environ.get("VERIF_REPLAYS", os.path.join(VERIF, "replays")), ctx.prop)
        os.makedirs(d, exist_ok=True)
        seen = set()
        n = 0
        for sig, replay in self.new:
            key = json.dumps(sig, sort_keys=True, default=str)
            if key in seen:
                continue
            seen.add(key)
            n += 1
            if n > 10:
                break
            name = "%s-%s-seed%d-%d.json" % (ctx.prop, ctx.tier, ctx.seed, n)
            p = os.path.join(d, name)
            with open(p, "w") as fh:
                json.dump({"property": ctx.prop, "signature": sig, "replay": replay}, fh, indent=1, default=str)
            print("VIOLATION property=%s replay=%s" % (ctx.prop, p), flush=True)
            print("  signature: %s" % key, flush=True)
        return 1


def read_ndjson(path):
    out = []
    with open(path) as f:
        for line in f:
            line = line.strip()
            if line:
                out.append(json.loads(line))
    return out


def write_ndjson(path, rows):
    with open(path, "w") as f:
        for r in rows:
            f.write(json.dumps(r, sort_keys=True, separators=(",", ":")) + "\n")


def abridge(x, n=12):
    """Shorten a sample for the evidence file."""
    if isinstance(x, list) and len(x) > n:
        return x[:n] + ["... (%d more)" % (len(x) - n)]
    return x


# ---------------------------------------------------------------------- state graph (dot dump)
_node_re = re.compile(r'^(-?\d+) \[label="((?:[^"\\]|\\.)*)"(,tooltip="(?:[^"\\]|\\.)*")?(,style = filled)?\]')
_edge_re = re.compile(r'^(-?\d+) -> (-?\d+) \[label="((?:[^"\\]|\\.)*)"')


def _dot_unescape(s):
    out = []
    i = 0
    while i < len(s):
        c = s[i]
        if c == "\\" and i + 1 < len(s):
            n = s[i + 1]
            if n == "n":
                out.append("\n")
            else:
                out.append(n)
            i += 2
        else:
            out.append(c)
            i += 1
    return "".join(out)


class Graph:
    def __init__(self):
        self.nodes = {}    # id -> state dict
        self.edges = []    # (src, dst, label)
        self.inits = []

    def bfs_paths(self):
        """Shortest path (list of edge indices) from an initial node to every node."""
        from collections import deque
        out = {}
        adj = {}
        for k, (s, d, _l) in enumerate(self.edges):
            adj.setdefault(s, []).append(k)
        q = deque()
        for i in self.inits:
            out[i] = []
            q.append(i)
        while q:
            u = q.popleft()
            for k in adj.get(u, ()):
                d = self.edges[k][1]
                if d not in out:
                    out[d] = out[u] + [k]
                    q.append(d)
        return out


def parse_dot(path, parse_states=True):
    g = Graph()
    with open(path) as f:
        for line in f:
            m = _edge_re.match(line)
            if m:
                g.edges.append((m.group(1), m.group(2), _dot_unescape(m.group(3))))
                continue
            m = _node_re.match(line)
            if m:
                txt = _dot_unescape(m.group(2))
                g.nodes[m.group(1)] = tlaparse.parse_state(txt) if parse_states else txt
                if m.group(4):
                    g.inits.append(m.group(1))
    return g


# ---------------------------------------------------------------------- trace validation
def split_runs(rows, max_events):
    """Split at 'Reset' boundaries (a run = a Reset event and everything up to the next
    one; rows before the first Reset are independent single-event runs)."""
    runs = []
    cur = None
    for r in rows:
        if r.get("ev") == "Reset":
            if cur:
                runs.append(cur)
            cur = [r]
        elif cur is None:
            runs.append([r])
        else:
            cur.append(r)
    if cur:
        runs.append(cur)
    chunks, c = [], []
    for run in runs:
        if c and len(c) + len(run) > max_events:
            chunks.append(c)
            c = []
        c.extend(run)
    if c:
        chunks.append(c)
    return chunks, len(runs)


def validate_traces(ctx, module, rows, cfg=None, max_events=3000, timeout=900, label=None, heap="3g"):
    """Feed observed traces to TLC (trace spec <module>), in chunks, in parallel.
    Returns dict(viol=[...], drift=[...], events=n, runs=k, chunks=c). Each viol/drift
    entry is the TLC record plus 'row' (the trace line it refers to) and 'prefix' (the run
    up to and including that line).  Raises Undecided when TLC fails to consume a chunk."""
    from concurrent.futures import ThreadPoolExecutor
    label = label or module
    chunks, nruns = split_runs(rows, max_events)
    base = ctx.spec_copy()
    res = {"viol": [], "drift": [], "events": len(rows), "runs": nruns, "chunks": len(chunks)}

    def one(k):
        d = os.path.join(ctx.work, "tv-%s-%d" % (label, k))
        shutil.copytree(base, d)
        write_ndjson(os.path.join(d, "trace.ndjson"), chunks[k])
        r = ctx.tlc(module, cfg or (module + ".cfg"), cwd=d, workers=1, timeout=timeout, deque=True,
                    heap=heap, label="%s#%d" % (label, k))
        vp = os.path.join(d, "verdict.json")
        if not os.path.exists(vp) or r.errors or r.timed_out:
            ctx.save_log("tv-%s-%d" % (label, k), r.out)
            raise Undecided("trace validation %s chunk %d not completed by TLC: %s" % (
                label, k, (r.errors or ["no verdict / timeout"])[:2]))
        with open(vp) as f:
            v = json.load(f)
        if v.get("n") != len(chunks[k]):
            raise Undecided("trace validation %s chunk %d: consumed %s of %d lines" % (
                label, k, v.get("n"), len(chunks[k])))
        if not ctx.keep:
            shutil.rmtree(d, ignore_errors=True)
        return k, v

    with ThreadPoolExecutor(max_workers=max(1, min(len(chunks), ctx.cores))) as ex:
        for k, v in ex.map(one, range(len(chunks))):
            for kind in ("viol", "drift"):
                for rec in v.get(kind) or []:
                    li = rec["l"] - 1
                    row = chunks[k][li]
                    # prefix = the run containing the line
                    st = li
                    while st > 0 and chunks[k][st].get("ev") != "Reset":
                        st -= 1
                    if chunks[k][st].get("ev") != "Reset":
                        st = li
                    rec = dict(rec)
                    rec["row"] = row
                    rec["prefix"] = chunks[k][st:li + 1]
                    res[kind].append(rec)
    log("trace validation %s: %d events / %d runs / %d chunks -> %d property failures, %d conformance drifts" % (
        label, res["events"], nruns, len(chunks), len(res["viol"]), len(res["drift"])))
    return res


def graph_schedules(g, key="act"):
    """Root-to-leaf paths of the BFS tree of an act-augmented state graph: list of lists
    of node ids (without the initial node's own act)."""
    paths = g.bfs_paths()
    is_prefix_of_other = set()
    for nid, p in paths.items():
        if p:
            is_prefix_of_other.add(g.edges[p[-1]][0])
    out = []
    for nid, p in paths.items():
        if nid in is_prefix_of_other and p:
            continue
        if not p:
            if nid in is_prefix_of_other:
                continue
        nodes = [g.edges[p[0]][0]] if p else [nid]
        for k in p:
            nodes.append(g.edges[k][1])
        out.append(nodes)
    return out


def cfg_variant(ctx, base_cfg, new_name, consts=None, drop_view=False, invariants=None, drop_properties=False):
    """Derive a cfg in the spec copy from a committed one by overriding CONSTANT values
    (and optionally removing VIEW / replacing INVARIANTS). Returns the new cfg file name."""
    d = ctx.spec_copy()
    with open(os.path.join(d, base_cfg)) as f:
        txt = f.read()
    for k, v in (consts or {}).items():
        if isinstance(v, bool):
            v = "TRUE" if v else "FALSE"
        txt, n = re.subn(r'(^\s*%s\s*=\s*).*$' % re.escape(k), lambda m: m.group(1) + str(v), txt, flags=re.M)
        if n == 0:
            raise Undecided("cfg_variant: constant %s not in %s" % (k, base_cfg))
    if drop_view:
        txt = re.sub(r'^VIEW .*$', '', txt, flags=re.M)
    if drop_properties:
        txt = re.sub(r'^PROPERT(Y|IES) .*$', '', txt, flags=re.M)
    if invariants is not None:
        txt = re.sub(r'^INVARIANTS? .*$', ('INVARIANTS ' + " ".join(invariants)) if invariants else '', txt, flags=re.M)
    with open(os.path.join(d, new_name), "w") as f:
        f.write(txt)
    return new_name


def read_state_dump(path):
    """Parse a TLC '-dump <file>' (plain) state dump: list of state dicts."""
    with open(path) as f:
        txt = f.read()
    return [s for _h, s in tlaparse.parse_behaviour_text(txt)]
