"""Parser for the TLA+ value syntax that TLC prints (states, counterexamples, -simulate
files, -dump files, PrintT output).

Python representation:
  integer -> int          TRUE/FALSE -> bool        "str" -> str
  model value / bare identifier -> ModelValue(name) (a str subclass)
  <<a, b>> -> tuple       {a, b} -> TSet (list subclass, order as printed)
  [f |-> v, ...] -> dict  (k :> v @@ ...) -> dict with hashable keys
  a..b -> TSet(range)
"""
import re


class ModelValue(str):
    def __repr__(self):
        return "MV(%s)" % str.__str__(self)


class TSet(list):
    pass


def hashable(v):
    if isinstance(v, dict):
        return tuple(sorted(((hashable(k), hashable(x)) for k, x in v.items()), key=repr))
    if isinstance(v, TSet):
        return frozenset(hashable(x) for x in v)
    if isinstance(v, (list, tuple)):
        return tuple(hashable(x) for x in v)
    return v


_tok = re.compile(r'''\s*(?:
    (?P<str>"(?:[^"\\]|\\.)*") |
    (?P<int>-?\d+) |
    (?P<id>[A-Za-z_][A-Za-z0-9_!]*) |
    (?P<op>\|->|:>|@@|<<|>>|\.\.|/\\|[\[\]\(\)\{\},=])
)''', re.X)


class Parser:
    def __init__(self, text):
        self.toks = []
        pos = 0
        n = len(text)
        while pos < n:
            m = _tok.match(text, pos)
            if not m:
                if text[pos:].strip() == "":
                    break
                raise ValueError("tla parse: bad token at %r" % text[pos:pos + 40])
            pos = m.end()
            k = m.lastgroup
            self.toks.append((k, m.group(k)))
        self.i = 0

    def peek(self):
        return self.toks[self.i] if self.i < len(self.toks) else (None, None)

    def next(self):
        t = self.peek()
        self.i += 1
        return t

    def expect(self, v):
        k, t = self.next()
        if t != v:
            raise ValueError("tla parse: expected %r got %r (tok %d)" % (v, t, self.i))

    def value(self):
        k, t = self.next()
        if k == "str":
            return bytes(t[1:-1], "utf-8").decode("unicode_escape") if "\\" in t else t[1:-1]
        if k == "int":
            v = int(t)
            if self.peek()[1] == "..":
                self.next()
                hi = self.value()
                return TSet(range(v, hi + 1))
            return v
        if k == "id":
            if t == "TRUE":
                return True
            if t == "FALSE":
                return False
            return ModelValue(t)
        if t == "<<":
            out = []
            if self.peek()[1] == ">>":
                self.next()
                return ()
            while True:
                out.append(self.value())
                k2, t2 = self.next()
                if t2 == ">>":
                    return tuple(out)
                if t2 != ",":
                    raise ValueError("tla parse: bad tuple sep %r" % t2)
        if t == "{":
            out = TSet()
            if self.peek()[1] == "}":
                self.next()
                return out
            while True:
                out.append(self.value())
                k2, t2 = self.next()
                if t2 == "}":
                    return out
                if t2 != ",":
                    raise ValueError("tla parse: bad set sep %r" % t2)
        if t == "[":
            out = {}
            if self.peek()[1] == "]":
                self.next()
                return out
            while True:
                k2, name = self.next()
                self.expect("|->")
                out[name] = self.value()
                k3, t3 = self.next()
                if t3 == "]":
                    return out
                if t3 != ",":
                    raise ValueError("tla parse: bad record sep %r" % t3)
        if t == "(":
            out = {}
            while True:
                key = self.value()
                self.expect(":>")
                out[hashable(key)] = self.value()
                k3, t3 = self.next()
                if t3 == ")":
                    return out
                if t3 != "@@":
                    raise ValueError("tla parse: bad function sep %r" % t3)
        raise ValueError("tla parse: unexpected token %r" % (t,))

    def state(self):
        """/\\ x = v /\\ y = w   (or a single  x = v)"""
        out = {}
        while self.peek()[0] is not None:
            if self.peek()[1] == "/\\":
                self.next()
            k, name = self.next()
            self.expect("=")
            out[name] = self.value()
        return out


def parse_value(text):
    p = Parser(text)
    v = p.value()
    return v


def parse_state(text):
    return Parser(text).state()


def to_json(v):
    """Convert parsed value to plain JSON-able python (model values -> str, sets -> list,
    non-string dict keys -> str)."""
    if isinstance(v, bool) or isinstance(v, int):
        return v
    if isinstance(v, str):
        return str(v)
    if isinstance(v, dict):
        return {(k if isinstance(k, str) else json_key(k)): to_json(x) for k, x in v.items()}
    if isinstance(v, (list, tuple, frozenset)):
        return [to_json(x) for x in v]
    return v


def json_key(k):
    if isinstance(k, (int, bool)):
        return str(k)
    if isinstance(k, tuple):
        return "|".join(json_key(x) for x in k)
    return str(k)


_state_hdr = re.compile(r'^State (\d+):\s*<?(.*?)>?\s*$')


def parse_behaviour_text(text):
    """Parse 'State N: <Action line ...>' blocks (counterexample output or -simulate
    files, which use 'STATE_N ==' headers). Returns list of (header, statedict)."""
    states = []
    cur_hdr = None
    cur = []

    def flush():
        if cur_hdr is not None:
            body = "\n".join(cur).strip()
            if body:
                states.append((cur_hdr, parse_state(body)))

    for line in text.splitlines():
        m = _state_hdr.match(line)
        m2 = re.match(r'^STATE_(\d+) ==\s*$', line)
        if m or m2:
            flush()
            cur_hdr = m.group(2) if m else "STATE_" + m2.group(1)
            cur = []
            continue
        if cur_hdr is not None:
            if line.startswith("Error:") or line.startswith("====") or re.match(r'^\d+ states generated', line) \
               or line.startswith("Finished") or line.startswith("Model checking") or line.startswith("The "):
                flush()
                cur_hdr = None
                cur = []
                continue
            if line.startswith("----") or line.startswith("\\*"):
                continue
            cur.append(line)
    flush()
    return states


def extract_tagged(text, tag):
    """Find every printed tuple  << "tag", ... >>  (possibly spanning lines) in TLC output and
    parse it.  Returns the list of parsed tuples."""
    out = []
    pat = re.compile(r'<<\s*"%s"' % re.escape(tag))
    pos = 0
    while True:
        m = pat.search(text, pos)
        if not m:
            break
        i = m.start()
        depth = 0
        j = i
        in_str = False
        while j < len(text):
            c = text[j]
            if in_str:
                if c == "\\":
                    j += 1
                elif c == '"':
                    in_str = False
            elif c == '"':
                in_str = True
            elif text.startswith("<<", j):
                depth += 1
                j += 1
            elif text.startswith(">>", j):
                depth -= 1
                j += 1
                if depth == 0:
                    break
            j += 1
        try:
            out.append(parse_value(text[i:j + 1]))
        except Exception:
            pass
        pos = j + 1
    return out
