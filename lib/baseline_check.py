#!/usr/bin/env python3
"""Run the repository's baseline test command (guard OFF: no -tags verif) and compare
with the stable_pass list of /root/.vp/BASELINE.json. Exit 0 iff every stable test passes."""
import json
import os
import subprocess
import sys

repo = os.environ.get("VERIF_REPO", "/repo")
env = dict(os.environ, GOFLAGS="-mod=mod", GOPROXY="off", GOSUMDB="off", GOTOOLCHAIN="local")
out = sys.argv[1] if len(sys.argv) > 1 else "/verif/.work/baseline.gotest.json"
os.makedirs(os.path.dirname(out), exist_ok=True)
with open(out, "w") as f:
    subprocess.run(["go", "test", "-json", "-vet=off", "-count=1", "-timeout", "25m", "./..."],
                   cwd=repo, env=env, stdout=f, stderr=subprocess.STDOUT)
res = {}
for line in open(out):
    try:
        e = json.loads(line)
    except Exception:
        continue
    if e.get("Test") and e.get("Action") in ("pass", "fail", "skip"):
        res[e["Package"] + "::" + e["Test"]] = e["Action"]
base = json.load(open("/root/.vp/BASELINE.json"))
missing = [t for t in base["stable_pass"] if res.get(t) != "pass"]
# timing-sensitive tests fail on a loaded machine (with or without any change): re-run each failing top-level test
# alone, up to twice, before calling it not passing
still = []
for t in missing:
    pkg, test = t.split("::", 1)
    top = test.split("/")[0]
    ok = False
    for _ in range(2):
        r = subprocess.run(["go", "test", "-json", "-vet=off", "-count=1", "-timeout", "15m", "-run", "^%s$" % top, pkg],
                           cwd=repo, env=env, capture_output=True, text=True)
        acts = {}
        for line in r.stdout.splitlines():
            try:
                e = json.loads(line)
            except Exception:
                continue
            if e.get("Test") and e.get("Action") in ("pass", "fail", "skip"):
                acts[e["Package"] + "::" + e["Test"]] = e["Action"]
        if acts.get(t) == "pass":
            ok = True
            break
    if ok:
        print("  passed when re-run alone (load-related flake in the full run):", t)
        res[t] = "pass"
    else:
        still.append(t)
missing = still
print("stable_pass=%d passed_now=%d not_passing=%d" % (len(base["stable_pass"]), len(base["stable_pass"]) - len(missing), len(missing)))
for t in missing[:50]:
    print("  NOT PASSING:", t, res.get(t))
sys.exit(1 if missing else 0)
