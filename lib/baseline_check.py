#!/usr/bin/env python3
"""Run the repository's baseline test command (guard OFF: no -tags verif) and compare
with the stable_pass list of /root/.vp/BASELINE.json. Exit 0 iff every stable test passes."""
import json
import os
import subprocess
import sys

repo = os.environ.get("VERIF_REPO", "/repo")
env = dict(os.environ, GOFLAGS="-mod=mod", GOPROXY="off", GOSUMDB="off", GOTOOLCHAIN="local")
out = sys.argv[1] if len(sys.argv) > 1 else "/verif/.work/baseline.gotest.json"
os.makedirs(os.path.dirname(out), exist_ok=True)
with open(out, "w") as f:
    subprocess.run(["go", "test", "-json", "-vet=off", "-count=1", "-timeout", "25m", "./..."],
                   cwd=repo, env=env, stdout=f, stderr=subprocess.STDOUT)
res = {}
for line in open(out):
    try:
        e = json.loads(line)
    except Exception:
        continue
    if e.get("Test") and e.get("Action") in ("pass", "fail", "skip"):
        res[e["Package"] + "::" + e["Test"]] = e["Action"]
base = json.load(open("/root/.vp/BASELINE.json"))
missing = [t for t in base["stable_pass"] if res.get(t) != "pass"]
print("stable_pass=%d passed_now=%d not_passing=%d" % (len(base["stable_pass"]), len(base["stable_pass"]) - len(missing), len(missing)))
for t in missing[:50]:
    print("  NOT PASSING:", t, res.get(t))
sys.exit(1 if missing else 0)
