#!/usr/bin/env python3
"""Attack-schedule synthesis (DESIGN.md 4.3): model-check deliberately WEAKENED variants of
TMConsensusNet; the counterexample is the environment's winning strategy against an
implementation with that bug.  Stored under spec/attacks/C01/ and replayed on the real code
by every run of C01/C02 (uneventful on correct code, a real observed violation on code with
the corresponding regression).

usage: synth_attacks.py [weak ...]      (run from /verif; needs /repo for the harness info mode)"""
import json
import os
import sys

HERE = os.path.dirname(os.path.abspath(__file__))
sys.path.insert(0, HERE)
from vlib import core           # noqa: E402
from props import cons_common as cc   # noqa: E402

CONFIGS = [
    # (tag, powers, index of the Byzantine validator, maxround)
    ("eq_byz0", [1, 1, 1, 1], 0, 2),
    ("eq_byz3", [1, 1, 1, 1], 3, 2),
    ("w_byz2", [2, 2, 1, 1], 2, 2),
    ("eq_byz1", [1, 1, 1, 1], 1, 2),
]
WEAK = ["PrevoteIgnoresLock", "UnlockOnOlderPolka", "PrecommitWithoutPolka", "PrecommitUnheldBlock",
        "QuorumOffByOne", "ConflictingVotesBothCounted", "PrevoteSkipsValidate", "CommitSkipsValidate",
        "ProposalAnySigner", "PolProposalOverridesLock", "RelockKeepsRound"]


def main():
    weaks = sys.argv[1:] or WEAK
    ctx = core.Ctx("synth", "thorough", int(os.environ.get("VERIF_SEED", "1")))
    outdir = os.path.join(core.VERIF, "spec", "attacks", "C01")
    os.makedirs(outdir, exist_ok=True)
    binp = cc.build(ctx)
    budget = int(os.environ.get("SYNTH_TIMEOUT", "600"))
    try:
        only = [c for c in os.environ.get("SYNTH_CONFIGS", "").split(",") if c]
        for tag, powers, bi, mr in CONFIGS:
            if only and tag not in only:
                continue
            info = cc.run_driver(ctx, binp, {"mode": "info", "powers": powers, "byz": [], "maxround": mr + 1}, "info" + tag)
            byz = [info["names"][bi]]
            for weak in weaks:
                name = "%s__%s" % (weak, tag)
                if os.path.exists(os.path.join(outdir, name + ".json")):
                    continue
                mc = cc.net_mc(ctx, "Synth_" + name, info, byz, mr, weak=[weak], lazy=False, view=False,
                               invariants=["Agreement", "DecisionValid", "NoPanic", "NoEquivocation"])
                r = ctx.tlc(mc, mc + ".cfg", simulate="num=100000000", depth=70, seed=ctx.seed,
                            timeout=budget, label=name)
                if not r.violations:
                    core.log("no violation found for %s in %ds" % (name, budget))
                    continue
                v = r.violations[0]
                sched = cc.trace_to_sched(v["trace"])
                with open(os.path.join(outdir, name + ".json"), "w") as f:
                    json.dump({"name": name, "weak": weak, "powers": powers, "byz": byz, "maxround": mr,
                               "violates": v["name"], "steps": sched["steps"]}, f, indent=1)
                core.log("attack %s: %s violated, %d steps" % (name, v["name"], len(sched["steps"])))
    finally:
        ctx.cleanup()


if __name__ == "__main__":
    main()
