#!/usr/bin/env python3
"""Adversarial-prefix synthesis for C03: simulate TMConsensusNet until a goal state
(GoalSplitLockStale, ...) is reached; store the behaviour under spec/attacks/C03/.
usage: synth_prefixes.py [goal ...]"""
import json
import os
import sys

HERE = os.path.dirname(os.path.abspath(__file__))
sys.path.insert(0, HERE)
from vlib import core               # noqa: E402
from props import cons_common as cc   # noqa: E402

CONFIGS = [("eq3", [1, 1, 1, 1], 3, 3), ("eq0", [1, 1, 1, 1], 0, 3), ("w2", [2, 2, 1, 1], 2, 3)]
GOALS = ["GoalSplitLockStale", "GoalCommitWithoutBlock", "GoalCommitNoProposal", "GoalOneDecidedOthersBehind", "GoalValidVsLock"]
# goals reached in stages: TLC searches for stage k from the final state of stage k-1 (pasted as Init)
STAGES = {"GoalSplitLockStale": ["StageOneLockedRound1", "GoalSplitLockStale"]}


def last_state_text(out):
    """raw TLA+ text (conjunct list) of the last state of the first counterexample in TLC's output"""
    import re
    blocks = re.split(r'(?m)^State \d+: <.*>$', out)
    if len(blocks) < 2:
        return None
    txt = blocks[-1]
    cut = re.search(r'(?m)^(\d+ states generated|Error:|The number of states|Finished)', txt)
    if cut:
        txt = txt[:cut.start()]
    return txt.strip()


def main():
    goals = sys.argv[1:] or GOALS
    ctx = core.Ctx("synthp", "thorough", int(os.environ.get("VERIF_SEED", "1")))
    outdir = os.path.join(core.VERIF, "spec", "attacks", "C03")
    os.makedirs(outdir, exist_ok=True)
    binp = cc.build(ctx)
    budget = int(os.environ.get("SYNTH_TIMEOUT", "900"))
    nper = int(os.environ.get("SYNTH_PER_GOAL", "3"))
    try:
        for tag, powers, bi, mr in CONFIGS:
            info = cc.run_driver(ctx, binp, {"mode": "info", "powers": powers, "byz": [], "maxround": mr + 1}, "info" + tag)
            byz = [info["names"][bi]]
            for goal in goals:
                for k in range(nper):
                    name = "%s__%s__%d" % (goal, tag, k)
                    if os.path.exists(os.path.join(outdir, name + ".json")):
                        continue
                    steps, init_txt, ok = [], None, True
                    for si, stage in enumerate(STAGES.get(goal, [goal])):
                        mcname = "SynthP_%s_s%d" % (name, si)
                        mc = cc.net_mc(ctx, mcname, info, byz, mr, lazy=False, view=False, invariants=["No" + stage])
                        if init_txt is not None:
                            d = ctx.spec_copy()
                            with open(os.path.join(d, mcname + ".tla")) as f:
                                txt = f.read()
                            txt = txt.replace("====", "StageInit ==\n" + init_txt + "\n====")
                            with open(os.path.join(d, mcname + ".tla"), "w") as f:
                                f.write(txt)
                            with open(os.path.join(d, mcname + ".cfg")) as f:
                                c = f.read()
                            with open(os.path.join(d, mcname + ".cfg"), "w") as f:
                                f.write(c.replace("INIT Init", "INIT StageInit"))
                        r = ctx.tlc(mc, mc + ".cfg", simulate="num=100000000", depth=90, seed=ctx.seed * 100 + k + 7 * si,
                                    timeout=budget, label=mcname)
                        if not r.violations:
                            core.log("stage %s of %s not reached in %ds" % (stage, name, budget))
                            ok = False
                            break
                        steps += cc.trace_to_sched(r.violations[0]["trace"][1:] if init_txt is not None else r.violations[0]["trace"])["steps"]
                        init_txt = last_state_text(r.out)
                        core.log("stage %s of %s reached (%d steps so far)" % (stage, name, len(steps)))
                    if not ok:
                        break
                    with open(os.path.join(outdir, name + ".json"), "w") as f:
                        json.dump({"name": name, "goal": goal, "powers": powers, "byz": byz, "maxround": mr,
                                   "steps": steps}, f, indent=1)
                    core.log("prefix %s: %d steps" % (name, len(steps)))
    finally:
        ctx.cleanup()


if __name__ == "__main__":
    main()
