#!/usr/bin/env python3
"""Adversarial-prefix synthesis for C03: simulate TMConsensusNet until a goal state
(GoalSplitLockStale, ...) is reached; store the behaviour under spec/attacks/C03/.
usage: synth_prefixes.py [goal ...]"""
import json
import os
import sys

HERE = os.path.dirname(os.path.abspath(__file__))
sys.path.insert(0, HERE)
from vlib import core               # noqa: E402
from props import cons_common as cc   # noqa: E402

CONFIGS = [("eq3", [1, 1, 1, 1], 3, 3), ("eq0", [1, 1, 1, 1], 0, 3), ("w2", [2, 2, 1, 1], 2, 3)]
GOALS = ["GoalSplitLockStale", "GoalCommitWithoutBlock", "GoalOneDecidedOthersBehind", "GoalValidVsLock"]


def main():
    goals = sys.argv[1:] or GOALS
    ctx = core.Ctx("synthp", "thorough", int(os.environ.get("VERIF_SEED", "1")))
    outdir = os.path.join(core.VERIF, "spec", "attacks", "C03")
    os.makedirs(outdir, exist_ok=True)
    binp = cc.build(ctx)
    budget = int(os.environ.get("SYNTH_TIMEOUT", "900"))
    nper = int(os.environ.get("SYNTH_PER_GOAL", "3"))
    try:
        for tag, powers, bi, mr in CONFIGS:
            info = cc.run_driver(ctx, binp, {"mode": "info", "powers": powers, "byz": [], "maxround": mr + 1}, "info" + tag)
            byz = [info["names"][bi]]
            for goal in goals:
                for k in range(nper):
                    name = "%s__%s__%d" % (goal, tag, k)
                    if os.path.exists(os.path.join(outdir, name + ".json")):
                        continue
                    mc = cc.net_mc(ctx, "SynthP_" + name, info, byz, mr, lazy=False, view=False, invariants=["No" + goal])
                    r = ctx.tlc(mc, mc + ".cfg", simulate="num=100000000", depth=90, seed=ctx.seed * 100 + k,
                                timeout=budget, label=name)
                    if not r.violations:
                        core.log("goal %s not reached in %ds" % (name, budget))
                        break
                    sched = cc.trace_to_sched(r.violations[0]["trace"])
                    with open(os.path.join(outdir, name + ".json"), "w") as f:
                        json.dump({"name": name, "goal": goal, "powers": powers, "byz": byz, "maxround": mr,
                                   "steps": sched["steps"]}, f, indent=1)
                    core.log("prefix %s: %d steps" % (name, len(sched["steps"])))
    finally:
        ctx.cleanup()


if __name__ == "__main__":
    main()
