#!/usr/bin/env python3
"""add_fixed.py <property> <id> <commit> <signature-json> <what failed>  — append a 'fixed' entry to known-findings.json"""
import json, sys
prop, fid, commit, sig, what = sys.argv[1:6]
p = '/verif/known-findings.json'
d = json.load(open(p))
d['findings'] = [f for f in d['findings'] if f['id'] != fid]
d['findings'].append({"property": prop, "id": fid, "status": "fixed", "commit": commit, "signature": json.loads(sig),
                      "description": "fixed: property=%s %s %s" % (prop, commit, what)})
json.dump(d, open(p, 'w'), indent=1)
print("ok", fid)
