#!/bin/bash
# usage: lib/run_checks.sh <tier> Cxx Cyy ...   -> appends "<prop> <tier> rc=<rc> <secs>s" to .work/results.txt
cd /verif
tier=$1; shift
for p in "$@"; do
  t0=$(date +%s)
  ./check $p --tier $tier > .work/run-$p-$tier.log 2>&1
  rc=$?
  echo "$p $tier seed=${VERIF_SEED:-1} rc=$rc $(( $(date +%s) - t0 ))s $(grep -c '^VIOLATION' .work/run-$p-$tier.log) violations $(grep -c '^KNOWN-FINDING' .work/run-$p-$tier.log) known" >> .work/results.txt
done
