#!/bin/bash
# usage: lib/eval_mutant.sh <seed-id e.g. C10-1> <property e.g. C10> <worktree> [tier]
# 1. extracts patch + demo from the worktree into /verif/seeded/<id>/
# 2. confirms: demo FAILS with the patch, PASSES without; package tests of the touched packages pass with the patch
# 3. runs ./check <property> against the worktree (patch applied) and records the outcome
# (no git stash: the stash is shared between all worktrees of a repository)
set -u
id=$1; prop=$2; wt=$3; tier=${4:-quick}
export GOFLAGS=-mod=mod GOPROXY=off GOSUMDB=off GOTOOLCHAIN=local
out=/verif/seeded/$id; mkdir -p $out
cd $wt || exit 2
git diff -- . ':!consensus/verif_on.go' ':!consensus/verif_off.go' > $out/patch.diff
[ -s $out/patch.diff ] || { echo "empty patch"; exit 2; }
demo=$(git status --short | grep zz_seeded_demo_test.go | awk '{print $2}' | head -1)
[ -z "$demo" ] && { echo "no demo file"; exit 2; }
cp $demo $out/$(basename $demo)
cp SEEDED.md $out/SEEDED.md 2>/dev/null
pkg=./$(dirname $demo)
pkgs=$(grep '^+++ b/' $out/patch.diff | sed 's|+++ b/||' | xargs -n1 dirname | sort -u | sed 's|^|./|' | tr '\n' ' ')
echo "== demo with patch (expect FAIL)"
go test -vet=off -count=1 -run 'TestSeededDemo$' -timeout 20m $pkg > $out/demo_with.log 2>&1; rc_with=$?
git apply -R $out/patch.diff || { echo "cannot revert patch"; exit 2; }
echo "== demo without patch (expect PASS)"
go test -vet=off -count=1 -run 'TestSeededDemo$' -timeout 20m $pkg > $out/demo_without.log 2>&1; rc_without=$?
git apply $out/patch.diff || { echo "cannot re-apply patch"; exit 2; }
echo "== existing tests of touched packages with patch: $pkgs"
go test -vet=off -count=1 -skip 'TestSeededDemo' -timeout 40m $pkgs > $out/pkgtests.log 2>&1; rc_pkg=$?
if [ $rc_pkg != 0 ]; then   # timing-sensitive tests on a loaded machine: one retry
  go test -vet=off -count=1 -skip 'TestSeededDemo' -timeout 40m $pkgs > $out/pkgtests.log 2>&1; rc_pkg=$?
fi
# worktrees created before the hook commit lack the (guarded, add-only) verif hook: add it for the check only
if [ ! -f $wt/consensus/verif_on.go ]; then
  git -C /repo diff 7f1e1df^ 7f1e1df | git -C $wt apply && hook_added=1
fi
echo "== check $prop ($tier) against patched tree"
cd /verif
VERIF_REPO=$wt VERIF_EVIDENCE_DIR=/tmp/ev-$id VERIF_REPLAYS=/tmp/rp-$id ./check $prop --tier $tier > $out/check.log 2>&1; rc_check=$?
nviol=$(grep -c '^VIOLATION' $out/check.log)
sigs=$(grep -h -o '"signature": {[^}]*}' /tmp/rp-$id/$prop/*.json 2>/dev/null | sort -u | head -8 | tr '\n' ' ')
[ -z "$sigs" ] && sigs=$(grep -A1 '^VIOLATION' $out/check.log | grep signature | sort -u | head -5 | tr '\n' ' ')
cat > $out/result.txt <<EOT
id=$id property=$prop tier=$tier base=$(git -C $wt rev-parse --short HEAD)
demo_with_patch_rc=$rc_with (expect !=0)  demo_without_patch_rc=$rc_without (expect 0)  pkg_tests_rc=$rc_pkg (expect 0)
check_rc=$rc_check violations=$nviol
$sigs
EOT
cat $out/result.txt
if [ "${hook_added:-0}" = 1 ]; then git -C /repo diff 7f1e1df^ 7f1e1df | git -C $wt apply -R; fi
rm -rf /tmp/ev-$id /tmp/rp-$id
