#!/bin/bash
# usage: lib/remake_mutant.sh <id>   — rebuild /tmp/mut-<id> at /repo HEAD from seeded/<id>/patch.diff (+ demo test)
set -u
id=$1; wt=/tmp/mut-$id; sd=/verif/seeded/$id
git -C /repo worktree remove --force $wt 2>/dev/null; rm -rf $wt
git -C /repo worktree add -q --detach $wt HEAD || exit 2
cp $sd/patch.diff /tmp/.patch-$id.diff
git -C $wt apply /tmp/.patch-$id.diff || { echo "patch of $id does not apply at HEAD"; rm -f /tmp/.patch-$id.diff; exit 3; }
rm -f /tmp/.patch-$id.diff
demo=$(ls $sd/*_test.go 2>/dev/null | head -1)
pkgdir=$(grep -m1 '^+++ b/' $sd/patch.diff | sed 's|+++ b/||' | xargs dirname)
# the demo lives in the package named in SEEDED.md / result; fall back to the first touched package
dd=$(grep -o '`[a-z/0-9_]*zz_seeded_demo_test.go`' $sd/SEEDED.md 2>/dev/null | head -1 | tr -d '`' | xargs -r dirname)
[ -n "$dd" ] && [ -d "$wt/$dd" ] && pkgdir=$dd
[ -n "$demo" ] && cp $demo $wt/$pkgdir/
cp $sd/SEEDED.md $wt/ 2>/dev/null
echo "remade $wt at $(git -C /repo rev-parse --short HEAD), demo in $pkgdir"
