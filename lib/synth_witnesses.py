#!/usr/bin/env python3
"""Coverage-goal witness library for C02 (spec/attacks/C02/witnesses.json): breadth-first runs of
TMConsensusSolo with the Witness 'invariant' (see the spec) on configurations too large for the quick tier."""
import json
import os
import sys

HERE = os.path.dirname(os.path.abspath(__file__))
sys.path.insert(0, HERE)
from vlib import core               # noqa: E402
from props import cons_common as cc   # noqa: E402


def main():
    ctx = core.Ctx("synthw", "thorough", 1)
    binp = cc.build(ctx)
    powers, me = [2, 2, 1], "v2"
    info = cc.run_driver(ctx, binp, {"mode": "info", "powers": powers, "byz": [], "maxround": 4}, "info")
    wit = {}
    try:
        for nm, mr, vals, budget in (("W_a", 1, ["Z0", "Z1"], 900), ("W_b", 2, ["Z0", "ZX"], 900), ("W_c", 3, ["Z0"], 600)):
            m = cc.solo_mc(ctx, nm, info, me, mr, vals, witness_k=3)
            r = ctx.tlc(m, m + ".cfg", timeout=budget, label=nm, heap="10g")
            for g, lst in cc.solo_witnesses(r.out, me).items():
                for st in lst:
                    if st not in wit.setdefault(g, []):
                        wit[g].append(st)
            core.log("%s: goals so far %s" % (nm, {g: len(v) for g, v in sorted(wit.items())}))
    finally:
        ctx.cleanup()
    d = os.path.join(core.VERIF, "spec", "attacks", "C02")
    os.makedirs(d, exist_ok=True)
    with open(os.path.join(d, "witnesses.json"), "w") as f:
        json.dump({"me": me, "powers": powers, "witnesses": wit}, f, indent=0)


if __name__ == "__main__":
    main()
