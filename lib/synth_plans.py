#!/usr/bin/env python3
"""Attack synthesis with TLC as a planner behind a committed prefix (cons_common.net_plan): for every (prefix, weak
switch, invariant) task, search breadth-first the weakened TMConsensusNet for a continuation of the prefix that breaks
the invariant; store prefix + continuation as an attack schedule.  Library maintenance only.
usage: synth_plans.py [task ...]"""
import json
import os
import sys

HERE = os.path.dirname(os.path.abspath(__file__))
sys.path.insert(0, HERE)
from vlib import core               # noqa: E402
from props import cons_common as cc   # noqa: E402

# name: (prefix file, weak switch, invariant of the weakened spec to break, corridor, slack, output dir)
TASKS = {
    # from the initial state (no prefix), guided by a corridor
    "ProposalResetsParts": (None, "ProposalResetsParts", "CommitPartsMatch", "CorridorStuck", 45, "C03"),
}
# tag -> (powers, index of the faulty validator in the proposer rotation)
CONFIGS = {"eq1": ([1, 1, 1, 1], 1)}     # the faulty validator must hold < 1/3 of the power


def main():
    tasks = sys.argv[1:] or list(TASKS)
    ctx = core.Ctx("synthq", "thorough", int(os.environ.get("VERIF_SEED", "1")))
    budget = int(os.environ.get("SYNTH_TIMEOUT", "900"))
    binp = cc.build(ctx)
    try:
        for t in tasks:
            pf, weak, inv, corridor, slack, outd = TASKS[t]
            for tag, (powers, pidx) in CONFIGS.items():
                out = os.path.join(core.VERIF, "spec", "attacks", outd, "%s__%s__plan.json" % (t, tag))
                if os.path.exists(out):
                    continue
                mr = 2
                info = cc.run_driver(ctx, binp, {"mode": "info", "powers": powers, "byz": [], "maxround": mr + 1}, "info" + tag)
                if pf:
                    with open(os.path.join(core.VERIF, "spec", "attacks", pf % tag)) as f:
                        a = json.load(f)
                else:
                    a = {"powers": powers, "byz": [info["proposers"][pidx]], "maxround": mr, "steps": [], "name": "-"}
                steps, r = cc.net_plan(ctx, "Plan_%s_%s" % (t, tag), info, a["byz"], a["maxround"], a["steps"], [weak], inv,
                                       corridor=corridor, slack=slack, budget=budget)
                if steps is None:
                    core.log("task %s/%s: no continuation found (%d states)" % (t, tag, r.distinct))
                    continue
                with open(out, "w") as f:
                    json.dump({"name": "%s__%s__plan" % (t, tag), "weak": weak, "violates": inv, "powers": a["powers"], "byz": a["byz"],
                               "maxround": a["maxround"], "prefix": a["name"], "steps": steps}, f, indent=1)
                core.log("task %s/%s: attack schedule of %d steps (%d after the prefix)" % (t, tag, len(steps), len(steps) - len(a["steps"])))
    finally:
        ctx.cleanup()


if __name__ == "__main__":
    main()
