#!/usr/bin/env python3
"""Generates /verif/MANIFEST.json from the table below (single source of truth)."""
import json
import os
import subprocess

VERIF = os.path.dirname(os.path.dirname(os.path.abspath(__file__)))

ALL = ["C%02d" % i for i in range(1, 21)]

# property -> dict(engine, technique, text, note, design_ref)
CHECKS = {
}


def load_fragments():
    """Fragments of the properties listed in lib/props/READY (one id per line): those whose check has been
    run on /repo and exits 0. A property that is built but not yet verified there stays under not_applicable."""
    d = os.path.join(VERIF, "lib", "props")
    ready = set()
    rp = os.path.join(d, "READY")
    if os.path.exists(rp):
        ready = {l.strip() for l in open(rp) if l.strip() and not l.startswith("#")}
    for f in sorted(os.listdir(d)):
        if f.endswith(".manifest.json"):
            with open(os.path.join(d, f)) as fh:
                frag = json.load(fh)
            if frag["property_id"] in ready:
                CHECKS[frag["property_id"]] = frag


NOT_YET = "check not built yet (work in progress; see DESIGN.md section 10)"


def main():
    hooks_commits = []
    p = os.path.join(VERIF, "hooks_commits.txt")
    if os.path.exists(p):
        hooks_commits = [l.split()[0] for l in open(p) if l.strip() and not l.startswith("#")]
    m = {
        "version": 1,
        "setup_cmd": "./check --setup",
        "hooks": {
            "guard": "verif",
            "enable": "go test -tags verif -vet=off -overlay <harness files from /verif/harness/inpkg injected as _test.go> (done by ./check)",
            "baseline_off_cmd": "python3 /verif/lib/baseline_check.py",
            "source_commits": hooks_commits,
            "add_only": True,
        },
        "engines": [],
        "checks": [],
        "notes": "All checks: ./check Cxx --tier quick|thorough (cwd /verif). Honour VERIF_SEED, VERIF_TIER, VERIF_REPO (default /repo). Exit 0 held / 1 VIOLATION / 2 undecided. See DESIGN.md (section 11 = what was built, findings, seeded-change matrix). Known findings: /verif/known-findings.json (status known = reported as KNOWN-FINDING, status fixed = repaired by a fix: commit in /repo, suppresses nothing). Auxiliary checks beyond the listed properties (same scheme, not entries of this manifest): ./check ABCI, GOSSIP, PRIVVAL, PEX, SWITCH, HEIGHTS (DESIGN 11.5). Seeded changes used to test the checks: /verif/seeded/<id>/ (130, seven rounds; meta.json says which check reports each).",
        "not_applicable": [],
    }
    load_fragments()
    engines = {}
    for pid in ALL:
        c = CHECKS.get(pid)
        if not c:
            m["not_applicable"].append({"property_id": pid, "reason": NOT_YET})
            continue
        m["checks"].append({
            "property_id": pid,
            "quick_cmd": "./check %s --tier quick" % pid,
            "thorough_cmd": "./check %s --tier thorough" % pid,
            "evidence_file": "/verif/evidence/%s.json" % pid,
            "replay_cmd_template": "./check %s --replay {path}" % pid,
            "engine": c["engine"],
            "level_claimed": {"category": c.get("category", "model_checking"), "text": c["text"],
                              "design_ref": c.get("design_ref", "DESIGN.md section 5 " + pid)},
            "level_note": c["note"],
            "technique": c["technique"],
        })
        engines.setdefault(c["engine"], []).append(pid)
    for e, props in engines.items():
        m["engines"].append({"name": e, "path": "/verif/spec", "serves_properties": props,
                             "kind_free_text": "TLA+ specification checked with TLC, bound to the Go code by replay and trace validation"})
    with open(os.path.join(VERIF, "MANIFEST.json"), "w") as f:
        json.dump(m, f, indent=1)
    print("MANIFEST.json written: %d checks, %d not_applicable" % (len(m["checks"]), len(m["not_applicable"])))


if __name__ == "__main__":
    main()
