"""SWITCH - the p2p Switch peer lifecycle (auxiliary check, not one of the listed properties).

Spec: spec/TMSwitch.tla (operators: the threads of a Switch at the grain of its call-outs, properties), spec/TMSwitchSys.tla
(state machine), spec/mc/SWITCH_*.cfg, trace spec spec/trace/TMSwitchTrace.tla; harness harness/inpkg/p2p/zz_verif_switch_test.go
(a real Switch, real PeerSet / peer / MConnection / ConnSet / filterConn / wrapPeer, gates at every call-out).

  1. TLC, exhaustive on small constants, the model of the code AS REPAIRED by proposed-fixes/SWITCH-peer-lifecycle-races.diff: all
     properties (CallbackOrder, PeerSetCoversActive, SetMembersStarted, NoZombieAtRest, OneDialPerID, OneReconnectLoop, NoOrphanMarks,
     ConnsCovered / ConnsAtRest / MembersHaveConn, InboundLimit, UnconditionalExempt) and the liveness property Redial.
  2. non-vacuity: every Weak_* switch is refuted; the AS-IS model (AsIs_* = TRUE: the unchanged tree) is refuted in the four named ways.
  3. which model the tree under test follows is PROBED on the real code (two short schedules); schedules are then taken from THAT
     model - every path of a small state graph, seeded simulations of a larger one, the counterexamples of step 2, hand-made
     schedules through the reconnect loop's sleep - and executed step by step on the real Switch; a stress driver runs the two
     check-then-set pairs that have no call-out in between.
  4. TLC judges every observed run (level 1: conformance with the probed model; level 2: the properties on the observed state).
     A level-2 failure listed in FINDINGS (a defect of the unchanged tree, reported with a repair) is printed as FINDING-REPRODUCED
     and does not change the exit code; any other one is a VIOLATION (exit 1)."""
import hashlib
import json
import os
import re
from concurrent.futures import ThreadPoolExecutor

from vlib import core
from vlib.core import Undecided, log

# (invariant, class) -> finding id.  Narrow: the call site is part of the class.
FINDINGS = {
    ("CallbackOrder", "RemovePeer_twice_same_instance"): "SWITCH-F1-stop-not-exclusive",
    ("MembersHaveConn", "stop:Cleanup:drops_conn_entry_of_other_instance"): "SWITCH-F1-stop-not-exclusive",
    ("PeerSetCoversActive", "stale_stop_evicts_new_instance_from_PeerSet"): "SWITCH-F1-stop-not-exclusive",
    ("CallbackOrder", "AddPeer_after_RemovePeer"): "SWITCH-F2-addpeer-after-removepeer",
    ("PeerSetCoversActive", "removal_of_never_added_instance_evicts_other_instance_from_PeerSet"): "SWITCH-F3-failed-add-evicts-other-instance",
    ("PeerSetCoversActive", "AddPeer_for_running_instance_evicted_from_PeerSet"): "SWITCH-F3-failed-add-evicts-other-instance",
    ("OneDialPerID", "concurrent_DialPeerWithAddress_same_id"): "SWITCH-F4-marks-not-atomic",
    ("OneReconnectLoop", "concurrent_reconnectToPeer_same_id"): "SWITCH-F4-marks-not-atomic",
}
FINDING_TEXT = {
    "SWITCH-F1-stop-not-exclusive": "stopAndRemovePeer runs for every caller: two StopPeerForError on one peer (or a stale StopPeerGracefully) call "
                                    "RemovePeer twice; the late one removes the conns entry and the PeerSet entry of the NEW instance of the node",
    "SWITCH-F2-addpeer-after-removepeer": "a peer stopped for error between PeerSet.Add and the AddPeer loop gets AddPeer after RemovePeer",
    "SWITCH-F3-failed-add-evicts-other-instance": "removal of a peer that errored before it reached the PeerSet evicts another instance of the same "
                                                  "node ID that was added meanwhile (PeerSet.Remove looks up by ID)",
    "SWITCH-F4-marks-not-atomic": "dialing / reconnecting are checked and set in two steps: two DialPeerWithAddress / reconnectToPeer for one node "
                                  "run at the same time",
}

WEAK = {
    "NoRemovalFlag": {"I_NoZombieAtRest"}, "RemoveBeforeReactors": {"I_PeerSetCoversActive"}, "AddPeerBeforeSetAdd": {"I_PeerSetCoversActive"},
    "StartAfterAdd": {"I_SetMembersStarted", "I_CallbackStates"}, "NoDialingMark": {"I_OneDialPerID"}, "DialingMarkLeak": {"I_NoOrphanMarks"},
    "ReconnectMarkLeak": {"I_NoOrphanMarks"}, "NoCleanupOnAddFail": {"I_ConnsCovered", "I_ConnsAtRest"}, "InboundLimitOffByOne": {"I_InboundLimit"},
    "UnconditionalCounted": {"I_UnconditionalExempt"}, "CleanupKeepsConn": {"I_ConnsCovered", "I_ConnsAtRest"},
    "StaleStopGuardDropped": {"I_StaleErrStopIsNoop"}, "NoReconnectOnError": {"Redial"},
}
ASIS = {  # cfg -> invariant TLC must refute on the model of the unchanged tree
    "asis_CallbackOrder": "I_CallbackOrder", "asis_PeerSetCoversActive": "I_PeerSetCoversActive", "asis_MembersHaveConn": "I_MembersHaveConn",
    "asis_addafterremove": "I_CallbackOrder", "asis_neveradded": "I_PeerSetCoversActive", "asis_marks_dial": "I_OneDialPerID",
    "asis_marks_rec": "I_OneReconnectLoop",
}

S = lambda t, b="-", i="a": {"name": "Step", "t": t, "a": "-", "b": b, "n": 0, "id": i}
DIAL = lambda t, i: {"name": "Dial", "t": t, "a": i, "b": "-", "n": 0, "id": i}
STOP = lambda t, n, why="err", i="a": {"name": "Stop", "t": t, "a": why, "b": "-", "n": n, "id": i}
FULL_ADD = lambda t: [S(t, "ok")] + [S(t)] * 7        # Dial gate .. Filter, Init x2, Start, Add, AddPeer x2
PROBE_STOP = [DIAL("d1", "a")] + FULL_ADD("d1") + [STOP("s1", 1), STOP("s2", 1)]
PROBE_LOCK = [DIAL("d1", "a"), S("d1", "ok")] + [S("d1")] * 5 + [STOP("s1", 1), S("s1")]
SLEEP_RUNS = [
    # dial fails -> reconnect loop -> first attempt fails -> sleep 5..8 s -> second attempt succeeds
    [DIAL("d1", "a"), S("d1", "fail"), S("rec:a"), S("rec:a", "fail"), S("rec:a"), S("rec:a", "ok")] + [S("rec:a")] * 7,
    # peer stopped for error -> loop -> attempt fails -> while it sleeps the node connects inbound -> the loop finds it and ends
    [DIAL("d1", "a")] + FULL_ADD("d1") + [STOP("s1", 1), S("s1"), S("s1"), S("s1"), S("rec:a"), S("rec:a", "fail"),
                                          {"name": "Incoming", "t": "-", "a": "a", "b": "-", "n": 0, "id": "a"},
                                          {"name": "AccTake", "t": "acc", "a": "-", "b": "-", "n": 0, "id": "-"}] + [S("acc")] * 7 + [S("rec:a")],
    # two failed attempts in a row
    [DIAL("d1", "a"), S("d1", "fail"), S("rec:a"), S("rec:a", "fail"), S("rec:a"), S("rec:a", "fail"), S("rec:a"), S("rec:a", "ok")] + [S("rec:a")] * 7,
]

INC = lambda i: {"name": "Incoming", "t": "-", "a": i, "b": "-", "n": 0, "id": i}
TAKE = {"name": "AccTake", "t": "acc", "a": "-", "b": "-", "n": 0, "id": "-"}
# MaxNumInboundPeers = 0: every inbound peer but an unconditional one is refused
OPT = lambda c: dict(c, opt=True)
LIM0_RUNS = [
    [INC("a"), TAKE, S("acc")] + [OPT(S("acc"))] * 7,          # correct code: refused at once; the optional steps only run on a tree that admits it
    [INC("b"), TAKE] + [S("acc", "-", "b")] + [OPT(S("acc", "-", "b"))] * 6,
    [INC("b"), TAKE] + [S("acc", "-", "b")] + [OPT(S("acc", "-", "b"))] * 6 + [OPT(INC("a")), OPT(TAKE), OPT(S("acc"))] + [OPT(S("acc"))] * 7,
]

ACT_RE = re.compile(r'act = \[(.*?)\]', re.S)
FIELD_RE = re.compile(r'(\w+) \|-> ("?)([^",\n\]]*)\2')


def _acts(text):
    out = []
    for m in ACT_RE.finditer(text):
        d = {k: v for k, _q, v in FIELD_RE.findall(m.group(1))}
        d["n"] = int(d.get("n", "0") or 0)
        out.append(d)
    return out


def _cmds(acts, allow_sleep=False):
    out = []
    for a in acts:
        if a.get("name") in (None, "Init"):
            continue
        t = a["t"]
        if a["name"] == "Step":
            if a["pc"] in ("dmark", "rcheck", "rmark"):
                continue                       # SplitMarks steps have no gate on real code (stress driver instead)
            if a["pc"] == "Sleep" and not allow_sleep:
                break
            if t.startswith("q"):
                t = "rec:" + a["id"]
        out.append({"name": a["name"], "t": t, "a": a["a"], "b": a["b"], "n": a["n"], "id": a["id"]})
    return out


def _rundef(rid, cmds):
    return {"id": rid, "allowDupIP": True, "sameIP": False, "maxInbound": 1, "cmds": cmds}


def _harness(ctx, binp, runs, label, trials=0, sleep_ok=False):
    inp = os.path.join(ctx.work, "switch-in-%s.json" % label)
    outp = os.path.join(ctx.work, "switch-out-%s.ndjson" % label)
    with open(inp, "w") as f:
        json.dump({"runs": runs, "concTrials": trials, "sleepOK": sleep_ok}, f)
    rc, txt = ctx.run_test(binp, "^TestVerifSwitch$", {"VERIF_IN": inp, "VERIF_OUT": outp}, timeout=1500, label="switch_" + label)
    if rc != 0:
        ctx.save_log("harness-" + label, txt)
        raise Undecided("SWITCH harness failed (rc=%d): %s" % (rc, txt[-1500:]))
    rows = core.read_ndjson(outp)
    os.remove(outp)
    if not rows or rows[-1].get("ev") != "Done":
        raise Undecided("SWITCH harness did not finish")
    uns = [r for r in rows if r.get("settled") is False]
    if uns:
        raise Undecided("the real Switch did not come to rest in time after a step (machine overloaded?): %s" % json.dumps(uns[0])[:300])
    return [r for r in rows if r["ev"] != "Done"]


def _probe(ctx, binp):
    """which model does the tree follow?  (exclusive stop, lifecycle lock)"""
    rows = _harness(ctx, binp, [_rundef("probe_stop", PROBE_STOP), _rundef("probe_lock", PROBE_LOCK)], "probe")
    last = {}
    for r in rows:
        if r["ev"] == "Reset":
            cur = r["run"]
        elif r["ev"] == "Cmd":
            last[cur] = r
        elif r["ev"] == "Skip":
            if cur == "probe_lock" and "blocked outside a gate" in r.get("why", ""):
                last[cur] = {"post": {"thr": [{"name": "s1", "pc": "running"}]}}
            else:
                raise Undecided("probe schedule not executable: %s" % json.dumps(r)[:300])
    pc = lambda run, t: next((x["pc"] for x in last[run]["post"]["thr"] if x["name"] == t), "gone")
    s2, s1 = pc("probe_stop", "s2"), pc("probe_lock", "s1")
    if s2 not in ("Cleanup", "done") or s1 not in ("Rem", "running"):
        raise Undecided("probe: unexpected positions s2=%s s1=%s" % (s2, s1))
    flags = {"AsIs_StopNotExclusive": s2 == "Cleanup", "AsIs_NoLifecycleLock": s1 == "Rem"}
    log("probe: the tree follows the model with %s" % flags)
    return flags


def _jobs(ctx, jobs, par):
    res = {}

    def one(j):
        key, kw = j
        kw = dict(kw)
        return key, ctx.tlc("SWITCH_mc", kw.pop("cfg"), **kw)
    with ThreadPoolExecutor(max_workers=par) as ex:
        for k, r in ex.map(one, jobs):
            res[k] = r
    return res


def _schedules(ctx, flags, quick):
    """replay material from the model the tree follows"""
    tf = {k: bool(v) for k, v in flags.items()}
    runs, gstates, rg = [], 0, []
    graphs = ["replay", "replay_b", "replay_c"] + ([] if quick else ["replay_d"])
    for gname in graphs:
        dot = os.path.join(ctx.work, "switch-%s.dot" % gname)
        cfg_g = core.cfg_variant(ctx, "SWITCH_%s.cfg" % gname, "SWITCH_%s_run.cfg" % gname, tf)
        rg.append(ctx.tlc("SWITCH_mc", cfg_g, dump=["dot,actionlabels", dot], workers=2, timeout=900, must_pass=True, label=gname))
        g = core.parse_dot(dot, parse_states=False)
        os.remove(dot)
        gstates += len(g.nodes)
        for k, nodes in enumerate(core.graph_schedules(g)):
            acts = []
            for nid in nodes[1:]:
                a = _acts(g.nodes[nid])
                if a:
                    acts.append(a[0])
            cmds = _cmds(acts)
            if cmds:
                runs.append(_rundef("%s-%d" % (gname, k), cmds))
    ngraph = len(runs)
    nsim = (20 if os.environ.get("SWITCH_FAST") == "1" else 100) if quick else 600   # SWITCH_FAST: development aid
    sp = ctx.spec_copy()
    simd = os.path.join(sp, "switchsim")
    os.makedirs(simd, exist_ok=True)
    cfg_s = core.cfg_variant(ctx, "SWITCH_sim.cfg", "SWITCH_sim_run.cfg", tf)
    ctx.tlc("SWITCH_mc", cfg_s, simulate="file=%s,num=%d" % (os.path.join(simd, "s"), nsim), depth=70, seed=ctx.seed, workers=1, timeout=900,
            must_pass=True, label="sim")
    names = sorted((f for f in os.listdir(simd) if f.startswith("s_")), key=lambda s: [int(x) for x in re.findall(r'\d+', s)])
    for i, f in enumerate(names[:nsim]):
        with open(os.path.join(simd, f)) as fh:
            cmds = _cmds(_acts(fh.read()))
        os.remove(os.path.join(simd, f))
        if cmds:
            runs.append(_rundef("sim%d-%d" % (ctx.seed, i), cmds))
    return rg, runs, ngraph, gstates


def _first_failures(v):
    """per run: the property failures at the FIRST failing line (a run after a broken contract is in undefined territory)"""
    by_run = {}
    for x in v["viol"]:
        rid = x["prefix"][0].get("run", "stress") if x["prefix"] and x["prefix"][0].get("ev") == "Reset" else "stress"
        by_run.setdefault(rid, []).append(x)
    out = []
    for rid, xs in by_run.items():
        l0 = min(x["l"] for x in xs)
        out.append((rid, [x for x in xs if x["l"] == l0], [x for x in xs if x["l"] != l0]))
    return out


def _judge(ctx, v, rundefs, verdict, findings):
    # a witness (counterexample of ANOTHER model) is judged only as long as it is a behaviour of the model the tree follows
    wit_drift = {}
    for d in v["drift"]:
        rid = d["prefix"][0].get("run") if d["prefix"] else None
        if rid and str(rid).startswith("wit_"):
            wit_drift[rid] = min(wit_drift.get(rid, 10 ** 9), d["l"])
    for rid, firsts, later in _first_failures(v):
        if str(rid).startswith("wit_") and firsts[0]["l"] >= wit_drift.get(rid, 10 ** 9):
            continue
        fids = [FINDINGS.get((x["inv"], x["class"])) for x in firsts]
        payload = {"run": rid, "rundef": rundefs.get(rid), "failing_step": {k: firsts[0]["row"].get(k) for k in ("c", "cbs", "post", "ev", "maxDial", "maxRec")
                                                                            if k in firsts[0]["row"]},
                   "tlc": [{"inv": x["inv"], "class": x["class"]} for x in firsts],
                   "consequences_later_in_the_run": sorted({"%s/%s" % (x["inv"], x["class"]) for x in later})}
        if any(fids):
            for x, fid in zip(firsts, fids):
                if fid:
                    findings.setdefault(fid, []).append(({"inv": x["inv"], "class": x["class"]}, payload))
        else:
            for x in firsts:
                verdict.add({"inv": x["inv"], "class": x["class"]}, payload)


def _store_findings(ctx, findings):
    d = os.path.join(os.environ.get("VERIF_REPLAYS", os.path.join(ctx.verif, "replays")), ctx.prop)
    out = {}
    for fid, items in sorted(findings.items()):
        sig, payload = min(items, key=lambda it: len((it[1].get("rundef") or {}).get("cmds") or [0] * 999))
        os.makedirs(d, exist_ok=True)
        p = os.path.join(d, "finding-%s.json" % fid)
        with open(p, "w") as f:
            json.dump({"property": ctx.prop, "signature": sig, "finding": fid, "description": FINDING_TEXT[fid], "replay": payload}, f, indent=1, default=str)
        classes = sorted({"%s/%s" % (s["inv"], s["class"]) for s, _p in items})
        print("FINDING-REPRODUCED: SWITCH %s: %s (%d runs; %s) replay=%s" % (fid, FINDING_TEXT[fid], len(items), ", ".join(classes), p), flush=True)
        out[fid] = {"runs": len(items), "classes": classes, "replay": p}
    return out


def _trace_cfg(ctx, flags):
    return core.cfg_variant(ctx, "TMSwitchTrace.cfg", "TMSwitchTrace_run.cfg",
                            {"AsIs_StopNotExclusive": bool(flags["AsIs_StopNotExclusive"]), "AsIs_NoLifecycleLock": bool(flags["AsIs_NoLifecycleLock"])})


def run(ctx):
    quick = ctx.tier == "quick"
    pool = ThreadPoolExecutor(max_workers=2)
    f_build = pool.submit(ctx.go_build_test, "p2p", ["zz_verif_switch_test.go"])
    W = max(1, min(6, ctx.cores))

    # ---- 1. the repaired model, exhaustive; 2. non-vacuity ------------------------------------------------
    exh = ["quick", "dupip", "nouncond", "marks_atomic"] + ([] if quick else ["mid", "base"])
    skip_mc = os.environ.get("SWITCH_SKIP_MC") == "1"      # development aid (mutation experiments): smallest exhaustive run only; the evidence says so
    if skip_mc:
        exh = ["dupip"]
    jobs = [("exh_" + k, dict(cfg="SWITCH_%s.cfg" % k, must_pass=True, timeout=900 if quick else 3000, workers=W if k in ("mid", "base") else 2,
                              heap="4g", label="exh_" + k)) for k in exh]
    jobs.append(("live", dict(cfg="SWITCH_live.cfg", must_pass=True, timeout=900, workers=2, label="live")))
    for w in WEAK:
        jobs.append(("weak_" + w, dict(cfg="SWITCH_weak_%s.cfg" % w, timeout=600, workers=2, label="weak_" + w)))
    for k in ASIS:
        jobs.append((k, dict(cfg="SWITCH_%s.cfg" % k, timeout=600, workers=2, label=k)))
    big = [j for j in jobs if j[1]["workers"] > 2]
    small = [j for j in jobs if j[1]["workers"] <= 2]
    res = _jobs(ctx, small, max(1, min(3, ctx.cores // 2)))       # at most 3 x 2 TLC workers at a time
    f_big = pool.submit(_jobs, ctx, big, 1)                        # thorough tier: the two big ones, one after the other
    nonvac = {}
    for w, want in WEAK.items():
        names = {x["name"] for x in res["weak_" + w].violations}
        if not (names & want):
            ctx.save_log("weak_" + w, res["weak_" + w].out)
            raise Undecided("vacuity: weakened spec Weak_%s is not refuted (%s)" % (w, sorted(names) or res["weak_" + w].errors[:1] or "timeout"))
        nonvac["Weak_" + w] = sorted(names & want)[0]
    asis_found = {}
    for k, inv in ASIS.items():
        if not any(x["name"] == inv for x in res[k].violations):
            ctx.save_log(k, res[k].out)
            raise Undecided("the model of the unchanged tree (%s) is not refuted by TLC on %s" % (k, inv))
        asis_found[k] = inv

    # ---- 3. probe, schedules, execution on the real Switch ----------------------------------------------------
    binp = f_build.result()
    flags = _probe(ctx, binp)
    rg, runs, ngraph, gstates = _schedules(ctx, flags, quick)
    wit = []
    for k in list(WEAK) + list(ASIS):
        key = ("weak_" + k) if k in WEAK else k
        out = res[key].out
        i = out.find("Error: Invariant")
        cmds = _cmds(_acts(out[i:])) if i >= 0 else []
        if cmds:
            wit.append(_rundef("wit_" + k, cmds))
    sleepers = [_rundef("sleep%d" % i, c) for i, c in enumerate(SLEEP_RUNS[:1] if quick else SLEEP_RUNS)]
    allruns = wit + runs + sleepers
    lim0 = [dict(_rundef("lim0-%d" % i, c), maxInbound=0) for i, c in enumerate(LIM0_RUNS)]
    rundefs = {r["id"]: r for r in allruns + lim0}
    rows0 = _harness(ctx, binp, lim0, "lim0")
    rows = _harness(ctx, binp, allruns, "main", trials=60000 if quick else 400000, sleep_ok=True)
    if os.environ.get("SWITCH_DUMP"):        # development aid
        with open(os.environ["SWITCH_DUMP"], "w") as f:
            json.dump({"rows": rows, "rundefs": rundefs}, f)
    v = core.validate_traces(ctx, "TMSwitchTrace", rows, cfg=_trace_cfg(ctx, flags), max_events=2500, timeout=1800, label="switch")
    cfg0 = core.cfg_variant(ctx, "TMSwitchTrace_run.cfg", "TMSwitchTrace_run0.cfg", {"MaxInbound": 0})
    v0 = core.validate_traces(ctx, "TMSwitchTrace", rows0, cfg=cfg0, label="switch_lim0")
    v = {"viol": v["viol"] + v0["viol"], "drift": v["drift"] + v0["drift"], "runs": v["runs"] + v0["runs"], "events": v["events"] + v0["events"]}
    rows = rows + rows0

    # ---- 4. verdict --------------------------------------------------------------------------------------------
    verdict = core.Verdict(ctx)
    findings = {}
    _judge(ctx, v, rundefs, verdict, findings)
    fout = _store_findings(ctx, findings)
    res.update(f_big.result())
    # conformance drift: witnesses of OTHER models are not behaviours of this one (level 2 only)
    drift = [d for d in v["drift"] if not (d["prefix"] and str(d["prefix"][0].get("run", "")).startswith("wit_"))]
    drift_runs = sorted({d["prefix"][0].get("run") for d in drift if d["prefix"]})
    distinct = set()
    for r in rows:
        if r["ev"] == "Cmd":
            p = r["post"]
            distinct.add(hashlib.sha1(json.dumps([r["c"]["name"], r["c"]["b"], p["peers"], p["dialing"], p["reconn"], p["conns"],
                                                  [(t["k"], t["pc"], t["cur"]) for t in p["thr"]], [(i["st"], i["sp"], i["remf"]) for i in p["inst"]],
                                                  [(c["r"], c["c"]) for c in r["cbs"]]], sort_keys=True).encode()).hexdigest())
    stress = next((r for r in rows if r["ev"] == "Stress"), {})
    exh_keys = [k for k in res if k.startswith("exh_") or k == "live"]
    sample = []
    for r in rows:
        if r["ev"] == "Cmd" and len(sample) < 12:
            sample.append({"c": r["c"], "cbs": r["cbs"], "peers": r["post"]["peers"], "thr": [(t["name"], t["pc"], t["cur"]) for t in r["post"]["thr"]]})
    coverage = {
        "states": sum(res[k].distinct for k in exh_keys),
        "transitions": sum(res[k].generated for k in exh_keys),
        "traces_validated_against_impl": v["runs"],
        "evaluations": len(rows),
        "distinct_nontrivial": len(distinct),
        "rule": "the tree was probed to follow the model with %s; every path of the BFS tree of that model's replay graph (%d states, %d schedules), %d "
                "seeded TLC simulations of a larger instance (seed %d), %d counterexamples of weakened / as-is models and %d schedules through the "
                "reconnect loop's sleep were executed step by step on a real Switch; %d stress trials on the ungated check-then-set pairs.  A step is "
                "distinct by (command, dial outcome, projection of PeerSet / marks / conns / thread positions / peer flags, callbacks delivered)"
                % (flags, gstates, ngraph, len(runs) - ngraph, ctx.seed, len(wit), len(sleepers), stress.get("trials", 0)),
        "samples": [sample],
        "exhaustive": False,
        "replay_graph_completely_replayed": True,
        "design_model_checked_on_all_configs": not skip_mc,
        "tlc_runs": ctx.tlc_stats,
        "model_followed_by_the_tree": flags,
        "runs": {"graph": ngraph, "simulated": len(runs) - ngraph, "witnesses": len(wit), "sleep": len(sleepers)},
        "stress": {k: stress.get(k) for k in ("trials", "par", "maxDial", "hitsDial", "maxRec", "hitsRec", "marksLeft")},
        "conformance_drift_count": len(drift),
        "conformance_drift": [{"run": d["prefix"][0].get("run") if d["prefix"] else "?", "what": d["what"], "cmd": d["row"].get("c")} for d in drift[:6]],
        "conformance_drift_runs": drift_runs[:10],
        "nonvacuity": nonvac,
        "as_is_model_refuted_by_TLC": asis_found,
        "findings_reproduced_on_real_code": fout,
        "known_findings_reproduced": dict(verdict.known),
    }
    rc = verdict.finish()
    ctx.write_evidence(coverage, [
        "the secret-connection upgrade and the NodeInfo handshake of the transport are skipped (C16's subject): connections are net.Pipe ends with "
        "scripted remote addresses; 'never a peer with our own ID' is therefore not judged here",
        "interleavings are explored at the grain of the Switch's call-outs (Transport.Dial / Cleanup, peer filter, Peer.Start, Reactor.InitPeer / AddPeer "
        "/ RemovePeer, the reconnect loop's log line and sleep); the two check-then-set pairs without a call-out are reached by a stress driver only: "
        "seeing two goroutines inside is proof, not seeing them is no claim",
        "StopPeerForError / StopPeerGracefully are called by harness threads with a reference to any started instance (reactors keep such references); "
        "the MConnection error callback leads to the same function and is not exercised separately",
        "two reactors, node IDs a (persistent) and b (unconditional), MaxNumInboundPeers = 1, AllowDuplicateIP = true on real code (the duplicate-IP "
        "variant is model-checked only); Switch.OnStop and Receive are not modelled",
        "the reconnect loop's real sleep (5..8 s) is waited for in a few schedules only; exponential back-off phase not reached",
        "quiescence of the real Switch is read from goroutine states; a projection that was not settled makes the check undecided",
    ], len(verdict.new))
    pool.shutdown(wait=False)
    return rc


def replay(ctx, path):
    """Re-execute the schedule of a stored run on the current tree and re-validate it against the model the tree follows."""
    with open(path) as f:
        rep = json.load(f)
    rd = rep["replay"].get("rundef")
    binp = ctx.go_build_test("p2p", ["zz_verif_switch_test.go"])
    flags = _probe(ctx, binp)
    if rd:
        rows = _harness(ctx, binp, [rd], "replay", sleep_ok=True)
    else:
        rows = _harness(ctx, binp, [], "replay", trials=400000)
    v = core.validate_traces(ctx, "TMSwitchTrace", rows, cfg=_trace_cfg(ctx, flags), label="replay")
    verdict = core.Verdict(ctx)
    findings = {}
    _judge(ctx, v, {rd["id"]: rd} if rd else {}, verdict, findings)
    for d in v["drift"]:
        log("replay: level-1 note at line %d: %s" % (d["l"], d["what"]))
    for fid, items in findings.items():
        log("replay: finding %s reproduced: %s" % (fid, items[0][0]))
        verdict.add(items[0][0], items[0][1])
    return verdict.finish()
