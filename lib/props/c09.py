"""C09 — The light client only trusts headers reachable by valid verification steps;
witnesses confirm.
Spec: spec/TMLight.tla (operators), spec/TMLightWorld.tla (bounded universe),
spec/TMLightClient.tla (design state machine); trace spec: spec/trace/TMLightTrace.tla;
harness: harness/inpkg/light/zz_verif_c09_test.go (overlay, package light_test)."""
import hashlib
import itertools
import json
import os
from concurrent.futures import ThreadPoolExecutor

from vlib import core
from vlib.core import Undecided, log
from vlib.tlaparse import to_json, parse_behaviour_text

WEAK_CASES = ["SkipTrustLevel", "AdjacentIgnoresNextVals", "NoExpiry", "FutureHeaderOK", "TrustLevelOnNewSet"]
WEAK_CLIENT = ["SkipTrustLevel", "AdjacentIgnoresNextVals", "NoExpiry", "FutureHeaderOK", "TrustLevelOnNewSet",
               "MismatchAlsoCountsAsMatch", "NoWitnessNeeded", "BackwardsUnbound", "ReplacementHashUnchecked",
               "PromotedWitnessStays", "PartialTraceOnBenignError", "DivergentHeaderExaminedOncePerRun",
               "LaggingWitnessEqualTimeBenign"]
WEAK_ALL_COUNTEREXAMPLES = {"DivergentHeaderExaminedOncePerRun", "LaggingWitnessEqualTimeBenign"}
PROPS = {"TrustRootOnly", "StoreSound", "WitnessConfirmed", "IndependentWitness", "NoConfirmationFromSilence", "AttackReported",
         "OrderIndependent", "AttackerNeverOutvoted",
         "AttackStoresNothing", "StoreMonotone"}
CASE_PROPS = {"VerifierSound", "AdjacentSound", "NonAdjacentSound", "BackwardsSound"}


def _cfg(mode):
    return {"period": 100, "drift": 5, "num": 1, "den": 3, "mode": mode}


def _run_from_behaviour(states, personas, src):
    """A TLC behaviour of TMLightClient -> a harness run (the schedule: which persona each
    provider plays, the reply schedules and the calls)."""
    if not states:
        return None
    s0 = states[0][1]
    scen = to_json(s0["scen"])
    wits = sorted(n for n in scen["pers"] if n != "p")
    run = {"prov": {n: personas[scen["pers"][n]] for n in scen["pers"]}, "primary": "p", "wits": wits,
           "cfg": _cfg(scen["mode"]), "root": scen["root"], "root_hid": "R%d" % scen["root"],
           "start_sched": wits, "steps": [], "src": src, "pers": scen["pers"]}
    started = False
    for _h, st in states[1:]:
        act = to_json(st["act"])
        if act["name"] == "Start":
            run["start_sched"] = list(act["sched"])
            started = True
        elif act["name"] in ("Verify", "Update"):
            run["steps"].append({"op": act["name"], "h": act["h"], "now": act["now"], "sched": list(act["sched"])})
    if not started:
        return None
    return run


def _inputs(ctx, quick):
    """TLC part: exhaustive configs, non-vacuity, behaviours for replay."""
    H = 4 if quick else 5
    out = {}
    # ---- the bounded universe, exported for the harness
    wcfg = core.cfg_variant(ctx, "C09_world.cfg", "C09_world_run.cfg", {"H": 5})
    dump = os.path.join(ctx.work, "world")
    ctx.tlc("C09_world", wcfg, dump=[dump], must_pass=True, timeout=300, workers=2, label="world")
    ws = core.read_state_dump(dump + ".dump")
    if len(ws) != 1:
        raise Undecided("world export: %d states" % len(ws))
    world = to_json(ws[0]["w"])
    out["world"] = world

    # ---- verifier cases: exhaustive, and exported (every case is an initial state)
    ccfg = core.cfg_variant(ctx, "C09_cases.cfg", "C09_cases_run.cfg", {"H": 5})
    cdump = os.path.join(ctx.work, "cases")
    out["r_cases"] = ctx.tlc("C09_cases", ccfg, dump=[cdump], must_pass=True, timeout=600, workers=4, label="cases")
    out["cases"] = [to_json(s["cs"]) for s in core.read_state_dump(cdump + ".dump")]

    # ---- client state machine, exhaustive
    if quick:
        out["r_client"] = [ctx.tlc("C09_client", "C09_quick.cfg", must_pass=True, timeout=900,
                                   workers=min(8, ctx.cores), heap="6g", label="client_quick")]
    else:
        out["r_client"] = [
            ctx.tlc("C09_client", "C09_thorough.cfg", must_pass=True, timeout=2400, workers=min(8, ctx.cores),
                    heap="6g", label="client_thorough_3wit"),
            ctx.tlc("C09_client", "C09_thorough2.cfg", must_pass=True, timeout=2400, workers=min(8, ctx.cores),
                    heap="6g", label="client_thorough_2calls")]

    # ---- non-vacuity: every weakened specification must be refuted (in parallel, 2 workers each)
    jobs = [("cases", w) for w in WEAK_CASES] + [("client", w) for w in WEAK_CLIENT]

    def weak(job):
        kind, w = job
        if kind == "cases":
            cfg = core.cfg_variant(ctx, "C09_cases.cfg", "C09_cases_weak_%s.cfg" % w, {"Weak_" + w: True, "H": 5})
            r = ctx.tlc("C09_cases", cfg, timeout=600, workers=2, label="weak_cases_" + w)
            names = {v["name"] for v in r.violations} & CASE_PROPS
        else:
            # the narrow families are explored completely (-continue): every violating scenario of
            # the weakened specification becomes an attack schedule, not only the first one found
            r = ctx.tlc("C09_client", "C09_weak_%s.cfg" % w, timeout=900, workers=2, label="weak_client_" + w,
                        cont=w in WEAK_ALL_COUNTEREXAMPLES)
            if w in WEAK_ALL_COUNTEREXAMPLES:
                # with -continue a progress line can fall into a counterexample's text; such a
                # trace is dropped, and if none is left the first counterexample is fetched again
                r.errors = [e for e in r.errors if not e.startswith("unparsable counterexample")]
                if not any(v["trace"] for v in r.violations) and not r.errors and not r.timed_out:
                    r = ctx.tlc("C09_client", "C09_weak_%s.cfg" % w, timeout=900, workers=2,
                                label="weak_client_" + w + "_first")
            names = {v["name"] for v in r.violations} & PROPS
        if r.timed_out or r.errors:
            raise Undecided("TLC run weak_%s_%s failed: %s" % (kind, w, (r.errors or ["timeout"])[:2]))
        if not names:
            raise Undecided("vacuity: weakened specification Weak_%s (%s) violates no C09 property" % (w, kind))
        return kind, w, sorted(names), r

    out["nonvacuity"] = {}
    attacks = []
    with ThreadPoolExecutor(max_workers=4) as ex:
        for kind, w, names, r in ex.map(weak, jobs):
            out["nonvacuity"]["Weak_%s (%s) refuted by TLC" % (w, kind)] = names
            if kind == "client":
                seen = set()
                for v in r.violations:
                    if not v["trace"]:
                        continue
                    key = json.dumps(to_json(v["trace"][0][1].get("scen")), sort_keys=True)
                    if key in seen or len(seen) >= 6:
                        continue
                    seen.add(key)
                    attacks.append((w, v["trace"]))
    # the forward-lunatic family (forged time one tick before / equal to / one tick after the head a
    # lagging honest witness still has; the witness advances during the wait or not), all properties
    out["r_client"].append(ctx.tlc("C09_client", "C09_fwdlunatic.cfg", must_pass=True, timeout=900, workers=4,
                                   label="client_fwdlunatic"))
    # the duplicate-slot family (a forged header whose own set lists one validator of a coalition
    # below the trust level in several slots, primary and witnesses serving it), all properties
    out["r_client"].append(ctx.tlc("C09_client", "C09_dupslots.cfg", must_pass=True, timeout=900, workers=4,
                                   label="client_dupslots"))
    # the unweakened base of the weak family must pass (quick: covered by the run above)
    if not quick:
        ctx.tlc("C09_client", "C09_weak_none.cfg", must_pass=True, timeout=900, workers=4, label="weak_base")

    # ---- behaviours for replay: simulation of the wide-persona configuration + attack schedules
    nsim = 150 if quick else 1500
    pref = os.path.join(ctx.work, "sim", "b")
    os.makedirs(os.path.dirname(pref), exist_ok=True)
    rcfg = core.cfg_variant(ctx, "C09_replay.cfg", "C09_replay_run.cfg",
                            {"H": H, "NWit": 2 if quick else 3}, drop_view=True)
    rs = ctx.tlc("C09_client", rcfg, simulate="file=%s,num=%d" % (pref, nsim), depth=6, seed=ctx.seed, workers=1,
                 timeout=900 if quick else 2400, label="replay_sim")
    if rs.errors or rs.violations:
        ctx.save_log("replay_sim", rs.out)
        raise Undecided("simulation of C09_replay failed: %s" % (rs.errors or [v["name"] for v in rs.violations])[:2])
    personas = world["personas"]
    if H < 5:
        # tables of the H=4 world: one row less
        hw = core.cfg_variant(ctx, "C09_world.cfg", "C09_world_h.cfg", {"H": H})
        d2 = os.path.join(ctx.work, "worldh")
        ctx.tlc("C09_world", hw, dump=[d2], must_pass=True, timeout=300, workers=2, label="world_h")
        personas = to_json(core.read_state_dump(d2 + ".dump")[0]["w"])["personas"]
    pers4 = personas
    runs = []
    d = os.path.dirname(pref)
    for f in sorted(os.listdir(d)):
        with open(os.path.join(d, f)) as fh:
            txt = "\n".join(ln for ln in fh.read().splitlines() if not ln.startswith("\\*"))
            st = parse_behaviour_text(txt)
        r = _run_from_behaviour(st, personas, "tlc-sim")
        if r:
            runs.append(r)
        os.remove(os.path.join(d, f))
    # attack schedules: counterexamples of the weakened specifications (H = 4 world)
    if H != 4:
        hw = core.cfg_variant(ctx, "C09_world.cfg", "C09_world_4.cfg", {"H": 4})
        d3 = os.path.join(ctx.work, "world4")
        ctx.tlc("C09_world", hw, dump=[d3], must_pass=True, timeout=300, workers=2, label="world_4")
        pers4 = to_json(core.read_state_dump(d3 + ".dump")[0]["w"])["personas"]
    # every attack schedule is replayed under EVERY arrival order of the witness replies (the
    # gates force the order): the verdict must not depend on which reply is processed first
    for w, tr in attacks:
        r = _run_from_behaviour(tr, pers4, "attack:" + w)
        if not r:
            continue
        runs.append(r)
        if len(r["wits"]) <= 4:
            for perm in itertools.permutations(r["wits"]):
                if not r["steps"] or list(perm) == r["steps"][-1]["sched"]:
                    continue
                v = dict(r)
                v["steps"] = [dict(st, sched=list(perm)) for st in r["steps"]]
                v["src"] = "attack:" + w + ":reordered"
                runs.append(v)
    # the duplicate-slot family, always replayed (the simulation may not draw it): the forged header
    # served by the primary and by one or both witnesses, both modes, both reply orders
    for prim in ("dup3", "dup4"):
        for wp in ((prim, prim), (prim, "honest"), ("honest", prim), (prim, "silent")):
            for mode in ("skip", "seq"):
                for sched in (["w1", "w2"], ["w2", "w1"]):
                    tgt = 3 if prim == "dup3" else 4
                    runs.append({"prov": {"p": personas[prim], "w1": personas[wp[0]], "w2": personas[wp[1]]},
                                 "primary": "p", "wits": ["w1", "w2"], "cfg": _cfg(mode), "root": 1, "root_hid": "R1",
                                 "start_sched": ["w1", "w2"], "src": "family:dupslots",
                                 "steps": [{"op": "Verify", "h": tgt, "now": 60, "sched": sched},
                                           {"op": "Verify", "h": 4, "now": 60, "sched": sched}]})
    out["runs"] = runs
    out["r_sim"] = rs
    return out


def _harness(ctx, world, cases, runs, nrandom):
    inp = os.path.join(ctx.work, "c09-in.json")
    hcases = [{"tb": c["tb"], "nb": c["nb"], "now": c["now"],
               "cfg": {"period": 100, "drift": 5, "num": c["lvl"], "den": 3, "mode": "skip"}} for c in cases]
    with open(inp, "w") as f:
        json.dump({"world": {"vsets": world["vsets"], "blocks": world["blocks"]}, "cases": hcases,
                   "runs": [{k: v for k, v in r.items() if k != "pers"} for r in runs], "random": nrandom}, f)
    out = ctx.subdir("c09-out")
    binp = ctx.go_build_test("light", ["zz_verif_c09_test.go"])
    rc, txt = ctx.run_test(binp, "^TestVerifC09$", {"VERIF_IN": inp, "VERIF_OUT": out}, timeout=1500)
    if rc != 0:
        ctx.save_log("harness", txt)
        raise Undecided("C09 harness failed (rc=%d): %s" % (rc, txt[-1500:]))
    rows_w = core.read_ndjson(os.path.join(out, "world.ndjson"))
    rows_c = core.read_ndjson(os.path.join(out, "cases.ndjson"))
    rows_r = core.read_ndjson(os.path.join(out, "runs.ndjson"))
    return rows_w, rows_c, rows_r


def _check_world(world, rows_w):
    """The real, signed blocks the harness built must have exactly the facts of the TLA+ world
    (otherwise the replay does not exercise the scenarios TLC explored)."""
    if len(rows_w) != 1:
        raise Undecided("harness wrote no world facts")
    facts = rows_w[0]["blocks"]
    for bid, b in world["blocks"].items():
        f = facts.get(bid)
        if f is None:
            raise Undecided("harness did not build block %s" % bid)
        for k in ("hid", "h", "t", "vh", "nvh", "vsh", "last", "wf", "hwf"):
            if f[k] != b[k]:
                raise Undecided("block %s: fact %s = %r built by the harness, %r in TMLightWorld" % (bid, k, f[k], b[k]))
        if [dict(x) for x in f["vals"]] != [dict(x) for x in b["vals"]]:
            raise Undecided("block %s: validator set order/powers differ: %r vs %r" % (bid, f["vals"], b["vals"]))
        for i, (x, y) in enumerate(zip(f["sigs"], b["sigs"])):
            if x["f"] != y["f"] or x["ok"] != y["ok"] or (y["f"] != "absent" and x["v"] != y["v"]):
                raise Undecided("block %s: signature %d differs: %r vs %r" % (bid, i, x, y))
        if len(f["sigs"]) != len(b["sigs"]):
            raise Undecided("block %s: commit size differs" % bid)


def _sig(v):
    row = v["row"]
    return {"inv": v["inv"], "class": v["class"], "ev": row["ev"]}


def run(ctx):
    quick = ctx.tier == "quick"
    nrandom = 60 if quick else 800         # random worlds (4 runs each)
    t = _inputs(ctx, quick)
    world, cases, runs = t["world"], t["cases"], t["runs"]
    if not cases or not runs:
        raise Undecided("no cases / runs exported by TLC")

    rows_w, rows_c, rows_r = _harness(ctx, world, cases, runs, nrandom)
    _check_world(world, rows_w)
    if len(rows_c) != len(cases):
        raise Undecided("harness executed %d of %d verifier cases" % (len(rows_c), len(cases)))

    v1 = core.validate_traces(ctx, "TMLightTrace", rows_c, label="cases", max_events=1500)
    v2 = core.validate_traces(ctx, "TMLightTrace", rows_r, label="runs", max_events=400, timeout=1500)

    verdict = core.Verdict(ctx)
    for v in v1["viol"] + v2["viol"]:
        verdict.add(_sig(v), {"failing_step": v["row"], "prefix": v["prefix"],
                              "tlc": {k: v[k] for k in ("inv", "class")}})
    drift = v1["drift"] + v2["drift"]

    # ---- measured coverage
    distinct_cases = set()
    for r in rows_c:
        distinct_cases.add(hashlib.sha1(json.dumps([r["tb"]["id"], r["nb"]["id"], r["now"], r["cfg"], r["verify"], r["adj"],
                                                    r["nonadj"], r["back"]], sort_keys=True).encode()).hexdigest())
    distinct_calls, res_classes, orders = set(), {}, set()
    cur = None
    nverify = nstored = 0
    for r in rows_r:
        if r["ev"] == "Reset":
            cur = json.dumps([r["prov"], r["cfg"], r["root"]], sort_keys=True)
        elif r["ev"] in ("Verify", "Update", "NewClient"):
            res_classes[r["res"]] = res_classes.get(r["res"], 0) + 1
            if r["ev"] != "NewClient":
                nverify += 1
                if r["obs"]:
                    key = [cur, r["h"], r["now"], r["obs"], r["res"], r["post"]]
                    distinct_calls.add(hashlib.sha1(json.dumps(key, sort_keys=True).encode()).hexdigest())
                det = [o["p"] for o in r["obs"] if o["ph"] == "det" and o["r"] not in ("Pending", "Canceled")]
                if len(set(det)) > 1:
                    orders.add(tuple(dict.fromkeys(det)))
                if r["res"] == "nil" and r["obs"]:
                    nstored += 1
    accepted_cases = sum(1 for r in rows_c if r["verify"] == "ok")
    # not part of the statement, recorded for the reader: after a failed primary replacement
    # (findNewPrimary promotes the only witness and removeWitnesses then refuses to empty the
    # list) the same provider is primary AND witness, and from then on confirms itself
    self_witness = sum(1 for r in rows_r if r["ev"] != "Reset" and r["post"]["primary"] in r["post"]["wits"])
    self_confirmed = 0
    blocks, prev_store = {}, []
    for r in rows_r:
        if r["ev"] == "Reset":
            blocks, prev_store = r["blocks"], []
            continue
        new = [b for b in r["post"]["store"] if b not in prev_store and b in blocks]
        prev_store = r["post"]["store"]
        if r["ev"] == "NewClient" or not new:
            continue
        hids = {blocks[b]["hid"] for b in new}
        conf = {o["p"] for o in r["obs"] if o["ph"] == "det" and o["r"] in blocks and blocks[o["r"]]["hid"] in hids}
        if conf and conf <= {r["post"]["primary"]}:
            self_confirmed += 1
    rc_, rs_ = t["r_cases"], t["r_sim"]
    rcl_d = sum(r.distinct for r in t["r_client"])
    rcl_g = sum(r.generated for r in t["r_client"])
    coverage = {
        "states": rc_.distinct + rcl_d,
        "transitions": rc_.generated + rcl_g,
        "traces_validated_against_impl": v1["runs"] + v2["runs"],
        "evaluations": len(rows_c) + sum(1 for r in rows_r if r["ev"] != "Reset"),
        "distinct_nontrivial": len(distinct_cases) + len(distinct_calls),
        "rule": "verifier cases: every (trusted block, new block, now, trust level) over the %d blocks of TMLightWorld "
                "(reference chain with churn, forged headers per coalition class, malformed/future/thin-commit variants) "
                "enumerated by TLC and executed on the real light.Verify/VerifyAdjacent/VerifyNonAdjacent/VerifyBackwards, "
                "distinct by (blocks, now, level, results); client calls: behaviours of TMLightClient (provider personas x "
                "reply schedules x call sequences) simulated by TLC with seed %d plus the counterexamples of the %d weakened "
                "specifications, plus %d random worlds x 4 runs, executed on a real light.Client with gated providers; a call "
                "is distinct by (tables, settings, height, now, observed requests/answers, result, store after)" % (
                    len(world["blocks"]), ctx.seed, len(WEAK_CLIENT), nrandom),
        "samples": [core.abridge([r for r in rows_c if r["verify"] == "ok"][:1] + rows_c[:1], 2),
                    core.abridge([r for r in rows_r if r["ev"] in ("Verify", "Update")][:3], 3)],
        "exhaustive": False,
        "tlc_runs": ctx.tlc_stats,
        "verifier_cases": len(rows_c),
        "verifier_cases_accepted_by_real_code": accepted_cases,
        "client_runs": sum(1 for r in rows_r if r["ev"] == "Reset"),
        "client_runs_from_tlc": len(runs),
        "verify_calls": nverify,
        "verify_calls_that_stored_a_header": nstored,
        "result_classes_observed": res_classes,
        "distinct_witness_reply_orders_observed": len(orders),
        "simulated_states": rs_.generated,
        "observations": {"calls_after_which_the_primary_is_also_listed_as_witness": self_witness,
                         "headers_stored_whose_only_confirming_witness_is_the_primary_itself": self_confirmed},
        "conformance_drift": [{"what": d["what"], "spec": d.get("spec"), "step": core.abridge(d["row"])} for d in drift[:5]],
        "conformance_drift_count": len(drift),
        "nonvacuity": t["nonvacuity"],
        "known_findings_reproduced": dict(verdict.known),
    }
    rc = verdict.finish()
    ctx.write_evidence(coverage, [
        "hashes and signatures are symbolic in the specification (collision-freedom, unforgeability assumed); the harness "
        "names real hashes/keys and derives every block fact (signers, powers, times, hash names) from the real signed objects",
        "providers answer with a block of the requested height and answer ErrBadLightBlock for a block failing "
        "LightBlock.ValidateBasic, as light/provider/http does; the http provider and RPC transport are not exercised",
        "a header stored by backwards verification (hash chain from the oldest trusted header) needs no witness",
        "evidence 'for both sides': against the primary to the witness always; against the witness to the primary when the "
        "primary in turn backs its header along the witness' trace (otherwise no second evidence can be formed)",
        "exhaustive only within the TLC configurations (design model); replay is a seeded sample of them plus random worlds",
        "a TLC verdict is accepted only if the verdict file covers every trace line",
    ], len(verdict.new))
    return rc


def replay(ctx, path):
    """Re-execute the run of a stored failing trace on the current tree and re-validate it."""
    with open(path) as f:
        rep = json.load(f)
    prefix = rep["replay"]["prefix"]
    fail = rep["replay"]["failing_step"]
    if fail.get("ev") == "Case":
        rows = [fail]
        # rebuild the two blocks in a two-block world and re-run the case
        blocks = {fail["tb"]["id"]: fail["tb"], fail["nb"]["id"]: fail["nb"]}
        world = _world_from_facts(blocks)
        cases = [{"tb": fail["tb"]["id"], "nb": fail["nb"]["id"], "now": fail["now"], "lvl": fail["cfg"]["num"]}]
        _w, rows_c, _r = _harness(ctx, world, cases, [], 0)
        v = core.validate_traces(ctx, "TMLightTrace", rows_c, label="replay")
    else:
        if not prefix or prefix[0].get("ev") != "Reset":
            raise Undecided("replay file has no Reset line")
        rs = prefix[0]
        world = _world_from_facts(rs["blocks"])
        run_ = {"prov": rs["prov"], "primary": rs["primary"], "wits": rs["wits"], "cfg": rs["cfg"], "root": rs["root"]["h"],
                "root_hid": rs["root"]["hid"], "start_sched": rs["wits"], "steps": [], "src": "replay"}
        for r in prefix[1:]:
            if r["ev"] == "NewClient":
                run_["start_sched"] = r["sched"]
            elif r["ev"] in ("Verify", "Update"):
                run_["steps"].append({"op": r["ev"], "h": r["h"], "now": r["now"], "sched": r["sched"]})
        _w, _c, rows_r = _harness(ctx, world, [], [run_], 0)
        v = core.validate_traces(ctx, "TMLightTrace", rows_r, label="replay")
    verdict = core.Verdict(ctx)
    for x in v["viol"]:
        verdict.add(_sig(x), {"failing_step": x["row"], "prefix": x["prefix"]})
        log("replay: %s (%s) fails at %s" % (x["inv"], x["class"], json.dumps(x["row"])[:300]))
    return verdict.finish()


def _world_from_facts(blocks):
    """Facts of real blocks (as logged in a trace) -> a world description the harness can rebuild."""
    vsets = {}
    for b in blocks.values():
        vsets.setdefault(b["vsh"], b["vals"])
    for b in blocks.values():
        for k in ("vh", "nvh"):
            if b[k] not in vsets:
                # a set that is only named: any set with a different content will do
                vsets[b[k]] = [{"v": "v9", "p": 1 + len(vsets)}]
    return {"vsets": vsets, "blocks": blocks, "personas": {}}
