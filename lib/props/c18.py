"""C18 — Stored chain data stays contiguous and consistent through pruning and crashes.
Spec: spec/TMStore.tla (operators: every store API call as its exact sequence of single DB
writes), spec/TMStoreNode.tla (node life cycle with a crash after any write); trace spec:
spec/trace/TMStoreTrace.tla; harnesses: harness/inpkg/store/zz_verif_c18_test.go (real
BlockStore + real state store through BlockExecutor.ApplyBlock, journalled DB, every crash
prefix reopened and audited) and harness/inpkg/state/zz_verif_c18_test.go (state store in
depth: long chains, checkpoints, bootstrap)."""
import json
import os
from concurrent.futures import ThreadPoolExecutor

from vlib import core
from vlib.core import Undecided, log
from vlib.tlaparse import to_json

WEAK = {
    # switch -> (cfg, invariants one of which TLC must refute)
    "SaveMetaBeforeParts": ("C18_weak_SaveMetaBeforeParts.cfg", ["MetaBlock"]),
    "BSSBeforeData": ("C18_weak_BSSBeforeData.cfg", ["AuditAfterReopen", "AuditLive"]),
    "NoHashIndex": ("C18_weak_NoHashIndex.cfg", ["AuditAfterReopen", "AuditLive"]),
    "DeleteBeforeBaseMove": ("C18_weak_DeleteBeforeBaseMove.cfg", ["AuditAfterReopen", "AuditLive"]),
    "IntermediateBaseOffByOne": ("C18_weak_IntermediateBaseOffByOne.cfg", ["AuditAfterReopen", "AuditLive"]),
    "PruneDropsLastChanged": ("C18_weak_PruneDropsLastChanged.cfg", ["AuditAfterReopen", "AuditLive"]),
    "PruneDropsCheckpoint": ("C18_weak_PruneDropsCheckpoint.cfg", ["AuditAfterReopen", "AuditLive"]),
    "PruneDropsParamsChanged": ("C18_weak_PruneDropsParamsChanged.cfg", ["AuditAfterReopen", "AuditLive"]),
    "RecoveryDropsParamUpdates": ("C18_weak_RecoveryDropsParamUpdates.cfg", ["AuditAfterReopen", "AuditLive"]),
}
# reachability goals (negated as invariants): the model does prune more than one batch and does
# leave LastHeightChanged / checkpoint records behind
GOALS = {
    "a prune of more than one batch is reachable": ("C18_goal_TwoBatchPrune.cfg", ["NeverTwoBatchPrune"]),
    "a kept validator record below the retain height is reachable": ("C18_goal_KeptRecord.cfg", ["NeverKeptRecord"]),
}

# model constants of the replayed state graphs: name -> (base cfg, overrides, harness cfg)
def graph_models(quick):
    small = {"MaxHeight": 4, "TwoPart": "{2}", "ValChg": "{1}", "ParChg": "{2}", "MaxCrashes": 1, "MaxPrunes": 1}
    if quick:
        return {
            "main": ("C18_main.cfg", dict(small), 0),
            "ckpt": ("C18_ckpt.cfg", dict(small, MaxHeight=5, TwoPart="{3}"), 99996),
            "boot": ("C18_boot.cfg", {"MaxHeight": 5, "MaxCrashes": 1, "MaxPrunes": 1}, 0),
        }
    mid = {"MaxCrashes": 1, "MaxPrunes": 2}
    return {
        "main": ("C18_main.cfg", dict(mid), 0),
        "ckpt": ("C18_ckpt.cfg", dict(mid), 99996),
        "boot": ("C18_boot.cfg", dict(mid), 0),
        "init3": ("C18_init3.cfg", dict(mid, MaxHeight=7), 0),
    }


def exhaustive_models(quick):
    if quick:
        return {"main": ("C18_main.cfg", {}), "ckpt": ("C18_ckpt.cfg", {"MaxCrashes": 1}),
                "boot": ("C18_boot.cfg", {}), "init3": ("C18_init3.cfg", {"MaxCrashes": 1})}
    big = {"MaxCrashes": 3, "MaxPrunes": 3}
    return {"main": ("C18_main.cfg", dict(big)), "ckpt": ("C18_ckpt.cfg", dict(big)),
            "boot": ("C18_boot.cfg", dict(big)), "init3": ("C18_init3.cfg", {"MaxCrashes": 2, "MaxPrunes": 3})}


def read_consts(ctx, cfg_name):
    """constants of a (derived) cfg in the spec copy, as python values"""
    out = {}
    with open(os.path.join(ctx.spec_copy(), cfg_name)) as f:
        for line in f:
            line = line.strip()
            if "=" in line and not line.startswith("\\*"):
                k, v = [x.strip() for x in line.split("=", 1)]
                if v.startswith("{"):
                    out[k] = [int(x) for x in v.strip("{}").split(",") if x.strip()]
                elif v.lstrip("-").isdigit():
                    out[k] = int(v)
    return out


def path_to_ops(g, nodes):
    """A path of the act-augmented TMStoreNode graph -> list of harness operations."""
    ops = []
    cur = None       # operation in progress
    writes = 0
    for i in range(1, len(nodes)):
        prev, st = g.nodes[nodes[i - 1]], g.nodes[nodes[i]]
        name = st["act"]["name"]
        if name == "Begin":
            c = st["ctx"]
            op = str(c["op"])
            cur = {"op": op, "a": int(c["a"]), "b": int(c["b"]), "crash": -1}
            if op == "PruneBlocks":
                cur["b"] = 0
            ops.append(cur)
            writes = 0
            if len(st["pend"]) == 0:
                cur = None
        elif name == "Step":
            if str(prev["pend"][0]["t"]) == "w":
                writes += 1
            if len(st["pend"]) == 0:
                cur = None
        elif name == "Crash":
            if cur is not None:
                cur["crash"] = writes
            else:
                ops.append({"op": "Reopen"})
            cur = None
    return ops


def trie_insert(forest, ops):
    """merge a history into a forest of histories that share prefixes"""
    kids = forest
    for op in ops:
        key = json.dumps(op, sort_keys=True)
        for k in kids:
            if k["key"] == key:
                kids = k["children"]
                break
        else:
            node = {"key": key, "op": op, "children": []}
            kids.append(node)
            kids = node["children"]


def cons_ops(ops):
    """the same history with every prune done by consensus.State.pruneBlocks (one call)"""
    out = []
    i = 0
    while i < len(ops):
        o = ops[i]
        if o["op"] == "PruneBlocks":
            c = {"op": "ConsPrune", "a": o["a"], "b": 0, "crash": o["crash"]}
            if o["crash"] == -1 and i + 1 < len(ops):
                nx = ops[i + 1]
                if nx["op"] == "PruneStates":
                    if nx["crash"] >= 0:
                        c["crash"], c["crash_part"] = nx["crash"], "s"
                    i += 1
                elif nx["op"] == "Reopen":
                    c["crash"], c["crash_part"] = 0, "s"      # crash between the two stores
                    i += 1
            out.append(c)
        elif o["op"] == "PruneStates":
            pass        # only after a completed PruneBlocks, handled above
        else:
            out.append(o)
        i += 1
    return out


def harness_cfg(consts, offset):
    return {"initial": consts["Initial"], "boot": consts["Boot"], "maxheight": consts["MaxHeight"],
            "twopart": consts["TwoPart"], "valchg": consts["ValChg"], "parchg": consts["ParChg"],
            "offset": offset, "nvals": 3}


LONG_CFG = {"initial": 1, "boot": 0, "twopart": [3, 1001], "valchg": [2, 1001], "parchg": [3, 1002], "offset": 0, "nvals": 2}


def long_build(n):
    ops = [{"op": "Genesis", "crash": -1, "audit": "silent"}]
    for h in range(1, n + 1):
        ops.append({"op": "SaveBlock", "a": h, "crash": -1, "audit": "silent"})
        ops.append({"op": "ApplyBlock", "a": h, "crash": -1, "audit": "silent"})
    return ops


def long_run(n, retain, sample_every, crash_at=None):
    """A chain of n real blocks built without trace lines, then one prune that crosses the code's
    1000-block flush interval, every (or every sampled) crash prefix audited."""
    ops = long_build(n)
    ops.append({"op": "Load"})      # the trace gets the abstraction of the whole databases instead
    mode = "sample" if sample_every > 1 else "all"
    ops.append({"op": "PruneBlocks", "a": retain, "crash": -1 if crash_at is None else crash_at, "audit": mode})
    if crash_at is None:
        ops.append({"op": "PruneStates", "a": 1, "b": retain, "crash": -1, "audit": mode})
    else:
        # after the interrupted prune: reopen, go on pruning from the persisted base
        ops.append({"op": "PruneBlocks", "a": retain, "crash": -1, "audit": mode})
    return {"cfg": dict(LONG_CFG, maxheight=n), "ops": ops, "incremental": True, "sample_every": sample_every,
            "label": "long"}


def long_runs_sliced(n, retain, per=1800):
    """the same with EVERY prefix audited, cut into runs that audit a slice of the prefixes each"""
    runs = []
    nb = (retain - 1) * 5 + 2 + 3 + (retain - 1) // 1000 * 1       # upper bound of the PruneBlocks journal length
    for lo in range(1, nb + 1, per):
        ops = long_build(n) + [{"op": "Load"},
                               {"op": "PruneBlocks", "a": retain, "crash": -1, "audit": "all", "audit_from": lo, "audit_to": lo + per - 1}]
        runs.append({"cfg": dict(LONG_CFG, maxheight=n), "ops": ops, "incremental": True, "sample_every": 1, "label": "long-blocks"})
    ns = (retain - 1) * 3
    for lo in range(1, ns + 1, per):
        ops = long_build(n) + [{"op": "PruneBlocks", "a": retain, "crash": -1, "audit": "silent"}, {"op": "Load"},
                               {"op": "PruneStates", "a": 1, "b": retain, "crash": -1, "audit": "all", "audit_from": lo, "audit_to": lo + per - 1}]
        runs.append({"cfg": dict(LONG_CFG, maxheight=n), "ops": ops, "incremental": True, "sample_every": 1, "label": "long-states"})
    return runs


def run_tlc_models(ctx, quick):
    stats = {}
    items = []
    for name, (base, over) in exhaustive_models(quick).items():
        items.append((name, core.cfg_variant(ctx, base, "C18_x_%s.cfg" % name, over)))

    def one(it):
        name, cfg = it
        return name, ctx.tlc("C18_node", cfg, must_pass=True, timeout=1500, workers=4 if quick else 8,
                             heap="3g" if quick else "6g", label="exh_" + name)

    with ThreadPoolExecutor(max_workers=4 if quick else 2) as ex:
        for name, r in ex.map(one, items):
            stats[name] = r
    return stats


def check_weak(ctx):
    res = {}

    def one(item):
        sw, (cfg, invs) = item
        r = ctx.tlc("C18_node", cfg, timeout=600, workers=2, heap="2g", label="weak_" + sw.replace(" ", "_")[:40])
        return sw, r, invs

    with ThreadPoolExecutor(max_workers=4) as ex:
        for sw, r, invs in ex.map(one, list(WEAK.items()) + list(GOALS.items())):
            if r.timed_out or r.errors:
                raise Undecided("weak config %s: TLC error/timeout %s" % (sw, r.errors[:1]))
            hit = [v["name"] for v in r.violations if v["name"] in invs]
            if not hit:
                raise Undecided("vacuity: %s: TLC does not refute %s" % (sw, invs))
            if sw in WEAK:
                res["Weak_%s refuted by TLC" % sw] = hit[0]
            else:
                res[sw] = True
    return res


def build_inputs(ctx, quick):
    runs, cruns = [], []
    cons_models = ("main",) if quick else ("main", "boot")
    gstats = {}
    for name, (base, over, offset) in graph_models(quick).items():
        cfg = core.cfg_variant(ctx, base, "C18_g_%s.cfg" % name, over)
        dot = os.path.join(ctx.work, "g_%s.dot" % name)
        r = ctx.tlc("C18_node", cfg, dump=["dot,actionlabels", dot], must_pass=True, timeout=1200, workers=8,
                    heap="6g", label="graph_" + name)
        g = core.parse_dot(dot)
        os.remove(dot)
        consts = read_consts(ctx, cfg)
        hc = harness_cfg(consts, offset)
        scheds = [ops for ops in (path_to_ops(g, nodes) for nodes in core.graph_schedules(g)) if ops]
        n = len(scheds)
        ncons = 0
        # a forest of histories sharing prefixes; big graphs are cut into several forests so
        # that trace validation can run in parallel
        per = max(1, (n + 7) // 8) if n > 400 else n
        for i in range(0, n, per):
            forest, cforest = [], []
            for ops in scheds[i:i + per]:
                trie_insert(forest, ops)
                if name in cons_models and any(o["op"] in ("PruneBlocks", "Recover") for o in ops):
                    trie_insert(cforest, cons_ops(ops))
                    ncons += 1
            runs.append({"cfg": hc, "tree": forest, "label": "graph:" + name})
            if cforest and name in cons_models:
                cruns.append({"cfg": hc, "tree": cforest, "label": "graph-cons:" + name})
        gstats[name] = {"states": len(g.nodes), "transitions": len(g.edges), "schedules": n, "cons_schedules": ncons,
                        "generated": r.generated, "distinct": r.distinct}
        if len(g.nodes) != r.distinct:
            raise Undecided("graph %s: parsed %d of %d states" % (name, len(g.nodes), r.distinct))
    return runs, cruns, gstats


HARNESS_FILES = {
    "store": ["zz_verif_c18_test.go", "zz_verif_c18_lib.go"],
    "state": ["zz_verif_c18_test.go"],
    # the store-level library is injected into package store, the driver into package consensus
    "consensus": ["zz_verif_c18_test.go", os.path.join(core.VERIF, "harness", "inpkg", "store", "zz_verif_c18_lib.go")],
}


def build_harness(ctx, pkg):
    """like ctx.go_build_test, but the consensus driver needs a file injected into ANOTHER package (store)"""
    if pkg != "consensus":
        return ctx.go_build_test(pkg, HARNESS_FILES[pkg], name="c18_" + pkg)
    import subprocess
    import time
    ov = {"Replace": {
        os.path.join(ctx.repo, "consensus", "zz_verif_c18_test.go"):
            os.path.join(core.VERIF, "harness", "inpkg", "consensus", "zz_verif_c18_test.go"),
        os.path.join(ctx.repo, "store", "zz_verif_c18_lib.go"):
            os.path.join(core.VERIF, "harness", "inpkg", "store", "zz_verif_c18_lib.go")}}
    ovp = os.path.join(ctx.work, "overlay-c18-consensus.json")
    with open(ovp, "w") as fh:
        json.dump(ov, fh)
    binp = os.path.join(ctx.work, "c18_consensus.test")
    cmd = ["go", "test", "-c", "-vet=off", "-tags", "verif c18cons", "-overlay", ovp, "-o", binp, "./consensus"]
    t0 = time.time()
    p = subprocess.run(cmd, cwd=ctx.repo, env=ctx.go_env(), stdout=subprocess.PIPE, stderr=subprocess.STDOUT)
    log("go build consensus (+store lib): rc=%d %.1fs" % (p.returncode, time.time() - t0))
    if p.returncode != 0:
        ctx.save_log("gobuild-consensus", p.stdout.decode("utf-8", "replace"))
        raise Undecided("C18 consensus harness does not compile against %s:\n%s" % (
            ctx.repo, p.stdout.decode("utf-8", "replace")[-3000:]))
    return binp


def run_harness(ctx, pkg, test, inp_obj, outname, timeout=1500):
    inp = os.path.join(ctx.work, "c18-in-%s.json" % pkg.replace("/", "_"))
    with open(inp, "w") as f:
        json.dump(inp_obj, f)
    out = ctx.subdir("c18-out-" + pkg.replace("/", "_"))
    binp = build_harness(ctx, pkg)
    rc, txt = ctx.run_test(binp, test, {"VERIF_IN": inp, "VERIF_OUT": out}, timeout=timeout)
    if rc != 0:
        ctx.save_log("harness-" + pkg.replace("/", "_"), txt)
        raise Undecided("C18 harness %s failed (rc=%d): %s" % (pkg, rc, txt[-1500:]))
    stats = {}
    for line in txt.splitlines():
        if "C18STAT" in line:
            for kv in line.split("C18STAT", 1)[1].split():
                if "=" in kv:
                    k, v = kv.split("=", 1)
                    if v.lstrip("-").isdigit():
                        stats[k] = stats.get(k, 0) + int(v)
    rows = core.read_ndjson(os.path.join(out, outname))
    return rows, stats


def check_cfgs(rows):
    for r in rows:
        if r.get("ev") == "Reset":
            c = r["cfg"]
            for key in ("vs", "ps"):
                if any(c[key][i] > c[key][i + 1] for i in range(len(c[key]) - 1)):
                    raise Undecided("chain generator produced a non-monotone %s table" % key)


def add_verdicts(verdict, v):
    for x in v["viol"]:
        row = x["row"]
        # the operation line of the failing audit
        oprow = None
        for p in reversed(x["prefix"]):
            if p.get("ev") == "Op":
                oprow = p
                break
        sig = {"inv": x["inv"], "class": x["class"], "op": x["op"]}
        # the history that leads to the failing image: the run is a depth-first walk of a tree of
        # histories (Push / Pop), only the current branch counts
        hist, marks = [], []
        for p in x["prefix"]:
            ev = p.get("ev")
            if ev == "Push":
                marks.append(len(hist))
            elif ev == "Pop":
                hist = hist[:marks.pop()]
            elif ev in ("Op", "Reopen"):
                hist.append({k: p[k] for k in ("ev", "op", "a", "b", "res", "k", "n") if k in p})
        reset = x["prefix"][0] if x["prefix"] and x["prefix"][0].get("ev") == "Reset" else None
        verdict.add(sig, {"failing_step": row, "operation": oprow, "crash_prefix_k": x["k"],
                          "chain": reset, "history": hist,
                          "tlc": {k: x[k] for k in ("inv", "class", "op", "k")}})


def run(ctx):
    quick = ctx.tier == "quick"

    # ---- 1. design spec: exhaustive + non-vacuity ---------------------------------------
    exh = run_tlc_models(ctx, quick)
    nonvac = check_weak(ctx)

    # ---- 2. behaviours out of TLC: act-augmented graphs -> schedules ----------------------
    runs, cruns, gstats = build_inputs(ctx, quick)
    if quick:
        longs = [long_run(1005, 1003, 40)]
        nrandom, ncrandom, nsrandom = 30, 12, 30
    else:
        longs = long_runs_sliced(2104, 2102) + [long_run(1010, 1005, 25, crash_at=2400)]
        nrandom, ncrandom, nsrandom = 300, 100, 300
    runs += longs

    # ---- 3. replay on the real stores -------------------------------------------------------
    # a harness that dies on an edited tree must not hide what the other one observes: its
    # failure is remembered and becomes exit 2 only if no violation was observed elsewhere
    dead = []
    rows, hstats, rows_s, sstats, rows_c, cstats = [], {}, [], {}, [], {}
    try:
        rows, hstats = run_harness(ctx, "store", "^TestVerifC18$", {"runs": runs, "random": nrandom}, "store.ndjson",
                                   timeout=2400)
        check_cfgs(rows)
    except Undecided as e:
        dead.append(str(e))
    try:
        rows_s, sstats = run_harness(ctx, "state", "^TestVerifC18State$",
                                     {"tier": ctx.tier, "random": nsrandom}, "state.ndjson", timeout=1800)
        check_cfgs(rows_s)
    except Undecided as e:
        dead.append(str(e))
    try:
        rows_c, cstats = run_harness(ctx, "consensus", "^TestVerifC18Consensus$",
                                     {"runs": cruns, "random": ncrandom}, "consensus.ndjson", timeout=1800)
        check_cfgs(rows_c)
    except Undecided as e:
        dead.append(str(e))
    if len(dead) == 3:
        raise Undecided("all C18 harnesses failed: " + dead[0][:1500])

    # ---- 4. trace validation ------------------------------------------------------------------
    with ThreadPoolExecutor(max_workers=3) as ex:
        fs = [ex.submit(core.validate_traces, ctx, "TMStoreTrace", rr, None, 4000, 1800, lab, "4g")
              for rr, lab in ((rows, "store"), (rows_s, "state"), (rows_c, "consensus")) if rr]
        vs = [f.result() for f in fs]

    # ---- 5. verdict ----------------------------------------------------------------------------
    verdict = core.Verdict(ctx)
    drift = []
    for v in vs:
        add_verdicts(verdict, v)
        drift += v["drift"]

    allrows = rows + rows_s + rows_c
    distinct = set()
    opkinds = {}
    crash_images = 0
    curop = None
    for r in allrows:
        if r["ev"] == "Op":
            curop = r
            opkinds[r["op"]] = opkinds.get(r["op"], 0) + 1
        elif r["ev"] == "A":
            crash_images += 1
            distinct.add(json.dumps([curop["op"], curop["a"], curop["journal"][:r["k"]][-3:], r["dbase"], r["dheight"],
                                     r["mbase"], r["mheight"], r["ranges"]], sort_keys=True))
    def brief(r):
        r = dict(r)
        if "journal" in r:
            r["journal"] = core.abridge(r["journal"], 8)
        if "ranges" in r:
            r["ranges"] = core.abridge(r["ranges"], 3)
        if "win" in r:
            r["win"] = core.abridge(r["win"], 6)
        if "cfg" in r:
            r["cfg"] = {k: (core.abridge(v, 10) if isinstance(v, list) else v) for k, v in r["cfg"].items()}
        return r

    sample = []
    for i, r in enumerate(rows):
        if r["ev"] == "Op" and r["op"] == "PruneBlocks" and 0 < r["n"] < 40 and r.get("audited"):
            sample = [brief(x) for x in rows[i:i + 3]]
            break
    sample_s = [brief(x) for x in rows_s[:1]] + [brief(x) for x in rows_s if x["ev"] == "A"][:1]
    coverage = {
        "states": sum(r.distinct for r in exh.values()) + sum(g["distinct"] for g in gstats.values()),
        "transitions": sum(r.generated for r in exh.values()) + sum(g["generated"] for g in gstats.values()),
        # histories executed on real code and accepted: root-to-leaf paths of the replayed graphs
        # (store level and consensus level), long-chain runs, random runs, state-store scenarios
        "traces_validated_against_impl": (sum(g["schedules"] + g["cons_schedules"] for g in gstats.values()) + len(longs)
                                          + (nrandom if rows else 0) + (ncrandom if rows_c else 0)
                                          + sum(1 for r in rows_s if r["ev"] == "Reset")),
        "evaluations": crash_images,
        "distinct_nontrivial": len(distinct),
        "rule": "a crash image = (operation, its last writes, persisted and in-memory range descriptor, projection of "
                "every loader of both stores for every height) observed after replaying a prefix of the journal of a "
                "real store operation into a fresh MemDB and reopening both stores on it; every operation of every "
                "root-to-leaf path of the act-augmented TMStoreNode graphs is executed on the real stores and EVERY "
                "prefix of its journal is audited (operations repeated on an identical disk are audited once)",
        "samples": [sample, sample_s],
        "exhaustive": True,
        "exhaustive_scope": "the replayed graph models (graph_*): every state of the bounded TMStoreNode graph is reached on "
                            "the real stores and every crash image of every operation on it is audited; the larger exh_* "
                            "models are model-checked only; long chains, random histories and the state-store scenarios "
                            "are additional (sampled) coverage",
        "tlc_runs": ctx.tlc_stats,
        "exhaustive_models": {k: {"distinct": r.distinct, "generated": r.generated, "depth": r.depth} for k, r in exh.items()},
        "replayed_graphs": gstats,
        "operations_executed": opkinds,
        "crash_images_audited": crash_images,
        "harness_stats": {"store": hstats, "state": sstats, "consensus": cstats},
        "trace_lines_validated": sum(v["events"] for v in vs),
        "proposer_priority_mismatches_observed(info, not judged)": hstats.get("prio_mismatch", 0) + sstats.get("prio_mismatch", 0) + cstats.get("prio_mismatch", 0),
        "conformance_drift": [{"what": d["what"], "step": core.abridge(json.dumps(d["row"])[:400])} for d in drift[:5]],
        "conformance_drift_count": len(drift),
        "nonvacuity": nonvac,
        "known_findings_reproduced": dict(verdict.known),
        "long_chain_note": "the 1000-block flush interval of PruneBlocks/PruneStates is exercised on real code with a "
                           "chain of >1000 real blocks; quick audits sampled crash prefixes of that prune (all prefixes "
                           "around every range-descriptor write), thorough audits every prefix",
    }
    if dead and not verdict.new:
        raise Undecided("a C18 harness failed and the other observed no violation: " + dead[0][:1500])
    if dead:
        coverage["exhaustive"] = False
        coverage["harness_failures"] = [d[:600] for d in dead]
    rc = verdict.finish()
    ctx.write_evidence(coverage, [
        "process-crash model: a crash keeps exactly the DB writes issued so far, in order; a batch is a sequence of "
        "single writes (goleveldb batch atomicity is not relied upon, as the code's own comment says)",
        "block/commit/validator-set identity is by hash (collision-freedom assumed); commits are verified with the real "
        "VerifyCommit against the chain generator's validator set of that height",
        "the state store is audited for [base, height] as the statement says (validators(height+1) is compared at "
        "conformance level only); proposer priorities of loaded validator sets are recorded, not judged (C08)",
        "MetaImpliesBlock (store.go LoadBlock NOTE: meta implies block) is treated as part of 'metadata and parts agree'",
        "a TLC verdict is accepted only if the verdict file covers every trace line",
    ], len(verdict.new))
    return rc


def replay(ctx, path):
    """Re-execute the failing history of a stored replay on the current tree and re-validate it."""
    with open(path) as f:
        rep = json.load(f)
    r = rep["replay"]
    chain = r.get("chain")
    if not chain or not chain.get("hcfg"):
        raise Undecided("replay file has no chain description")
    c, hc = chain["cfg"], chain["hcfg"]
    state_only = "block" not in c["chk"]
    cons = any(h.get("op") == "ConsPrune" for h in r["history"])
    off = c.get("offset", 0)
    ops = []
    for h in r["history"]:
        if h["ev"] == "Op":
            if h["op"] == "Load":
                # the long chains are built without trace lines: rebuild, then install
                if state_only:
                    if hc["boot"]:
                        raise Undecided("unexpected Load in a restored-store history")
                    ops.append({"op": "Genesis", "crash": -1, "audit": "silent"})
                    for x in range(hc["initial"], hc["initial"] + hc["n"]):
                        ops += [{"op": "SaveABCI", "a": x, "crash": -1, "audit": "silent"},
                                {"op": "Save", "a": x, "crash": -1, "audit": "silent"}]
                else:
                    ops.append({"op": "Genesis", "crash": -1, "audit": "silent"})
                    for x in range(hc["initial"], hc["maxheight"] + 1):
                        ops += [{"op": "SaveBlock", "a": x, "crash": -1, "audit": "silent"},
                                {"op": "ApplyBlock", "a": x, "crash": -1, "audit": "silent"}]
                ops.append({"op": "Load"})
                continue
            a, b = h["a"], h["b"] if h["op"] == "PruneStates" else 0
            if state_only:      # the state driver takes real heights
                a = a + off if (h["op"] != "Genesis") else 0
                b = b + off if h["op"] == "PruneStates" else 0
            ops.append({"op": h["op"], "a": a, "b": b, "crash": -1, "audit": "none"})
        elif h["ev"] == "Reopen":
            if h["k"] >= 0 and ops and ops[-1].get("crash") == -1 and ops[-1]["op"] not in ("Reopen", "Load", "Push", "Pop"):
                ops[-1]["crash"] = h["k"]
            else:
                ops.append({"op": "Reopen"})
    if not ops:
        raise Undecided("empty history in replay file")
    ops[-1]["audit"] = "all"
    inc = not c.get("full", True)
    if state_only:
        rows, _ = run_harness(ctx, "state", "^TestVerifC18State$",
                              {"tier": "quick", "random": 0, "replay": [{"cfg": hc, "ops": ops, "incremental": inc}]},
                              "state.ndjson")
    else:
        run1 = {"cfg": hc, "ops": ops, "incremental": inc, "sample_every": 1, "label": "replay"}
        if cons:
            rows, _ = run_harness(ctx, "consensus", "^TestVerifC18Consensus$", {"runs": [run1], "random": 0}, "consensus.ndjson")
        else:
            rows, _ = run_harness(ctx, "store", "^TestVerifC18$", {"runs": [run1], "random": 0}, "store.ndjson")
    v = core.validate_traces(ctx, "TMStoreTrace", rows, max_events=100000, timeout=1800, label="replay", heap="4g")
    verdict = core.Verdict(ctx)
    add_verdicts(verdict, v)
    for x in v["viol"]:
        log("replay: %s (%s) fails during %s at crash prefix %s" % (x["inv"], x["class"], x["op"], x["k"]))
    return verdict.finish()
