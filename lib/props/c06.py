"""C06 - Block validation is exact; proposer-built blocks are valid and fit; the state transition
is a deterministic function.
Spec: spec/TMBlockValidity.tla (operators), TMBlockPerturb.tla (perturbation alphabet),
TMBlockChain.tla (history state machine); trace spec: spec/trace/TMBlockValidityTrace.tla;
harness: harness/inpkg/state/zz_verif_c06_test.go (overlay, package state_test)."""
import hashlib
import json
import os
import random
from concurrent.futures import ThreadPoolExecutor

from vlib import core, tlaparse
from vlib.core import Undecided, log
from vlib.tlaparse import to_json

WEAK = {  # switch -> invariants one of which TLC must refute
    "DropLastResultsHash": ["PerturbedRejected"],
    "DropConsensusHash": ["PerturbedRejected"],
    "DropNextValsHash": ["PerturbedRejected"],
    "DropProposerCheck": ["PerturbedRejected"],
    "TimeGeq": ["RebuildJudged"],
    "MedianUnweighted": ["MedianIsWeightedMedian"],
    "ValUpdatesEarly": ["TwoHeightDelay"],
    "ParamsBookkeeping": ["StoreLookups"],
    "BudgetUsesCurrentVals": ["ProposalFits"],
    "CommitAddrUnchecked": ["RebuildJudged", "AcceptedTimeIsSignerWeightedMedian"],
    "StoredResponsesDropParamUpdates": ["NextStateSame"],
}

NOPU = {"any": False, "block": {"has": False, "maxBytes": 0, "maxGas": 0},
        "evidence": {"has": False, "maxAgeBlocks": 0, "maxAgeDur": 0, "maxBytes": 0},
        "version": {"has": False, "app": 0}}


def gset(names):
    return "{" + ", ".join('"%s"' % n for n in names) + "}"


# ------------------------------------------------------------------------------------------
def parse_printed(out):
    """TABLE / TRAIL / OPS lines written by TLC's PrintT (one TLA+ value per line)."""
    table, trails, ops = None, [], {}
    for ln in out.splitlines():
        if not ln.startswith('"'):
            continue
        try:
            s = json.loads(ln)
        except ValueError:
            continue
        if s.startswith("TRAIL "):
            trails.append(to_json(tlaparse.parse_value(s[6:])))
        elif s.startswith("OPS "):
            v = to_json(tlaparse.parse_value(s[4:]))
            ops[json.dumps(v[0], sort_keys=True)] = sorted(v[1])
        elif s.startswith("TABLE "):
            table = to_json(tlaparse.parse_value(s[6:]))
    return table, trails, ops


def genesis_of(table, g):
    G = table["genesis"][g]
    return {"chain": "c1", "ih": G["ih"], "vals": list(G["vals"]), "params": dict(table["params"]),
            "appHash": "A0", "appVer": G["appVer"]}


def runs_from_trails(table, trails, ops):
    """One harness run per maximal history; the perturbations of a made block are executed the first
    time its prefix is replayed."""
    done = set()
    runs = []
    nops = 0
    for k, tr in enumerate(sorted(trails, key=lambda t: json.dumps(t, sort_keys=True))):
        steps = []
        for i, st in enumerate(tr[1:], start=1):
            if st["t"] == "make":
                key = json.dumps(tr[:i + 1], sort_keys=True)
                step = {"t": "make", "txs": list(st["txs"]), "ev": st["ev"], "proposer": st["proposer"],
                        "votes": list(st["votes"]), "ops": []}
                if key not in done:
                    done.add(key)
                    if key not in ops:
                        raise Undecided("no perturbation set exported for a made block")
                    step["ops"] = [{"f": o[0], "k": o[1], "i": o[2], "j": o[3]} for o in ops[key]]
                    nops += len(step["ops"])
                steps.append(step)
            else:
                steps.append({"t": "apply", "valUpdates": list(st["valUpdates"]), "pu": st["pu"], "rc": st["rc"],
                              "appHash": st["appHash"]})
        runs.append({"id": "t%d" % k, "genesis": genesis_of(table, tr[0]["g"]), "steps": steps, "seed": k})
    missing = set(ops) - done
    if missing:
        raise Undecided("%d made blocks of the TLC graph are on no exported history" % len(missing))
    return runs, len(done), nops


def size_runs(table, quick, rng):
    """Proposals from an overfull mempool for the (maxBytes, evidence, |Validators|, |LastValidators|)
    grid TLC checks ProposalFits on; a pair is reached by changing the set with one EndBlock."""
    runs = []
    cases = table["sizes"]
    pick = {0, 1, 2, 5, 12} if quick else set(range(0, 13))
    for c in cases:
        nv, nl, ev, mb = c["nVals"], c["nLast"], c["ev"], c["maxBytes"]
        if nv not in pick or nl not in pick:
            continue
        if nl == 0 and ev != 0:
            continue
        if quick and mb == 3000 and ev == 1200:
            continue
        idx = len(runs)
        params = dict(table["params"], maxBytes=mb)
        chain = "c" if idx % 2 == 0 else "chain-id-of-the-longest-permitted-length".ljust(50, "x")
        assert len(chain) in (1, 50)
        app = "" if idx % 3 == 0 else "A0"
        nev = {0: 0, 450: 1, 1200: 4}[ev]
        fill = {"txs": max(40, mb // 40), "minLen": 20, "maxLen": 180, "tiny": 60, "ev": nev}
        mk = lambda f=None: {"t": "make", "txs": ["t1"], "ev": "none", "proposer": "v1", "randVote": True, "fill": f}
        ap = lambda ups, h: {"t": "apply", "valUpdates": ups, "pu": NOPU, "rc": "ok", "appHash": app and ("A%d" % h)}
        if nl == 0:
            gen = {"chain": chain, "ih": 1 + idx % 2 * 6, "vals": [{"id": "v%d" % i, "power": 1 + (i + idx) % 3} for i in range(1, nv + 1)],
                   "params": params, "appHash": app, "appVer": 0}
            steps = [mk(fill), ap([], 1)]
        else:
            gen = {"chain": chain, "ih": 1, "vals": [{"id": "v%d" % i, "power": 1 + (i + idx) % 3} for i in range(1, nl + 1)],
                   "params": params, "appHash": app, "appVer": 0}
            if nv < nl:
                ups = [{"id": "v%d" % i, "power": 0} for i in range(nv + 1, nl + 1)]
            else:
                ups = [{"id": "v%d" % i, "power": 2} for i in range(nl + 1, nv + 1)]
            steps = [mk(), ap(ups, 1), mk(), ap([], 2), mk(fill), ap([], 3)]
        runs.append({"id": "s%d" % idx, "genesis": gen, "steps": steps, "seed": rng.randrange(1 << 30)})
    return runs


def random_runs(table, n, rng):
    """Histories outside the exhaustive alphabet: up to 7 validators with random powers, random
    precommit subsets / timestamps / updates (chosen by the harness from the REAL sets), random
    perturbations; inputs only - nothing is judged here."""
    runs = []
    pus = [NOPU,
           {"any": True, "block": {"has": True, "maxBytes": 50000, "maxGas": 1000}, "evidence": NOPU["evidence"], "version": NOPU["version"]},
           {"any": True, "block": NOPU["block"], "evidence": {"has": True, "maxAgeBlocks": 2, "maxAgeDur": 2, "maxBytes": 800}, "version": NOPU["version"]},
           {"any": True, "block": NOPU["block"], "evidence": NOPU["evidence"], "version": {"has": True, "app": 9}},
           {"any": True, "block": NOPU["block"], "evidence": NOPU["evidence"], "version": NOPU["version"]},
           {"any": True, "block": {"has": True, "maxBytes": -1, "maxGas": 0}, "evidence": NOPU["evidence"], "version": NOPU["version"]}]
    for k in range(n):
        nv = rng.choice([1, 2, 3, 4, 4, 5, 7])
        style = rng.randrange(3)
        vals = [{"id": "v%d" % i, "power": 1 if style == 0 else (rng.randint(1, 10) if style == 1 else (10 if i == 1 else 1))}
                for i in rng.sample(range(1, 10), nv)]
        vals.sort(key=lambda v: (-v["power"], int(v["id"][1:])))
        gen = {"chain": rng.choice(["c1", "test-chain-%d" % k]), "ih": rng.choice([1, 1, 4]), "vals": vals,
               "params": dict(table["params"]), "appHash": rng.choice(["A0", ""]), "appVer": rng.choice([0, 0, 3])}
        steps = []
        for h in range(rng.randint(3, 5)):
            txs = rng.sample(["t1", "t2", "t3", "t4"], rng.randint(0, 4))
            steps.append({"t": "make", "txs": txs, "ev": rng.choice(["none", "none", "one"]), "proposer": "",
                          "randVote": True, "randOps": 8})
            steps.append({"t": "apply", "randUpd": rng.random() < 0.6, "valUpdates": [], "pu": rng.choice(pus) if rng.random() < 0.4 else NOPU,
                          "rc": rng.choice(["ok", "ok", "fail1", "data"]), "appHash": rng.choice(["A%d" % (h + 1), "A%d" % (h + 1), ""])})
        runs.append({"id": "r%d" % k, "genesis": gen, "steps": steps, "seed": rng.randrange(1 << 30)})
    return runs


def execute(ctx, binp, runs, label, shards):
    """Run the harness over the runs (sharded, in parallel); returns the concatenated trace rows."""
    shards = max(1, min(shards, len(runs)))
    parts = [runs[i::shards] for i in range(shards)]
    outdir = ctx.subdir("c06-" + label)

    def one(i):
        inp = os.path.join(outdir, "in%d.json" % i)
        out = os.path.join(outdir, "out%d.ndjson" % i)
        with open(inp, "w") as f:
            json.dump({"runs": parts[i]}, f)
        rc, txt = ctx.run_test(binp, "^TestVerifC06$", {"VERIF_IN": inp, "VERIF_OUT": out}, timeout=1500,
                               label="%s#%d" % (label, i))
        if rc != 0:
            ctx.save_log("harness-" + label, txt)
            raise Undecided("C06 harness failed on %s shard %d (rc=%d): %s" % (label, i, rc, txt[-1500:]))
        rows = core.read_ndjson(out)
        os.remove(out)
        os.remove(inp)
        return rows

    rows = []
    with ThreadPoolExecutor(max_workers=shards) as ex:
        for r in ex.map(one, range(shards)):
            rows.extend(r)
    return rows


def classify(ctx, verdict, res, rows_label):
    for v in res["viol"]:
        row = v["row"]
        sig = {"inv": v["inv"], "class": v["class"], "ev": row["ev"]}
        verdict.add(sig, {"failing_step": row, "prefix": v["prefix"], "tlc": {"inv": v["inv"], "class": v["class"]},
                          "source": rows_label})


# ------------------------------------------------------------------------------------------
def run(ctx):
    quick = ctx.tier == "quick"
    workers = min(8, ctx.cores)
    rng = random.Random(ctx.seed)

    # ---- 1. design spec: exhaustive histories with every perturbation ----------------------
    G3 = gset(["g2211", "g1111", "g111h"])
    G5 = gset(["g2211", "g1111", "g511", "g111h", "g1"])
    if quick:
        main_cfgs = [("chain", {"MaxHeights": 3, "MaxDev": 1, "GenesisChoices": G3, "AllSigIdx": False})]
        export = {"MaxHeights": 3, "MaxDev": 1, "GenesisChoices": G3, "AllSigIdx": False}
        export2 = None
        nrandom = 80
    else:
        # the second configuration (all PAIRS of deviations) is model-checked with every perturbation and its
        # histories are replayed without the perturbations (those are replayed at the blocks of the first one)
        main_cfgs = [("chain_h4d1", {"MaxHeights": 4, "MaxDev": 1, "GenesisChoices": G5, "AllSigIdx": True}),
                     ("chain_h3d2", {"MaxHeights": 3, "MaxDev": 2, "GenesisChoices": gset(["g2211", "g1111"]), "AllSigIdx": False})]
        export = {"MaxHeights": 4, "MaxDev": 1, "GenesisChoices": G5, "AllSigIdx": True}
        export2 = {"MaxHeights": 3, "MaxDev": 2, "GenesisChoices": gset(["g2211", "g1111"]), "AllSigIdx": False}
        nrandom = 2000
    states = trans = 0
    # development knob (mutation testing of the binding only): skip the model checking that does not depend on the Go tree
    skip_design = os.environ.get("VERIF_C06_SKIP_DESIGN") == "1"
    if skip_design:
        main_cfgs = []
        ctx.notes.append("VERIF_C06_SKIP_DESIGN=1: design-level TLC runs skipped")
    for name, consts in main_cfgs:
        cfg = core.cfg_variant(ctx, "C06_chain.cfg", "C06_%s_run.cfg" % name, consts)
        r = ctx.tlc("C06_chain", cfg, must_pass=True, timeout=1500, workers=workers, heap="6g", label=name)
        states += r.distinct
        trans += r.generated

    # ---- 2. non-vacuity: every weakened spec is refuted; the strict readings are refuted ---
    nonvac = {}
    strict = {}

    def weak_run(w):
        cfg = core.cfg_variant(ctx, "C06_weak_%s.cfg" % w, "C06_weak_%s_run.cfg" % w, {"MaxHeights": 3})
        return w, ctx.tlc("C06_chain", cfg, timeout=600, workers=2, heap="2g", label="weak_" + w)

    def strict_run(inv):
        cfg = core.cfg_variant(ctx, "C06_strict.cfg", "C06_strict_%s.cfg" % inv, {}, invariants=[inv])
        return inv, ctx.tlc("C06_chain", cfg, timeout=600, workers=2, heap="2g", label="strict_" + inv)

    ctx.spec_copy()
    with ThreadPoolExecutor(max_workers=4) as ex:
        wres = list(ex.map(weak_run, [] if skip_design else list(WEAK)))
        sres = list(ex.map(strict_run, [] if skip_design else ["MadeBlocksValid", "MedianIsExactWeightedMedian"]))
    for w, r in wres:
        invs = WEAK[w]
        if r.errors or r.timed_out or not any(v["name"] in invs for v in r.violations):
            ctx.save_log("weak_" + w, r.out)
            raise Undecided("vacuity: weakened spec Weak_%s is not refuted by %s" % (w, invs))
        nonvac["Weak_%s refuted (%s)" % (w, r.violations[0]["name"])] = True
    for inv, r in sres:
        if r.errors or r.timed_out:
            raise Undecided("strict config %s did not run" % inv)
        strict[inv] = any(v["name"] == inv for v in r.violations)

    # ---- 3. export every history of the bounded graph, with the perturbation set of every made block
    cfg = core.cfg_variant(ctx, "C06_export.cfg", "C06_export_run.cfg", export)
    rx = ctx.tlc("C06_chain", cfg, must_pass=True, timeout=900, workers=1, heap="4g", label="export")
    table, trails, ops = parse_printed(rx.out)
    if table is None or not trails:
        raise Undecided("TLC exported no histories")
    runs_t, nprefix, nops = runs_from_trails(table, trails, ops)
    runs_p = []
    if export2:
        cfg = core.cfg_variant(ctx, "C06_export.cfg", "C06_export2_run.cfg", export2, invariants=["EmitTable", "EmitTrail", "MadeBlocksValid"])
        rx2 = ctx.tlc("C06_chain", cfg, must_pass=True, timeout=900, workers=1, heap="4g", label="export_pairs")
        _t, trails2, _o = parse_printed(rx2.out)
        for k, tr in enumerate(sorted(trails2, key=lambda t: json.dumps(t, sort_keys=True))):
            steps = []
            for st in tr[1:]:
                if st["t"] == "make":
                    steps.append({"t": "make", "txs": list(st["txs"]), "ev": st["ev"], "proposer": st["proposer"],
                                  "votes": list(st["votes"]), "ops": []})
                else:
                    steps.append({"t": "apply", "valUpdates": list(st["valUpdates"]), "pu": st["pu"], "rc": st["rc"],
                                  "appHash": st["appHash"]})
            runs_p.append({"id": "p%d" % k, "genesis": genesis_of(table, tr[0]["g"]), "steps": steps, "seed": k})
    runs_s = size_runs(table, quick, rng)
    runs_r = random_runs(table, nrandom, rng)
    log("replay: %d histories (%d made blocks, %d perturbations), %d pair histories, %d size cases, %d random histories" % (
        len(runs_t), nprefix, nops, len(runs_p), len(runs_s), len(runs_r)))

    # ---- 4. replay on the real code ------------------------------------------------------------
    binp = ctx.go_build_test("state", ["zz_verif_c06_test.go"])
    shards = max(2, min(8, ctx.cores // 2))
    rows_t = execute(ctx, binp, runs_t, "graph", shards)
    rows_p = execute(ctx, binp, runs_p, "pairs", shards) if runs_p else []
    rows_s = execute(ctx, binp, runs_s, "size", shards)
    rows_r = execute(ctx, binp, runs_r, "random", shards)
    # ---- 5. trace validation -------------------------------------------------------------------
    # (a TLC start costs ~8 s, an event well under a millisecond: few, large chunks)
    chunk = max(4000, (len(rows_t) + len(rows_p)) // 6 + 1)
    vt = core.validate_traces(ctx, "TMBlockValidityTrace", rows_t + rows_p, label="graph", max_events=chunk, timeout=1500, heap="4g")
    vs = core.validate_traces(ctx, "TMBlockValidityTrace", rows_s, label="size", max_events=20000, timeout=1500)
    vr = core.validate_traces(ctx, "TMBlockValidityTrace", rows_r, label="random", max_events=max(4000, len(rows_r) // 4 + 1), timeout=1500, heap="4g")

    # ---- 6. verdict ----------------------------------------------------------------------------
    # the replay must be complete for an "all clear"; a violation observed on an incomplete replay (runs of a
    # broken tree end early) is reported all the same
    skipped = [r for r in rows_t + rows_p if r["ev"] == "Skip"]
    made = sum(1 for r in rows_t if r["ev"] == "Make")
    pert = sum(1 for r in rows_t if r["ev"] == "Perturb")
    incomplete = None
    if skipped:
        incomplete = "the harness could not execute %d exported steps, e.g. %s" % (len(skipped), skipped[0].get("why"))
    elif pert != nops:
        incomplete = "harness executed %d of %d exported perturbations" % (pert, nops)
    verdict = core.Verdict(ctx)
    classify(ctx, verdict, vt, "graph")
    classify(ctx, verdict, vs, "size")
    classify(ctx, verdict, vr, "random")
    if incomplete and not verdict.new:
        raise Undecided(incomplete)
    drift = vt["drift"] + vs["drift"] + vr["drift"]

    allrows = rows_t + rows_p + rows_s + rows_r
    distinct = set()
    for r in allrows:
        if r["ev"] == "Perturb":
            d = dict(r["delta"])
            distinct.add(hashlib.sha1(json.dumps([r["op"], d, r["accepted"]], sort_keys=True).encode()).hexdigest())
        elif r["ev"] == "Make":
            distinct.add(hashlib.sha1(json.dumps([r["block"], r["accepted"]], sort_keys=True).encode()).hexdigest())
        elif r["ev"] == "Apply":
            distinct.add(hashlib.sha1(json.dumps([r["resp"], r["post"], r["ok"], [(x["variant"], x["mode"], x["ok"]) for x in r["rec"]]],
                                                 sort_keys=True).encode()).hexdigest())
    sizes = [r for r in rows_s + rows_r + rows_t if r["ev"] == "Make" and r["req"]["fill"] > 0]
    over = [r for r in sizes if r["bytes"] > r["maxBytes"]]
    coverage = {
        "states": states + rx.distinct,
        "transitions": trans + rx.generated,
        "traces_validated_against_impl": vt["runs"] + vs["runs"] + vr["runs"],
        "evaluations": len(allrows),
        "distinct_nontrivial": len(distinct),
        "rule": "every history of the bounded TMBlockChain graph (export config: heights/deviations/genesis as listed in "
                "tlc_runs) is executed on two real replicas; at every made block the complete TMBlockPerturb alphabet TLC "
                "enumerated for it is applied to the real protobuf block and offered to the real ValidateBlock; distinct = "
                "sha1 of (operation, observed delta, verdict) / (observed block, verdict) / (responses, observed next state); "
                "every applied block is also applied on two nodes that crash before stateStore.Save and recover through "
                "Handshaker.ReplayBlocks from the stored ABCI responses (DiscardABCIResponses false / true)",
        "samples": [core.abridge([r for r in rows_t if r["ev"] == "Perturb"][:3], 3),
                    core.abridge([{k: r[k] for k in ("ev", "resp", "ok", "sA", "sB", "post")} for r in rows_t if r["ev"] == "Apply"][:1], 1),
                    core.abridge([{k: r[k] for k in ("ev", "bytes", "partsBytes", "maxBytes", "nVals", "nLastVals", "ntx")} for r in sizes[:3]], 3)],
        "exhaustive": not skip_design and not incomplete,
        "tlc_runs": ctx.tlc_stats,
        "graph_histories_replayed": len(runs_t),
        "pair_histories_replayed_without_perturbations": len(runs_p),
        "graph_made_blocks_replayed": made,
        "graph_perturbations_replayed": pert,
        "blocks_applied_through_crash_recovery": sum(1 for r in allrows if r["ev"] == "Apply" for x in r["rec"]
                                                     if x["ok"] and x["mode"] == "crash_replay"),
        "blocks_recovery_variant_not_applicable": sum(1 for r in allrows if r["ev"] == "Apply" for x in r["rec"]
                                                      if x["mode"] != "crash_replay"),
        "size_cases": len(runs_s),
        "size_proposals_measured": len(sizes),
        "size_proposals_over_maxbytes": len(over),
        "size_proposals_panicked_budget": sum(1 for r in allrows if r["ev"] == "MakePanic"),
        "random_histories": len(runs_r),
        "random_steps_skipped": sum(1 for r in rows_r + rows_s if r["ev"] == "Skip"),
        "conformance_drift": [{"what": d["what"], "step": core.abridge(d["row"])} for d in drift[:5]],
        "conformance_drift_count": len(drift),
        "nonvacuity": dict(nonvac, **{"strict %s (no exemption) refuted by TLC" % k: v for k, v in strict.items()}),
        "known_findings_reproduced": dict(verdict.known),
    }
    rc = verdict.finish()
    ctx.write_evidence(coverage, [
        "hashes are canonical strings of their pre-image (collision-freedom assumed), signatures canonical strings of "
        "signer and payload (unforgeability assumed); concrete bytes are named by an injective table per run",
        "proposer priorities are not in the abstract state (C08); the two replicas are compared on complete State.Bytes()",
        "evidence = duplicate-vote evidence only; the application is an in-process ABCI app fed abstract responses, the "
        "replicas' apps differ in every field the header does not commit to (log, info, events, codespace)",
        "the size clause is judged on application hashes of at most 32 bytes (the header budget)",
        "the crash is a state store whose Save fails after the application's Commit (the window of ApplyBlock's last "
        "fail point); the first block of a chain with initial height > 1 has no recovery path to compare (ReplayBlocks "
        "refuses store height > state height + 1 there) and is applied live on the recovery nodes",
        "a TLC verdict is accepted only if the verdict file covers every trace line",
    ], len(verdict.new))
    return rc


def replay(ctx, path):
    """Re-execute a stored failing run on the current tree and re-validate it."""
    with open(path) as f:
        rep = json.load(f)
    prefix = rep["replay"]["prefix"]
    if not prefix or prefix[0].get("ev") != "Reset":
        raise Undecided("replay file has no Reset line")
    steps = []
    for r in prefix[1:]:
        if r["ev"] == "Make":
            q = r["req"]
            fill = None
            if q["fill"] > 0:
                fill = {"txs": q["fill"], "minLen": 20, "maxLen": 180, "tiny": 60, "ev": len(q["ev"])}
            steps.append({"t": "make", "txs": q["txs"], "ev": "one" if (q["ev"] and not fill) else "none", "proposer": q["proposer"],
                          "votes": q["votes"], "ops": [], "fill": fill})
        elif r["ev"] == "Perturb":
            steps[-1]["ops"].append(r["op"])
        elif r["ev"] == "Apply":
            p = r["resp"]
            rc = "ok"
            if any(x["code"] != 0 for x in p["results"]):
                rc = "fail1"
            elif any(x["data"] for x in p["results"]):
                rc = "data"
            steps.append({"t": "apply", "valUpdates": p["valUpdates"], "pu": p["pu"], "rc": rc, "appHash": p["appHash"]})
    run1 = {"id": "replay", "genesis": prefix[0]["genesis"], "steps": steps, "seed": prefix[0].get("seed", 1)}
    binp = ctx.go_build_test("state", ["zz_verif_c06_test.go"])
    rows = execute(ctx, binp, [run1], "replay", 1)
    v = core.validate_traces(ctx, "TMBlockValidityTrace", rows, label="replay")
    verdict = core.Verdict(ctx)
    classify(ctx, verdict, v, "replay")
    for x in v["viol"]:
        log("replay: %s / %s fails at %s" % (x["inv"], x["class"], json.dumps(x["row"])[:300]))
    return verdict.finish()
