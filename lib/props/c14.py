"""C14 — State sync bootstraps only to light-verified state that the app reproduces.
Spec: spec/TMStateSyncOps.tla (step operators, property predicates), spec/TMStateSync.tla (state
machine); configs spec/mc/C14_*; trace spec spec/trace/TMStateSyncTrace.tla;
harness: harness/inpkg/statesync/zz_verif_c14_test.go (overlay, package statesync)."""
import hashlib
import json
import os
import re
from concurrent.futures import ThreadPoolExecutor

from vlib import core
from vlib.core import Undecided, log
from vlib.tlaparse import to_json, parse_behaviour_text

TRACE = "TMStateSyncTrace"
PROPS = ["TrustedOnly", "VerifiedBeforeDone", "InOrder", "AsRecorded", "RefetchHonoured", "NeverReused"]
ALLINV = PROPS + ["NoNilChunk", "PoolClean", "BlacklistExact", "ReturnedIsApplied", "OutcomeShape"]

# weak switch -> the statement property TLC must refute
WEAK = {
    "AppHashFromPeer": "TrustedOnly",
    "SkipVerifyApp": "VerifiedBeforeDone",
    "VerifyHashOnly": "VerifiedBeforeDone",
    "NextUpAnyOrder": "InOrder",
    "BlacklistForgets": "NeverReused",
    "RefetchIgnored": "RefetchHonoured",
    "RejectSendersIgnored": "NeverReused",
    "DupOverwrites": "AsRecorded",
    "RejectNotBlacklisted": "NeverReused",
    "FormatNotBlacklisted": "NeverReused",
    "NoSyncerLevelCheck": "NeverReused",
    "RemovePeerClearsBlacklist": "NeverReused",
    "RemovePeerClearsBlacklist2": "NeverReused",
    "LateChunkFromRejectedSender": "NeverReused",
}


def scenario_rejected_peer_returns():
    """A rejected sender disconnects, reconnects and advertises a better snapshot; on correct code the
    advertisement is refused and the run ends with 'no snapshots' (the rest does not apply)."""
    s1 = {"h": 2, "f": 1, "n": 2, "hash": "P:hashA", "meta": "P:metaA"}
    s2 = {"h": 3, "f": 1, "n": 1, "hash": "P:hashC", "meta": "P:metaC"}
    ok = {"op": "Provider", "ans": "ok"}
    out = []
    for how in ("apply", "offer"):
        st = [{"op": "AddSnapshot", "p": "pB", "s": s1}, {"op": "Start"}, dict(ok)]
        if how == "apply":
            st += [{"op": "Offer", "v": "accept"}, dict(ok), dict(ok),
                   {"op": "Arrive", "p": "pB", "i": 0, "b": "b0", "kind": "ok"},
                   {"op": "Apply", "v": "accept", "rf": [], "rs": ["pB"]},
                   {"op": "RemovePeer", "p": "pB"}, {"op": "AddSnapshot", "p": "pB", "s": s2},
                   {"op": "Arrive", "p": "pA", "i": 1, "b": "a1", "kind": "ok"},
                   {"op": "Apply", "v": "reject_snapshot", "rf": [], "rs": []}]
        else:
            st += [{"op": "RemovePeer", "p": "pA"},          # an unknown peer disconnects: nothing happens
                   {"op": "Offer", "v": "reject_sender"},
                   {"op": "RemovePeer", "p": "pB"}, {"op": "AddSnapshot", "p": "pB", "s": s2}]
            # SyncAny(0) has already returned 'no snapshots' on correct code; a second syncer life is not modelled
        st += [dict(ok), {"op": "Offer", "v": "accept"}, dict(ok), dict(ok), {"op": "FetcherAllocate"},
               {"op": "Request", "i": 0, "p": "pB"}, {"op": "Arrive", "p": "pB", "i": 0, "b": "b9", "kind": "ok"},
               {"op": "Apply", "v": "accept", "rf": [], "rs": []},
               {"op": "Info", "info": {"hash": "T:ah3", "height": 3, "ver": 13}}]
        out.append({"id": "attack/scenario_rejected_peer_returns_" + how, "steps": st})
    return out


# ------------------------------------------------------------------ TLC behaviours -> schedules
def act_to_step(a, k):
    """One design-spec action (the `act` record) as a driver step; None for the applier's
    internal steps (the real applier takes them by itself)."""
    n = a.get("name")
    if n == "AddSnapshot":
        return {"op": "AddSnapshot", "p": a["p"], "s": a["s"]}
    if n == "RemovePeer":
        return {"op": "RemovePeer", "p": a["p"]}
    if n == "Start":
        return {"op": "Start"}
    if n == "Arrive":
        # unique payload per arrival, so that AsRecorded can tell instances apart
        return {"op": "Arrive", "p": a["p"], "i": a["i"], "b": "%s%d" % (a["b"], k), "kind": a["kind"]}
    if n == "Provider":
        return {"op": "Provider", "which": a["which"], "ans": a["ans"]}
    if n == "AppOffer":
        return {"op": "Offer", "v": a["v"]}
    if n == "AppApply":
        return {"op": "Apply", "v": a["v"], "rf": sorted(a["rf"]), "rs": sorted(a["rs"])}
    if n == "AppInfo":
        return {"op": "Info", "info": a["ans"]}
    if n == "Timeout":
        return {"op": "Timeout"}
    if n == "FetcherAllocate":
        return {"op": "FetcherAllocate"}
    if n == "StaleFetch":        # a cancelled fetcher: Allocate, one request, exit
        out = [{"op": "FetcherAllocate"}]
        if a["p"] != "nil":
            out.append({"op": "Request", "i": a["i"], "p": a["p"]})
        return out
    if n == "RequestChunk":
        return {"op": "Request", "i": a["i"], "p": a["p"]}
    return None


def acts_to_sched(acts, sid, init_pool=None):
    steps = []
    for s, peers in (init_pool or []):
        for p in peers:
            steps.append({"op": "AddSnapshot", "p": p, "s": s})
    for k, a in enumerate(acts):
        st = act_to_step(a, k)
        if isinstance(st, list):
            steps += st
        elif st is not None:
            steps.append(st)
    return {"id": sid, "steps": steps}


def dedupe(scheds):
    """Drop schedules that are equal to, or a proper prefix of, another one."""
    keyed = {}
    for s in scheds:
        key = tuple(json.dumps(x, sort_keys=True) for x in s["steps"])
        keyed.setdefault(key, s)
    prefixes = set()
    for key in keyed:
        for n in range(len(key)):
            prefixes.add(key[:n])
    return [s for key, s in keyed.items() if key not in prefixes and key]


def graph_scheds(ctx, cfg, label, timeout):
    dot = os.path.join(ctx.work, label + ".dot")
    r = ctx.tlc("C14_sync", cfg, dump=["dot,actionlabels", dot], must_pass=True, timeout=timeout, label=label, workers=4)
    g = core.parse_dot(dot)
    os.remove(dot)
    scheds = []
    for nodes in core.graph_schedules(g):
        st0 = g.nodes[nodes[0]]
        acts = [to_json(g.nodes[nid]["act"]) for nid in nodes[1:]]
        scheds.append(acts_to_sched(acts, "%s/%s" % (label, nodes[-1]), pool_pairs(st0["pool"])))
    return r, len(g.nodes), dedupe(scheds)


def pool_pairs(pool):
    """The InitPool of a config as AddSnapshot steps (snapshot record keys come out of the
    parser as hashable tuples)."""
    out = []
    if not isinstance(pool, dict):
        return out
    for k, v in pool.items():
        snap = dict(k) if isinstance(k, tuple) else k
        out.append((to_json(snap), sorted(to_json(v))))
    out.sort(key=lambda x: json.dumps(x[0], sort_keys=True))
    return out


def behaviour_sched(states, sid):
    if not states:
        return None
    acts = [to_json(s["act"]) for s in states[1:]]
    return acts_to_sched(acts, sid, pool_pairs(states[0].get("pool")))


def rows_to_sched(prefix):
    """A logged mode-D run (trace lines) as a schedule (for --replay)."""
    steps = []
    for r in prefix:
        ev = r.get("ev")
        if ev == "AddSnapshot":
            steps.append({"op": ev, "p": r["p"], "s": r["s"]})
        elif ev == "RemovePeer":
            steps.append({"op": ev, "p": r["p"]})
        elif ev in ("Start", "Timeout", "FetcherAllocate"):
            steps.append({"op": ev})
        elif ev == "Arrive":
            steps.append({"op": ev, "p": r["p"], "i": r["i"], "b": r["b"], "kind": r["kind"]})
        elif ev == "ChunkSend":      # mode F line: replayed deterministically as an arrival
            steps.append({"op": "Arrive", "p": r["p"], "i": r["i"], "b": r["b"], "kind": "ok"})
        elif ev == "Provider":
            steps.append({"op": ev, "which": r["which"], "ans": r["ans"]})
        elif ev == "Offer":
            steps.append({"op": ev, "v": r["v"]})
        elif ev == "Apply":
            steps.append({"op": ev, "v": r["v"], "rf": r["rf"], "rs": r["rs"]})
        elif ev == "Info":
            steps.append({"op": ev, "info": r["ans"]})
    if not any(x["op"] == "Start" for x in steps):   # mode F runs have no Start line
        k = 0
        while k < len(steps) and steps[k]["op"] == "AddSnapshot":
            k += 1
        steps.insert(k, {"op": "Start"})
    return {"id": "replay", "steps": steps}


# ------------------------------------------------------------------ harness
def build(ctx):
    """Two test binaries: the tree as it is (mode F), and the tree with the chunk timeout
    constant of syncer.go shortened (mode D: the Timeout step must fire in milliseconds).
    The only line changed is the value of `chunkTimeout`."""
    plain = ctx.go_build_test("statesync", ["zz_verif_c14_test.go", "zz_verif_c14sp_test.go"], name="c14_plain")
    src = os.path.join(ctx.repo, "statesync", "syncer.go")
    fast = plain
    patched = False
    try:
        with open(src) as f:
            txt = f.read()
        new, n = re.subn(r'(chunkTimeout\s*=\s*)2 \* time\.Minute', r'\g<1>600 * time.Millisecond', txt)
        if n == 1:
            d = ctx.subdir("patched")
            with open(os.path.join(d, "syncer.go"), "w") as f:
                f.write(new)
            hsrc = os.path.join(ctx.verif, "harness", "inpkg", "statesync", "zz_verif_c14_test.go")
            fast = ctx.go_build_test("statesync", [hsrc, os.path.join(d, "syncer.go")], name="c14_fast")
            patched = True
    except OSError:
        pass
    return plain, fast, patched


def run_harness(ctx, binp, inp, label, timeout=1500):
    path = os.path.join(ctx.work, "c14-in-%s.json" % label)
    with open(path, "w") as f:
        json.dump(inp, f)
    out = ctx.subdir("c14-out-" + label)
    rc, txt = ctx.run_test(binp, "^TestVerifC14$", {"VERIF_IN": path, "VERIF_OUT": out}, timeout=timeout, label=label)
    if rc != 0:
        stuck = os.path.join(out, "stuck.txt")
        if os.path.exists(stuck):
            with open(stuck) as f:
                txt += "\n==== goroutines of the stuck run ====\n" + f.read()
        ctx.save_log("harness-" + label, txt)
        raise Undecided("C14 harness (%s) failed (rc=%d): %s" % (label, rc, txt[-1500:]))
    with open(os.path.join(out, "summary.json")) as f:
        summary = json.load(f)
    rows_d = core.read_ndjson(os.path.join(out, "d.ndjson"))
    rows_f = core.read_ndjson(os.path.join(out, "f.ndjson"))
    return rows_d, rows_f, summary


def add_violations(verdict, v):
    for x in v["viol"]:
        row = x["row"]
        sig = {"inv": x["inv"], "class": x["class"], "ev": row["ev"], "mode": row.get("mode", "D")}
        verdict.add(sig, {"failing_step": row, "prefix": x["prefix"], "tlc": {"inv": x["inv"], "class": x["class"]}})


def run(ctx, skip_exhaustive=False):
    quick = ctx.tier == "quick"
    ctx.spec_copy()          # not thread safe on first use
    pool = ThreadPoolExecutor(max_workers=2)

    # ---- 1. design spec, exhaustive facets ------------------------------------------------
    if quick:
        facets = [
            ("C14_chunks.cfg", {"MaxArrive": 3, "MaxBad": 1}),
            ("C14_pool.cfg", {"MaxChurn": 2, "MaxBad": 2}),
            ("C14_twin.cfg", {"MaxChurn": 2, "MaxBad": 1}),
            ("C14_fetch.cfg", {"MaxArrive": 2, "MaxBad": 1}),
            ("C14_small.cfg", {"MaxChurn": 1, "MaxArrive": 2, "MaxBad": 1}),
        ]
    else:
        facets = [
            ("C14_chunks.cfg", {"MaxArrive": 5, "MaxBad": 3}),
            ("C14_pool.cfg", {"MaxChurn": 3, "MaxBad": 3}),
            ("C14_twin.cfg", {"MaxChurn": 3, "MaxBad": 2}),
            ("C14_fetch.cfg", {"MaxArrive": 3, "MaxBad": 2}),
            ("C14_small.cfg", {"MaxChurn": 2, "MaxArrive": 3, "MaxBad": 1}),
        ]

    def exhaustive(item):
        base, consts = item
        name = base.replace(".cfg", "_run.cfg")
        cfg = core.cfg_variant(ctx, base, name, consts)
        return ctx.tlc("C14_sync", cfg, must_pass=True, timeout=1500 if quick else 3000, label=base[:-4], workers=4,
                       heap="4g")

    ex_futs = [pool.submit(exhaustive, it) for it in ([] if skip_exhaustive else facets)]

    # ---- 2. non-vacuity: every weakened spec must be refuted (counterexamples become schedules)
    def weak(name):
        r = ctx.tlc("C14_sync", "C14_weak_%s.cfg" % name, timeout=600, label="weak_" + name, workers=2)
        return name, r

    weak_futs = [pool.submit(weak, n) for n in WEAK]

    # ---- 3. build the harness while TLC runs
    plain, fast, patched = build(ctx)

    ex = [f.result() for f in ex_futs]
    attack = []
    nonvac = {}
    for f in weak_futs:
        name, r = f.result()
        hit = [v for v in r.violations if v["name"] == WEAK[name]]
        if not hit:
            ctx.save_log("weak_" + name, r.out)
            raise Undecided("vacuity: weakened spec %s does not violate %s (%s)" % (
                name, WEAK[name], (r.errors or [v["name"] for v in r.violations] or ["no violation"])[:2]))
        nonvac["Weak_%s refuted (%s)" % (name, WEAK[name])] = True
        states = [s for _h, s in hit[0]["trace"]]
        s = behaviour_sched(states, "attack/" + name)
        if s:
            attack.append(s)

    # ---- 4. act-augmented state graphs (no VIEW) -> every state reached on the real code
    if quick:
        graphs = [
            ("C14_chunks.cfg", "g_chunks", {"NChunks1": 2, "MaxArrive": 2, "MaxBad": 1}),
            ("C14_gpool.cfg", "g_pool", {"MaxBad": 1}),
            ("C14_fetch.cfg", "g_fetch", {"Fetchers": 1, "MaxArrive": 1, "MaxBad": 1}),
        ]
    else:
        graphs = [
            ("C14_chunks.cfg", "g_chunks", {"NChunks1": 2, "MaxArrive": 3, "MaxBad": 1}),
            ("C14_chunks.cfg", "g_chunks3", {"NChunks1": 3, "MaxArrive": 3, "MaxBad": 1}),
            ("C14_pool.cfg", "g_pool", {"MaxChurn": 2, "MaxBad": 1}),
            ("C14_gpool.cfg", "g_pool2", {"MaxChurn": 2, "MaxBad": 1}),
            ("C14_twin.cfg", "tw_twin", {"MaxChurn": 2, "MaxBad": 1}),
            ("C14_fetch.cfg", "g_fetch", {"Fetchers": 2, "MaxArrive": 2, "MaxBad": 1}),
        ]

    def graph(item):
        base, label, consts = item
        cfg = core.cfg_variant(ctx, base, label + ".cfg", consts, drop_view=True, invariants=[])
        return graph_scheds(ctx, cfg, label, 1500 if quick else 3000)

    graph_res = list(pool.map(graph, graphs))
    scheds = list(attack) + scenario_rejected_peer_returns()
    graph_states = 0
    twin_states = 0
    for (base, label, _c), (r, nstates, ss) in zip(graphs, graph_res):
        if label.startswith("tw_"):
            twin_states += nstates    # ranking ties are decided by Go map order: not part of the exhaustive claim
        else:
            graph_states += nstates
        scheds += ss

    # ---- 5. simulation of the large config -> schedules
    nsim = 60 if quick else 1500
    simdir = ctx.subdir("sim")
    rs = ctx.tlc("C14_sync", core.cfg_variant(ctx, "C14_sim.cfg", "C14_sim_run.cfg", {}, drop_view=True, invariants=ALLINV),
                 simulate="file=%s,num=%d" % (os.path.join(simdir, "b"), nsim), depth=90, seed=ctx.seed, workers=1,
                 timeout=900, label="simulate")
    if rs.violations or rs.errors:
        ctx.save_log("simulate", rs.out)
        raise Undecided("simulation of C14_sim found a design-spec violation or error: %s" % (
            (rs.errors or [v["name"] for v in rs.violations])[:2]))
    nsimb = 0
    for fn in sorted(os.listdir(simdir)):
        with open(os.path.join(simdir, fn)) as f:
            # -simulate files carry the action location as a TLA+ comment line before each state
            txt = "\n".join(ln for ln in f.read().splitlines() if not ln.startswith("\\*"))
        states = [s for _h, s in parse_behaviour_text(txt)]
        s = behaviour_sched(states, "sim/" + fn)
        if s and s["steps"]:
            scheds.append(s)
            nsimb += 1

    # ---- 6. replay on the real code
    nrandom = 150 if quick else 3000
    nfree = 150 if quick else 2000
    rows_d, _unused, sum_d = run_harness(ctx, fast, {"scheds": scheds, "random_d": nrandom, "free_f": 0, "par": 8}, "d")
    rows_f = []
    sum_f = {}
    if nfree:
        _d, rows_f, sum_f = run_harness(ctx, plain, {"scheds": [], "random_d": 0, "free_f": nfree, "par": 8}, "f")

    # the real lightClientStateProvider over a real light client (mode P lines)
    out_p = ctx.subdir("c14-out-p")
    rc_p, txt_p = ctx.run_test(plain, "^TestVerifC14SP$", {"VERIF_OUT": out_p}, timeout=900, label="sp")
    if rc_p != 0:
        ctx.save_log("harness-sp", txt_p)
        raise Undecided("C14 state-provider harness failed (rc=%d): %s" % (rc_p, txt_p[-1500:]))
    rows_p = core.read_ndjson(os.path.join(out_p, "p.ndjson"))

    # ---- 7. trace validation (TLC on observed behaviour)
    vd = core.validate_traces(ctx, TRACE, rows_d, max_events=4000, label="d", timeout=1500)
    vf = core.validate_traces(ctx, TRACE, rows_f, max_events=4000, label="f", timeout=1500) if rows_f else \
        {"viol": [], "drift": [], "runs": 0, "events": 0}

    vp = core.validate_traces(ctx, TRACE, rows_p, max_events=4000, label="p", timeout=900)

    # ---- 8. verdict, evidence
    verdict = core.Verdict(ctx)
    add_violations(verdict, vd)
    add_violations(verdict, vf)
    add_violations(verdict, vp)
    drift = vd["drift"] + vf["drift"] + vp["drift"]
    graph_cut = [i for i in (sum_d.get("skipped_ids") or []) if i.startswith("g_")]

    distinct = set()
    outcomes = {}
    verdicts_seen = set()
    for r in rows_d:
        ev = r.get("ev")
        if ev in ("Offer", "Apply", "Arrive", "Provider", "Info", "Timeout", "AddSnapshot", "RemovePeer"):
            key = {k: r[k] for k in r if k not in ("run", "post", "reqs", "b", "mode")}
            key["post"] = r["post"]
            distinct.add(hashlib.sha1(json.dumps(key, sort_keys=True).encode()).hexdigest())
        if ev == "End":
            outcomes[r["kind"]] = outcomes.get(r["kind"], 0) + 1
        if ev in ("Offer", "Apply"):
            verdicts_seen.add("%s:%s%s%s" % (ev, r["v"], "+refetch" if r.get("rf") else "", "+reject_senders" if r.get("rs") else ""))
    sample_run = []
    for r in rows_d:
        if r.get("ev") == "Reset" and sample_run:
            if any(x.get("ev") == "End" and x.get("kind") == "done" for x in sample_run) and \
                    any(x.get("ev") == "Apply" and x.get("v") != "accept" for x in sample_run):
                break
            sample_run = []
        sample_run.append({k: v for k, v in r.items() if k != "post"})
    coverage = {
        "states": sum(r.distinct for r in ex) + sum(r.distinct for r, _n, _s in graph_res),
        "transitions": sum(r.generated for r in ex) + sum(r.generated for r, _n, _s in graph_res),
        "traces_validated_against_impl": vd["runs"] + vf["runs"] + vp["runs"],
        "evaluations": len(rows_d) + len(rows_f) + len(rows_p),
        "distinct_nontrivial": len(distinct),
        "rule": "every state of the act-augmented TMStateSync graphs (chunk / pool / fetcher facets, Atomic; the twin-snapshot graph too, "
                "as far as Go's map order decides the ranking tie the same way) reached by replaying "
                "its BFS path on a real syncer+chunkQueue+snapshotPool (gated app and state provider, driver-called AddChunk / "
                "Allocate / requestChunk); plus %d simulated behaviours of C14_sim (2 twin snapshots x 3 chunks x 2 peers, <= 6 "
                "non-accept answers), the %d counterexamples of the weakened specs as attack schedules, and %d seeded adaptive "
                "random runs, %d free-running runs with real fetcher goroutines, and every call x height x lie case of the real "
                "lightClientStateProvider; a step is distinct by (event, arguments, verdict, projected post-state)" % (
                    nsimb, len(attack), nrandom, nfree),
        "samples": [core.abridge(sample_run, 40)],
        "exhaustive": not graph_cut,
        "graph_schedules_cut_short": graph_cut[:10],
        "state_provider_cases": sum(1 for r in rows_p if r.get("ev") == "SP"),
        "state_provider_answers": sum(1 for r in rows_p if r.get("ev") == "SP" and r.get("ok")),
        "tlc_runs": ctx.tlc_stats,
        "graph_states_replayed": graph_states,
        "twin_graph_states_replayed_where_the_tie_allowed": twin_states,
        "schedules_replayed": len(scheds),
        "schedules_cut_short": sum_d.get("skipped_runs"),
        "schedule_steps_not_applicable": sum_d.get("skipped_steps"),
        "schedule_cut_reasons": sum_d.get("skips"),
        "schedule_cut_examples": sum_d.get("skip_examples"),
        "simulated_behaviours": nsimb,
        "random_runs": nrandom,
        "free_running_runs": nfree,
        "chunk_timeout_patched_for_mode_D": patched,
        "outcomes_observed": outcomes,
        "verdicts_observed": sorted(verdicts_seen),
        "conformance_drift": [{"what": d["what"], "step": {k: v for k, v in d["row"].items() if k != "post"}} for d in drift[:5]],
        "conformance_drift_count": len(drift),
        "nonvacuity": nonvac,
        "known_findings_reproduced": dict(verdict.known),
    }
    rc = verdict.finish()
    ctx.write_evidence(coverage, [
        "in the syncer runs the state provider is a mock whose answers stand for light-verified values (a function of the height, "
        "disjoint from every value a snapshot peer can claim); the real lightClientStateProvider is driven separately over a real "
        "light.Client with scripted providers and a local JSON-RPC server; the light client's own verification is C09",
        "mode D binary: the constant chunkTimeout of statesync/syncer.go is shortened at build time in a scratch copy "
        "(2 min -> 600 ms) so that the Timeout step can be replayed; nothing else differs from the tree",
        "fetcher goroutines are not started in mode D (ChunkFetchers = 0): the driver calls chunkQueue.Allocate and "
        "syncer.requestChunk in their place",
        "a TLC verdict is accepted only if the verdict file covers every trace line",
    ], len(verdict.new))
    return rc


def replay(ctx, path):
    """Re-execute the failing run of a stored replay on the current tree and re-validate it."""
    with open(path) as f:
        rep = json.load(f)
    prefix = rep["replay"]["prefix"]
    plain, fast, patched = build(ctx)
    if rep["replay"]["failing_step"].get("mode") == "P":
        # a state-provider case: the case table is fixed, run it again and judge the same case
        out_p = ctx.subdir("c14-out-p")
        rc_p, txt_p = ctx.run_test(plain, "^TestVerifC14SP$", {"VERIF_OUT": out_p}, timeout=900, label="sp")
        if rc_p != 0:
            raise Undecided("C14 state-provider harness failed: " + txt_p[-800:])
        want = {k: rep["replay"]["failing_step"].get(k) for k in ("call", "h", "lie", "at")}
        rows, keep = [], False
        for r in core.read_ndjson(os.path.join(out_p, "p.ndjson")):
            if r.get("ev") == "Reset":
                keep = False
                pending = r
                continue
            if all(r.get(k) == w for k, w in want.items()):
                rows += [pending, r]
        v = core.validate_traces(ctx, TRACE, rows, label="replay")
    else:
        sched = rows_to_sched(prefix)
        rows_d, _f, _s = run_harness(ctx, fast, {"scheds": [sched], "random_d": 0, "free_f": 0, "par": 1}, "replay")
        v = core.validate_traces(ctx, TRACE, rows_d, label="replay")
    verdict = core.Verdict(ctx)
    add_violations(verdict, v)
    for x in v["viol"]:
        log("replay: %s/%s fails at %s" % (x["inv"], x["class"], json.dumps({k: w for k, w in x["row"].items() if k != "post"})[:300]))
    return verdict.finish()
