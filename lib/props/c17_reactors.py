"""C17, hostile half: the message-class alphabet of spec/TMReactorAlphabet.tla executed on the real
reactors (one harness per reactor package), judged by TLC (spec/trace/TMReactorTrace.tla)."""
import json
import os
from concurrent.futures import ThreadPoolExecutor

from vlib import core
from vlib.core import Undecided, log
from vlib.tlaparse import to_json

# reactor name in the alphabet -> (package, harness files, test, settle ms)
PKGS = {
    "consensus": ("consensus", ["zz_verif_c17core_test.go", "zz_verif_c17_test.go"], "^TestVerifC17Reactor$", 15),
    "mempool": ("mempool/v0", ["zz_verif_c17core_test.go", "zz_verif_c17_test.go"], "^TestVerifC17Reactor$", 5),
    "evidence": ("evidence", ["zz_verif_c17core_test.go", "zz_verif_c17_test.go"], "^TestVerifC17Reactor$", 5),
    "blockchain": ("blockchain/v0", ["zz_verif_c17core_test.go", "zz_verif_c17_test.go"], "^TestVerifC17Reactor$", 5),
    "statesync": ("statesync", ["zz_verif_c17core_test.go", "zz_verif_c17_test.go"], "^TestVerifC17Reactor$", 5),
    "pex": ("p2p/pex", ["zz_verif_c17core_test.go", "zz_verif_c17_test.go"], "^TestVerifC17Reactor$", 5),
}


def available():
    out = {}
    for r, (pkg, files, test, settle) in PKGS.items():
        d = os.path.join(core.VERIF, "harness", "inpkg", pkg)
        if all(os.path.exists(os.path.join(d, f)) for f in files):
            out[r] = (pkg, files, test, settle)
    return out


def case_key(c):
    return "%s:%s:%s:%s:%s" % (c["reactor"], c["kind"], c["fc"], c["ps"], c["enc"])


def select(cases, quick):
    """quick tier: every field class in every peer state with the intact encoding; the damaged
    encodings of each kind only in one peer state per reactor.  thorough: everything."""
    if not quick:
        return cases
    one_ps = {"consensus": "nrs", "mempool": "fresh", "evidence": "fresh", "blockchain": "fresh_synced",
              "statesync": "idle", "pex": "fresh"}
    return [c for c in cases if c["enc"] == "proto" or c["ps"] == one_ps.get(c["reactor"])]


# consensus: one harness process per node-state class (the environments are independent)
CONS_ENV = {"fresh": "h1", "nrs": "h1", "mid": "h1", "nrs_h2": "h2", "behind": "h2", "syncing": "sync"}


def shards(reactor, cases):
    if reactor != "consensus":
        return {reactor: cases}
    out = {}
    for c in cases:
        out.setdefault("consensus-" + CONS_ENV.get(c["ps"], "h1"), []).append(c)
    return out


def run_one(ctx, run_resilient, binp, reactor, shard, spec, cases):
    pkg, files, test, settle = spec
    units = []
    for i, c in enumerate(sorted(cases, key=case_key)):
        u = dict(c)
        u["unit"] = i
        units.append(u)
    inp = {"cases": units, "settle_ms": settle}
    outp = os.path.join(ctx.work, "reactor-%s.ndjson" % shard)
    rows, crashes = run_resilient(ctx, binp, test, inp, outp, "reactor-" + shard, max_crashes=60, timeout=1700)
    done = sum(1 for r in rows if r.get("ev") == "Hostile")
    if done + len(crashes) < len(units) and not any(c["unit"] is None for c in crashes):
        raise Undecided("%s harness executed %d of %d cases" % (shard, done + len(crashes), len(units)))
    return reactor, rows, crashes, len(units)


def hostile_half(ctx, verdict, cov, quick, only=None):
    from props.c17 import run_resilient
    dump = os.path.join(ctx.work, "alphabet")
    ra = ctx.tlc("C17_alphabet", "C17_alphabet.cfg", dump=[dump], must_pass=True, timeout=600, label="alphabet", workers=2)
    allcases = [to_json(s["cs"]) for s in core.read_state_dump(dump + ".dump")]
    if not allcases:
        raise Undecided("no alphabet cases exported")
    # non-vacuity: with a Weak_ switch on, the alphabet contains a case whose specified consequence is not "drop/keep"
    for w in ("BitArrayUnchecked", "ProposalTotalUnbounded"):
        rw = ctx.tlc("C17_alphabet", "C17_weak_%s.cfg" % w, timeout=300, label="weak_" + w, workers=2)
        if not any(v["name"] == "SpecOnlyDrops" for v in rw.violations):
            raise Undecided("vacuity: Weak_%s does not violate SpecOnlyDrops (%s)" % (w, rw.errors[:2]))
        cov["nonvacuity"]["Weak_%s refuted by TLC (SpecOnlyDrops)" % w] = True
    pk = available()
    todo = {}
    skipped = {}
    chosen = select(allcases, quick)
    chosen_keys = {case_key(c) for c in chosen}
    for c in allcases:
        if case_key(c) in chosen_keys and c["reactor"] in pk and (only is None or case_key(c) in only):
            todo.setdefault(c["reactor"], []).append(c)
        else:
            skipped[c["reactor"]] = skipped.get(c["reactor"], 0) + 1
    bins = {}
    for r in sorted(todo):
        bins[r] = ctx.go_build_test(pk[r][0], pk[r][1], name="c17_" + r.replace("/", "_"))
    results = []
    with ThreadPoolExecutor(max_workers=8) as ex:
        futs = []
        for r, cs in sorted(todo.items()):
            for sh, sub in sorted(shards(r, cs).items()):
                futs.append(ex.submit(run_one, ctx, run_resilient, bins[r], r, sh, pk[r], sub))
        for f in futs:
            results.append(f.result())
    rows_all = []
    per = {}
    for reactor, rows, crashes, n in results:
        rows_all += rows
        p = per.setdefault(reactor, {"cases": 0, "process_crashes": [], "outcome_classes": {}})
        outcomes = p["outcome_classes"]
        for r in rows:
            if r.get("ev") == "Hostile":
                k = "stopped" if r["stopped"] else ("replied" if r["replies"] else "kept")
                if r["panic_caught"]:
                    k += "+panic_caught_by_production_recover"
                if not r.get("supported", True):
                    k = "not_executed"
                outcomes[k] = outcomes.get(k, 0) + 1
        p["cases"] += n
        p["process_crashes"] += crashes
    v = core.validate_traces(ctx, "TMReactorTrace", rows_all, label="reactors", max_events=3000)
    for x in v["viol"]:
        row = x["row"]
        sig = {"half": "reactor", "inv": x["inv"], "class": x["class"], "case": x["case"]}
        verdict.add(sig, {"failing_step": row, "prefix": x["prefix"], "tlc": {"inv": x["inv"], "class": x["class"], "case": x["case"]},
                          "crashes": [c for _r, _rows, cr, _n in results for c in cr][:10]})
    distinct = set()
    for r in rows_all:
        if r.get("ev") in ("Hostile", "Crash"):
            distinct.add(json.dumps({k: r.get(k) for k in ("reactor", "kind", "fc", "ps", "enc", "stopped", "barrier",
                                                           "panic_caught", "replies", "ev")}, sort_keys=True))
    cov["states"] += ra.distinct
    cov["transitions"] += ra.generated
    cov["traces_validated_against_impl"] += v["runs"]
    cov["evaluations"] += len(rows_all)
    cov["distinct_nontrivial"] += len(distinct)
    drift_by = {}
    for d in v["drift"]:
        drift_by[d["what"]] = drift_by.get(d["what"], 0) + 1
    cov["reactors"] = {
        "alphabet_cases_total": len(allcases), "alphabet_cases_executed": sum(p["cases"] for p in per.values()),
        "cases_of_reactors_without_harness_or_outside_tier": skipped, "per_reactor": per,
        "conformance_drift_count": len(v["drift"]), "conformance_drift_kinds": drift_by,
        "conformance_drift": [{"what": d["what"], "case": case_key(d["row"])} for d in v["drift"][:60]],
    }
    cov["samples"].append(core.abridge([r for r in rows_all if r.get("ev") == "Hostile"][:4], 4))
    return v


def replay(ctx, rep):
    from props.c17 import new_cov
    case = rep["signature"]["case"]
    verdict = core.Verdict(ctx)
    v = hostile_half(ctx, verdict, new_cov(), False, only={case})
    for x in v["viol"]:
        log("replay: %s/%s on case %s" % (x["inv"], x["class"], x["case"]))
    return verdict.finish()
