"""C17, hostile half: the message-class alphabet of spec/TMReactorAlphabet.tla executed on the real
reactors (one harness per reactor package), judged by TLC (spec/trace/TMReactorTrace.tla)."""
import json
import os
from concurrent.futures import ThreadPoolExecutor

from vlib import core
from vlib.core import Undecided, log
from vlib.tlaparse import to_json

# reactor name in the alphabet -> (package, harness files, test, settle ms)
PKGS = {
    "consensus": ("consensus", ["zz_verif_c17core_test.go", "zz_verif_c17_test.go"], "^TestVerifC17Reactor$", 15),
    "mempool": ("mempool/v0", ["zz_verif_c17core_test.go", "zz_verif_c17_test.go"], "^TestVerifC17Reactor$", 5),
    "evidence": ("evidence", ["zz_verif_c17core_test.go", "zz_verif_c17_test.go"], "^TestVerifC17Reactor$", 5),
    "blockchain": ("blockchain/v0", ["zz_verif_c17core_test.go", "zz_verif_c17_test.go"], "^TestVerifC17Reactor$", 5),
    "statesync": ("statesync", ["zz_verif_c17core_test.go", "zz_verif_c17_test.go"], "^TestVerifC17Reactor$", 5),
    "pex": ("p2p/pex", ["zz_verif_c17core_test.go", "zz_verif_c17_test.go"], "^TestVerifC17Reactor$", 5),
}


def available():
    out = {}
    for r, (pkg, files, test, settle) in PKGS.items():
        d = os.path.join(core.VERIF, "harness", "inpkg", pkg)
        if all(os.path.exists(os.path.join(d, f)) for f in files):
            out[r] = (pkg, files, test, settle)
    return out


def case_key(c):
    return "%s:%s:%s:%s:%s" % (c["reactor"], c["kind"], c["fc"], c["ps"], c["enc"])


def select(cases, quick):
    """quick tier: every field class in every peer state with the intact encoding; the damaged
    encodings of each kind only in one peer state per reactor.  thorough: everything."""
    if not quick:
        return cases
    one_ps = {"consensus": "nrs", "mempool": "fresh", "evidence": "fresh", "blockchain": "fresh_synced",
              "statesync": "idle", "pex": "fresh"}
    return [c for c in cases if c["enc"] == "proto" or c["ps"] == one_ps.get(c["reactor"])]


# consensus: one harness process per node-state class (the environments are independent)
CONS_ENV = {"fresh": "h1", "nrs": "h1", "mid": "h1", "nrs_h2": "h2", "behind": "h2", "syncing": "sync"}


def shards(reactor, cases):
    if reactor != "consensus":
        return {reactor: cases}
    out = {}
    for c in cases:
        out.setdefault("consensus-" + CONS_ENV.get(c["ps"], "h1"), []).append(c)
    return out


def run_one(ctx, run_resilient, binp, reactor, shard, spec, cases):
    pkg, files, test, settle = spec
    units = []
    for i, c in enumerate(sorted(cases, key=case_key)):
        u = dict(c)
        u["unit"] = i
        units.append(u)
    inp = {"cases": units, "settle_ms": settle}
    outp = os.path.join(ctx.work, "reactor-%s.ndjson" % shard)
    rows, crashes = run_resilient(ctx, binp, test, inp, outp, "reactor-" + shard, max_crashes=60, timeout=1700)
    done = sum(1 for r in rows if r.get("ev") == "Hostile")
    if done + len(crashes) < len(units) and not any(c["unit"] is None for c in crashes):
        raise Undecided("%s harness executed %d of %d cases" % (shard, done + len(crashes), len(units)))
    return reactor, rows, crashes, len(units)


def hostile_half(ctx, verdict, cov, quick, only=None):
    from props.c17 import run_resilient
    dump = os.path.join(ctx.work, "alphabet")
    ra = ctx.tlc("C17_alphabet", "C17_alphabet.cfg", dump=[dump], must_pass=True, timeout=600, label="alphabet", workers=2)
    allcases = [to_json(s["cs"]) for s in core.read_state_dump(dump + ".dump")]
    if not allcases:
        raise Undecided("no alphabet cases exported")
    # non-vacuity: with a Weak_ switch on, the alphabet contains a case whose specified consequence is not "drop/keep"
    for w in ("BitArrayUnchecked", "ProposalTotalUnbounded"):
        rw = ctx.tlc("C17_alphabet", "C17_weak_%s.cfg" % w, timeout=300, label="weak_" + w, workers=2)
        if not any(v["name"] == "SpecOnlyDrops" for v in rw.violations):
            raise Undecided("vacuity: Weak_%s does not violate SpecOnlyDrops (%s)" % (w, rw.errors[:2]))
        cov["nonvacuity"]["Weak_%s refuted by TLC (SpecOnlyDrops)" % w] = True
    pk = available()
    todo = {}
    skipped = {}
    chosen = select(allcases, quick)
    chosen_keys = {case_key(c) for c in chosen}
    for c in allcases:
        if case_key(c) in chosen_keys and c["reactor"] in pk and (only is None or case_key(c) in only):
            todo.setdefault(c["reactor"], []).append(c)
        else:
            skipped[c["reactor"]] = skipped.get(c["reactor"], 0) + 1
    bins = {}
    for r in sorted(todo):
        bins[r] = ctx.go_build_test(pk[r][0], pk[r][1], name="c17_" + r.replace("/", "_"))
    results = []
    with ThreadPoolExecutor(max_workers=8) as ex:
        futs = []
        for r, cs in sorted(todo.items()):
            for sh, sub in sorted(shards(r, cs).items()):
                futs.append(ex.submit(run_one, ctx, run_resilient, bins[r], r, sh, pk[r], sub))
        for f in futs:
            results.append(f.result())
    rows_all = []
    per = {}
    for reactor, rows, crashes, n in results:
        rows_all += rows
        p = per.setdefault(reactor, {"cases": 0, "process_crashes": [], "outcome_classes": {}})
        outcomes = p["outcome_classes"]
        for r in rows:
            if r.get("ev") == "Hostile":
                k = "stopped" if r["stopped"] else ("replied" if r["replies"] else "kept")
                if r["panic_caught"]:
                    k += "+panic_caught_by_production_recover"
                if not r.get("supported", True):
                    k = "not_executed"
                outcomes[k] = outcomes.get(k, 0) + 1
        p["cases"] += n
        p["process_crashes"] += crashes
    v = core.validate_traces(ctx, "TMReactorTrace", rows_all, label="reactors", max_events=3000)
    for x in v["viol"]:
        row = x["row"]
        sig = {"half": "reactor", "inv": x["inv"], "class": x["class"], "case": x["case"]}
        verdict.add(sig, {"failing_step": row, "prefix": x["prefix"], "tlc": {"inv": x["inv"], "class": x["class"], "case": x["case"]},
                          "crashes": [c for _r, _rows, cr, _n in results for c in cr][:10]})
    distinct = set()
    for r in rows_all:
        if r.get("ev") in ("Hostile", "Crash"):
            distinct.add(json.dumps({k: r.get(k) for k in ("reactor", "kind", "fc", "ps", "enc", "stopped", "barrier",
                                                           "panic_caught", "replies", "ev")}, sort_keys=True))
    cov["states"] += ra.distinct
    cov["transitions"] += ra.generated
    cov["traces_validated_against_impl"] += v["runs"]
    cov["evaluations"] += len(rows_all)
    cov["distinct_nontrivial"] += len(distinct)
    drift_by = {}
    for d in v["drift"]:
        drift_by[d["what"]] = drift_by.get(d["what"], 0) + 1
    cov["reactors"] = {
        "alphabet_cases_total": len(allcases), "alphabet_cases_executed": sum(p["cases"] for p in per.values()),
        "cases_of_reactors_without_harness_or_outside_tier": skipped, "per_reactor": per,
        "conformance_drift_count": len(v["drift"]), "conformance_drift_kinds": drift_by,
        "conformance_drift": [{"what": d["what"], "case": case_key(d["row"])} for d in v["drift"][:60]],
    }
    cov["samples"].append(core.abridge([r for r in rows_all if r.get("ev") == "Hostile"][:4], 4))
    return v


# ------------------------------------------------------------------------------ hostile sequences (consensus)
SEQ_FILES = ["zz_verif_c17core_test.go", "zz_verif_c17_test.go", "zz_verif_c17seq_test.go"]


def msg_name(m):
    k = m["k"]
    if k == "NRS":
        return "NRS(h%d,r%d,s%d)" % (m["h"], m["r"], m["s"])
    if k == "Proposal":
        return "Proposal(r%d,pol%d,%s,%d)" % (m["r"], m["pol"], m["hdr"], m["size"])
    if k == "ProposalPOL":
        return "ProposalPOL(pol%d,%d)" % (m["pol"], m["size"])
    if k == "NVB":
        return "NVB(r%d,%s,%d,%s)" % (m["r"], m["hdr"], m["size"], "commit" if m["commit"] else "nocommit")
    if k == "HasVote":
        return "HasVote(r%d,t%d,i%d)" % (m["r"], m["t"], m["idx"])
    if k == "Vote":
        return "Vote(h%+d,r%d,t%d,i%d,%s)" % (m["h"] - 1, m["r"], m["t"], m["idx"], m["hdr"])
    if k == "Maj23":
        return "Maj23(r%d,t%d)" % (m["r"], m["t"])
    return "VSBits(r%d,t%d,%s,%d)" % (m["r"], m["t"], m["hdr"], m["size"])


def seq_name(msgs):
    return ">".join(msg_name(m) for m in msgs)


MSG_FIELDS = ("k", "h", "r", "s", "pol", "size", "hdr", "commit", "t", "idx")


def norm_msg(m):
    return {k: m[k] for k in MSG_FIELDS}


def acts_to_seq(acts):
    """behaviour of TMPeerGossipSys -> (node class of the initial state, hostile messages in order)"""
    ns = "later"
    for a in acts:
        if a.get("name") == "Init":
            ns = a["class"]
    return ns, [norm_msg(to_json(a["m"])) for a in acts if a.get("name") == "Hostile"]


def class_name(nd):
    if nd["step"] == "later":
        return "later"
    if nd["hasLC"]:
        return "nh_commit"
    return "nh_init5" if nd["abs"] == 5 else "nh_init"


def run_seq_shard(ctx, run_resilient, binp, shard, units, settle):
    inp = {"seqs": units, "settle_ms": settle}
    outp = os.path.join(ctx.work, "seq-%d.ndjson" % shard)
    rows, crashes = run_resilient(ctx, binp, "^TestVerifC17Seq$", inp, outp, "seq-%d" % shard, max_crashes=40, timeout=1700)
    done = sum(1 for r in rows if r.get("ev") == "End")
    if done + len(crashes) < len(units) and not any(c["unit"] is None for c in crashes):
        raise Undecided("sequence harness %d executed %d of %d sequences" % (shard, done + len(crashes), len(units)))
    return rows, crashes


def sequence_half(ctx, verdict, cov, quick, explicit=None):
    """Hostile-input sequences against the consensus reactor (spec/TMPeerGossip*.tla): TLC explores every
    sequence of <= MaxMsgs messages with the gossip goroutines interleaved; the targeted sequences, the
    counterexample of the weakened spec and simulated behaviours are fed to the real reactor."""
    from props.c17 import run_resilient
    from vlib.tlaparse import parse_behaviour_text
    d = os.path.join(core.VERIF, "harness", "inpkg", "consensus")
    if not all(os.path.exists(os.path.join(d, f)) for f in SEQ_FILES):
        return None
    mm = 2 if quick else 3
    jobs = [("gossip", "C17_gossip", core.cfg_variant(ctx, "C17_gossip.cfg", "C17_gossip_run.cfg", {"MaxMsgs": mm}), True, None)]
    dump = os.path.join(ctx.work, "gossip_targeted")
    jobs.append(("gossip_targeted", "C17_gossip_targeted", "C17_gossip_targeted.cfg", True, [dump]))
    weak = (("BitArrayOpsAssumeEqualSize", "NeverCrashes", "TargetedNoCrash"), ("LastCommitNilDeref", "NeverHalts", "TargetedNoHalt"),
            ("SetRoundRecreatesRound", "NeverHalts", "TargetedNoHalt"))
    for w, _i1, _i2 in weak:
        jobs.append(("weak_" + w, "C17_gossip", "C17_weak_%s.cfg" % w, False, None))
        jobs.append(("weak_%s_targeted" % w, "C17_gossip_targeted", "C17_weak_%s_targeted.cfg" % w, False, None))
    with ThreadPoolExecutor(max_workers=4) as ex:
        res = list(ex.map(lambda j: ctx.tlc(j[1], j[2], dump=j[4], must_pass=j[3], timeout=1200, label=j[0], workers=3), jobs))
    byl = {j[0]: r for j, r in zip(jobs, res)}
    rg, rt = byl["gossip"], byl["gossip_targeted"]
    targeted = []
    for st in core.read_state_dump(dump + ".dump"):
        c = to_json(st["cs"])
        targeted.append((class_name(c["nd"]), [norm_msg(m) for m in c["sq"]]))
    # non-vacuity + attack schedules: every weakened spec is refuted with a sequence; that sequence is replayed
    attacks = []
    for w, inv, tinv in weak:
        hit = [v for v in byl["weak_" + w].violations if v["name"] == inv]
        if not hit:
            raise Undecided("vacuity: Weak_%s does not violate %s (%s)" % (w, inv, byl["weak_" + w].errors[:2]))
        if not any(v["name"] == tinv for v in byl["weak_%s_targeted" % w].violations):
            raise Undecided("vacuity: the targeted sequences do not refute Weak_%s" % w)
        attacks.append(("weak_" + w, acts_to_seq([st["act"] for _h, st in hit[0]["trace"] if "act" in st])))
        cov["nonvacuity"]["Weak_%s refuted by TLC (%s, %s)" % (w, inv, tinv)] = True
    # simulated behaviours of the longer model
    scfg = core.cfg_variant(ctx, "C17_gossip.cfg", "C17_gossip_sim.cfg", {"MaxMsgs": 6}, drop_view=True)
    nsim = 120 if quick else 3000
    pref = os.path.join(ctx.work, "gsim")
    rs = ctx.tlc("C17_gossip", scfg, simulate="file=%s,num=%d" % (pref, nsim), depth=16, seed=ctx.seed, workers=1,
                 timeout=600, label="gossip_sim")
    if rs.errors or rs.violations or rs.timed_out:
        raise Undecided("gossip simulation failed: %s" % (rs.errors or rs.violations)[:2])
    sims = []
    dd = os.path.dirname(pref)
    for fn in sorted(os.listdir(dd)):
        if fn.startswith("gsim_"):
            with open(os.path.join(dd, fn)) as f:
                beh = parse_behaviour_text("\n".join(ln for ln in f.read().splitlines() if not ln.startswith("\\*")))
            os.remove(os.path.join(dd, fn))
            ns, sq = acts_to_seq([s["act"] for _h, s in beh if "act" in s])
            # a fresh node per sequence is expensive: simulated sequences of the initial-height classes are capped
            if sq and (not ns.startswith("nh_init") or sum(1 for x in sims if x[0].startswith("nh_init")) < (8 if quick else 150)):
                sims.append((ns, sq))
    units, seen = [], set()
    sources = [(src, [a]) for src, a in attacks] + [("targeted", targeted), ("sim", sims)]
    if explicit is not None:
        sources = [("replay", [(ns, [norm_msg(m) for m in sq]) for ns, sq in explicit])]
    for src, lst in sources:
        for ns, sq in lst:
            nm = seq_name(sq)
            if not sq or (ns, nm) in seen:
                continue
            seen.add((ns, nm))
            units.append({"ns": ns, "name": nm, "src": src, "msgs": sq})
    if not units:
        raise Undecided("no sequences to execute")
    binp = ctx.go_build_test("consensus", SEQ_FILES, name="c17_consensus_seq")
    # shards: the initial-height classes need a fresh node per sequence (slow): spread them over all shards
    nsh = max(1, min(6, len(units) // 40 + 1))
    shards_ = [[] for _ in range(nsh)]
    order = sorted(units, key=lambda u: (not u["ns"].startswith("nh_init"), u["ns"], u["name"]))
    for i, u in enumerate(order):
        sh = shards_[i % nsh]
        u = dict(u)
        u["unit"] = len(sh)
        sh.append(u)
    rows_all, crashes_all = [], []
    with ThreadPoolExecutor(max_workers=nsh) as ex:
        for rows, crashes in ex.map(lambda k: run_seq_shard(ctx, run_resilient, binp, k, shards_[k], 25), range(nsh)):
            rows_all += rows
            crashes_all += crashes
    v = core.validate_traces(ctx, "TMPeerGossipTrace", rows_all, label="sequences", max_events=3000)
    for x in v["viol"]:
        first = x["prefix"][0] if x["prefix"] else {}
        sig = {"half": "reactor-seq", "inv": x["inv"], "class": x["class"], "case": x["case"]}
        verdict.add(sig, {"failing_step": x["row"], "prefix": x["prefix"], "sequence": first.get("msgs"), "ns": first.get("ns", "later"),
                          "tlc": {"inv": x["inv"], "class": x["class"], "case": x["case"]}, "crashes": crashes_all[:10]})
    distinct = set()
    for r in rows_all:
        if r.get("ev") == "Msg":
            distinct.add(json.dumps([r["m"], r["stopped"], r["barrier"], r["panic_caught"]], sort_keys=True))
    cov["states"] += rg.distinct + rt.distinct
    cov["transitions"] += rg.generated + rt.generated + rs.generated
    cov["traces_validated_against_impl"] += v["runs"]
    cov["evaluations"] += len(rows_all)
    cov["distinct_nontrivial"] += len(distinct)
    drift_by = {}
    for dr in v["drift"]:
        drift_by[dr["what"]] = drift_by.get(dr["what"], 0) + 1
    cov["sequences"] = {
        "model": "every sequence of <= %d hostile messages (alphabet of %s) interleaved with the gossip goroutines" % (mm, "TMPeerGossip!HostileMsgs"),
        "targeted_sequences": len(targeted), "simulated_sequences": len(sims),
        "attack_sequences": {src: a[0] + ":" + seq_name(a[1]) for src, a in attacks},
        "node_classes": sorted({u["ns"] for u in units}),
        "after_every_sequence": "NewHeight timeout (if pending), two failed rounds (r -> r+1 -> r+2), one committed height",
        "sequences_executed": len(units), "messages_sent": sum(1 for r in rows_all if r.get("ev") == "Msg" and r["sent"]),
        "process_crashes": crashes_all, "conformance_drift_count": len(v["drift"]), "conformance_drift_kinds": drift_by,
        "conformance_drift": [{"what": dr["what"], "step": core.abridge(dr["row"])} for dr in v["drift"][:10]],
    }
    cov["samples"].append(core.abridge([r for r in rows_all if r.get("ev") in ("Reset", "Msg", "End")][:6], 6))
    return v


def replay(ctx, rep):
    from props.c17 import new_cov
    case = rep["signature"]["case"]
    if rep["signature"].get("half") == "reactor-seq":
        verdict = core.Verdict(ctx)
        v = sequence_half(ctx, verdict, new_cov(), True, explicit=[(rep["replay"].get("ns", "later"), rep["replay"]["sequence"])])
        for x in v["viol"]:
            log("replay: %s/%s on sequence %s" % (x["inv"], x["class"], x["case"]))
        return verdict.finish()
    verdict = core.Verdict(ctx)
    v = hostile_half(ctx, verdict, new_cov(), False, only={case})
    for x in v["viol"]:
        log("replay: %s/%s on case %s" % (x["inv"], x["class"], x["case"]))
    return verdict.finish()
