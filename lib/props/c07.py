"""C07 — A commit is accepted only with enough distinct valid signatures for that block.
Spec: spec/TMCommitVerify.tla (+ spec/TMBigNat.tla); case set: spec/mc/C07_cases.tla;
trace spec: spec/trace/TMCommitVerifyTrace.tla; harness: harness/inpkg/types/zz_verif_c07_test.go
(overlay, package types)."""
import hashlib
import json
import os
import shutil
import subprocess
import time
from concurrent.futures import ThreadPoolExecutor

from vlib import core
from vlib.core import Undecided, log

WEAK = {
    # switch -> (invariants one of which TLC must refute, the code regression it stands for)
    "QuorumGE": (("CaseSoundFull", "CaseSoundLight", "CaseSoundTrusting"),
                 "got < needed / tallied >= needed: exactly 2/3 accepted"),
    "LightCountsNil": (("CaseSoundLight",), "VerifyCommitLight skips only absent slots: nil-flag signatures tallied"),
    "NoDoubleSignCheck": (("CaseSoundTrusting",), "VerifyCommitLightTrusting without the seenVals check"),
    "SeenByCommitSlotRange": (("CaseSoundTrusting",), "seenVals sized by len(commit.Signatures) but indexed by the trusted "
                              "set's validator index: members with index >= commit length never remembered"),
    "TrustsEncodedTotal": (("CaseSoundFull", "CaseSoundLight", "CaseSoundTrusting"),
                           "ValidatorSetFromProto copies an in-range total_voting_power of the encoded form into the cached total"),
    "IncompleteIdSignsAsNil": (("CaseSoundFull", "CaseSoundLight", "CaseSoundTrusting"),
                               "CanonicalizeBlockID maps every incomplete block id to nil: nil signatures verify for it"),
    "NoBlockIDCheck": (("CaseSoundFull", "CaseSoundLight"), "blockID argument not compared with commit.BlockID"),
    "SignBytesIgnoreRound": (("CaseSoundFull", "CaseSoundLight", "CaseSoundTrusting"),
                             "canonical vote does not bind the round"),
}

TIERS = {
    #           TLC case-set knobs                                    replay knobs
    "quick": dict(PVTier=1, MaxExotic=1, MaxExoticSmall=2, DeepExotic=1, scales=["1"],
                  rot=["max", "7", "max", "3x2^20", "max", "3x2^38", "max", "2^52"], random=3000, chunk=2000),
    "thorough": dict(PVTier=2, MaxExotic=1, MaxExoticSmall=2, DeepExotic=2, scales=["1", "max"],
                     rot=["7", "3x2^20", "3x2^38", "2^52"], random=30000, chunk=2500),
}


def _unlimb(a):
    x = 0
    for k in reversed(a):
        x = x * 10000 + int(k)
    return x


# ---------------------------------------------------------------------- streaming trace validation
def _validate_file(ctx, path, chunk, label, timeout=1500):
    """Trace validation of an NDJSON file too large to hold as parsed rows: the file is cut
    into chunks of `chunk` lines (text), each chunk is judged by TLC (TMCommitVerifyTrace),
    verdict entries are mapped back to their lines.  Same acceptance rule as
    core.validate_traces: a chunk counts only if TLC wrote a verdict covering every line."""
    base = ctx.spec_copy()
    chunks = []
    cur, n = [], 0
    with open(path) as f:
        for line in f:
            if not line.strip():
                continue
            cur.append(line if line.endswith("\n") else line + "\n")
            n += 1
            if len(cur) >= chunk:
                chunks.append(cur)
                cur = []
    if cur:
        chunks.append(cur)
    res = {"viol": [], "drift": [], "events": n, "runs": n, "chunks": len(chunks)}
    log("t=%.0fs %s: %d lines in %d chunks" % (time.time() - ctx.t0, label, n, len(chunks)))

    def one(k):
        d = os.path.join(ctx.work, "tv-%s-%d" % (label, k))
        shutil.copytree(base, d)
        with open(os.path.join(d, "trace.ndjson"), "w") as f:
            f.writelines(chunks[k])
        r = ctx.tlc("TMCommitVerifyTrace", "TMCommitVerifyTrace.cfg", cwd=d, workers=1, timeout=timeout,
                    deque=True, heap="3g", label="%s#%d" % (label, k))
        vp = os.path.join(d, "verdict.json")
        if not os.path.exists(vp) or r.errors or r.timed_out:
            ctx.save_log("tv-%s-%d" % (label, k), r.out)
            raise Undecided("trace validation %s chunk %d not completed by TLC: %s" % (
                label, k, (r.errors or ["no verdict / timeout"])[:2]))
        with open(vp) as f:
            v = json.load(f)
        if v.get("n") != len(chunks[k]):
            raise Undecided("trace validation %s chunk %d: consumed %s of %d lines" % (
                label, k, v.get("n"), len(chunks[k])))
        if not ctx.keep:
            shutil.rmtree(d, ignore_errors=True)
        return k, v

    with ThreadPoolExecutor(max_workers=max(1, min(len(chunks), 8, ctx.cores))) as ex:
        for k, v in ex.map(one, range(len(chunks))):
            for kind in ("viol", "drift"):
                for rec in v.get(kind) or []:
                    rec = dict(rec)
                    row = json.loads(chunks[k][rec["l"] - 1])
                    rec["row"] = row
                    rec["prefix"] = [row]
                    res[kind].append(rec)
    log("trace validation %s: %d lines / %d chunks -> %d property failures, %d conformance drifts" % (
        label, n, len(chunks), len(res["viol"]), len(res["drift"])))
    return res


def _scan(path):
    """Measured coverage of the observation file (streamed)."""
    st = {"lines": 0, "runs": 0, "calls": 0, "accepts": 0, "distinct": set(), "nontrivial": set(),
          "errs": {}, "scales": {}, "src": {}, "samples": []}
    with open(path) as f:
        for line in f:
            if not line.strip():
                continue
            r = json.loads(line)
            st["lines"] += 1
            st["src"][r["src"]] = st["src"].get(r["src"], 0) + 1
            key = json.dumps([r["c"], r["chain"], r["h"], r["bid"]], sort_keys=True)
            for run in r["runs"]:
                st["runs"] += 1
                st["scales"][run["scale"]] = st["scales"].get(run["scale"], 0) + 1
                outs = [("full", run["full"]), ("light", run["light"])] + [("trust", t["res"]) for t in run["trust"]]
                st["calls"] += len(outs)
                hk = hashlib.sha1((key + json.dumps(run["pv"])).encode()).digest()[:10]
                st["distinct"].add(hk)
                # non-trivial: some function got past the argument checks and looked at signatures
                if any(o["err"] not in ("size", "height", "blockid", "zeroden") for _n, o in outs[:2]) or \
                        any(o["ok"] for _n, o in outs):
                    st["nontrivial"].add(hk)
                for nme, o in outs:
                    if o["ok"]:
                        st["accepts"] += 1
                    e = nme + ":" + o["err"].split(":")[0]
                    st["errs"][e] = st["errs"].get(e, 0) + 1
            if len(st["samples"]) < 2 and r["runs"] and (r["runs"][0]["full"]["ok"] or st["lines"] % 5000 == 4999):
                rr = dict(r)
                rr["runs"] = [dict(r["runs"][0], trust=r["runs"][0]["trust"][:3])]
                st["samples"].append(rr)
    return st


def _run_harness(ctx, inp_obj, label="replay"):
    inp = os.path.join(ctx.work, "c07-in-%s.json" % label)
    with open(inp, "w") as f:
        json.dump(inp_obj, f)
    out = ctx.subdir("c07-out-" + label)
    binp = ctx.go_build_test("types", ["zz_verif_c07_test.go"])
    rc, txt = ctx.run_test(binp, "^TestVerifC07$", {"VERIF_IN": inp, "VERIF_OUT": out}, timeout=2400)
    if rc != 0:
        ctx.save_log("harness", txt)
        raise Undecided("C07 harness failed (rc=%d): %s" % (rc, txt[-1500:]))
    return os.path.join(out, "c07.ndjson")


def _apalache(ctx):
    """Thorough tier: the integer identities behind the quorum tests, on unbounded integers
    (TLC checks them only on the small range of the case set; the trace spec evaluates both
    sides with TMBigNat on every observed run).  Not a verdict source: a failure or timeout
    is reported in the evidence."""
    d = ctx.spec_copy()
    if not os.path.exists(os.path.join(d, "C07_apalache.tla")) or not shutil.which("apalache-mc"):
        return {"run": False}
    out = {"run": True, "what": "for all 0 <= tallied <= total <= MaxTotalVotingPower: tallied > (total*2) div 3 <=> "
                                "3*tallied > 2*total; for all 0 <= P <= MaxInt64, 1 <= den <= MaxInt64: tallied > P div den "
                                "<=> den*tallied > P (unbounded integers, SMT)"}
    env = dict(os.environ)
    env["JVM_ARGS"] = "-Xmx2g"
    for inv in ("TwoThirdsIdentityInv", "FractionIdentityInv"):
        t0 = time.time()
        try:
            p = subprocess.run(["apalache-mc", "check", "--length=1", "--inv=" + inv,
                                "--out-dir=" + os.path.join(ctx.work, "apalache-out"), "C07_apalache.tla"],
                               cwd=d, stdout=subprocess.PIPE, stderr=subprocess.STDOUT, timeout=300, env=env)
            txt = p.stdout.decode("utf-8", "replace")
            ok = "EXITCODE: OK" in txt and "no error" in txt
            if not ok:
                ctx.save_log("apalache-" + inv, txt)
            out[inv] = {"proved": ok, "wall_s": round(time.time() - t0, 1)}
        except subprocess.TimeoutExpired:
            out[inv] = {"proved": False, "timeout": True}
        log("apalache %s: %s" % (inv, out[inv]))
    return out


def run(ctx):
    T = TIERS[ctx.tier]
    knobs = {k: T[k] for k in ("PVTier", "MaxExotic", "MaxExoticSmall", "DeepExotic")}

    # ---- 1. design spec: the case set, exhaustively (in the background, with 2.) ---------------
    ctx.spec_copy()
    cfg = core.cfg_variant(ctx, "C07_cases.cfg", "C07_cases_run.cfg", knobs)
    cfgx = core.cfg_variant(ctx, "C07_export.cfg", "C07_export_run.cfg", knobs)
    small = {"PVTier": 1, "MaxExotic": 1, "MaxExoticSmall": 1, "DeepExotic": 1}
    wcfg = {n: core.cfg_variant(ctx, "C07_weak_%s.cfg" % n, "C07_weak_%s_run.cfg" % n, small) for n in WEAK}
    ocfg = {tag: core.cfg_variant(ctx, "C07_ovf.cfg", "C07_ovf_%s.cfg" % tag, small, invariants=invs)
            for tag, invs in (("pass", None), ("cov_overflow", ["CovNoOverflow"]), ("cov_panic", ["CovNoPanicTotal"]))}
    bg = ThreadPoolExecutor(max_workers=2)
    f_cases = bg.submit(ctx.tlc, "C07_cases", cfg, timeout=1500, workers=min(ctx.cores, 4), heap="6g", label="cases")
    # ---- 2. non-vacuity: every weakened spec is refuted; overflow / panic exits are reachable ---
    f_weak = {n: bg.submit(ctx.tlc, "C07_cases", wcfg[n], timeout=600, workers=2, label="weak_" + n) for n in WEAK}
    f_ovf = {t: bg.submit(ctx.tlc, "C07_cases", ocfg[t], timeout=900, workers=2, label="ovf_" + t) for t in ocfg}
    bg.shutdown(wait=False)

    rx = ctx.tlc("C07_export", cfgx, must_pass=True, timeout=1500, workers=1, heap="6g", label="export")
    cases_file = os.path.join(ctx.spec_copy(), "c07_cases.ndjson")
    if not os.path.exists(cases_file):
        raise Undecided("TLC did not export the case set")
    with open(cases_file) as f:
        ncases = sum(1 for ln in f if ln.strip())

    # ---- 3. replay every exported case on the real functions (+ seeded random driver) --------------
    obs = _run_harness(ctx, {"cases_file": cases_file, "scales": T["scales"], "rot_scales": T["rot"],
                             "random": T["random"], "workers": max(2, min(8, ctx.cores))}, label="main")
    log("t=%.0fs harness done" % (time.time() - ctx.t0))
    st = _scan(obs)
    log("t=%.0fs observation file scanned: %d lines, %d runs, %d calls" % (time.time() - ctx.t0, st["lines"], st["runs"], st["calls"]))
    if st["src"].get("case", 0) != ncases:
        raise Undecided("harness executed %d of %d cases" % (st["src"].get("case", 0), ncases))
    if st["src"].get("random", 0) != T["random"]:
        raise Undecided("harness executed %d of %d random cases" % (st["src"].get("random", 0), T["random"]))

    # ---- 4. trace validation: TLC judges the observed verdicts -----------------------------------
    v = _validate_file(ctx, obs, T["chunk"], "obs")
    log("t=%.0fs trace validation done" % (time.time() - ctx.t0))

    apal = _apalache(ctx) if ctx.tier == "thorough" else {"run": False}
    # ---- collect the background TLC runs ---------------------------------------------------------
    r1 = f_cases.result()
    if not r1.ok:
        ctx.save_log("cases", r1.out)
        raise Undecided("TLC run cases did not pass cleanly: %s" % (
            r1.errors or [x["name"] for x in r1.violations] or ["timeout"])[:3])
    # the model's state space = seeds (initial states) + one state per case
    nseeds = r1.distinct - ncases
    if ncases == 0 or nseeds <= 0 or r1.generated != r1.distinct:
        raise Undecided("case export (%d lines) does not match the enumerated case set (%d states)" % (ncases, r1.distinct))
    nonvac = {}
    for name, fu in f_weak.items():
        r = fu.result()
        if r.errors or r.timed_out or not any(x["name"] in WEAK[name][0] for x in r.violations):
            raise Undecided("vacuity: weakened spec Weak_%s is not refuted by TLC (%s)" % (name, r.errors[:1]))
        nonvac["Weak_%s refuted (%s)" % (name, WEAK[name][1])] = True
    r = f_ovf["pass"].result()
    if not r.ok:
        raise Undecided("C07_ovf (small MaxInt64/MaxTotal stand-ins) did not pass: %s" % (
            r.errors or [x["name"] for x in r.violations] or ["timeout"])[:2])
    ovf_stats = (r.generated, r.distinct)
    for tag in ("cov_overflow", "cov_panic"):
        r = f_ovf[tag].result()
        if r.errors or r.timed_out or not r.violations:
            raise Undecided("coverage goal %s not reached in C07_ovf" % tag)
        nonvac["reachable in model: " + tag] = True
    log("t=%.0fs background TLC runs collected" % (time.time() - ctx.t0))

    # ---- 5. verdict ---------------------------------------------------------------------------------
    verdict = core.Verdict(ctx)
    for x in v["viol"]:
        row = x["row"]
        sig = {"inv": x["inv"], "class": x["class"], "ev": row["ev"]}
        verdict.add(sig, {"failing_step": row, "prefix": x["prefix"], "tlc": {k: x[k] for k in ("inv", "class")}})
    drift = v["drift"]
    coverage = {
        "states": r1.distinct + ovf_stats[1],
        "transitions": r1.generated + ovf_stats[0],
        "traces_validated_against_impl": v["runs"],
        "evaluations": st["calls"],
        "distinct_nontrivial": len(st["nontrivial"]),
        "rule": "every case of the TLC-enumerated case set (validator sets of 0..4 members, %d power vectors incl. totals "
                "divisible by 3; per-slot kinds absent / valid / nil / garbage / signed-for-nil-flagged-commit / other block, "
                "part-set header, height, round, chain, vote type, timestamp / wrong signer / foreign address / duplicated "
                "member / unknown signer / unknown flag; frames: argument and commit height/blockID mismatches, zero block id, "
                "other chain, short/long/rotated commits, and FOREIGN commits of every length 1..n(+1) whose slots are absent / "
                "unknown signer / a valid signature of ANY member, repeated at will, and WIRE cases: the set under test is encoded "
                "(ToProto), its unauthenticated fields rewritten (total_voting_power in 0/1/first power/half/sum/sum+1/"
                "MaxTotal/MaxTotal+1, proposer record other/outsider/missing, priorities scrambled) and decoded with "
                "ValidatorSetFromProto or LightBlockFromProto before the functions are called; max = floor(MaxTotalVotingPower/total)) is realised with real ed25519 keys and executed on the real "
                "VerifyCommit, VerifyCommitLight and VerifyCommitLightTrusting (11 trust levels at scaling 1, 5 at the others) "
                "at power scalings %s plus one of %s chosen round-robin; plus %d seeded random sets of 1..8 "
                "members with powers up to MaxTotalVotingPower tuned to sit at / next to a threshold, totals exactly at "
                "MaxTotalVotingPower and hand-built sets just above it (panic exit), commits aligned / permuted / of other "
                "membership / foreign (own length, one member repeated, preferably with index >= commit length). A run is one "
                "(commit, arguments, concrete power vector); distinct by hash; non-trivial = a function got past the "
                "argument checks or accepted" % (
                    {1: 10, 2: 21}[T["PVTier"]], "/".join(T["scales"]), "/".join(sorted(set(T["rot"]))), T["random"]),
        "samples": st["samples"],
        "exhaustive": True,
        "tlc_runs": ctx.tlc_stats,
        "cases_enumerated_by_tlc": ncases,
        "case_seeds": nseeds,
        "cases_replayed": st["src"].get("case", 0),
        "random_cases": st["src"].get("random", 0),
        "runs_executed": st["runs"],
        "distinct_runs": len(st["distinct"]),
        "calls_accepted_by_real_code": st["accepts"],
        "runs_per_scale": st["scales"],
        "observed_result_classes": st["errs"],
        "conformance_drift": [{"what": d["what"], "spec": d["spec"], "obs": d["obs"],
                               "step": {k: d["row"][k] for k in ("src", "frame", "kinds", "chain", "h", "bid")}}
                              for d in drift[:5]],
        "conformance_drift_count": len(drift),
        "nonvacuity": nonvac,
        "apalache": apal,
        "known_findings_reproduced": dict(verdict.known),
    }
    rc = verdict.finish()
    ctx.write_evidence(coverage, [
        "signatures are symbolic in the spec (unforgeability, injective canonical encoding); ed25519 is trusted",
        "the Go harness' statement of who signed what (it made every signature itself, over the production sign bytes) is trusted",
        "a validator set is one built by NewValidatorSet: distinct addresses, positive powers, total <= MaxTotalVotingPower",
        "trust levels with numerator or denominator >= 10^4 are not evaluated (single-limb division in TMBigNat); "
        "fractions above 1 with components >= 2^63 (int64 cast) are outside the statement",
        "a TLC verdict is accepted only if the verdict file covers every trace line",
    ], len(verdict.new))
    return rc


def replay(ctx, path):
    """Re-execute a stored failing line on the current tree (same commit, arguments, concrete
    power vectors and trust levels) and re-validate it."""
    with open(path) as f:
        rep = json.load(f)
    row = rep["replay"]["failing_step"]
    case = {"pv": [], "frame": row["frame"], "kinds": row["kinds"], "chain": row["chain"], "h": row["h"],
            "bid": row["bid"], "c": row["c"], "src": row.get("src", "case"), "handbuilt": bool(row.get("handbuilt", False)),
            "wire": row.get("wire", {"path": "none", "total": "zero", "proposer": "same", "prio": "same"}),
            "powers": [[str(_unlimb(p)) for p in run["pv"]] for run in row["runs"]],
            "labels": [run["scale"] for run in row["runs"]],
            "fracs": [[_unlimb(t["num"]), _unlimb(t["den"])] for t in row["runs"][0]["trust"]]}
    cf = os.path.join(ctx.work, "c07-replay-case.ndjson")
    with open(cf, "w") as f:
        f.write(json.dumps(case) + "\n")
    obs = _run_harness(ctx, {"cases_file": cf, "scales": [], "rot_scales": [], "random": 0, "workers": 1}, label="replay")
    v = _validate_file(ctx, obs, 1000, "replay")
    verdict = core.Verdict(ctx)
    for x in v["viol"]:
        verdict.add({"inv": x["inv"], "class": x["class"], "ev": x["row"]["ev"]},
                    {"failing_step": x["row"], "prefix": x["prefix"]})
        log("replay: %s (%s) fails on the current tree" % (x["inv"], x["class"]))
    for d in v["drift"][:5]:
        log("replay: conformance drift: %s (spec %s, observed %s)" % (d["what"], d["spec"], d["obs"]))
    return verdict.finish()
