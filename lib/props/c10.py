"""C10 — Block parts and Merkle proofs bind content to position.
Spec: spec/TMMerkle.tla, spec/TMPartSet.tla; trace spec: spec/trace/TMMerkleTrace.tla;
harness: harness/inpkg/types/zz_verif_c10_test.go (overlay, package types)."""
import json
import os

from vlib import core
from vlib.core import Undecided, log
from vlib.tlaparse import to_json


def run(ctx):
    quick = ctx.tier == "quick"
    maxleaves_cases = 4 if quick else 6
    maxleaves_ps = 3 if quick else 4
    nrandom = 300 if quick else 6000
    nconc = 400 if quick else 6000

    # ---- 1. design spec, exhaustive -------------------------------------------------
    cfg_cases = core.cfg_variant(ctx, "C10_cases.cfg", "C10_cases_run.cfg", {"MaxLeaves": maxleaves_cases})
    dump = os.path.join(ctx.work, "cases")
    r1 = ctx.tlc("C10_cases", cfg_cases, dump=[dump], must_pass=True, timeout=1200, label="cases")
    cases = [to_json(s["cs"]) for s in core.read_state_dump(dump + ".dump")]
    if not cases:
        raise Undecided("no cases exported")

    cfg_ps = core.cfg_variant(ctx, "C10_partset.cfg", "C10_partset_run.cfg", {"MaxLeaves": maxleaves_ps})
    r2 = ctx.tlc("C10_partset", cfg_ps, must_pass=True, timeout=1200, label="partset")

    # non-vacuity: the weakened spec (AddPart without index/total binding) and the strict
    # proof property (no shape-alias exemption) must both be refuted by TLC
    rw = ctx.tlc("C10_partset", core.cfg_variant(ctx, "C10_weak_NoProofIndexBinding.cfg", "C10_weak_run.cfg",
                                                 {"MaxLeaves": maxleaves_ps}), timeout=600, label="weak_NoProofIndexBinding")
    if not any(v["name"] == "PartBinds" for v in rw.violations):
        raise Undecided("vacuity: weakened spec Weak_NoProofIndexBinding does not violate PartBinds")
    # AddPart binding proof index/total to the slot only modulo 2^32 must be refuted (crafted header + shifted proofs)
    rt = ctx.tlc("C10_partset", core.cfg_variant(ctx, "C10_weak_TruncatedPosition.cfg", "C10_weak_trunc_run.cfg",
                                                 {"MaxLeaves": maxleaves_ps}), timeout=600, label="weak_TruncatedPosition")
    if not any(v["name"] in ("CompleteMatchesHeader", "AdmitOnlyProven") for v in rt.violations):
        raise Undecided("vacuity: weakened spec Weak_TruncatedPosition does not violate CompleteMatchesHeader")
    rs = ctx.tlc("C10_cases", core.cfg_variant(ctx, "C10_cases_strict.cfg", "C10_strict_run.cfg",
                                               {"MaxLeaves": min(maxleaves_cases, 3)}), timeout=600, label="cases_strict")
    strict_refuted = any(v["name"] == "CaseProofBinds" for v in rs.violations)

    # ---- 2. part-set state graph (act-augmented, no VIEW) -> schedules -------------------
    cfg_rep = core.cfg_variant(ctx, "C10_partset.cfg", "C10_partset_replay.cfg", {"MaxLeaves": maxleaves_ps},
                               drop_view=True, drop_properties=True)
    dot = os.path.join(ctx.work, "ps.dot")
    r3 = ctx.tlc("C10_partset", cfg_rep, dump=["dot,actionlabels", dot], must_pass=True, timeout=1200,
                 label="partset_graph")
    g = core.parse_dot(dot)
    os.remove(dot)
    scheds = []
    for nodes in core.graph_schedules(g):
        st0 = g.nodes[nodes[0]]
        parts = []
        for nid in nodes[1:]:
            a = g.nodes[nid]["act"]
            p = to_json(a["part"])
            parts.append({"index": p["index"], "bytes": p["bytes"], "proof": p["proof"]})
        scheds.append({"data": to_json(st0["data"]), "hdr": to_json(st0["hdr"]), "parts": parts})
    graph_states = len(g.nodes)

    # ---- 3. replay on the real code ----------------------------------------------------
    inp = os.path.join(ctx.work, "c10-in.json")
    with open(inp, "w") as f:
        json.dump({"cases": cases, "scheds": scheds, "random": nrandom, "concurrent": nconc}, f)
    out = ctx.subdir("c10-out")
    binp = ctx.go_build_test("types", ["zz_verif_c10_test.go"])
    rc, txt = ctx.run_test(binp, "^TestVerifC10$", {"VERIF_IN": inp, "VERIF_OUT": out})
    if rc != 0:
        ctx.save_log("harness", txt)
        raise Undecided("C10 harness failed (rc=%d): %s" % (rc, txt[-1500:]))
    rows_cases = core.read_ndjson(os.path.join(out, "cases.ndjson"))
    rows_ps = core.read_ndjson(os.path.join(out, "partset.ndjson"))
    if len(rows_cases) != len(cases):
        raise Undecided("harness executed %d of %d cases" % (len(rows_cases), len(cases)))

    # ---- 4. trace validation (TLC on observed behaviour) -----------------------------------
    v1 = core.validate_traces(ctx, "TMMerkleTrace", rows_cases, label="cases")
    v2 = core.validate_traces(ctx, "TMMerkleTrace", rows_ps, label="partset")

    # ---- 5. verdict ----------------------------------------------------------------------
    verdict = core.Verdict(ctx)
    for v in v1["viol"] + v2["viol"]:
        row = v["row"]
        sig = {"inv": v["inv"], "class": v["class"], "ev": row["ev"]}
        verdict.add(sig, {"failing_step": row, "prefix": v["prefix"], "tlc": {k: v[k] for k in ("inv", "class")}})
    drift = v1["drift"] + v2["drift"]

    distinct = set()
    for r in rows_cases:
        distinct.add(json.dumps([r["leaves"], r["proof"], r["item"]], sort_keys=True))
    nontriv_ps = set()
    for r in rows_ps:
        if r["ev"] == "ConcurrentAdd":
            nontriv_ps.add(json.dumps([r["delivered"], r["goroutines"]], sort_keys=True))
        if r["ev"] == "AddPart":
            nontriv_ps.add(json.dumps([r["part"], r["post"]["slots"], r["added"]], sort_keys=True))
    accepted = sum(1 for r in rows_cases if r["accepted"])
    coverage = {
        "states": r1.distinct + r2.distinct + r3.distinct,
        "transitions": r1.generated + r2.generated + r3.generated,
        "traces_validated_against_impl": v1["runs"] + v2["runs"],
        "evaluations": len(rows_cases) + len(rows_ps),
        "distinct_nontrivial": len(distinct) + len(nontriv_ps),
        "rule": "proof cases: every (tree of 1..%d leaves incl. repeated items, position, mutated/transplanted proof, "
                "claimed item) enumerated by TLC from TMMerkle!Cases, executed on real merkle.Proof.Verify, distinct by "
                "(leaves, proof, item); part-set: every state of the act-augmented TMPartSet graph (MaxLeaves=%d) reached by "
                "replaying its BFS path on a real types.PartSet, plus %d random runs (data length / part size / order / "
                "mutations); a part-set step is distinct by (part, post slots, added)" % (maxleaves_cases, maxleaves_ps, nrandom),
        "samples": [core.abridge(rows_cases[:1] + [r for r in rows_cases if r["accepted"]][:2]),
                    core.abridge(rows_ps[:6], 6)],
        "exhaustive": True,
        "tlc_runs": ctx.tlc_stats,
        "proof_cases": len(rows_cases),
        "proof_cases_accepted_by_real_code": accepted,
        "partset_graph_states_replayed": graph_states,
        "partset_schedules": len(scheds),
        "partset_random_runs": nrandom, "partset_concurrent_trials": nconc,
        "conformance_drift": [{"what": d["what"], "step": d["row"]} for d in drift[:5]],
        "conformance_drift_count": len(drift),
        "nonvacuity": {"Weak_NoProofIndexBinding refuted by TLC": True,
                       "Weak_TruncatedPosition (index/total bound modulo 2^32) refuted by TLC": True,
                       "strict ProofBinds (no shape-alias exemption) refuted by TLC": strict_refuted},
        "known_findings_reproduced": dict(verdict.known),
    }
    rc = verdict.finish()
    ctx.write_evidence(coverage, [
        "SHA-256 modelled as an injective symbolic constructor (collision-freedom assumed)",
        "abstract items are mapped to concrete byte strings of length 1, 3, 32, 33 and BlockPartSizeBytes",
        "a TLC verdict is accepted only if the verdict file covers every trace line",
    ], len(verdict.new))
    return rc


def replay(ctx, path):
    """Re-execute the failing prefix of a stored replay on the current tree and re-validate it."""
    with open(path) as f:
        rep = json.load(f)
    prefix = rep["replay"]["prefix"]
    cases, scheds = [], []
    if prefix and prefix[0].get("ev") == "Reset":
        scheds.append({"data": prefix[0]["data"], "hdr": prefix[0].get("hdr"), "parts": [r["part"] for r in prefix[1:]]})
    else:
        for r in prefix:
            cases.append({k: r[k] for k in ("leaves", "pos", "proof", "item", "mut")})
    inp = os.path.join(ctx.work, "c10-in.json")
    with open(inp, "w") as f:
        json.dump({"cases": cases, "scheds": scheds, "random": 0}, f)
    out = ctx.subdir("c10-out")
    binp = ctx.go_build_test("types", ["zz_verif_c10_test.go"])
    rc, txt = ctx.run_test(binp, "^TestVerifC10$", {"VERIF_IN": inp, "VERIF_OUT": out})
    if rc != 0:
        raise Undecided("harness failed: " + txt[-800:])
    rows = core.read_ndjson(os.path.join(out, "cases.ndjson")) + core.read_ndjson(os.path.join(out, "partset.ndjson"))
    v = core.validate_traces(ctx, "TMMerkleTrace", rows, label="replay")
    verdict = core.Verdict(ctx)
    for x in v["viol"]:
        verdict.add({"inv": x["inv"], "class": x["class"], "ev": x["row"]["ev"]}, {"failing_step": x["row"], "prefix": x["prefix"]})
    for x in v["viol"]:
        log("replay: %s fails at %s" % (x["inv"], json.dumps(x["row"])[:300]))
    return verdict.finish()
