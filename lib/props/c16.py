"""C16 -- Peer links are mutually authenticated and tamper-evident.
Spec: spec/TMSecretConn.tla (handshake + framed AEAD stream + Dolev-Yao attacker),
spec/TMPeerUpgrade.tla (transport upgrade: IdentityBound); configs spec/mc/C16_*;
trace specs spec/trace/TMSecretConnTrace.tla, TMPeerUpgradeTrace.tla;
harness: harness/inpkg/p2p/conn/zz_verif_c16_test.go (two real MakeSecretConnection endpoints over an
attacker-owned pipe), harness/inpkg/p2p/zz_verif_c16_test.go (real MultiplexTransport.upgrade)."""
import hashlib
import json
import os
import re
from concurrent.futures import ThreadPoolExecutor

from vlib import core, tlaparse
from vlib.core import Undecided, log
from vlib.tlaparse import to_json

WEAK_SC = {  # switch -> (base cfg, invariant(s) of which at least one must be refuted)
    "Weak_ChallengeNotBound": ("C16_weak_ChallengeNotBound.cfg", ["AuthenticatedExceptSelf"]),
    "Weak_AcceptLowOrder": ("C16_weak_AcceptLowOrder.cfg", ["NonceFresh", "LowOrderRefused"]),
    "Weak_VerifyWrongKey": ("C16_weak_VerifyWrongKey.cfg", ["AuthenticatedExceptSelf"]),
    "Weak_NonceNotIncremented": ("C16_weak_NonceNotIncremented.cfg", ["NonceFresh"]),
    "Weak_RecvNonceNotIncremented": ("C16_weak_RecvNonceNotIncremented.cfg", ["PrefixExact", "DeliveredExact"]),
    "Weak_ReadIgnoresAuthError": ("C16_weak_ReadIgnoresAuthError.cfg", ["TamperFails"]),
    "Weak_SameKeyBothDirections": ("C16_weak_SameKeyBothDirections.cfg", ["NonceFresh", "PrefixExact"]),
    # the pre-transcript attack: same zero secret forced on both sides, signatures relayed
    "Weak_ChallengeDHOnly+Weak_AcceptLowOrder": ("C16_weak_LowOrderRelay.cfg", ["AuthenticatedExceptSelf"]),
    # incrNonce only after a successful transport write: a late transport error makes the next frame reuse the nonce
    "Weak_NonceAfterTransportWrite": ("C16_weak_NonceAfterTransportWrite.cfg", ["NonceFresh"]),
    # ... and the attacker can put that next frame in the place of the failed one
    "Weak_NonceAfterTransportWrite/replace": ("C16_weak_NonceAfterTransportWrite_drop.cfg", ["TamperFails"]),
    # key-type check and signature check merged wrongly: a secp256k1 key is accepted with any signature
    "Weak_AuthSkipsVerifyForOtherKeyTypes": ("C16_weak_AuthSkipsVerifyForOtherKeyTypes.cfg", ["AuthenticatedExceptSelf"]),
}
WEAK_UP = {
    "Weak_NoDialedIDCheck": ("C16_weak_NoDialedIDCheck.cfg", ["IdentityBound"]),
    "Weak_NoNodeInfoIDCheck": ("C16_weak_NoNodeInfoIDCheck.cfg", ["IdentityBound"]),
    "Weak_NoSelfCheck": ("C16_weak_NoSelfCheck.cfg", ["SelfRefused"]),
}


def _cfg(ctx, base, new, consts=None, subst=None, **kw):
    """cfg_variant plus replacement of `Name <- Def` lines."""
    name = core.cfg_variant(ctx, base, new, consts or {}, **kw)
    if subst:
        p = os.path.join(ctx.spec_copy(), name)
        with open(p) as f:
            txt = f.read()
        for k, v in subst.items():
            txt, n = re.subn(r'(^\s*%s\s*<-\s*).*$' % re.escape(k), lambda m: m.group(1) + v, txt, flags=re.M)
            if n == 0:
                raise Undecided("cfg: %s <- not in %s" % (k, base))
        with open(p, "w") as f:
            f.write(txt)
    return name


# ---------------------------------------------------------------------------- light dot reader
_node = re.compile(r'^(-?\d+) \[label="(.*)"(,style = filled)?\];?\s*$')
_edge = re.compile(r'^(-?\d+) -> (-?\d+) \[')
_act = re.compile(r'/\\\\ act = (.*?)(?:\\n/\\\\ \w+ = |$)')
_rank = re.compile(r'/\\\\ rank = (.*?)(?:\\n/\\\\ \w+ = |$)')


_sim_act = re.compile(r'^/\\ act = (.*?)(?=^/\\ \w+ = |^\\\*|^=+|\Z)', re.M | re.S)
_sim_rank = re.compile(r'^/\\ rank = (.*?)(?=^/\\ \w+ = |^\\\*|^=+|\Z)', re.M | re.S)


def _unesc(s):
    return s.replace('\\n', '\n').replace('\\"', '"').replace('\\\\', '\\')


def read_graph(path):
    """The states are large (7 KB of text each); only `act` (and `rank` of the initial states) is needed."""
    g = core.Graph()
    with open(path) as f:
        for line in f:
            m = _edge.match(line)
            if m:
                g.edges.append((m.group(1), m.group(2), ""))
                continue
            m = _node.match(line)
            if not m:
                continue
            lab = m.group(2)
            a = _act.search(lab)
            if not a:
                raise Undecided("dot node without act")
            st = {"act": tlaparse.parse_value(_unesc(a.group(1)))}
            if m.group(3):
                r = _rank.search(lab)
                st["rank"] = tlaparse.parse_value(_unesc(r.group(1)))
                g.inits.append(m.group(1))
            g.nodes[m.group(1)] = st
    return g


def act_to_step(a):
    a = to_json(a)
    st = {"name": a["name"], "p": a.get("p", ""), "eph": a.get("eph", ""), "size": a.get("size", 0),
          "op": a.get("op", ""), "i": a.get("i", 0), "pub": a.get("pub", ""), "nonce": a.get("nonce", 0),
          "fail": a.get("fail", 0)}
    if "sig" in a:
        st["sig"] = a["sig"]
    return st


def _opt(name, p, size=0):
    return {"name": name, "p": p, "eph": "", "size": size, "op": "", "i": 0, "pub": "", "nonce": 0, "opt": True}


# after a TLC path: let both endpoints consume whatever the path left on the wire (executed only if enabled)
DRAIN = [_opt("RecvAuth", "A"), _opt("RecvAuth", "B"), _opt("Read", "A", 4096), _opt("Read", "B", 4096)]


def schedules_from_graph(g):
    out = []
    for nodes in core.graph_schedules(g):
        rank = to_json(g.nodes[nodes[0]]["rank"])
        steps = [act_to_step(g.nodes[n]["act"]) for n in nodes[1:]]
        if steps:
            out.append({"rank": rank, "steps": steps + DRAIN})
    return out


def schedules_from_sim(ctx, prefix):
    """Behaviours written by `-simulate file=<prefix>` (one file per behaviour)."""
    out = []
    d = os.path.dirname(prefix)
    base = os.path.basename(prefix)
    for fn in sorted(os.listdir(d)):
        if not fn.startswith(base + "_"):
            continue
        with open(os.path.join(d, fn)) as f:
            txt = f.read()
        os.remove(os.path.join(d, fn))
        blocks = re.split(r'^STATE_\d+ ==\s*$', txt, flags=re.M)[1:]
        if len(blocks) < 2:
            continue
        acts = []
        for blk in blocks:
            m = _sim_act.search(blk)
            if not m:
                raise Undecided("simulation state without act in %s" % fn)
            acts.append(tlaparse.parse_value(m.group(1)))
        rank = to_json(tlaparse.parse_value(_sim_rank.search(blocks[0]).group(1)))
        steps = [act_to_step(a) for a in acts[1:]]
        out.append({"rank": rank, "steps": steps})
    return out


# ---------------------------------------------------------------------------- the check
def _tlc_jobs(ctx, jobs, par):
    """jobs: list of (key, kwargs for ctx.tlc incl. module/cfg). Runs `par` at a time."""
    res = {}

    def one(j):
        key, kw = j
        return key, ctx.tlc(**kw)

    with ThreadPoolExecutor(max_workers=par) as ex:
        for key, r in ex.map(one, jobs):
            res[key] = r
    return res


def _bounds(ctx):
    """Bounds per tier, fitted to measured state counts (see the report / evidence tlc_runs)."""
    if ctx.tier == "quick":
        return {
            # exhaustive (VIEW without act)
            "hs": dict(MaxEdits=2),                                                            # 20 235 states
            "stream": dict(MaxFrames=3, MaxReads=3, MaxEdits=1, W="WOneWayQ", R="ROneWayQ"),    # 12 720
            "duplex": dict(MaxFrames=2, MaxReads=2, MaxEdits=1, MaxFaults=0),                   # 14 298
            "full": dict(MaxFrames=2, MaxReads=1, MaxEdits=1),                                  #  3 689
            # act-augmented graphs that are replayed completely on the real code
            "g_hs": dict(MaxEdits=1, Ranks="RanksOne"),
            "g_stream": dict(MaxFrames=2, MaxReads=2, MaxEdits=1, MaxFaults=1, W="WOneWayG", R="ROneWayG", Ranks="RanksOne"),
            "g_full": None,
            "sim": 100, "random": 300, "random_big": 30,
        }
    return {
        "hs": dict(MaxEdits=2),
        "stream": dict(MaxFrames=3, MaxReads=3, MaxEdits=2, MaxFaults=0, W="WOneWayQ", R="ROneWayQ"),   # 155 318
        "stream_all": dict(MaxFrames=3, MaxReads=3, MaxEdits=1, W="WOneWay", R="ROneWay"),
        "duplex": dict(MaxFrames=3, MaxReads=3, MaxEdits=1, MaxFaults=0),                       # 251 170
        "full": dict(MaxFrames=2, MaxReads=2, MaxEdits=1),
        "g_hs": dict(MaxEdits=1),                                                               # all three key orders, one edit
        "g_hs2": dict(MaxEdits=2, Ranks="RanksOne"),                                            # one key order, two edits
        "g_stream": dict(MaxFrames=2, MaxReads=2, MaxEdits=1, W="WOneWayQ", R="ROneWayQ"),      # both key orders
        "g_full": dict(MaxFrames=2, MaxReads=1, MaxEdits=1, MaxFaults=0),   # late transport errors are in g_stream
        "sim": 800, "random": 1500, "random_big": 100,
    }


def _mk(ctx, base, new, b, replay=False):
    consts = {k: v for k, v in b.items() if k.startswith("Max")}
    subst = {}
    if "W" in b:
        subst["WSizes"] = b["W"]
    if "R" in b:
        subst["RSizes"] = b["R"]
    if "Ranks" in b:
        subst["Ranks"] = b["Ranks"]
    return _cfg(ctx, base, new, consts, subst, drop_view=replay)


def _run_harness(ctx, scheds, nrandom, nbig, label="c16"):
    inp = os.path.join(ctx.work, label + "-in.json")
    with open(inp, "w") as f:
        json.dump({"scheds": scheds, "random": nrandom, "random_big": nbig}, f)
    out = ctx.subdir(label + "-out")
    binp = ctx.go_build_test("p2p/conn", ["zz_verif_c16_test.go"])
    rc, txt = ctx.run_test(binp, "^TestVerifC16$", {"VERIF_IN": inp, "VERIF_OUT": out}, timeout=2400)
    if rc != 0:
        ctx.save_log("harness", txt)
        raise Undecided("C16 harness failed (rc=%d): %s" % (rc, txt[-1500:]))
    rows = core.read_ndjson(os.path.join(out, "trace.ndjson"))
    with open(os.path.join(out, "meta.json")) as f:
        meta = json.load(f)
    return rows, meta


def _run_upgrade(ctx, cases, label="c16up"):
    inp = os.path.join(ctx.work, label + "-in.json")
    with open(inp, "w") as f:
        json.dump(cases, f)
    out = ctx.subdir(label + "-out")
    binp = ctx.go_build_test("p2p", ["zz_verif_c16_test.go"])
    rc, txt = ctx.run_test(binp, "^TestVerifC16Upgrade$", {"VERIF_IN": inp, "VERIF_OUT": out}, timeout=1800)
    if rc != 0:
        ctx.save_log("harness-upgrade", txt)
        raise Undecided("C16 upgrade harness failed (rc=%d): %s" % (rc, txt[-1500:]))
    return core.read_ndjson(os.path.join(out, "upgrade.ndjson"))


def _sig(v):
    row = v["row"]
    return {"inv": v["inv"], "class": v["class"], "ev": row.get("ev", ""), "op": _last_op(v)}


def _last_op(v):
    """the attacker action that precedes the failing step for the same party (narrows the signature)"""
    p = v["row"].get("p")
    for r in reversed(v["prefix"][:-1]):
        if r.get("ev") in ("M", "MEph") and r.get("p") == p:
            return r.get("op") or ("eph:" + r.get("eph", ""))
    return "none"


def run(ctx):
    b = _bounds(ctx)
    quick = ctx.tier == "quick"
    ctx.spec_copy()
    wpj = 2  # TLC workers per job; at most 4 jobs at a time -> 8 workers

    # ---- 1. design spec: exhaustive configs, weakened configs, act-augmented graphs -----------------------
    jobs = []
    # act-augmented graphs (no VIEW): checked against all invariants AND dumped for complete replay
    dots = {}
    for k, base in (("g_hs", "C16_hs.cfg"), ("g_hs2", "C16_hs.cfg"), ("g_stream", "C16_stream.cfg"),
                    ("g_full", "C16_full.cfg")):
        if b.get(k) is None:
            continue
        cfg = _mk(ctx, base, "C16_run_%s.cfg" % k, b[k], replay=True)
        dots[k] = os.path.join(ctx.work, k + ".dot")
        jobs.append((("graph", k), dict(module="C16_mc", cfg=cfg, workers=wpj, timeout=2400, must_pass=True,
                                        dump=["dot,actionlabels", dots[k]], heap="4g", label="graph_" + k)))
    # larger bounds, exhaustive with VIEW (act dropped)
    for k, base in (("hs", "C16_hs.cfg"), ("stream", "C16_stream.cfg"), ("stream_all", "C16_stream.cfg"),
                    ("duplex", "C16_duplex.cfg"), ("full", "C16_full.cfg")):
        if b.get(k) is None:
            continue
        cfg = _mk(ctx, base, "C16_run_%s.cfg" % k, b[k])
        jobs.append((("ex", k), dict(module="C16_mc", cfg=cfg, workers=wpj if quick else 4, timeout=2400,
                                     must_pass=True, heap="3g" if quick else "6g", label="exh_" + k)))
    jobs.append((("ex", "upgrade"), dict(module="C16_upgrade", cfg="C16_upgrade.cfg", workers=1, timeout=600,
                                         must_pass=True, dump=[os.path.join(ctx.work, "upcases")], label="exh_upgrade")))
    for sw, (cfgname, invs) in WEAK_SC.items():
        jobs.append((("weak", sw), dict(module="C16_mc", cfg=cfgname, workers=1, timeout=900, label=sw)))
    for sw, (cfgname, invs) in WEAK_UP.items():
        jobs.append((("weak", sw), dict(module="C16_upgrade", cfg=cfgname, workers=1, timeout=300, label=sw)))
    # the finding: the unweakened spec does not satisfy the full Authenticated (own identity reflected)
    jobs.append((("strict", "hs"), dict(module="C16_mc", cfg="C16_hs_strict.cfg", workers=1, timeout=900,
                                        label="hs_strict")))
    res = _tlc_jobs(ctx, jobs, 4)

    nonvac = {}
    for sw, (cfgname, invs) in list(WEAK_SC.items()) + list(WEAK_UP.items()):
        r = res[("weak", sw)]
        hit = [v["name"] for v in r.violations if v["name"] in invs]
        if r.timed_out or r.errors or not hit:
            ctx.save_log(sw, r.out)
            raise Undecided("vacuity: weakened spec %s does not violate any of %s" % (sw, invs))
        nonvac["%s refuted by TLC" % sw] = hit[0]
    rs = res[("strict", "hs")]
    strict_refuted = any(v["name"] == "Authenticated" for v in rs.violations)
    if rs.timed_out or rs.errors:
        raise Undecided("hs_strict run failed")
    # attack schedules (DESIGN.md 4.3): the counterexample of each weakened spec is the environment's winning
    # strategy against an implementation with that bug; it is replayed on the real code on every run
    attacks = []
    for key in [("weak", sw) for sw in WEAK_SC] + [("strict", "hs")]:
        for v in res[key].violations[:1]:
            tr = v["trace"]
            if len(tr) < 2:
                continue
            attacks.append({"rank": to_json(tr[0][1]["rank"]),
                            "steps": [act_to_step(st["act"]) for _h, st in tr[1:]] + DRAIN, "src": "attack:" + key[1]})

    # ---- 2. schedules ----------------------------------------------------------------------------------------
    scheds = []
    graph_states = {}
    for k, p in dots.items():
        g = read_graph(p)
        os.remove(p)
        s = schedules_from_graph(g)
        graph_states[k] = len(g.nodes)
        log("graph %s: %d states -> %d schedules" % (k, len(g.nodes), len(s)))
        for x in s:
            x["src"] = k
        scheds += s
    n_graph = len(scheds)
    scheds += attacks
    # simulation of the larger stream / duplex configs (deep behaviours, seeded)
    sim_total = 0
    for k, base in (("stream", "C16_stream.cfg"), ("duplex", "C16_duplex.cfg")):
        bb = dict(b[k])
        cfg = _mk(ctx, base, "C16_sim_%s.cfg" % k, bb, replay=True)
        prefix = os.path.join(ctx.spec_copy(), "c16sim_%s" % k)
        r = ctx.tlc("C16_mc", cfg, simulate="file=%s,num=%d" % (prefix, b["sim"]), depth=40, seed=ctx.seed,
                    workers=1, timeout=1200, label="sim_" + k)
        if r.errors or r.violations:
            ctx.save_log("sim_" + k, r.out)
            raise Undecided("simulation of %s failed: %s" % (k, (r.errors or r.violations)[:1]))
        s = schedules_from_sim(ctx, prefix)
        for x in s:
            x["src"] = "sim_" + k
        sim_total += len(s)
        scheds += s
    log("schedules: %d from graphs, %d attack schedules, %d from simulation" % (n_graph, len(attacks), sim_total))
    srcs = [x.pop("src") for x in scheds]

    cases = [to_json(s["cs"]) for s in core.read_state_dump(os.path.join(ctx.work, "upcases.dump"))]
    if len(cases) != res[("ex", "upgrade")].distinct:
        raise Undecided("upgrade cases exported: %d of %d" % (len(cases), res[("ex", "upgrade")].distinct))

    # ---- 3. replay on the real code ------------------------------------------------------------------------------
    rows, meta = _run_harness(ctx, scheds, b["random"], b["random_big"])
    up_rows = _run_upgrade(ctx, cases)
    if len(up_rows) != len(cases):
        raise Undecided("upgrade harness executed %d of %d cases" % (len(up_rows), len(cases)))
    nruns = sum(1 for r in rows if r["ev"] == "Reset")
    if nruns != len(scheds) + b["random"] + b["random_big"]:
        raise Undecided("harness executed %d of %d runs" % (nruns, len(scheds) + b["random"] + b["random_big"]))

    # ---- 4. trace validation ---------------------------------------------------------------------------------------
    v1 = core.validate_traces(ctx, "TMSecretConnTrace", rows, max_events=4000, timeout=1800, label="secretconn")
    v2 = core.validate_traces(ctx, "TMPeerUpgradeTrace", up_rows, label="upgrade")

    # ---- 5. verdict -----------------------------------------------------------------------------------------------
    verdict = core.Verdict(ctx)
    for v in v1["viol"]:
        verdict.add(_sig(v), {"kind": "secretconn", "failing_step": v["row"], "prefix": v["prefix"],
                              "tlc": {k: v[k] for k in ("inv", "class")}})
    for v in v2["viol"]:
        row = v["row"]
        verdict.add({"inv": v["inv"], "class": v["class"], "ev": "Upgrade", "op": "none"},
                    {"kind": "upgrade", "failing_step": row, "prefix": [row], "tlc": {k: v[k] for k in ("inv", "class")}})
    drift = v1["drift"] + v2["drift"]

    # measured distinctness: abstract (event, arguments, observed result) triples
    distinct = set()
    kinds = {}
    for r in rows:
        if r["ev"] == "Reset":
            continue
        kinds[r["ev"]] = kinds.get(r["ev"], 0) + 1
        if r["ev"] in ("ProcessEph", "RecvAuth", "Read", "Write", "M"):
            key = json.dumps({k: r[k] for k in r if k != "run"}, sort_keys=True)
            distinct.add(hashlib.sha1(key.encode()).hexdigest())
    for r in up_rows:
        distinct.add(hashlib.sha1(json.dumps({k: r[k] for k in r if k != "case"}, sort_keys=True).encode()).hexdigest())
    established = sum(1 for r in rows if r["ev"] == "RecvAuth" and r["ok"])
    mitm_est = sum(1 for r in rows if r["ev"] == "RecvAuth" and r["ok"] and r["remPub"] == "M")
    est_runs = {}
    for r in rows:
        if r["ev"] == "RecvAuth" and r["ok"]:
            est_runs[r["run"]] = est_runs.get(r["run"], 0) + 1
    both_est = sum(1 for n in est_runs.values() if n == 2)
    if (not both_est or not mitm_est) and not verdict.new:
        # (on a tree where violations were observed the replay is not vacuous whatever else fails)
        raise Undecided("vacuous replay: no run with both ends established (%d) or with M established (%d)" % (both_est, mitm_est))
    refused = sum(1 for r in rows if r["ev"] in ("RecvAuth", "ProcessEph") and not r["ok"])
    read_err = sum(1 for r in rows if r["ev"] == "Read" and r["err"] != "none")
    exh = {k[1]: r for k, r in res.items() if k[0] == "ex"}
    gr = {k: res[("graph", k)] for k in dots}
    coverage = {
        "states": sum(r.distinct for r in exh.values()) + sum(r.distinct for r in gr.values()),
        "transitions": sum(r.generated for r in exh.values()) + sum(r.generated for r in gr.values()),
        "traces_validated_against_impl": v1["runs"] + v2["runs"],
        "evaluations": len(rows) - nruns + len(up_rows),
        "distinct_nontrivial": len(distinct),
        "rule": "every state of the act-augmented TLC graphs (handshake with full attacker, one-way stream with frame "
                "edits, handshake+stream) is reached by replaying its BFS path on two real MakeSecretConnection endpoints "
                "over the attacker-owned pipe; plus seeded TLC simulation of the larger stream/duplex configs, the "
                "driver's own random attack/stream runs with free write/read sizes, and every TMPeerUpgrade case on the "
                "real MultiplexTransport.upgrade; a step is distinct by (event, arguments, abstract observed result)",
        "samples": [core.abridge([r for r in rows[:14]], 14), core.abridge(up_rows[:3], 3)],
        "exhaustive": True,
        "tlc_runs": ctx.tlc_stats,
        "bounds": {k: v for k, v in b.items()},
        "graph_states_replayed": graph_states,
        "schedules_from_graphs": n_graph,
        "schedules_from_simulation": sim_total,
        "attack_schedules_from_weakened_specs": [a_src for a_src in srcs if a_src.startswith("attack:")],
        "random_runs": b["random"] + b["random_big"],
        "schedule_steps_skipped_by_harness": meta.get("skipped_steps", 0),
        "events_by_kind": kinds,
        "handshakes_established": established,
        "handshakes_refused": refused,
        "reads_failed": read_err,
        "upgrade_cases": len(up_rows),
        "conformance_drift": [{"what": d["what"], "step": d["row"]} for d in drift[:5]],
        "conformance_drift_count": len(drift),
        "nonvacuity": dict(nonvac, **{
            "full Authenticated refuted by TLC on the unweakened spec (finding C16-own-identity-reflection)": strict_refuted,
            "replayed runs with both ends established / with M established under its own identity": [both_est, mitm_est]}),
        "known_findings_reproduced": dict(verdict.known),
    }
    rc = verdict.finish()
    ctx.write_evidence(coverage, [
        "cryptography is symbolic: X25519 shared secrets, HKDF keys, merlin challenges, ed25519 signatures and "
        "ChaCha20-Poly1305 frames are injective terms; no forgery without the key; low-order points give a public zero secret",
        "the attacker is Dolev-Yao on one pair of honest sessions (one session per honest party) plus signatures of one "
        "earlier session; it holds one long-term key and one ephemeral key of its own",
        "the harness scripts crypto/rand.Reader for genEphKeys (so the byte order of the ephemeral keys is the schedule's) "
        "and names concrete bytes with its own HKDF/merlin/X25519 computations and trial decryption",
        "a TLC verdict is accepted only if the verdict file covers every trace line",
    ], len(verdict.new))
    return rc


def replay(ctx, path):
    """Re-execute the failing prefix of a stored replay on the current tree and re-validate it."""
    with open(path) as f:
        rep = json.load(f)["replay"]
    verdict = core.Verdict(ctx)
    if rep.get("kind") == "upgrade":
        row = rep["failing_step"]
        case = {k: row[k] for k in ("dialed", "scOK", "connKey", "infoOK", "infoID", "valid", "compat")}
        up_rows = _run_upgrade(ctx, [case])
        v = core.validate_traces(ctx, "TMPeerUpgradeTrace", up_rows, label="replay")
        for x in v["viol"]:
            verdict.add({"inv": x["inv"], "class": x["class"], "ev": "Upgrade", "op": "none"}, {"kind": "upgrade", "failing_step": x["row"], "prefix": [x["row"]]})
            log("replay: %s fails at %s" % (x["inv"], json.dumps(x["row"])[:300]))
        return verdict.finish()
    prefix = rep["prefix"]
    if not prefix or prefix[0].get("ev") != "Reset":
        raise Undecided("replay file has no run prefix")
    steps = []
    for r in prefix[1:]:
        ev = r["ev"]
        st = {"name": ev, "p": r.get("p", ""), "eph": r.get("eph", ""), "size": r.get("size", 0), "op": r.get("op", ""),
              "i": r.get("i", 0), "pub": r.get("pub", ""), "nonce": r.get("nonce", 0), "fail": r.get("fail", 0)}
        if ev == "M" and r.get("op") == "forge":
            st["sig"] = r["sig"]
        steps.append(st)
    rows, _meta = _run_harness(ctx, [{"rank": prefix[0]["rank"], "steps": steps}], 0, 0, label="c16replay")
    v = core.validate_traces(ctx, "TMSecretConnTrace", rows, label="replay")
    for x in v["viol"]:
        verdict.add(_sig(x), {"kind": "secretconn", "failing_step": x["row"], "prefix": x["prefix"]})
        log("replay: %s (%s) fails at %s" % (x["inv"], x["class"], json.dumps(x["row"])[:300]))
    return verdict.finish()
