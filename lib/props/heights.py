"""HEIGHTS (auxiliary) — the consensus state machine ACROSS heights.

Spec: spec/TMConsensusHeights.tla (operators over one world record: Rollover = finalizeCommit/ApplyBlock/updateState/
updateToState, cs.LastCommit and late precommits, SkipTimeoutCommit, messages of other heights, the sm.State validator-set
triple with the two-height delay, cs.Validators along the node's rounds, restart at a height boundary; every step INSIDE a
height is TMConsensusNode instantiated with the height's validator set; the validator-set arithmetic is TMValSet),
spec/TMConsensusHeightsSys.tla (state machine: one real node + scripted validators + application menu), trace spec
spec/trace/TMConsensusHeightsTrace.tla, harness harness/inpkg/consensus/zz_verif_heights_test.go.

  1. TLC, exhaustive on small constants: P1 LastCommitValid (+ LastCommitGrows), P2 ValsetSchedule, P3 ProposerDeterministic /
     RotationNoUpdates, P4 NoEquivocation / PrecommitJustified (w.r.t. the reference validator set of the height), P5
     OtherHeightsIgnored, P6 SkipOnlyWhenAll, P7 RestartPreserves, P8 NoPanic.
  2. non-vacuity: every Weak_* switch must be refuted; reachability witnesses (late precommit added, height 3, changed set).
  3. replay: TLC simulation behaviours (biased towards progress, see Honestish), the counterexamples of the weakened specs
     and the corridor to the round-skip divergence are executed on a REAL consensus.State (real stores, WAL, kvstore app with
     scripted EndBlock) step by step; plus the driver's own seeded walks (late precommits, other heights, restarts, updates).
  4. TLC judges the observed traces: level 1 conformance drift, level 2 property violations.  A violation whose class is in
     FINDINGS is printed as FINDING-REPRODUCED (exit code unaffected), any other one as VIOLATION (exit 1)."""
import hashlib
import json
import os
import random
import re
from concurrent.futures import ThreadPoolExecutor

from vlib import core, tlaparse
from vlib.core import Undecided, log
from vlib.tlaparse import to_json

HARNESS = ["zz_verif_heights_test.go"]

# Weak switch -> invariants one of which TLC must report
WEAK = {
    "NilLastCommitPanics": {"NoPanic"},
    "LastCommitFromRound0": {"LastCommitValid"},
    "LateAnyRound": {"LastCommitValid"},
    "ValUpdatesEarly": {"ValsetSchedule", "RotationNoUpdates", "PrecommitJustified"},
    "NoRotationAcrossHeights": {"RotationNoUpdates"},
    "SkipOnQuorum": {"SkipOnlyWhenAll"},
    "RestartNoCatchup": {"RestartPreserves"},
    "RoundSkipSingleIncrement": {"ProposerDeterministic"},
}
REACH = {"lateadded": "NeverLateAdded", "height3": "NeverHeight3", "valschanged": "NeverValsChanged"}

# Behaviours of the UNCHANGED code that break a property of the spec header: reported as FINDING-REPRODUCED, not VIOLATION.
# key: (invariant, class reported by the trace spec)
FINDINGS = {
    ("ProposerDeterministic", "proposer after a round skip differs from round-by-round rotation"):
        "F1-roundskip-proposer: enterNewRound rotates the proposer priorities with ONE IncrementProposerPriority(k) call when the node "
        "skips k rounds; k calls of IncrementProposerPriority(1) (a node that went through every round) can elect another proposer "
        "(genesis 5/7/2, EndBlock(1)={v0:11}, EndBlock(2)={v0:1}: round 2 of height 4).  proposed-fixes/HEIGHTS-roundskip-proposer.diff",
}

GENS = [
    [(1, 1), (2, 1), (3, 1), (4, 1)],
    [(1, 2), (2, 3), (3, 1), (4, 1)],
    [(1, 1), (2, 2), (3, 1)],
    [(1, 3), (2, 2), (3, 2), (4, 1), (5, 1)],
    [(1, 5), (2, 7), (3, 2)],
]

_sim_act = re.compile(r'^/\\ act = (.*?)(?=^/\\ \w+ = |^\\\*|^=+|\Z)', re.M | re.S)


def _gen(g):
    return [{"a": a, "p": p} for a, p in g]


def act_to_step(a):
    a = to_json(a)
    return {"name": a["name"], "hh": a["hh"], "m": a["m"], "k": a["k"], "u": [{"a": x["a"], "p": x["p"]} for x in (a["u"] or [])]}


def schedules_from_sim(ctx, prefix):
    out = []
    d, base = os.path.dirname(prefix), os.path.basename(prefix)
    for fn in sorted(os.listdir(d)):
        if not fn.startswith(base + "_"):
            continue
        with open(os.path.join(d, fn)) as f:
            txt = f.read()
        os.remove(os.path.join(d, fn))
        blocks = re.split(r'^STATE_\d+ ==\s*$', txt, flags=re.M)[1:]
        if len(blocks) < 3:
            continue
        acts = []
        for blk in blocks:
            m = _sim_act.search(blk)
            if not m:
                raise Undecided("simulation state without act in %s" % fn)
            acts.append(tlaparse.parse_value(m.group(1)))
        a0 = to_json(acts[0])
        out.append({"skip": a0["k"] == "skip", "steps": [act_to_step(a) for a in acts[1:]]})
    return out


def schedule_from_trace(r):
    """counterexample of a weakened spec -> schedule"""
    if not r.violations or not r.violations[0]["trace"]:
        return None
    acts = [to_json(st["act"]) for _h, st in r.violations[0]["trace"] if "act" in st]
    if not acts or acts[0].get("name") != "Init":
        return None
    steps = []
    for a in acts[1:]:
        steps.append({"name": a["name"], "hh": a["hh"], "m": a["m"], "k": a["k"], "u": [{"a": x["a"], "p": x["p"]} for x in (a["u"] or [])]})
    return {"skip": acts[0]["k"] == "skip", "steps": steps}


def run_driver(ctx, binp, inp, label, timeout=1800):
    d = ctx.subdir("drv-" + label)
    ip = os.path.join(d, "in.json")
    with open(ip, "w") as f:
        json.dump(inp, f)
    rc, txt = ctx.run_test(binp, "^TestVerifHeights$", {"VERIF_IN": ip, "VERIF_OUT": d}, timeout=timeout, label="heights-" + label)
    if rc != 0:
        ctx.save_log("heights-" + label, txt)
        raise Undecided("heights driver failed (%s, rc=%d): %s" % (label, rc, txt[-2000:]))
    rows = core.read_ndjson(os.path.join(d, "trace.ndjson"))
    with open(os.path.join(d, "stats.json")) as f:
        stats = json.load(f)
    os.remove(os.path.join(d, "trace.ndjson"))
    return rows, stats


def _judge(ctx, v, verdict, findings):
    for x in v["viol"]:
        row = x["row"]
        sig = {"inv": x["inv"], "class": x["class"], "ev": row.get("ev"), "t": (row.get("m") or {}).get("t", "-")}
        payload = {"failing_step": {k: row[k] for k in row if k != "post"}, "post": row.get("post"), "prefix": x["prefix"],
                   "tlc": {"inv": x["inv"], "class": x["class"]}}
        fid = FINDINGS.get((x["inv"], x["class"]))
        if fid:
            findings.setdefault(fid.split(":")[0], []).append((sig, payload, fid))
        else:
            verdict.add(sig, payload)


def _store_findings(ctx, findings):
    d = os.path.join(os.environ.get("VERIF_REPLAYS", os.path.join(ctx.verif, "replays")), ctx.prop)
    out = {}
    for fid, items in sorted(findings.items()):
        sig, payload, text = items[0]
        os.makedirs(d, exist_ok=True)
        p = os.path.join(d, "finding-%s.json" % fid)
        with open(p, "w") as f:
            json.dump({"property": ctx.prop, "signature": sig, "finding": text, "replay": payload}, f, indent=1, default=str)
        print("FINDING-REPRODUCED: %s %s (%d times) replay=%s" % (ctx.prop, text.split(":")[0] + ":" + text.split(":", 1)[1][:160], len(items), p), flush=True)
        out[fid] = {"class": sig["class"], "count": len(items), "replay": p}
    return out


def run(ctx):
    quick = ctx.tier == "quick"
    rng = random.Random(ctx.seed)
    pool = ThreadPoolExecutor(max_workers=4)
    f_build = pool.submit(ctx.go_build_test, "consensus", HARNESS, name="heights")
    w = max(1, min(ctx.cores, 6))

    # ---- 1. design spec, exhaustive ----------------------------------------------------------------
    # HEIGHTS_SKIP_MC=1 (development aid for mutation experiments): only the smallest exhaustive run; the evidence says so
    skip_mc = os.environ.get("HEIGHTS_SKIP_MC") == "1"
    ex_cfgs = ["HEIGHTS_skipcorridor_repaired.cfg"] if skip_mc else ["HEIGHTS_small.cfg", "HEIGHTS_skipcorridor_repaired.cfg"] if quick else \
              ["HEIGHTS_small.cfg", "HEIGHTS_skipcorridor_repaired.cfg", "HEIGHTS_r1.cfg", "HEIGHTS_rm.cfg", "HEIGHTS_full.cfg", "HEIGHTS_h3.cfg"]
    f_ex = [(c, pool.submit(ctx.tlc, "HEIGHTS_mc", c, must_pass=True, timeout=900 if quick else 3000, workers=min(w, 3 if quick else 4),
                            heap="4g", label=c[:-4])) for c in ex_cfgs]
    # ---- 2. non-vacuity -----------------------------------------------------------------------------
    f_weak = [(k, pool.submit(ctx.tlc, "HEIGHTS_mc", "HEIGHTS_weak_%s.cfg" % k, timeout=600, workers=2, label="weak_" + k)) for k in WEAK]
    f_reach = [(k, pool.submit(ctx.tlc, "HEIGHTS_mc", "HEIGHTS_reach_%s.cfg" % k, timeout=600, workers=2, label="reach_" + k)) for k in REACH]
    # ---- 3a. behaviours from simulation ------------------------------------------------------------------
    nsim = 60 if quick else 300
    prefix = os.path.join(ctx.spec_copy(), "heightssim")
    r_sim = ctx.tlc("HEIGHTS_mc", "HEIGHTS_sim.cfg", simulate="file=%s,num=%d" % (prefix, nsim), depth=160 if quick else 220, seed=ctx.seed,
                    workers=1, timeout=900 if quick else 2400, label="sim")
    if r_sim.errors or r_sim.violations or r_sim.timed_out:
        ctx.save_log("sim", r_sim.out)
        raise Undecided("simulation failed: %s" % ((r_sim.errors or r_sim.violations or ["timeout"])[:1]))
    sims = schedules_from_sim(ctx, prefix)
    if len(sims) < nsim // 2:
        raise Undecided("simulation produced %d behaviours of %d" % (len(sims), nsim))

    nonvac, attacks = {}, []
    for k, f in f_weak:
        r = f.result()
        names = {x["name"] for x in r.violations}
        if not (names & WEAK[k]):
            ctx.save_log("weak_" + k, r.out)
            raise Undecided("vacuity: weakened spec Weak %s is not refuted (%s)" % (k, sorted(names) or r.errors[:1] or "timeout"))
        nonvac["Weak " + k] = sorted(names & WEAK[k])[0]
        s = schedule_from_trace(r)
        if s is not None:
            s["src"] = "weak_" + k
            s["gen"] = GENS[4] if k == "RoundSkipSingleIncrement" else GENS[2]
            attacks.append(s)
    for k, f in f_reach:
        r = f.result()
        if not any(x["name"] == REACH[k] for x in r.violations):
            ctx.save_log("reach_" + k, r.out)
            raise Undecided("reachability witness %s not found: the model does not reach the situation" % k)
        nonvac["reach " + k] = REACH[k] + " refuted"
        s = schedule_from_trace(r)
        if s is not None:
            s["src"] = "reach_" + k
            s["gen"] = GENS[2]
            attacks.append(s)
    if not any(a["src"] == "weak_RoundSkipSingleIncrement" for a in attacks):
        raise Undecided("no schedule extracted for the round-skip corridor")

    # ---- 3b. runs on the real node ---------------------------------------------------------------------
    runs = []
    for a in attacks:                                    # counterexamples of weakened specs, each with a random tail
        runs.append({"id": len(runs) + 1, "kind": a["src"], "gen": _gen(a["gen"]), "skip": a["skip"], "steps": a["steps"],
                     "randlen": 0 if a["src"] == "weak_RoundSkipSingleIncrement" else 40, "maxheight": 6, "seed": ctx.seed * 7919 + len(runs)})
    for s in sims:                                       # simulation behaviours (spec/mc/HEIGHTS_sim.cfg: genesis G4, universe of 5)
        runs.append({"id": len(runs) + 1, "kind": "sim", "gen": _gen(GENS[0]), "skip": s["skip"], "steps": s["steps"],
                     "randlen": 30, "maxheight": 7, "seed": ctx.seed * 7919 + len(runs)})
    nrand = 40 if quick else 150
    for i in range(nrand):                               # the driver's own seeded walks
        runs.append({"id": len(runs) + 1, "kind": "random", "gen": _gen(GENS[i % len(GENS)]), "skip": rng.random() < 0.35, "steps": [],
                     "randlen": 350 if quick else 500, "maxheight": 6 if quick else 9, "seed": ctx.seed * 104729 + i})
    binp = f_build.result()
    rows, stats = run_driver(ctx, binp, {"maxround": 2, "universe": 5, "runs": runs}, "main", timeout=1200 if quick else 3000)
    nruns = sum(1 for r in rows if r["ev"] == "Reset")
    if nruns != len(runs):
        raise Undecided("driver executed %d of %d runs" % (nruns, len(runs)))

    # ---- 4. TLC judges the observed traces --------------------------------------------------------------
    v = core.validate_traces(ctx, "TMConsensusHeightsTrace", rows, max_events=1500, timeout=1800, label="heights")
    verdict = core.Verdict(ctx)
    findings = {}
    _judge(ctx, v, verdict, findings)

    # ---- 5. model-checking results -------------------------------------------------------------------------
    states = transitions = 0
    sizes = {}
    for c, f in f_ex:
        r = f.result()
        states += r.distinct
        transitions += r.generated
        sizes[c] = {"distinct": r.distinct, "generated": r.generated, "depth": r.depth}

    classes, heights, kinds = set(), {}, {}
    rollovers = lates = restarts = others = updates = skips = 0
    pre_h = {}
    for r in rows:
        if r["ev"] == "Reset":
            pre_h[r["run"]] = (1, 1, None)
            continue
        p = r["post"]
        h0, step0, lc0 = pre_h.get(r["run"], (1, 1, None))
        lc1 = json.dumps(p["lc"]["vs"]["votes"], sort_keys=True) if not p["lc"]["nil"] else None
        kinds[r["ev"]] = kinds.get(r["ev"], 0) + 1
        heights[p["h"]] = heights.get(p["h"], 0) + 1
        if p["h"] != h0:
            rollovers += 1
            if r["u"]:
                updates += 1
            if p["node"]["step"] != 1:
                skips += 1
        elif r["hh"] == h0 - 1 and r["m"]["t"] == "precommit" and lc1 != lc0:
            lates += 1
        if r["ev"] == "Restart":
            restarts += 1
        if r["ev"] != "Restart" and r["hh"] != h0:
            others += 1
        classes.add(hashlib.sha1(json.dumps([r["ev"], r["hh"] - h0, r["m"]["t"], r["k"], step0, p["node"]["step"], p["h"] - h0, len(r["u"]),
                                             [o["t"] for o in r["out"]], lc1 != lc0, len(p["vs"]["cur"]["vals"])]).encode()).hexdigest())
        pre_h[r["run"]] = (p["h"], p["node"]["step"], lc1)
    fstore = _store_findings(ctx, findings)
    sample = [dict((k, r[k]) for k in r if k not in ("post", "signs")) for r in rows[1:9]]
    coverage = {
        "states": states + r_sim.generated,
        "transitions": transitions + r_sim.generated,
        "traces_validated_against_impl": v["runs"],
        "evaluations": len(rows),
        "distinct_nontrivial": len(classes),
        "rule": "a step is distinct by (event, height of the input relative to the node, message type / timeout kind, step before and after, "
                "height change, size of EndBlock's answer, kinds of outputs, whether LastCommit changed, size of the validator set)",
        "samples": [core.abridge(sample, 8)],
        "exhaustive": False,
        "exhaustive_note": "the design spec is model-checked exhaustively on the small configurations listed in tlc_sizes; the replay covers "
                           "simulated behaviours, counterexamples of the weakened specs and seeded walks, not every behaviour of a bounded graph",
        "tlc_sizes": sizes,
        "design_model_checked": not skip_mc,
        "tlc_runs": ctx.tlc_stats,
        "nonvacuity": nonvac,
        "schedules": {"from_tlc_simulation": len(sims), "from_weakened_spec_counterexamples": len(attacks), "seeded_walks": nrand},
        "driver": stats,
        "observed": {"events_by_kind": kinds, "events_by_height": {str(k): heights[k] for k in sorted(heights)}, "commits": rollovers,
                     "commits_with_validator_updates": updates, "late_precommits_that_changed_LastCommit": lates, "restarts": restarts,
                     "inputs_of_other_heights": others, "commits_followed_by_skipped_timeout_commit": skips},
        "conformance_drift": [{"what": d["what"], "fields": d.get("fields"), "step": {k: d["row"][k] for k in d["row"] if k not in ("post", "signs")}}
                              for d in v["drift"][:5]],
        "conformance_drift_count": len(v["drift"]),
        "findings_reproduced": fstore,
        "known_findings_reproduced": dict(verdict.known),
    }
    rc = verdict.finish()
    ctx.write_evidence(coverage, [
        "one node under test; every other validator is scripted (the driver holds the keys): more than 1/3 -- in fact all other power -- can "
        "misbehave, so the documented panics '+2/3 committed/prevoted an invalid block' are reachable and not counted (P8)",
        "the node is driven single-threaded through handleMsg / handleTimeout with the driver emulating receiveRoutine (WAL write first); the "
        "ticker is a stub, timeouts fire when the schedule says so; concurrency of the real goroutines is not explored here",
        "application: in-memory kvstore whose EndBlock answers with the schedule's validator updates (only batches the validator set accepts; "
        "the seeded walks also remove and re-add the node under test, the TLC menus do not); CreateEmptyBlocks = true (needProofBlock / "
        "WaitForTxs paths are not exercised)",
        "restart = stop at a height boundary (step NewHeight, nothing of the new height handled) and a new State on the same stores and WAL "
        "with catchupReplay; crashes inside finalizeCommit are C05's subject",
        "validator-set arithmetic is TMValSet's (C08) transcription; universe of 5 validators, rounds 0..2, heights up to 9",
        "a TLC verdict is accepted only if the verdict file covers every trace line",
    ], len(verdict.new))
    pool.shutdown(wait=False)
    return rc


def replay(ctx, path):
    """Re-execute the schedule of a stored failing run on the current tree and re-validate it."""
    with open(path) as f:
        rep = json.load(f)
    prefix = rep["replay"]["prefix"]
    if not prefix or prefix[0].get("ev") != "Reset":
        raise Undecided("replay file has no run prefix")
    r0 = prefix[0]
    steps = []
    for r in prefix[1:]:
        st = {"name": r["ev"], "hh": r["hh"], "m": r["m"], "k": r["k"], "u": r.get("u") or []}
        if r["ev"] == "Timeout":
            st["m"] = {"t": "tick", "src": "-", "r": r["m"]["r"], "v": "-", "pol": -2}
        steps.append(st)
    run = {"id": r0["run"], "kind": "replay", "gen": r0["gen"], "skip": r0["skip"], "steps": steps, "randlen": 0, "maxheight": 0, "seed": 0}
    binp = ctx.go_build_test("consensus", HARNESS, name="heights")
    rows, _stats = run_driver(ctx, binp, {"maxround": 2, "universe": 5, "runs": [run]}, "replay")
    v = core.validate_traces(ctx, "TMConsensusHeightsTrace", rows, label="replay")
    for d in v["drift"]:
        log("replay: level-1 note at line %d: %s %s" % (d["l"], d["what"], d.get("fields")))
    verdict = core.Verdict(ctx)
    findings = {}
    _judge(ctx, v, verdict, findings)
    for x in v["viol"]:
        log("replay: %s (%s) fails at %s" % (x["inv"], x["class"], json.dumps({k: x["row"][k] for k in x["row"] if k not in ("post", "signs")})[:400]))
    _store_findings(ctx, findings)
    return verdict.finish()
