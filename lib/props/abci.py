"""ABCI - the ABCI client layer between Tendermint and the application (auxiliary check).

Specs: spec/TMAbciSocket.tla (socketClient + ReqRes + socket server / scripted peer),
spec/TMAbciLocal.tla (localClient, shared mutex), spec/TMAbciProxy.tla (multiAppConn);
trace specs: spec/trace/TMAbciTrace.tla (level 2: the properties on observed events),
spec/trace/TMAbciConform.tla, TMAbciLocalConform.tla (level 1: search-based conformance);
harness: harness/inpkg/abci/client/zz_verif_abci*_test.go, harness/inpkg/proxy/zz_verif_abci_test.go.

Properties: PerConnectionFIFO, FlushMeaning, CallbackOrder, ErrorIsTerminal, LocalClientSerialises.
"""
import hashlib
import json
import os
import re
import shutil
from concurrent.futures import ThreadPoolExecutor

from vlib import core
from vlib import tlaparse
from vlib.core import Undecided, log
from vlib.tlaparse import to_json

# Behaviour of the unchanged tree that breaks ErrorIsTerminal and is reported to the coordinator
# as a finding (proposed-fixes/ABCI-*.diff): printed as FINDING-REPRODUCED, not as VIOLATION.
# Narrow by construction: class + family.  Everything else is a VIOLATION.
PROVISIONAL_FINDINGS = {
    ("sock", "caller_blocked_for_ever_in_queueRequest_after_error"): "ABCI-F3-dead-queue",
    ("sock", "caller_blocked_for_ever_in_queueRequest_after_Stop"): "ABCI-F3-dead-queue",
    ("sock", "caller_blocked_for_ever_in_Wait_after_Stop"): "ABCI-F3-dead-queue",
    ("sock", "process_panic_negative_waitgroup_counter"): "ABCI-F1-double-done",
    ("sock", "caller_blocked_for_ever_in_Wait_after_error_call_made_during_callback"): "ABCI-F2-in-hand-request-lost",
    ("sock", "caller_blocked_for_ever_in_Wait_after_Stop_call_made_during_callback"): "ABCI-F2-in-hand-request-lost",
    ("conc", "process_panic_negative_waitgroup_counter"): "ABCI-F1-double-done",
}

SOCK_WEAK = ["FlushDoesNotWaitForCallbacks", "ResponseMatchedByTypeOnly", "NoTypeCheck", "CallbackSetAfterDoneLost",
             "ErrorLeavesPendingBlocked", "SendBeforeTrack", "ExceptionIgnored"]
SOCK_WEAK_INV = {"FlushDoesNotWaitForCallbacks": "FlushMeaning", "ResponseMatchedByTypeOnly": "RespOrder",
                 "NoTypeCheck": "RespType", "CallbackSetAfterDoneLost": "CbNotLost",
                 "ErrorLeavesPendingBlocked": "NoStuckCaller", "SendBeforeTrack": "HonestNoError",
                 "ExceptionIgnored": "FaultStops"}
LOCAL_WEAK = ["LocalClientPerConnMutex", "SyncWithoutMutex", "CallbackOutsideMutex"]
PROXY_WEAK = ["StartFailureLeaksClients", "KillWatchesConsensusOnly", "KillIgnoresError"]
ENV = {"StartCall", "SetCallback", "UStop", "ReleaseGate", "TimerFire", "SrvGot", "SrvReply", "SrvFinishFrame", "Fault"}


# ----------------------------------------------------------------------------- schedules
def sock_steps(states):
    """TLC behaviour (list of json-ified states) -> environment steps for the harness."""
    steps = []
    for st in states[1:]:
        a = st["act"]
        n = a["name"]
        if n not in ENV:
            continue
        if n == "StartCall":
            steps.append({"name": n, "t": str(a["t"]), "kind": a["kind"], "call": a["call"], "gate": bool(a["gate"])})
        elif n == "SetCallback":
            steps.append({"name": n, "t": str(a["t"]), "call": st["reqs"][a["r"] - 1]["call"]})
        elif n == "SrvReply":
            steps.append({"name": n, "part": bool(a["part"])})
        elif n == "Fault":
            steps.append({"name": n, "f": a["f"], "ty": a["ty"]})
        else:
            steps.append({"name": n})
    return steps


LOCAL_KIND = {("consensus", "Async"): "AsyncD", ("consensus", "Sync"): "SyncD", ("mempool", "Async"): "AsyncB",
              ("mempool", "Sync"): "SyncB", ("query", "Sync"): "SyncQ", ("snapshot", "Sync"): "SyncI",
              ("query", "Async"): None, ("snapshot", "Async"): None}


def local_steps(states, via_proxy):
    steps = []
    for st in states[1:]:
        a = st["act"]
        if a["name"] == "StartCall":
            conn, sk = a["conn"], a["kind"]
            if sk in ("FlushSync", "FlushAsync"):
                kind = sk
                if via_proxy and conn != "mempool":
                    return None        # only the mempool wrapper has Flush*
            elif sk == "EchoSync":
                kind = "SyncA"
                if via_proxy and conn != "query":
                    return None
            else:
                kind = LOCAL_KIND.get((conn, sk))
                if kind is None:
                    if via_proxy:
                        return None
                    kind = "AsyncB" if sk == "Async" else "SyncB"
            steps.append({"name": "StartCall", "conn": conn, "kind": kind, "skind": sk, "call": a["call"],
                          "gate": str(a["gate"])})
        elif a["name"] in ("ReleaseApp", "ReleaseCb"):
            steps.append({"name": a["name"]})
    return steps


def read_sim(prefix, limit):
    out = []
    d = os.path.dirname(prefix)
    base = os.path.basename(prefix)
    names = sorted((f for f in os.listdir(d) if f.startswith(base + "_")), key=lambda s: [int(x) for x in re.findall(r'\d+', s)])
    for f in names[:limit]:
        with open(os.path.join(d, f)) as fh:
            beh = tlaparse.parse_behaviour_text(fh.read())
        out.append([to_json(s) for _h, s in beh])
        os.remove(os.path.join(d, f))
    return out


def dedupe(runs):
    seen, out = set(), []
    for r in runs:
        k = json.dumps([r["steps"], r.get("rep", 0)], sort_keys=True)
        if k in seen or not r["steps"]:
            continue
        seen.add(k)
        out.append(r)
    return out


# ----------------------------------------------------------------------------- harness runs
PANIC_RE = re.compile(r'^panic: (.*)$', re.M)


def run_sock_harness(ctx, binp, runs, out, extra=None):
    """Runs the socket replay; a product panic kills the test process: it is recorded as a Crash
    event of the run that was executing and the remaining runs are executed by a new process."""
    rows = []
    skip = 0
    crashes = 0
    while True:
        inp = os.path.join(ctx.work, "abci-sock-in-%d.json" % skip)
        doc = {"runs": runs, "skip": skip}
        if extra:
            doc.update(extra)      # the concurrent / local families run after the last socket run
        with open(inp, "w") as f:
            json.dump(doc, f)
        rc, txt = ctx.run_test(binp, "^TestVerifABCI$", {"VERIF_IN": inp, "VERIF_OUT": out}, timeout=900,
                               label="abci/client skip=%d" % skip)
        p = os.path.join(out, "sock-%d.ndjson" % skip)
        part = core.read_ndjson(p) if os.path.exists(p) else []
        if rc == 0:
            rows += part
            break
        m = PANIC_RE.search(txt)
        if not m or rc == 124 or not part:
            ctx.save_log("harness-abci", txt)
            raise Undecided("ABCI harness failed (rc=%d): %s" % (rc, txt[-1500:]))
        # which goroutine panicked: the frames right after the panic message
        tail = txt[m.end():m.end() + 4000]
        frames = re.findall(r'^(\S+)\(.*\)\n\t(\S+):(\d+)', tail, re.M)
        product = [f for f in frames if "/abci/client." in f[0] and "zz_verif" not in f[1]]
        first_user = next((f for f in frames if "tendermint" in f[0]), None)
        if not product or (first_user and "zz_verif" in first_user[1]):
            ctx.save_log("harness-abci", txt)
            raise Undecided("ABCI harness panicked in harness code: %s" % m.group(1))
        what = re.sub(r'[^a-z0-9]+', '_', m.group(1).lower().replace("sync: ", "")).strip("_")
        nreset = sum(1 for r in part if r.get("ev") == "Reset")
        n = (part[-1].get("n", 0) if part else 0) + 1
        part.append({"ev": "Crash", "what": what, "msg": m.group(1), "where": product[0][0], "n": n})
        rows += part
        crashes += 1
        skip = skip + nreset            # the run that crashed is not repeated
        if crashes >= 8:
            runs = runs[:skip]          # enough evidence; the other families still have to run
    return [r for r in rows if r.get("ev") != "End"], crashes


# ----------------------------------------------------------------------------- level 1: conformance by search
def conform(ctx, module, cfg, rows, label, obs_ev="Obs", max_lines=1500):
    """rows: all events of step-controlled runs.  Returns (accepted_run_ids, rejected: {run_id: row})."""
    runs, cur = [], None
    for r in rows:
        if r["ev"] == "Reset":
            cur = {"id": r["run"], "lines": [r], "ok": True}
            runs.append(cur)
        elif cur is not None and r["ev"] in ("Env", obs_ev):
            if r["ev"] == obs_ev and not r.get("settled", True):
                cur["ok"] = False
            if r["ev"] == obs_ev and r.get("final"):
                continue
            cur["lines"].append(r)
        elif cur is not None and r["ev"] in ("Skip", "Crash"):
            cur["ok"] = False          # the harness could not execute a step / the process died: not comparable
    runs = [r for r in runs if r["ok"]]
    chunks, c = [], []
    for r in runs:
        if c and sum(len(x["lines"]) for x in c) + len(r["lines"]) > max_lines:
            chunks.append(c)
            c = []
        c.append(r)
    if c:
        chunks.append(c)
    base = ctx.spec_copy()
    accepted, rejected = [], {}

    def one(k):
        d = os.path.join(ctx.work, "cf-%s-%d" % (label, k))
        shutil.copytree(base, d)
        lines = [ln for r in chunks[k] for ln in r["lines"]]
        core.write_ndjson(os.path.join(d, "trace.ndjson"), lines)
        res = ctx.tlc(module, cfg, cwd=d, workers=1, timeout=900, heap="3g", label="%s#%d" % (label, k))
        vp = os.path.join(d, "conform.json")
        if not os.path.exists(vp) or res.errors or res.timed_out or res.violations:
            ctx.save_log("cf-%s-%d" % (label, k), res.out)
            raise Undecided("conformance %s chunk %d not completed by TLC: %s" % (label, k, (res.errors or ["no result"])[:2]))
        with open(vp) as f:
            marks = {m["run"]: m["hw"] for m in json.load(f)["marks"]}
        pos = 1
        acc, rej = [], {}
        for r in chunks[k]:
            end = pos + len(r["lines"])
            hw = marks.get(pos)
            if hw is None:
                raise Undecided("conformance %s: no mark for run at line %d" % (label, pos))
            if hw >= end:
                acc.append(r["id"])
            else:
                rej[r["id"]] = lines[hw - 1]
            pos = end
        if not ctx.keep:
            shutil.rmtree(d, ignore_errors=True)
        return acc, rej, res

    st = [0, 0]
    with ThreadPoolExecutor(max_workers=max(1, min(len(chunks), ctx.cores))) as ex:
        for acc, rej, res in ex.map(one, range(len(chunks))):
            accepted += acc
            rejected.update(rej)
            st[0] += res.distinct
            st[1] += res.generated
    log("conformance %s: %d runs accepted, %d rejected (%d runs not comparable)" % (
        label, len(accepted), len(rejected), sum(1 for r in rows if r["ev"] == "Reset") - len(runs)))
    return accepted, rejected, st


# ----------------------------------------------------------------------------- the check
def tlc_jobs(ctx, jobs, par):
    """jobs: list of (key, kwargs for ctx.tlc with 'module','cfg').  Runs them `par` at a time."""
    res = {}

    def one(j):
        key, kw = j
        kw = dict(kw)
        mod, cfg = kw.pop("module"), kw.pop("cfg")
        return key, ctx.tlc(mod, cfg, **kw)

    with ThreadPoolExecutor(max_workers=par) as ex:
        for key, r in ex.map(one, jobs):
            res[key] = r
    return res


def build_schedules(ctx, quick):
    W = max(1, min(6, ctx.cores))
    sp = ctx.spec_copy()
    # --- exhaustive design configs + non-vacuity
    if quick:
        exh = [("sock_honest", "ABCI_sock", "ABCI_sock_honest.cfg"), ("sock_raw_q2", "ABCI_sock", "ABCI_sock_raw_q2.cfg"),
               ("proxy", "ABCI_proxy", "ABCI_proxy.cfg"),
               ("local", "ABCI_local", core.cfg_variant(ctx, "ABCI_local.cfg", "ABCI_local_q.cfg", {"MaxCalls": 3}))]
    else:
        exh = [("sock_honest", "ABCI_sock", "ABCI_sock_honest.cfg"), ("sock_honest_1t", "ABCI_sock", "ABCI_sock_honest_1t.cfg"),
               ("sock_raw", "ABCI_sock", "ABCI_sock_raw.cfg"), ("sock_raw_q1", "ABCI_sock", "ABCI_sock_raw_q1.cfg"),
               ("sock_raw_stop", "ABCI_sock", "ABCI_sock_raw_stop.cfg"),
               ("proxy", "ABCI_proxy", "ABCI_proxy.cfg"), ("local", "ABCI_local", "ABCI_local.cfg")]
    jobs = [(k, dict(module=m, cfg=c, must_pass=True, timeout=600 if quick else 3000, workers=(2 if k == "sock_honest" else 1) if quick else W,
                     heap="3g" if quick else "6g", label=k)) for k, m, c in exh]
    weak = []
    for w in SOCK_WEAK:
        weak.append(("weak_" + w, dict(module="ABCI_sock", cfg="ABCI_weak_%s.cfg" % w, timeout=600, workers=1, label="weak_" + w)))
    for w in LOCAL_WEAK:
        weak.append(("weak_" + w, dict(module="ABCI_local", cfg="ABCI_weak_%s.cfg" % w, timeout=600, workers=1, label="weak_" + w)))
    for w in PROXY_WEAK:
        weak.append(("weak_" + w, dict(module="ABCI_proxy", cfg="ABCI_weak_%s.cfg" % w, timeout=300, workers=1, label="weak_" + w)))
    for inv in ("NoPanic", "NoStuckWaiter", "NoStuckEnqueuer"):     # the code as it is: TLC must find the three defects
        cfg = core.cfg_variant(ctx, "ABCI_asis.cfg", "ABCI_asis_%s.cfg" % inv, {}, invariants=[inv])
        weak.append(("asis_" + inv, dict(module="ABCI_sock", cfg=cfg, timeout=900, workers=1, label="asis_" + inv)))
    # --- replay material
    nsim = 60 if quick else 400
    simp = os.path.join(sp, "abcisim")
    os.makedirs(simp, exist_ok=True)
    jobs.append(("sim_sock", dict(module="ABCI_sock", cfg="ABCI_sock_replay.cfg", simulate="file=%s,num=%d" % (os.path.join(simp, "s"), nsim),
                                  depth=90, seed=ctx.seed, workers=1, timeout=600, must_pass=True, label="sim_sock")))
    jobs.append(("sim_local", dict(module="ABCI_local", cfg="ABCI_local_replay.cfg",
                                   simulate="file=%s,num=%d" % (os.path.join(simp, "l"), 40 if quick else 300),
                                   depth=60, seed=ctx.seed, workers=1, timeout=600, must_pass=True, label="sim_local")))
    dot = os.path.join(ctx.work, "proxy.dot")
    jobs.append(("proxy_graph", dict(module="ABCI_proxy", cfg=core.cfg_variant(ctx, "ABCI_proxy.cfg", "ABCI_proxy_graph.cfg", {}, invariants=[]),
                                     dump=["dot,actionlabels", dot], workers=1, timeout=300, must_pass=True, label="proxy_graph")))
    # attack schedules: the weakened specs in replay mode (environment steps at quiescence, gates)
    att = []
    for w in SOCK_WEAK:
        cfg = core.cfg_variant(ctx, "ABCI_weak_%s.cfg" % w, "ABCI_att_%s.cfg" % w,
                               {"Prio": True, "Gates": True, "MaxCalls": 3, "UserStop": False, "Server": '"raw"',
                                "Faults": '{"wrongtype", "extra", "swap", "exception", "garbage", "close", "halfclose", "midframe"}'})
        att.append(("att_" + w, dict(module="ABCI_sock", cfg=cfg, timeout=600, workers=1, label="att_" + w)))
    for inv in ("NoPanic", "NoPanicDeep", "NoPanicDeepStop", "NoStuckWaiter", "NoStuckEnqueuer"):
        deep = inv.startswith("NoPanicDeep")
        consts = {"Prio": True, "Gates": True, "MaxCalls": 3 if deep else 4, "UserStop": deep, "SetCb": False,
                  "CallKinds": '{"AsyncA", "SyncA", "FlushSync"}' if deep else '{"AsyncA", "SyncB", "FlushSync"}'}
        if inv == "NoPanicDeepStop":
            consts.update({"CallKinds": '{"AsyncA", "SyncA"}', "Faults": "{}"})
        cfg = core.cfg_variant(ctx, "ABCI_asis.cfg", "ABCI_att_asis_%s.cfg" % inv, consts, invariants=[inv])
        att.append(("att_asis_" + inv, dict(module="ABCI_sock", cfg=cfg, timeout=1500, workers=1, label="att_asis_" + inv)))
    for w in LOCAL_WEAK:
        cfg = core.cfg_variant(ctx, "ABCI_weak_%s.cfg" % w, "ABCI_att_%s.cfg" % w, {"Prio": True, "MaxCalls": 3})
        att.append(("att_" + w, dict(module="ABCI_local", cfg=cfg, timeout=600, workers=1, label="att_" + w)))
    lib = os.path.join(ctx.verif, "spec", "attacks", "ABCI", "library.json")
    use_lib = quick and os.path.exists(lib)
    local_att = [j for j in att if j[0] in ("att_" + w for w in LOCAL_WEAK)]    # cheap: always regenerated
    att = att if not use_lib else local_att
    alljobs = jobs + weak + att
    # quick: many small jobs (JVM start dominates) - one per core; thorough: the big exhaustive ones with W
    # workers each, then the small single-worker ones one per core
    if quick:
        res = tlc_jobs(ctx, alljobs, par=max(2, min(ctx.cores, 6)))
    else:
        big = [j for j in alljobs if j[1].get("workers", 1) > 1]
        small = [j for j in alljobs if j[1].get("workers", 1) <= 1]
        res = tlc_jobs(ctx, big, par=max(1, ctx.cores // W))
        res.update(tlc_jobs(ctx, small, par=max(2, min(ctx.cores, 6))))
    # non-vacuity
    nonvac = {}
    for w in SOCK_WEAK:
        r = res["weak_" + w]
        nonvac[w] = any(v["name"] == SOCK_WEAK_INV[w] for v in r.violations)
    for w in LOCAL_WEAK:
        nonvac[w] = any(v["name"] == "LocalClientSerialises" for v in res["weak_" + w].violations)
    for w in PROXY_WEAK:
        nonvac[w] = any(v["name"] == "ProxyProps" for v in res["weak_" + w].violations)
    asis_found = sorted({v["name"] for k in res if k.startswith("asis_") for v in res[k].violations})
    for w, ok in nonvac.items():
        if not ok:
            raise Undecided("vacuity: weakened spec Weak_%s is not refuted by TLC" % w)
    # schedules
    sock_runs, local_runs, plocal_runs, proxy_runs = [], [], [], []
    if use_lib:
        with open(lib) as f:
            L = json.load(f)
        sock_runs += L["sock"]
    if True:
        for key, _kw in att:
            r = res[key]
            if not r.violations or not r.violations[0]["trace"]:
                log("no attack schedule from %s" % key)
                continue
            states = [to_json(s) for _h, s in r.violations[0]["trace"]]
            if key in ("att_" + w for w in LOCAL_WEAK):
                s1 = local_steps(states, False)
                local_runs.append({"id": key, "steps": s1})
                s2 = local_steps(states, True)
                if s2:
                    plocal_runs.append({"id": "p" + key, "kind": "plocal", "steps": s2})
            else:
                st = sock_steps(states)
                sock_runs.append({"id": key, "qcap": 2, "steps": st})
                if key.startswith("att_asis_"):      # interleaving-dependent on real code: three attempts
                    for k in range(2, 13 if "Panic" in key else 41 if "StuckWaiter" in key else 4):
                        sock_runs.append({"id": "%s#%d" % (key, k), "qcap": 2, "steps": st, "rep": k})
    for i, beh in enumerate(read_sim(os.path.join(simp, "s"), nsim)):
        sock_runs.append({"id": "sim%d-%d" % (ctx.seed, i), "qcap": 2, "steps": sock_steps(beh)})
    for i, beh in enumerate(read_sim(os.path.join(simp, "l"), 1000)):
        s1 = local_steps(beh, False)
        local_runs.append({"id": "lsim%d-%d" % (ctx.seed, i), "steps": s1})
        s2 = local_steps(beh, True)
        if s2:
            plocal_runs.append({"id": "plsim%d-%d" % (ctx.seed, i), "kind": "plocal", "steps": s2})
    g = core.parse_dot(dot)
    os.remove(dot)
    k = 0
    for nodes in core.graph_schedules(g):
        steps = []
        for nid in nodes[1:]:
            a = to_json(g.nodes[nid]["act"])
            if a["name"] == "Start":
                steps.append({"name": "Start", "failAt": a["failAt"], "failMode": "create" if k % 2 == 0 else "start"})
                steps.append({"name": "Calls"})
            elif a["name"] == "ClientError":
                steps.append({"name": "ClientError", "conn": a["conn"]})
            elif a["name"] == "Stop":
                steps.append({"name": "Stop"})
        if steps:
            proxy_runs.append({"id": "pg%d" % k, "kind": "multi", "steps": steps})
            k += 1
    return res, nonvac, asis_found, dedupe(sock_runs), dedupe(local_runs), dedupe(plocal_runs), dedupe(proxy_runs), \
        len(g.nodes), not use_lib


def validate(ctx, fam_rows, verdict, findings):
    total = {"viol": 0, "runs": 0, "events": 0}
    for fam, rows in fam_rows.items():
        if not rows:
            continue
        v = core.validate_traces(ctx, "TMAbciTrace", rows, label=fam, max_events=2500)
        total["runs"] += v["runs"]
        total["events"] += v["events"]
        for x in v["viol"]:
            run = x["prefix"][0].get("run", "?") if x["prefix"] else "?"
            family = x["prefix"][0].get("family", fam) if x["prefix"] else fam
            sig = {"inv": x["inv"], "class": x["class"], "family": family}
            payload = {"failing_step": x["row"], "prefix": x["prefix"], "run": run, "family": fam,
                       "tlc": {"inv": x["inv"], "class": x["class"]}}
            fid = PROVISIONAL_FINDINGS.get((family, x["class"]))
            if fid:
                findings.setdefault(fid, []).append((sig, payload))
            else:
                verdict.add(sig, payload)
            total["viol"] += 1
    return total


def store_findings(ctx, findings, rundefs):
    d = os.path.join(os.environ.get("VERIF_REPLAYS", os.path.join(ctx.verif, "replays")), ctx.prop)
    out = {}
    for fid, items in sorted(findings.items()):
        sig, payload = items[0]
        payload = dict(payload)
        payload["rundef"] = rundefs.get(payload.get("run"))
        os.makedirs(d, exist_ok=True)
        p = os.path.join(d, "finding-%s.json" % fid)
        with open(p, "w") as f:
            json.dump({"property": ctx.prop, "signature": sig, "finding": fid, "replay": payload}, f, indent=1, default=str)
        print("FINDING-REPRODUCED: property=%s %s class=%s (%d times) replay=%s" % (ctx.prop, fid, sig["class"], len(items), p), flush=True)
        out[fid] = {"class": sig["class"], "count": len(items), "replay": p}
    return out


def run(ctx):
    quick = ctx.tier == "quick"
    res, nonvac, asis_found, sock_runs, local_runs, plocal_runs, proxy_runs, proxy_states, regenerated = build_schedules(ctx, quick)
    if not quick and regenerated:
        # the thorough tier refreshes the attack-schedule library used by the quick tier
        libd = os.path.join(ctx.verif, "spec", "attacks", "ABCI")
        if os.environ.get("VERIF_ABCI_WRITE_LIBRARY") == "1":
            os.makedirs(libd, exist_ok=True)
            with open(os.path.join(libd, "library.json"), "w") as f:
                json.dump({"sock": [r for r in sock_runs if r["id"].startswith("att_")]}, f, indent=1)
    rundefs = {r["id"]: dict(r, family="sock") for r in sock_runs}
    rundefs.update({r["id"]: dict(r, family="local") for r in local_runs})
    rundefs.update({r["id"]: dict(r, family="proxy") for r in plocal_runs + proxy_runs})
    log("schedules: %d sock, %d local, %d plocal, %d proxy" % (len(sock_runs), len(local_runs), len(plocal_runs), len(proxy_runs)))

    # ---- real code
    out = ctx.subdir("abci-out")
    bin1 = ctx.go_build_test("abci/client", ["zz_verif_abci_test.go", "zz_verif_abci_conc_test.go"])
    bin2 = ctx.go_build_test("proxy", ["zz_verif_abci_test.go"])
    extra = {"conc": {"runs": 12 if quick else 60, "calls": 12 if quick else 25}, "local": {"runs": local_runs}}
    # the schedules against the defects of the code as it is depend on goroutine interleavings and may
    # kill the process: they get a process of their own, first
    first = [r for r in sock_runs if r["id"].startswith("att_asis_")]
    rest = [r for r in sock_runs if not r["id"].startswith("att_asis_")]
    out0 = ctx.subdir("abci-out0")
    rows0, crashes0 = run_sock_harness(ctx, bin1, first, out0) if first else ([], 0)
    sock_rows, crashes = run_sock_harness(ctx, bin1, rest, out, extra)
    sock_rows = rows0 + sock_rows
    crashes += crashes0
    conc_rows = [r for r in core.read_ndjson(os.path.join(out, "conc.ndjson")) if r["ev"] != "End"]
    local_rows = [r for r in core.read_ndjson(os.path.join(out, "local.ndjson")) if r["ev"] != "End"]
    inp2 = os.path.join(ctx.work, "abci-proxy-in.json")
    with open(inp2, "w") as f:
        json.dump({"runs": proxy_runs + plocal_runs}, f)
    rc, txt = ctx.run_test(bin2, "^TestVerifABCIProxy$", {"VERIF_IN": inp2, "VERIF_OUT": out}, timeout=900, label="proxy")
    if rc != 0:
        ctx.save_log("harness-abci-proxy", txt)
        raise Undecided("ABCI proxy harness failed (rc=%d): %s" % (rc, txt[-1500:]))
    proxy_rows = [r for r in core.read_ndjson(os.path.join(out, "proxy.ndjson")) if r["ev"] != "End"]
    unsettled = [r for r in sock_rows + conc_rows + local_rows + proxy_rows
                 if r["ev"] in ("Obs", "LObs", "PObs") and not r.get("settled", True)]

    # ---- level 2 (properties on observed behaviour)
    verdict = core.Verdict(ctx)
    findings = {}
    fam_rows = {"sock": sock_rows, "conc": conc_rows, "local": local_rows, "proxy": proxy_rows}
    tot = validate(ctx, fam_rows, verdict, findings)

    # ---- level 1 (conformance): as the code is; runs that only fit the repaired spec are reported
    # (schedules taken from counterexamples of WEAKENED specs are not behaviours of the design spec: level 2 only)
    l1rows, keep = [], False
    for r in sock_rows:
        if r["ev"] == "Reset":
            keep = not (r["run"].startswith("att_") and not r["run"].startswith("att_asis_"))
        if keep:
            l1rows.append(r)
    acc, rej, st1 = conform(ctx, "TMAbciConform", "TMAbciConform.cfg", l1rows, "sock")
    fits_repaired = []
    if rej:
        cfgr = core.cfg_variant(ctx, "TMAbciConform.cfg", "TMAbciConform_rep.cfg",
                                {"Weak_FlushQueueKeepsSent": False, "Weak_InHandLost": False, "Weak_DeadQueueBlocks": False})
        rows2, keep = [], False
        for r in l1rows:
            if r["ev"] == "Reset":
                keep = r["run"] in rej
            if keep:
                rows2.append(r)
        acc2, rej2, st2 = conform(ctx, "TMAbciConform", cfgr, rows2, "sock_repaired")
        fits_repaired = acc2
        rej = rej2
    accl, rejl, st3 = conform(ctx, "TMAbciLocalConform", "TMAbciLocalConform.cfg", local_rows, "local", obs_ev="LObs")
    plrows = [r for r in proxy_rows]
    accp, rejp, st4 = conform(ctx, "TMAbciLocalConform", "TMAbciLocalConform.cfg",
                              [r for r in _only_family(plrows, "local")], "plocal", obs_ev="LObs")
    drift = [{"family": "sock", "run": k, "line": v} for k, v in rej.items()] + \
            [{"family": "local", "run": k, "line": v} for k, v in rejl.items()] + \
            [{"family": "plocal", "run": k, "line": v} for k, v in rejp.items()]

    fout = store_findings(ctx, findings, rundefs)
    if unsettled and not verdict.new:
        raise Undecided("%d projections were taken before the system had settled (machine overloaded or a livelock): %s" % (
            len(unsettled), json.dumps(unsettled[0])[:300]))

    # ---- evidence
    distinct = set()
    for fam, rows in fam_rows.items():
        cur = []
        for r in rows:
            if r["ev"] == "Reset":
                cur = []
            if r["ev"] == "Env":
                cur.append(json.dumps(r["a"], sort_keys=True))
            if r["ev"] in ("Obs", "LObs", "PObs") and cur:
                o = {k: v for k, v in r.items() if k not in ("n", "inflight")}
                distinct.add(hashlib.sha1((fam + "|".join(cur[-3:]) + json.dumps(o, sort_keys=True)).encode()).hexdigest())
    exh_keys = [k for k in res if not k.startswith(("weak_", "att_", "sim_", "asis_", "proxy_graph"))]
    coverage = {
        "states": sum(res[k].distinct for k in exh_keys),
        "transitions": sum(res[k].generated for k in exh_keys),
        "traces_validated_against_impl": tot["runs"],
        "evaluations": tot["events"],
        "distinct_nontrivial": len(distinct),
        "rule": "socket client: %d step-controlled schedules (TLC -simulate of TMAbciSocket in replay mode, seed %d, plus the "
                "counterexamples of every Weak_*/as-is variant) run on the real socketClient against a scripted peer; "
                "%d seeded concurrent runs against the real socket server behind a re-chunking forwarder; local client: %d "
                "schedules on four real localClients; proxy: every path of the TMAbciProxy graph (%d states) on the real "
                "multiAppConn plus %d schedules through proxy.NewLocalClientCreator.  A step is distinct by (family, last three "
                "environment steps, observed projection)." % (len(sock_runs), ctx.seed, extra["conc"]["runs"], len(local_runs),
                                                               proxy_states, len(plocal_runs)),
        "samples": [core.abridge(sock_rows[:14], 14), core.abridge(proxy_rows[:8], 8)],
        "exhaustive": False,
        "tlc_runs": ctx.tlc_stats,
        "schedules": {"sock": len(sock_runs), "local": len(local_runs), "plocal": len(plocal_runs), "proxy": len(proxy_runs)},
        "events": {k: len(v) for k, v in fam_rows.items()},
        "product_panics_observed": crashes,
        "conformance": {"sock_accepted_as_is": len(acc), "sock_accepted_only_by_repaired_spec": len(fits_repaired),
                        "local_accepted": len(accl), "plocal_accepted": len(accp),
                        "search_states": st1[0] + st3[0] + st4[0]},
        "conformance_drift": drift[:5],
        "conformance_drift_count": len(drift),
        "unsettled_projections": len(unsettled),
        "nonvacuity": {"Weak_%s refuted by TLC" % k: v for k, v in nonvac.items()},
        "as_is_defects_found_by_TLC": asis_found,
        "findings_reproduced_on_real_code": fout,
        "known_findings_reproduced": dict(verdict.known),
    }
    rc = verdict.finish()
    ctx.write_evidence(coverage, [
        "the wire carries no request ids: PerConnectionFIFO/FlushMeaning are claimed against a peer that answers in order "
        "(a peer that duplicates or swaps answers of the same type cannot be detected by any client)",
        "quiescence of the real system is detected from goroutine states (runtime.Stack) and socket queue lengths (FIONREAD/"
        "TIOCOUTQ); a projection that was not settled makes the run undecided, never a violation",
        "the flush timer of the step-controlled runs is fired by the schedule (ThrottleTimer.Ch); the concurrent runs use the real 20ms timer",
        "reqQueue capacity is 2 in the step-controlled runs (256 in the code)",
        "FlushSync returning nil after the owner's Stop() is a named deviation (Dev_UserStopNilErr), not judged",
        "gRPC client/server not covered",
    ], len(verdict.new))
    return rc


def _only_family(rows, fam):
    keep = False
    for r in rows:
        if r["ev"] == "Reset":
            keep = r.get("family") == fam
        if keep:
            yield r


def replay(ctx, path):
    """Re-execute the run of a stored replay on the current tree and re-validate it."""
    with open(path) as f:
        rep = json.load(f)
    pl = rep["replay"]
    rd = pl.get("rundef")
    fam = pl.get("family")
    out = ctx.subdir("abci-out")
    verdict = core.Verdict(ctx)
    findings = {}
    if fam in ("sock", "conc", "local"):
        binp = ctx.go_build_test("abci/client", ["zz_verif_abci_test.go", "zz_verif_abci_conc_test.go"])
        if fam == "sock":
            if not rd:
                raise Undecided("replay file has no run definition")
            rows = []
            for b in range(6):       # interleaving-dependent on real code: up to 600 attempts
                batch = [dict(rd, id="%s@%d" % (rd["id"], b * 100 + k)) for k in range(100)]
                r, c = run_sock_harness(ctx, binp, batch, out)
                hit = c or any(x["ev"] == "Obs" and x.get("final") and x.get("inflight") and x.get("quit") for x in r)
                if hit or b == 5:
                    rows += r[-3000:]
                if hit:
                    break
        elif fam == "local":
            if not rd:
                raise Undecided("replay file has no run definition")
            run_sock_harness(ctx, binp, [], out, {"local": {"runs": [rd]}})
            rows = [r for r in core.read_ndjson(os.path.join(out, "local.ndjson")) if r["ev"] != "End"]
        else:
            run_sock_harness(ctx, binp, [], out, {"conc": {"runs": 12, "calls": 12}})
            rows = [r for r in core.read_ndjson(os.path.join(out, "conc.ndjson")) if r["ev"] != "End"]
    else:
        if not rd:
            raise Undecided("replay file has no run definition")
        binp = ctx.go_build_test("proxy", ["zz_verif_abci_test.go"])
        inp2 = os.path.join(ctx.work, "abci-proxy-in.json")
        with open(inp2, "w") as f:
            json.dump({"runs": [rd]}, f)
        rc, txt = ctx.run_test(binp, "^TestVerifABCIProxy$", {"VERIF_IN": inp2, "VERIF_OUT": out}, timeout=600)
        if rc != 0:
            raise Undecided("proxy harness failed: " + txt[-800:])
        rows = [r for r in core.read_ndjson(os.path.join(out, "proxy.ndjson")) if r["ev"] != "End"]
    validate(ctx, {fam: rows}, verdict, findings)
    for fid, items in findings.items():
        log("replay: finding %s reproduced (%d times): %s" % (fid, len(items), items[0][0]["class"]))
        for sig, payload in items[:1]:
            verdict.add(sig, payload)
    for sig, payload in verdict.new:
        log("replay: %s / %s fails at %s" % (sig["inv"], sig["class"], json.dumps(payload["failing_step"])[:300]))
    return verdict.finish()
