"""C08 — Validator-set updates, proposer rotation and historical lookup are exact.
Spec: spec/TMValSet.tla (update batches, rotation, map-based reference), spec/TMValStore.tla
(state store: save / LoadValidators / PruneStates), spec/TMValBig.tla (limb arithmetic for
extreme powers); configs spec/mc/C08_*; trace spec spec/trace/TMValSetTrace.tla;
harnesses harness/inpkg/types/zz_verif_c08_test.go and harness/inpkg/state/zz_verif_c08_test.go."""
import hashlib
import json
import os
from concurrent.futures import ThreadPoolExecutor

from vlib import core
from vlib.core import Undecided, log
from vlib.tlaparse import to_json

TRACE = "TMValSetTrace"

# (switch, config family, invariant that must be refuted)
WEAK = [
    ("Weak_ApplyBeforeVerify", "update", "CaseAtomic"),
    ("Weak_IgnoreMissingRemoval", "update", None),
    ("Weak_NoResort", "update", None),
    ("Weak_NoPenalty", "update", "CaseMatchesRef"),
    ("Weak_PenaltyMulOverflow", "update", "CaseMatchesRef"),
    ("Weak_NoRescale", "update", None),
    ("Weak_NoCentre", "update", None),
    ("Weak_FloorDiv", "update", "CaseMatchesRef"),
    ("Weak_TieHighAddr", "rotate", "RotationMatchesRef"),
    ("Weak_LoadSingleIncrement", "store", "LookupExact"),
    ("Weak_LoadNoIncrement", "store", "LookupExact"),
    ("Weak_LoadOffByOne", "store", "LookupExact"),
    ("Weak_PruneDropsLastChanged", "store", None),
    ("Weak_PruneDropsCheckpoint", "store", None),
    ("Weak_NoCheckpointRecord", "store", None),
    ("Weak_RecoveryCopyDropsValUpdates", "store", None),
    ("Weak_RoundSkipSingleIncrement", "store", "ProposerDeterministic"),
    ("Weak_PruneStatesOneTooFar", "store", "LookupExact"),
]

REAL_CKPT = 100000


def _changes(seq):
    return [{"a": c["a"], "p": c["p"]} for c in seq]


def _tier(ctx):
    if ctx.tier == "quick":
        return dict(
            update=[{"Pool": 3, "MaxInit": 2, "Warmups": "{3}", "InitPowers": "{1, 10}",
                     "ChangePowers": "{0, 1, 10}", "MaxChanges": 3, "FirstBatches": 1}],
            rotate={"Pool": 3, "MaxInit": 2, "Warmups": "{0, 2}", "InitPowers": "{1, 2, 5}", "FirstBatches": 1,
                    "MaxTimes": 5},
            hist={"MaxSteps": 2}, hist_graph={"MaxSteps": 2, "MaxChanges": 1}, hist_sim=0,
            store=[{"Scenario": 1, "Checkpoint": 4, "InitialHeight": 2, "MaxBlocks": 4},
                   {"Scenario": 2, "Checkpoint": 3, "InitialHeight": 1, "MaxBlocks": 2},
                   {"Scenario": 3, "Checkpoint": 5, "InitialHeight": 4, "MaxBlocks": 3}],
            store_sim=0, random_types=100, extreme=150, random_store=40, rs_chains=200, rs_random=100)
    return dict(
        update=[{"Pool": 4, "MaxInit": 3, "Warmups": "{4}", "InitPowers": "{1, 2, 10}",
                 "ChangePowers": "{0, 1, 10}", "MaxChanges": 2, "FirstBatches": 1},
                {"Pool": 3, "MaxInit": 3, "Warmups": "{0, 3}", "InitPowers": "{1, 2, 10}",
                 "ChangePowers": "{0, 1, 10}", "MaxChanges": 3, "FirstBatches": 1}],
        rotate={"Pool": 4, "MaxInit": 3, "Warmups": "{0, 4}", "InitPowers": "{1, 2, 5, 10}", "FirstBatches": 1,
                "MaxTimes": 7},
        hist={"MaxSteps": 3}, hist_graph={"MaxSteps": 2, "MaxChanges": 2}, hist_sim=400,
        # MaxBlocks: exhaustive run (VIEW); the act-augmented graph that is replayed is cut at GraphBlocks
        store=[{"Scenario": 1, "Checkpoint": 4, "InitialHeight": 2, "MaxBlocks": 6, "GraphBlocks": 5},
               {"Scenario": 2, "Checkpoint": 3, "InitialHeight": 1, "MaxBlocks": 5, "GraphBlocks": 3},
               {"Scenario": 3, "Checkpoint": 5, "InitialHeight": 4, "MaxBlocks": 5, "GraphBlocks": 4},
               {"Scenario": 2, "Checkpoint": 1000, "InitialHeight": 1, "MaxBlocks": 4, "GraphBlocks": 3}],
        store_sim=150, random_types=2000, extreme=3000, random_store=600, rs_chains=1500, rs_random=1500)


def _case_of(cs):
    c = to_json(cs)
    return {"init": _changes(c["init"]), "warm": c["warm"], "first": _changes(c.get("first", [])),
            "batch": _changes(c.get("batch", []))}


def _hist_schedules(g):
    """C08_hist graph -> histories (init + ops)."""
    out = []
    for nodes in core.graph_schedules(g):
        a0 = to_json(g.nodes[nodes[0]]["act"])
        ops = []
        for nid in nodes[1:]:
            a = to_json(g.nodes[nid]["act"])
            ops.append({"op": a["name"], "batch": _changes(a["batch"]), "times": a["times"]})
        out.append({"init": _changes(a0["batch"]), "ops": ops})
    return out


def _hist_of_behaviour(states):
    a0 = to_json(states[0]["act"])
    ops = []
    for s in states[1:]:
        a = to_json(s["act"])
        ops.append({"op": a["name"], "batch": _changes(a["batch"]), "times": a["times"]})
    return {"init": _changes(a0["batch"]), "ops": ops}


def _store_sched(acts, genesis, ih, ckpt, discard=True):
    off = REAL_CKPT - ckpt if ckpt <= 100 else 0
    ops = []
    for a in acts[1:]:
        if a["name"] == "Apply":
            ops.append({"op": "Apply", "batch": _changes(a["batch"]), "to": 0, "crash": bool(a.get("crash", False))})
        elif a["name"] == "Prune":
            ops.append({"op": "Prune", "batch": [], "to": a["to"] + off, "crash": False})
    mode = "bootstrap" if acts[0]["name"] == "Bootstrap" else "genesis"
    return {"genesis": genesis, "ih": ih + off, "mode": mode, "discard": discard, "ops": ops}


GENESIS = {1: [(1, 10), (2, 10), (3, 10)], 2: [(2, 5), (1, 3), (3, 1)], 3: [(2, 1)]}


def _run_types(ctx, binp, inp_obj, label):
    inp = os.path.join(ctx.work, "c08-types-%s.json" % label)
    with open(inp, "w") as f:
        json.dump(inp_obj, f)
    out = ctx.subdir("c08-types-" + label)
    rc, txt = ctx.run_test(binp, "^TestVerifC08$", {"VERIF_IN": inp, "VERIF_OUT": out}, label="types-" + label)
    if rc != 0:
        ctx.save_log("harness-types", txt)
        raise Undecided("C08 types harness failed (rc=%d): %s" % (rc, txt[-1500:]))
    return {k: core.read_ndjson(os.path.join(out, k + ".ndjson")) for k in ("cases", "rotate", "hist", "extreme")}


def _run_store(ctx, binp, inp_obj, label):
    inp = os.path.join(ctx.work, "c08-store-%s.json" % label)
    with open(inp, "w") as f:
        json.dump(inp_obj, f)
    out = ctx.subdir("c08-store-" + label)
    rc, txt = ctx.run_test(binp, "^TestVerifC08Store$", {"VERIF_IN": inp, "VERIF_OUT": out}, label="store-" + label)
    if rc != 0:
        ctx.save_log("harness-store", txt)
        raise Undecided("C08 store harness failed (rc=%d): %s" % (rc, txt[-1500:]))
    return core.read_ndjson(os.path.join(out, "store.ndjson"))


CONS_FILES = ["zz_verif_c08_roundskip_test.go", "zz_verif_c08_consprune_test.go"]


def _run_consprune(ctx, binp, inp_obj, label):
    inp = os.path.join(ctx.work, "c08-cp-%s.json" % label)
    with open(inp, "w") as f:
        json.dump(inp_obj, f)
    out = ctx.subdir("c08-cp-" + label)
    rc, txt = ctx.run_test(binp, "^TestVerifC08ConsPrune$", {"VERIF_IN": inp, "VERIF_OUT": out}, label="consprune-" + label)
    if rc != 0:
        ctx.save_log("harness-consprune", txt)
        raise Undecided("C08 consensus-prune harness failed (rc=%d): %s" % (rc, txt[-1500:]))
    return core.read_ndjson(os.path.join(out, "consprune.ndjson"))


def _run_roundskip(ctx, binp, inp_obj, label):
    inp = os.path.join(ctx.work, "c08-rs-%s.json" % label)
    with open(inp, "w") as f:
        json.dump(inp_obj, f)
    out = ctx.subdir("c08-rs-" + label)
    rc, txt = ctx.run_test(binp, "^TestVerifC08RoundSkip$", {"VERIF_IN": inp, "VERIF_OUT": out}, label="roundskip-" + label)
    if rc != 0:
        ctx.save_log("harness-roundskip", txt)
        raise Undecided("C08 round-skip harness failed (rc=%d): %s" % (rc, txt[-1500:]))
    return core.read_ndjson(os.path.join(out, "roundskip.ndjson"))


# validator-set histories whose sets are handed to a real consensus.State that then skips rounds
DIRECTED_CHAINS = [
    {"init": [{"a": 1, "p": 10}, {"a": 2, "p": 10}, {"a": 3, "p": 10}], "warm": 1,
     "batches": [[{"a": 3, "p": 2}], [{"a": 1, "p": 0}, {"a": 4, "p": 1}], []]},
    {"init": [{"a": 1, "p": 5}, {"a": 2, "p": 7}, {"a": 3, "p": 2}], "warm": 1,
     "batches": [[{"a": 1, "p": 11}], [{"a": 1, "p": 1}], []]},
]


def _roundskip_chains(rot_cases, store_scheds, cap):
    chains, seen = [], set()

    def add(c):
        k = json.dumps(c, sort_keys=True)
        if k not in seen:
            seen.add(k)
            chains.append(c)

    for c in DIRECTED_CHAINS:
        add(c)
    for s in store_scheds:
        if len(chains) >= 2 + cap // 2:
            break
        add({"init": s["genesis"], "warm": 1, "batches": [o["batch"] for o in s["ops"] if o["op"] == "Apply"]})
    for c in rot_cases:
        if len(chains) >= 2 + cap:
            break
        add({"init": c["init"], "warm": c["warm"], "batches": [c["first"]] if c["first"] else []})
    return chains


def _sig(v):
    return {"inv": v["inv"], "class": v["class"], "ev": v["row"]["ev"]}


def _slim(row):
    """Replay payload rows: keep what re-execution needs, drop the bulky read-backs."""
    r = dict(row)
    for k in ("db",):
        r.pop(k, None)
    return r


def _nontrivial(rows, acc):
    """distinct (pre-state, call) pairs executed on real code that changed the object / store."""
    pre = None
    for r in rows:
        ev = r.get("ev")
        if ev == "Reset":
            pre = None
            continue
        post = r.get("post", r.get("nvals"))
        if ev in ("Update", "Inc", "Rotate", "New", "XUpdate", "XInc", "Apply", "Prune", "IncCopy"):
            key = json.dumps([ev, pre, r.get("batch"), r.get("times"), r.get("n"), r.get("to"), r.get("height")],
                             sort_keys=True)
            changed = (post != pre) or ev in ("Apply", "Prune", "IncCopy")
            if changed and r.get("err", "none") == "none":
                acc.add(hashlib.sha1(key.encode()).hexdigest())
        if ev == "Prune":
            continue
        pre = r.get("cur", post)


def run(ctx):
    T = _tier(ctx)
    quick = ctx.tier == "quick"
    ctx.spec_copy()

    # ---- 0. build the harnesses while TLC works ------------------------------------------
    bpool = ThreadPoolExecutor(max_workers=3)
    fut_cons = bpool.submit(ctx.go_build_test, "consensus", CONS_FILES, "verif", "consensus_c08")
    fut_types = bpool.submit(ctx.go_build_test, "types", ["zz_verif_c08_test.go"])
    fut_state = bpool.submit(ctx.go_build_test, "state", ["zz_verif_c08_test.go"], "verif", "state_c08")

    # ---- 1. design spec, exhaustive; 2. non-vacuity ------------------------------------------
    # all TLC jobs go through one pool (3 at a time, <= 8 TLC workers in total)
    tpool = ThreadPoolExecutor(max_workers=3)
    f_u = []
    for k, uc in enumerate(T["update"]):
        cfg_u = core.cfg_variant(ctx, "C08_update.cfg", "C08_update_run%d.cfg" % k, uc)
        dump_u = os.path.join(ctx.work, "c08-update%d" % k)
        f_u.append((dump_u, tpool.submit(ctx.tlc, "C08_update", cfg_u, dump=[dump_u], must_pass=True, timeout=2400,
                                         workers=4, label="update_cases%d" % k)))
    cfg_r = core.cfg_variant(ctx, "C08_rotate.cfg", "C08_rotate_run.cfg", T["rotate"])
    dump_r = os.path.join(ctx.work, "c08-rotate")
    f_r = tpool.submit(ctx.tlc, "C08_rotate", cfg_r, dump=[dump_r], must_pass=True, timeout=1500, workers=2,
                       label="rotate_cases")

    def store_job(k, sc):
        """exhaustive run (invariants on) of the act-augmented graph, dumped for replay; the thorough tier adds a
        deeper run with VIEW (no dump) and simulated behaviours"""
        runs, scheds = [], []
        sc = dict(sc)
        sc.setdefault("Discard", k % 2 == 0)      # StoreOptions.DiscardABCIResponses of the replayed store
        discard = sc["Discard"]
        gb = sc.pop("GraphBlocks", sc["MaxBlocks"])
        gen = [{"a": a, "p": p} for a, p in GENESIS[sc["Scenario"]]]
        cfg_g = core.cfg_variant(ctx, "C08_store.cfg", "C08_store_graph%d.cfg" % k, dict(sc, MaxBlocks=gb), drop_view=True)
        dot = os.path.join(ctx.work, "c08-store%d.dot" % k)
        rg = ctx.tlc("C08_store", cfg_g, dump=["dot,actionlabels", dot], must_pass=True, timeout=1500, workers=2,
                     label="store_graph_s%d" % k)
        runs.append(rg)
        g = core.parse_dot(dot)
        os.remove(dot)
        for nodes in core.graph_schedules(g):
            acts = [to_json(g.nodes[n]["act"]) for n in nodes]
            scheds.append(_store_sched(acts, gen, sc["InitialHeight"], sc["Checkpoint"], discard))
        if sc["MaxBlocks"] > gb:
            cfg_s = core.cfg_variant(ctx, "C08_store.cfg", "C08_store_run%d.cfg" % k, sc)
            runs.append(ctx.tlc("C08_store", cfg_s, must_pass=True, timeout=1500, workers=3, label="store_deep_s%d" % k))
        if T["store_sim"]:
            pref = os.path.join(ctx.work, "c08-ssim%d" % k)
            cfg_m = core.cfg_variant(ctx, "C08_store.cfg", "C08_store_sim%d.cfg" % k, dict(sc, MaxBlocks=14),
                                     drop_view=True, invariants=["LookupExact", "PruneKeeps"])
            rm = ctx.tlc("C08_store", cfg_m, simulate="file=%s,num=%d" % (pref, T["store_sim"]), depth=18,
                         seed=ctx.seed, workers=1, timeout=900, must_pass=True, label="store_sim_s%d" % k)
            runs.append(rm)
            d = os.path.dirname(pref)
            for fn in sorted(os.listdir(d)):
                if fn.startswith(os.path.basename(pref) + "_"):
                    with open(os.path.join(d, fn)) as fh:
                        beh = core.tlaparse.parse_behaviour_text(fh.read())
                    os.remove(os.path.join(d, fn))
                    acts = [to_json(st["act"]) for _h, st in beh]
                    if acts:
                        scheds.append(_store_sched(acts, gen, sc["InitialHeight"], sc["Checkpoint"], discard))
        return runs, scheds, len(g.nodes)

    f_store = [tpool.submit(store_job, k, sc) for k, sc in enumerate(T["store"])]

    def hist_job():
        runs, hs = [], []
        cfg_hg = core.cfg_variant(ctx, "C08_hist.cfg", "C08_hist_graph.cfg", T["hist_graph"], drop_view=True)
        dot = os.path.join(ctx.work, "c08-hist.dot")
        runs.append(ctx.tlc("C08_hist", cfg_hg, dump=["dot,actionlabels", dot], must_pass=True, timeout=1500, workers=2,
                            label="hist_graph"))
        g = core.parse_dot(dot)
        os.remove(dot)
        hs += _hist_schedules(g)
        if T["hist"]["MaxSteps"] > 2:
            cfg_h = core.cfg_variant(ctx, "C08_hist.cfg", "C08_hist_run.cfg", T["hist"])
            runs.append(ctx.tlc("C08_hist", cfg_h, must_pass=True, timeout=1500, workers=3, label="hist_deep"))
        if T["hist_sim"]:
            pref = os.path.join(ctx.work, "c08-hsim")
            cfg_hs = core.cfg_variant(ctx, "C08_hist.cfg", "C08_hist_sim.cfg",
                                      {"MaxSteps": 12, "Pool": 4, "MaxTimes": 3}, drop_view=True, drop_properties=True)
            runs.append(ctx.tlc("C08_hist", cfg_hs, simulate="file=%s,num=%d" % (pref, T["hist_sim"]), depth=14,
                                seed=ctx.seed, workers=1, timeout=900, must_pass=True, label="hist_sim"))
            d = os.path.dirname(pref)
            for fn in sorted(os.listdir(d)):
                if fn.startswith(os.path.basename(pref) + "_"):
                    with open(os.path.join(d, fn)) as fh:
                        beh = core.tlaparse.parse_behaviour_text(fh.read())
                    os.remove(os.path.join(d, fn))
                    if beh:
                        hs.append(_hist_of_behaviour([st for _h, st in beh]))
        return runs, hs, len(g.nodes)

    f_hist = tpool.submit(hist_job)

    def weak(item):
        sw, fam, inv = item
        mod = {"update": "C08_update", "rotate": "C08_rotate", "store": "C08_store"}[fam]
        r = ctx.tlc(mod, "C08_weak_%s.cfg" % sw[5:], timeout=600, workers=2, label="weak_" + sw[5:])
        names = [v["name"] for v in r.violations]
        if not names or (inv and inv not in names):
            raise Undecided("vacuity: weakened spec %s is not refuted (%s)" % (sw, names or r.errors[:1] or "no violation"))
        return sw, names[0]

    f_weak = [tpool.submit(weak, w) for w in WEAK]

    r_r = f_r.result()
    r_us, cases, seen = [], [], set()
    for dump_u, f in f_u:
        r_us.append(f.result())
        for st in core.read_state_dump(dump_u + ".dump"):
            if to_json(st["cs"])["stage"] == 1:
                c = _case_of(st["cs"])
                key = json.dumps(c, sort_keys=True)
                if key not in seen:
                    seen.add(key)
                    cases.append(c)
        os.remove(dump_u + ".dump")
    del seen
    rot_cases = [_case_of(st["cs"]) for st in core.read_state_dump(dump_r + ".dump")]
    os.remove(dump_r + ".dump")
    if not cases or not rot_cases:
        raise Undecided("no cases exported by TLC")
    # cases with the same pre-set are executed on copies of ONE real object
    cases.sort(key=lambda c: json.dumps([c["init"], c["warm"], c["first"]]))
    store_runs, store_scheds, graph_states = [], [], 0
    for f in f_store:
        runs, scheds, n = f.result()
        store_runs += runs
        store_scheds += scheds
        graph_states += n
    hist_runs, hists, hist_graph_states = f_hist.result()
    weak_results = dict(f.result() for f in f_weak)
    tpool.shutdown()

    # ---- 3. replay on the real code --------------------------------------------------------
    bin_types, bin_state = fut_types.result(), fut_state.result()
    tin = {"cases": cases, "rotate": rot_cases, "hists": hists, "random": T["random_types"], "extreme": T["extreme"]}
    rows_t = _run_types(ctx, bin_types, tin, "main")
    rows_s = _run_store(ctx, bin_state, {"scheds": store_scheds, "random": T["random_store"]}, "main")
    rs_chains = _roundskip_chains(rot_cases, store_scheds, T["rs_chains"])
    rows_rs = _run_roundskip(ctx, fut_cons.result(), {"chains": rs_chains, "random": T["rs_random"], "maxk": 4}, "main")
    # pruning through the production caller (*State).pruneBlocks: the store schedules that prune
    cp_scheds = [sc for sc in store_scheds if sc["mode"] == "genesis" and any(o["op"] == "Prune" for o in sc["ops"])]
    cp_scheds = cp_scheds[:T["rs_chains"] * 2]
    rows_cp = _run_consprune(ctx, fut_cons.result(), {"scheds": cp_scheds}, "main")
    n_case_runs = sum(1 for r in rows_t["cases"] if r["ev"] == "Update" and not r["live"])
    if n_case_runs != len(cases):
        raise Undecided("harness executed %d of %d update cases" % (n_case_runs, len(cases)))

    # ---- 4. trace validation (TLC on observed behaviour) -----------------------------------
    vals = {}
    for name, rows, me in (("cases", rows_t["cases"], 1500), ("rotate", rows_t["rotate"], 1200),
                           ("hist", rows_t["hist"], 1500), ("extreme", rows_t["extreme"], 350),
                           ("store", rows_s, 1000), ("roundskip", rows_rs, 2500), ("consprune", rows_cp, 1000)):
        vals[name] = core.validate_traces(ctx, TRACE, rows, max_events=me, label=name, timeout=1500)

    # ---- 5. verdict ---------------------------------------------------------------------------
    verdict = core.Verdict(ctx)
    drift, notes, prop_notes = [], [], []
    for name, v in vals.items():
        for x in v["viol"]:
            verdict.add(_sig(x), {"kind": name, "seed": ctx.seed, "tier": ctx.tier, "failing_step": _slim(x["row"]),
                                  "prefix": [_slim(r) for r in x["prefix"]],
                                  "tlc": {k: x[k] for k in ("inv", "class")}})
        for d in v["drift"]:
            if d["what"].startswith("note: a validator was more than 3 turns"):
                prop_notes.append(d)
            elif d["what"].startswith("note:"):
                notes.append(d)
            else:
                drift.append(d)

    distinct = set()
    for rows in list(rows_t.values()) + [rows_s]:
        _nontrivial(rows, distinct)
    for r in rows_rs:
        if r["ev"] == "RoundSkip" and r["err"] == "none":
            distinct.add(hashlib.sha1(json.dumps(["RoundSkip", r["pre"], r["to"] - r["from"]], sort_keys=True).encode()).hexdigest())
    _nontrivial([dict(r, ev={"CApply": "Apply", "CPrune": "Prune"}.get(r["ev"], r["ev"])) for r in rows_cp], distinct)
    all_rows = sum(len(r) for r in rows_t.values()) + len(rows_s) + len(rows_rs) + len(rows_cp)
    lookups = sum(len(r.get("loads", [])) for r in rows_s)
    tlc_all = r_us + [r_r] + store_runs + hist_runs
    sample_store = [r for r in rows_s if r["ev"] == "Apply"][:1]
    coverage = {
        "states": sum(r.distinct for r in tlc_all),
        "transitions": sum(r.generated for r in tlc_all),
        "traces_validated_against_impl": sum(v["runs"] for v in vals.values()),
        "evaluations": all_rows,
        "distinct_nontrivial": len(distinct),
        "rule": " ".join([
            "update cases: every (initial powers, warm-up rounds, first batch, batch) enumerated by TLC from C08_update",
            "(constants %s), each batch executed on a real ValidatorSet in EVERY order;" % json.dumps(T["update"]),
            "rotation cases from C08_rotate (%s): 2*total+1 real single rounds plus multi-round calls;" % json.dumps(T["rotate"]),
            "ValidatorSet object histories: every state of the C08_hist graph (%s) reached on a real object" % json.dumps(T["hist_graph"]),
            "plus %d simulated behaviours;" % T["hist_sim"],
            "state store: every state of the act-augmented C08_store graphs %s reached by replaying its BFS path" % json.dumps(T["store"]),
            "through the real updateState/Save/PruneStates with heights placed around the real checkpoint interval 100000,",
            "LoadValidators called for every retained height after every step, plus %d simulated store behaviours per scenario;" % T["store_sim"],
            "plus %d random ValidatorSet histories, %d extreme-power histories (limb arithmetic) and %d random store histories" % (
                T["random_types"], T["extreme"], T["random_store"]),
            "seeded by VERIF_SEED; a step is distinct by (pre-state, call, arguments) and counted when it changed the object"]),
        "samples": [core.abridge([_slim(r) for r in rows_t["cases"][:4]], 4),
                    core.abridge([{k: v for k, v in r.items() if k != "db"} for r in sample_store], 2)],
        "exhaustive": quick,
        "exhaustive_note": "every enumerated case and every state of the replayed graphs was executed on real code; the "
                           "thorough tier additionally runs deeper TLC configs and simulations that are not fully replayed",
        "tlc_runs": ctx.tlc_stats,
        "update_cases": len(cases),
        "rotation_cases": len(rot_cases),
        "hist_graph_states_replayed": hist_graph_states,
        "hist_schedules": len(hists),
        "store_graph_states_replayed": graph_states,
        "store_schedules": len(store_scheds),
        "lookups_on_real_store": lookups,
        "round_skips_on_real_consensus_state": sum(1 for r in rows_rs if r["ev"] == "RoundSkip"),
        "round_skip_chains": len(rs_chains),
        "consensus_prune_schedules": len(cp_scheds),
        "lookups_after_consensus_prune": sum(len(r.get("loads", [])) for r in rows_cp),
        "events": {k: v["events"] for k, v in vals.items()},
        "conformance_drift": [{"what": d["what"], "detail": d.get("detail"), "step": _slim(d["row"])} for d in drift[:5]],
        "conformance_drift_count": len(drift),
        "observations": {
            "round_counting_is_path_dependent": {
                "count": len(notes),
                "what": "IncrementProposerPriority(a+b) gave a different set/proposer than (a) followed by (b) on the "
                        "same real set (rescale+centre happen once per call); consensus computes round proposers "
                        "with IncrementProposerPriority(round difference), so two nodes that reach a round by "
                        "different jumps can disagree on its proposer shortly after a validator-set change. Not "
                        "claimed under the C08 statement; recorded.",
                "sample": [_slim(n["row"]) for n in notes[:1]],
            },
            "proportional_share_off_by_more_than_3_turns": {
                "count": len(prop_notes),
                "what": "number of observed rotation windows in which some validator's turn count differed from "
                        "rounds*power/total by more than 3 (empirical bound, checked by TLC on the model; not a verdict - "
                        "RotationExact pins every observed rotation to the reference, Fair is exact for sets whose "
                        "priorities come from rotation alone)",
            }},
        "nonvacuity": {sw: "refuted by TLC (%s)" % inv for sw, inv in weak_results.items()},
        "known_findings_reproduced": dict(verdict.known),
    }
    rc = verdict.finish()
    ctx.write_evidence(coverage, [
        "addresses are ranks in a pool of real ed25519 keys sorted by address (order-preserving, injective)",
        "TLC integers are 32 bit: runs with powers up to 10^6 are judged with TLC integers against the code "
        "transcription and the reference; runs with powers near MaxTotalVotingPower (half of them directed: total in "
        "the top 15% of the range, batches that ADD validators or swap a huge validator for newcomers, then round-by-"
        "round rotation) are logged as 24-bit limbs and judged EXACTLY with limb arithmetic (compare/add/subtract/long "
        "division): acceptance, members, powers, the priorities after the update (newcomers at -(T + floor(T/8)), rescale, "
        "centre), order, limits, window, clipping, atomicity, order-independence and the rotation incl. the proposer "
        "against the reference; only the code-transcription (level 1) comparison is not made at that scale",
        "every block of a store history goes through the real SaveABCIResponses; the crash-recovery copy is read back "
        "with LoadLastABCIResponse after every save (both StoreOptions.DiscardABCIResponses settings) and, on 'crash' "
        "steps (node dies between the app's Commit and store.Save), the state is rebuilt from that copy with the real "
        "updateState as consensus/replay.go does; the Handshaker/mock-app plumbing itself is not executed",
        "round skips: a real consensus.State (newStateWithConfig, our key not a validator, proposal creation stubbed) over "
        "validator sets taken from the rotation cases, the store histories and seeded random histories calls "
        "enterNewRound(height, k) from round 0 for k = 1..4 and walk-then-skip (0->1->3->6); cs.Validators must equal k "
        "single rotations of the reference (ProposerDeterministic / roundskip)",
        "pruning through consensus: the store schedules that prune are also run with a real block store + state store "
        "pruned by the production caller (*State).pruneBlocks(retainHeight); LoadValidators is asked for every height "
        "from blockStore.Base() to tip+2 after every step (the State values of that family are assembled by the harness "
        "from real ValidatorSet operations and saved with the real Store.Save)",
        "the spec models LoadValidators as repaired by proposed-fixes/C08-loadvalidators-per-height-increment.diff "
        "(one IncrementProposerPriority(1) per block); the code as found is the switch Weak_LoadSingleIncrement",
        "the model's checkpoint interval is 3..5; the real interval 100000 is exercised through chains whose "
        "InitialHeight lies just below it",
        "Fair (exactly power(v) turns in every window of `total` rounds) is judged for sets whose priorities come "
        "from rotation alone; after an update the rotation is pinned to the reference round-robin (RotationExact) and "
        "the 3-turn proportionality bound is only counted, not judged",
        "a TLC verdict is accepted only if the verdict file covers every trace line",
    ], len(verdict.new))
    bpool.shutdown()
    return rc


# ------------------------------------------------------------------------------ replay
def _ops_of_rows(rows):
    ops = []
    for r in rows:
        ev = r["ev"]
        if ev == "Update":
            ops.append({"op": "Update" if r.get("live", True) else "UpdateCopy", "batch": r["batch"]})
        elif ev == "Inc":
            ops.append({"op": "Inc", "times": r["times"]})
        elif ev == "IncCopy":
            ops.append({"op": "IncCopy", "times": r["times"]})
        elif ev == "Rotate":
            ops.append({"op": "Rotate", "times": r["n"]})
        elif ev == "Split":
            ops.append({"op": "Split", "times": r["a"], "timesb": r["b"]})
        elif ev in ("Copy", "GetProposer"):
            ops.append({"op": ev})
    return ops


def replay(ctx, path):
    """Re-execute the failing prefix of a stored replay on the current tree and re-validate it."""
    with open(path) as f:
        rep = json.load(f)["replay"]
    prefix = rep["prefix"]
    kind = rep.get("kind")
    if kind == "store":
        reset = prefix[0]
        first = prefix[1]
        sched = {"genesis": first.get("genesis", []), "ih": reset["ih"], "mode": reset["mode"],
                 "discard": bool(reset.get("discard", False)), "ops": []}
        if reset["mode"] == "bootstrap":
            raise Undecided("bootstrap runs are replayed by re-running the seeded driver: VERIF_SEED=%s" % rep.get("seed"))
        for r in prefix[2:]:
            if r["ev"] == "Apply":
                sched["ops"].append({"op": "Apply", "batch": r["batch"], "to": 0, "crash": bool(r.get("crash", False))})
            elif r["ev"] == "Prune":
                sched["ops"].append({"op": "Prune", "batch": [], "to": r["to"]})
        binp = ctx.go_build_test("state", ["zz_verif_c08_test.go"], "verif", "state_c08")
        rows = _run_store(ctx, binp, {"scheds": [sched], "random": 0}, "replay")
    elif kind == "consprune":
        sched = prefix[0].get("sched")
        if not sched:
            raise Undecided("replay file has no schedule")
        binp = ctx.go_build_test("consensus", CONS_FILES, "verif", "consensus_c08")
        rows = _run_consprune(ctx, binp, {"scheds": [sched]}, "replay")
    elif kind == "roundskip":
        chain = prefix[0].get("chain")
        if not chain:
            raise Undecided("replay file has no chain")
        binp = ctx.go_build_test("consensus", CONS_FILES, "verif", "consensus_c08")
        rows = _run_roundskip(ctx, binp, {"chains": [chain], "random": 0, "maxk": 4}, "replay")
    elif kind == "extreme":
        ctx.seed = int(rep.get("seed", ctx.seed))
        n = 150 if rep.get("tier") == "quick" else 3000
        binp = ctx.go_build_test("types", ["zz_verif_c08_test.go"])
        rows = _run_types(ctx, binp, {"cases": [], "rotate": [], "hists": [], "random": 0, "extreme": n}, "replay")["extreme"]
    else:
        news = [r for r in prefix if r["ev"] == "New"]
        if not news:
            raise Undecided("replay file has no New event")
        hist = {"init": news[0]["batch"], "ops": _ops_of_rows(prefix[prefix.index(news[0]) + 1:])}
        binp = ctx.go_build_test("types", ["zz_verif_c08_test.go"])
        rows = _run_types(ctx, binp, {"cases": [], "rotate": [], "hists": [hist], "random": 0, "extreme": 0}, "replay")["hist"]
    v = core.validate_traces(ctx, TRACE, rows, label="replay", max_events=2000)
    verdict = core.Verdict(ctx)
    for x in v["viol"]:
        verdict.add(_sig(x), {"kind": kind, "failing_step": _slim(x["row"]), "prefix": [_slim(r) for r in x["prefix"]]})
        log("replay: %s (%s) fails at %s" % (x["inv"], x["class"], json.dumps(_slim(x["row"]))[:300]))
    return verdict.finish()
