"""C12 -- Mempool contents stay unique, bounded, current and correctly ordered.
Spec: spec/TMMempoolOps.tla (step operators + properties), spec/TMMempool.tla (state machine),
spec/mc/C12_*; trace spec: spec/trace/TMMempoolTrace.tla; harnesses:
harness/inpkg/mempool/v0/zz_verif_c12_test.go, harness/inpkg/mempool/v1/zz_verif_c12_test.go."""
import hashlib
import json
import os
from concurrent.futures import ThreadPoolExecutor

from vlib import core, tlaparse
from vlib.core import Undecided, log
from vlib.tlaparse import to_json

# = MCTxSize in spec/mc/C12_mc.tla; p..w sit around the varint steps (2^7, 2^14) of the length prefix
TXSIZE = {"a": 1, "b": 1, "c": 2, "d": 3, "p": 127, "q": 128, "r": 129, "s": 16383, "t": 16384, "u": 16385,
          "v": 16511, "w": 16512}

WEAK = [  # (cfg, expected violated invariant / property, version)
    ("C12_weak_NoDupCheckOnInsert.cfg", "InvUnique", "v0"),
    ("C12_weak_NoDupCheckOnInsert_v1.cfg", "InvUnique", "v1"),
    ("C12_weak_ReapOffByOne.cfg", "InvReapPrefix", "v0"),
    ("C12_weak_FullCheckOnlyOnAdmit.cfg", "InvBounded", "v0"),
    ("C12_weak_FullCheckOnlyOnAdmit_v1.cfg", "InvBounded", "v1"),
    ("C12_weak_EvictWithoutBytes.cfg", "InvBounded", "v1"),
    ("C12_weak_CacheNotUpdatedOnCommit.cfg", "InvCommittedGone", "v0"),
    ("C12_weak_RecheckKeepsRejected.cfg", "PropRecheckFilters", "v0"),
    ("C12_weak_RecheckKeepsRejected_v1.cfg", "PropRecheckFilters", "v1"),
    ("C12_weak_VarintBoundaryOffByOne.cfg", "InvReapPrefix", "v0"),
    ("C12_weak_VarintBoundaryOffByOne_v1.cfg", "InvReapPrefix", "v1"),
    ("C12_weak_NonAtomicAdmission.cfg", "InvBounded", "v0"),
    ("C12_weak_NonAtomicAdmission_unique.cfg", "InvUnique", "v0"),
    ("C12_v1_strict.cfg", "InvCommittedGoneStrict", "v1"),
]

ABC = ["a", "b", "c"]
ABCD = ["a", "b", "c", "d"]
AB = ["a", "b"]


def enc_size(n):
    """tag + varint(len) + len: what one tx of n bytes costs in the encoded block data."""
    v, l = 1, n
    while l >= 0x80:
        l >>= 7
        v += 1
    return 1 + v + n


def tla(v):
    if isinstance(v, bool):
        return "TRUE" if v else "FALSE"
    if isinstance(v, int):
        return str(v)
    if isinstance(v, str):
        return '"%s"' % v
    if isinstance(v, (list, set, tuple)):
        return "{" + ", ".join(tla(x) for x in v) + "}"
    raise ValueError(v)


def exhaustive_table(quick):
    """(label, base cfg, constant overrides) of the exhaustive design-spec runs."""
    t = [
        ("v0_cache0", "C12_v0.cfg", {"CacheSize": 0}),
        ("v0_cache1_rich", "C12_v0.cfg", {"Txs": ABCD, "CacheSize": 1, "Gases": [1, 2], "PreLimits": [3], "PostLimits": [1]}),
        ("v0_cache2", "C12_v0.cfg", {"CacheSize": 2}),
        ("sizes_v0", "C12_sizes_v0.cfg", {}),       # tx lengths around the varint steps, tight byte limits
        ("sizes_v1", "C12_sizes_v1.cfg", {}),
        ("v1_evict_cache3", "C12_v1.cfg", {"CacheSize": 3, "MaxHeight": 0}),
        ("v1_cache1", "C12_v1.cfg", {"Txs": AB, "CacheSize": 1, "MaxHeight": 1, "Senders": [""]}),
    ]
    if not quick:
        t += [
            ("v1_cache1_senders", "C12_v1.cfg", {"Txs": AB, "CacheSize": 1, "MaxHeight": 1}),
            ("v0_cache1_block2", "C12_v0.cfg", {"Txs": ABCD, "CacheSize": 1, "MaxBlock": 2, "Gases": [1, 2],
                                                "PreLimits": [3], "PostLimits": [1]}),
            ("v0_keepinvalid_norecheck", "C12_v0.cfg", {"CacheSize": 1, "KeepInvalid": True, "Recheck": False,
                                                        "Peers": [1, 2]}),
            ("v0_4tx_size3_cache1", "C12_v0.cfg", {"Txs": ABCD, "Size": 3, "MaxTxsBytes": 5, "MaxTxBytes": 3,
                                                   "CacheSize": 1, "MaxHeight": 3, "Gases": [1, 2]}),
            ("v0_4tx_size3_cache0", "C12_v0.cfg", {"Txs": ABCD, "Size": 3, "MaxTxsBytes": 5, "MaxTxBytes": 3,
                                                   "CacheSize": 0, "MaxHeight": 2}),
            ("v0_4tx_size3_cache2", "C12_v0.cfg", {"Txs": ABCD, "Size": 3, "MaxTxsBytes": 5, "MaxTxBytes": 3,
                                                   "CacheSize": 2, "MaxHeight": 2}),
            ("v0_cache6_block2", "C12_v0.cfg", {"Txs": ABCD, "CacheSize": 6, "MaxBlock": 2, "MaxHeight": 3}),
            ("v1_ttl_recheck", "C12_v1.cfg", {"Txs": AB, "CacheSize": 2, "MaxHeight": 2, "TTL": 1, "Senders": [""],
                                              "MaxInflight": 1}),
            ("v1_cache1_3tx", "C12_v1.cfg", {"CacheSize": 1, "Senders": [""], "MaxHeight": 1}),
            ("v1_cache0_depth9", "C12_v1.cfg", {"Txs": AB, "CacheSize": 0, "MaxHeight": 1, "MaxDepth": 9}),
            ("v1_cache2_senders", "C12_v1.cfg", {"Txs": AB, "CacheSize": 2, "MaxHeight": 1, "PostLimits": [1]}),
        ]
    return t


def replay_table(quick):
    """act-augmented graphs that are dumped and replayed edge by edge on the real code."""
    t = [
        ("graph_v0", "C12_replay_v0.cfg", {}),
        ("graph_v1_evict", "C12_replay_v1.cfg", {"MaxInflight": 2, "MaxHeight": 0}),
        ("graph_v1_update", "C12_replay_v1.cfg", {"Senders": [""], "MaxInflight": 1, "Prios": [1]}),
        # boundary-length txs (128, 16384, 16511, ...) reaped with byte limits exact / +-1 / +-2 / -3 around
        # the encoded size of every prefix
        ("graph_sizes_v0", "C12_replay_sizes_v0.cfg", {"Txs": ["q", "t", "v"]} if quick else {}),
        ("graph_sizes_v1", "C12_replay_sizes_v1.cfg", {"Txs": ["q", "t"]} if quick else {}),
    ]
    if not quick:
        t += [
            ("graph_v0_cache0", "C12_replay_v0.cfg", {"CacheSize": 0}),
            ("graph_v0_cache2_keep", "C12_replay_v0.cfg", {"CacheSize": 2, "KeepInvalid": True}),
            ("graph_v1_update_prio", "C12_replay_v1.cfg", {"Senders": [""], "MaxInflight": 1}),
        ]
    return t


def sim_table(quick):
    n = 150 if quick else 800
    return [
        ("sim_v0_cache1", "C12_v0.cfg", {"Txs": ABCD, "CacheSize": 1, "MaxBlock": 2, "Gases": [1, 2], "MaxHeight": 3,
                                         "PreLimits": [3], "PostLimits": [1], "Peers": [1, 2]}, n),
        ("sim_v0_cache0", "C12_v0.cfg", {"Txs": ABCD, "CacheSize": 0, "Size": 3, "MaxTxsBytes": 5, "MaxHeight": 3}, n),
        ("sim_v1_cache1", "C12_v1.cfg", {"Txs": ABCD, "CacheSize": 1, "MaxBlock": 2, "Gases": [1, 2], "MaxHeight": 3,
                                         "Peers": [1, 2], "MaxInflight": 3}, n),
        ("sim_v1_ttl", "C12_v1.cfg", {"Txs": ABCD, "CacheSize": 3, "Size": 3, "MaxTxsBytes": 4, "TTL": 1, "MaxHeight": 4,
                                      "PostLimits": [1], "Gases": [1, 2]}, n),
    ]


def read_consts(ctx, cfgname):
    """The harness needs the mempool configuration of a TLC cfg: read it back from the file."""
    import re
    txt = open(os.path.join(ctx.spec_copy(), cfgname)).read()

    def val(k):
        m = re.search(r'^\s*%s\s*=\s*(.*)$' % k, txt, re.M)
        if not m:
            raise Undecided("constant %s not in %s" % (k, cfgname))
        return tlaparse.parse_value(m.group(1).strip())
    txs = [str(x) for x in val("Txs")]
    return {"version": str(val("Version")), "size": val("Size"), "maxTxsBytes": val("MaxTxsBytes"),
            "maxTxBytes": val("MaxTxBytes"), "cacheSize": val("CacheSize"), "keepInvalid": val("KeepInvalid"),
            "recheck": val("Recheck"), "ttl": val("TTL"), "txsize": {t: TXSIZE[t] for t in sorted(txs)}}


def act_to_step(a):
    a = to_json(a)
    n = a["name"]
    if n == "CheckTx_Admit":
        return {"op": n, "tx": a["tx"], "peer": a["peer"]}
    if n in ("CheckTx_Response", "RecheckResponse"):
        return {"op": n, "tx": a["tx"], "v": a["v"]}
    if n == "Update":
        return {"op": n, "txs": list(a["txs"]), "oks": list(a["oks"]), "npre": a["npre"], "npost": a["npost"]}
    if n == "Flush":
        return {"op": n}
    if n == "RemoveTxByKey":
        return {"op": n, "tx": a["tx"]}
    if n == "ReapMaxTxs":
        return {"op": n, "n": a["n"]}
    if n == "ReapMaxBytesMaxGas":
        return {"op": n, "b": a["b"], "g": a["g"]}
    return None


REAPS = ("ReapMaxTxs", "ReapMaxBytesMaxGas")


def merged_schedules(g):
    """One schedule per leaf of the BFS tree of the act-augmented graph (every node = every
    distinct (action, arguments, result state) is executed), except that the reap leaves under
    one parent -- reaps do not change the state -- are executed one after the other at the end
    of a single schedule instead of re-executing the path for each.  Returns lists of node ids
    (the first one is the initial node)."""
    paths = g.bfs_paths()
    children = {}
    for nid, p in paths.items():
        if p:
            children.setdefault(g.edges[p[-1]][0], []).append(nid)

    def nodes_of(nid):
        p = paths[nid]
        return ([g.edges[p[0]][0]] if p else [nid]) + [g.edges[k][1] for k in p]

    def reap_leaf(n):
        return n not in children and g.nodes[n]["act"].get("name") in REAPS
    out = []
    for nid in paths:
        kids = children.get(nid, [])
        reaps = [k for k in kids if reap_leaf(k)]
        if reaps:
            out.append(nodes_of(nid) + reaps)
        elif not kids and paths[nid] and not reap_leaf(nid):
            out.append(nodes_of(nid))
    covered = set()
    for sc in out:
        covered.update(sc)
    missing = set(paths) - covered
    if missing:
        raise Undecided("graph schedules do not cover %d nodes" % len(missing))
    return out


def to_sync(steps):
    """The same schedule for the synchronous local ABCI client: every admit is answered at once
    (with the verdict its response step carries), rechecks are answered inside Update."""
    out = []
    for i, s in enumerate(steps):
        if s["op"] == "CheckTx_Admit":
            v = {"ok": True, "gas": 1, "prio": 1, "sender": ""}
            for t in steps[i + 1:]:
                if t["op"] == "CheckTx_Response" and t["tx"] == s["tx"]:
                    v = t["v"]
                    break
            out.append({"op": "CheckTx", "tx": s["tx"], "peer": s["peer"], "v": v})
        elif s["op"] == "Update":
            rv = {}
            for t in steps[i + 1:]:
                if t["op"] == "Update":
                    break
                if t["op"] == "RecheckResponse" and t["tx"] not in rv:
                    rv[t["tx"]] = dict(t["v"], tx=t["tx"])
            out.append(dict(s, rv=list(rv.values())))
        elif s["op"] in ("CheckTx_Response", "RecheckResponse"):
            continue
        else:
            out.append(s)
    return out


POOL = 4          # TLC processes at a time ...
WORKERS = 2       # ... with this many workers each (8 in total)


def build_runs(ctx, quick):
    """TLC side: exhaustive runs, non-vacuity, behaviours to replay. Returns (runs_by_version, info)."""
    info = {"exhaustive": [], "weak": {}, "graphs": {}, "sims": {}, "attack_schedules": 0}
    tmo = 900 if quick else 2400
    ctx.spec_copy()          # before any thread: the copy is not thread-safe
    skip = set(filter(None, os.environ.get("C12_DEV_SKIP", "").split(",")))   # development only -> exit 2
    info["dev_skip"] = sorted(skip)

    pool, workers = (POOL, WORKERS) if quick else (2, 4)
    ex = ThreadPoolExecutor(max_workers=pool)

    # ---- 1. exhaustive design-spec runs ---------------------------------------------------
    def exh(label, base, over):
        def job():
            cfg = core.cfg_variant(ctx, base, "C12_run_%s.cfg" % label, {k: tla(v) for k, v in over.items()})
            return label, ctx.tlc("C12_mc", cfg, must_pass=True, timeout=tmo, workers=workers, label=label, heap="4g")
        return job

    # ---- 2. non-vacuity: every weakened spec is refuted; counterexamples become schedules -----
    def weak(cfg, inv, version):
        def job():
            return cfg, inv, ctx.tlc("C12_mc", cfg, timeout=600, workers=1, label=cfg[4:-4], heap="2g")
        return job

    def graph(label, base, over):
        def job():
            cfg = core.cfg_variant(ctx, base, "C12_run_%s.cfg" % label, {k: tla(v) for k, v in over.items()})
            dot = os.path.join(ctx.work, label + ".dot")
            r = ctx.tlc("C12_mc", cfg, dump=["dot,actionlabels", dot], must_pass=True, timeout=tmo, workers=workers,
                        label=label, heap="4g")
            g = core.parse_dot(dot)
            os.remove(dot)
            return label, cfg, r, g
        return job

    def sim(label, base, over, n):
        def job():
            cfg = core.cfg_variant(ctx, base, "C12_run_%s.cfg" % label, {k: tla(v) for k, v in over.items()},
                                   drop_view=True, drop_properties=True, invariants=[])
            txt = open(os.path.join(ctx.spec_copy(), cfg)).read().replace("NEXT NextCore", "NEXT Next")
            open(os.path.join(ctx.spec_copy(), cfg), "w").write(txt)
            prefix = os.path.join(ctx.work, label)
            r = ctx.tlc("C12_mc", cfg, simulate="file=%s,num=%d" % (prefix, n), depth=28, seed=ctx.seed, workers=1,
                        timeout=tmo, label=label, heap="2g")
            if r.errors or r.timed_out:
                ctx.save_log(label, r.out)
                raise Undecided("simulation %s failed: %s" % (label, (r.errors or ["timeout"])[:2]))
            behs = []
            d = os.path.dirname(prefix)
            for f in sorted(os.listdir(d)):
                if f.startswith(label + "_"):
                    p = os.path.join(d, f)
                    with open(p) as fh:
                        beh = tlaparse.parse_behaviour_text(fh.read())
                    os.remove(p)
                    behs.append([s for _h, s in beh])
            return label, cfg, r, behs
        return job

    # everything TLC has to do is independent: one pool, longest jobs first
    f_exh = [ex.submit(exh(*e)) for e in exhaustive_table(quick) if "exh" not in skip]
    f_graph = [ex.submit(graph(*e)) for e in replay_table(quick) if "graph" not in skip]
    f_sim = [ex.submit(sim(*e)) for e in sim_table(quick) if "sim" not in skip]
    f_weak = [ex.submit(weak(*w)) for w in WEAK if "weak" not in skip]
    try:
        res_exh = [f.result() for f in f_exh]
        res_graph = [f.result() for f in f_graph]
        res_sim = [f.result() for f in f_sim]
        res_weak = [f.result() for f in f_weak]
    finally:
        ex.shutdown(wait=True, cancel_futures=True)


    for label, r in res_exh:
        info["exhaustive"].append({"cfg": label, "distinct": r.distinct, "generated": r.generated, "depth": r.depth})
    attack = {"v0": [], "v1": []}
    for cfg, inv, r in res_weak:
        hit = [v for v in r.violations if v["name"] == inv]
        if not hit or r.errors or r.timed_out:
            ctx.save_log(cfg, r.out)
            raise Undecided("vacuity: %s does not violate %s" % (cfg, inv))
        info["weak"][cfg[4:-4]] = inv
        steps = [act_to_step(s["act"]) for _h, s in hit[0]["trace"] if s.get("act", {}).get("name") != "Init"]
        steps = [s for s in steps if s]
        c = read_consts(ctx, cfg)
        last_tx = ([x["tx"] for x in steps if x.get("tx")] or ["a"])[-1]
        # the dangerous schedule, followed by the observations that make its effect visible
        tail = [{"op": "ReapMaxTxs", "n": 1}, {"op": "ReapMaxTxs", "n": 0}, {"op": "ReapMaxBytesMaxGas", "b": -1, "g": -1},
                {"op": "ReapMaxBytesMaxGas", "b": enc_size(TXSIZE[last_tx]) - 1, "g": -1},
                {"op": "ReapMaxBytesMaxGas", "b": enc_size(TXSIZE[last_tx]), "g": -1},
                {"op": "Update", "txs": [last_tx], "oks": [True], "npre": -2, "npost": -2}]
        attack[c["version"]].append({"cfg": c, "mode": "async", "steps": steps + tail, "src": "attack:" + cfg[4:-4]})
        attack[c["version"]].append({"cfg": c, "mode": "sync", "steps": to_sync(steps + tail), "src": "attack-sync:" + cfg[4:-4]})
        info["attack_schedules"] += 2

    runs = {"v0": list(attack["v0"]), "v1": list(attack["v1"])}

    # ---- 3. act-augmented state graphs -> one schedule per BFS-tree leaf ----------------------
    for label, cfg, r, g in res_graph:
        c = read_consts(ctx, cfg)
        scheds = merged_schedules(g)
        nsteps = 0
        for k, nodes in enumerate(scheds):
            steps = [act_to_step(g.nodes[nid]["act"]) for nid in nodes[1:]]
            steps = [s for s in steps if s]
            nsteps += len(steps)
            runs[c["version"]].append({"cfg": c, "mode": "async", "steps": steps, "src": label})
            if k % 4 == 0:
                runs[c["version"]].append({"cfg": c, "mode": "sync", "steps": to_sync(steps), "src": label + "-sync"})
        info["graphs"][label] = {"states": len(g.nodes), "edges": len(g.edges), "schedules": len(scheds),
                                 "steps": nsteps, "distinct": r.distinct, "generated": r.generated}

    # ---- 4. simulation on larger constants ---------------------------------------------------
    for label, cfg, r, behs in res_sim:
        c = read_consts(ctx, cfg)
        nsteps = 0
        for k, beh in enumerate(behs):
            steps = [act_to_step(s["act"]) for s in beh if s["act"].get("name") != "Init"]
            steps = [s for s in steps if s]
            nsteps += len(steps)
            runs[c["version"]].append({"cfg": c, "mode": "async", "steps": steps, "src": label})
            if k % 3 == 0:
                runs[c["version"]].append({"cfg": c, "mode": "sync", "steps": to_sync(steps), "src": label + "-sync"})
        info["sims"][label] = {"behaviours": len(behs), "steps": nsteps, "generated": r.generated}
    return runs, info


def run_harness(ctx, version, runs, nrandom, randlen, nconc):
    inp = os.path.join(ctx.work, "c12-%s-in.json" % version)
    with open(inp, "w") as f:
        json.dump({"runs": runs, "random": nrandom, "randomLen": randlen, "conc": nconc}, f)
    out = ctx.subdir("c12-%s-out" % version)
    binp = ctx.go_build_test("mempool/" + version, ["zz_verif_c12_test.go"], name="c12_" + version)
    rc, txt = ctx.run_test(binp, "^TestVerifC12$", {"VERIF_IN": inp, "VERIF_OUT": out},
                           timeout=600 if ctx.tier == "quick" else 1800, label="harness-" + version)
    if rc != 0:
        ctx.save_log("harness-" + version, txt)
        raise Undecided("C12 %s harness failed (rc=%d): %s" % (version, rc, txt[-1500:]))
    rows = core.read_ndjson(os.path.join(out, version + ".ndjson"))
    with open(os.path.join(out, version + ".summary.json")) as f:
        summ = json.load(f)
    if summ.get("Misuse"):
        raise Undecided("C12 %s harness: scripted ABCI client used outside its contract: %s" % (version, summ["Misuse"][:3]))
    return rows, summ


def sig_of(v):
    row = v["row"]
    return {"inv": v["inv"], "class": v["class"], "ev": row["ev"]}


def run(ctx):
    quick = ctx.tier == "quick"
    runs, info = build_runs(ctx, quick)

    nrandom, randlen, nconc = (120, 40, 12) if quick else (800, 60, 80)
    with ThreadPoolExecutor(max_workers=2) as ex:
        f0 = ex.submit(run_harness, ctx, "v0", runs["v0"], nrandom, randlen, nconc)
        f1 = ex.submit(run_harness, ctx, "v1", runs["v1"], nrandom, randlen, nconc)
        rows0, summ0 = f0.result()
        rows1, summ1 = f1.result()

    v0 = core.validate_traces(ctx, "TMMempoolTrace", rows0, label="v0", max_events=6000, timeout=1500)
    v1 = core.validate_traces(ctx, "TMMempoolTrace", rows1, label="v1", max_events=6000, timeout=1500)

    verdict = core.Verdict(ctx)
    for ver, vv in (("v0", v0), ("v1", v1)):
        for v in vv["viol"]:
            sig = sig_of(v)
            sig["version"] = ver
            verdict.add(sig, {"version": ver, "failing_step": v["row"], "prefix": v["prefix"],
                              "tlc": {"inv": v["inv"], "class": v["class"]}})
    drift = [dict(d, version="v0") for d in v0["drift"]] + [dict(d, version="v1") for d in v1["drift"]]

    distinct = set()
    kinds = {}
    for ver, rows in (("v0", rows0), ("v1", rows1)):
        pre = None
        for r in rows:
            if r["ev"] == "Reset":
                pre = ("reset", json.dumps(r["cfg"], sort_keys=True))
                continue
            post = r.get("post", {})
            core_post = {k: post.get(k) for k in ("pool", "index", "bytes", "cache", "inflight", "rcur")}
            args = {k: x for k, x in r.items() if k not in ("post", "run", "round")}
            key = json.dumps([ver, args, core_post], sort_keys=True)
            h = hashlib.sha1(key.encode()).hexdigest()
            if pre is not None and json.dumps(core_post, sort_keys=True) != pre[1]:
                distinct.add(h)                  # a step that changed the projected state
            elif r["ev"].startswith("Reap"):
                distinct.add(h)
            pre = ("st", json.dumps(core_post, sort_keys=True))
            kinds[ver + ":" + r["ev"]] = kinds.get(ver + ":" + r["ev"], 0) + 1

    states = sum(e["distinct"] for e in info["exhaustive"]) + sum(g["distinct"] for g in info["graphs"].values())
    trans = sum(e["generated"] for e in info["exhaustive"]) + sum(g["generated"] for g in info["graphs"].values()) \
        + sum(s["generated"] for s in info["sims"].values())
    sample0 = [r for r in rows0 if r.get("run") == 1][:6]
    sample1 = [r for r in rows1 if r.get("run") == 1][:6]
    coverage = {
        "states": states,
        "transitions": trans,
        "traces_validated_against_impl": v0["runs"] + v1["runs"],
        "evaluations": len(rows0) + len(rows1),
        "distinct_nontrivial": len(distinct),
        "rule": "design spec TMMempool (v0 and v1, split admit/response, FIFO vs any-order responses, LRU cache with "
                "capacities 0/1/2/3/6, pre/post filters, TTL, recheck) model-checked exhaustively per config; replayed on "
                "the REAL CListMempool / TxMempool: every edge of the act-augmented graphs (one schedule per BFS-tree "
                "leaf, async and every 4th also through the synchronous local client), TLC simulation behaviours on larger "
                "constants, the counterexamples of every weakened spec (attack schedules), %d random runs per version "
                "(configs with tiny caches, sizes up to 200 bytes) and %d concurrent runs per version (state at quiescent "
                "points); every observed event validated by TLC (TMMempoolTrace); a step counts as distinct non-trivial if "
                "it changed the projected state (or is a reap), by (event, args, post-state)" % (nrandom, nconc),
        "samples": [core.abridge(sample0, 6), core.abridge(sample1, 6)],
        "exhaustive": True,
        "exhaustive_note": "true for the bounded configs listed in exhaustive_runs and the replayed graphs in "
                           "replay_graphs (fully explored and fully replayed); simulation/random/concurrent runs are samples",
        "tlc_runs": ctx.tlc_stats,
        "exhaustive_runs": info["exhaustive"],
        "replay_graphs": info["graphs"],
        "simulations": info["sims"],
        "attack_schedules": info["attack_schedules"],
        "events_by_kind": kinds,
        "harness": {"v0": summ0, "v1": summ1},
        "panics_of_the_real_mempool": ((summ0.get("Panics") or []) + (summ1.get("Panics") or []))[:5],
        "random_runs_per_version": nrandom,
        "concurrent_runs_per_version": nconc,
        "conformance_drift": [{"what": d["what"], "version": d["version"], "step": core.abridge_row(d["row"])
                               if hasattr(core, "abridge_row") else {k: x for k, x in d["row"].items() if k != "post"}}
                              for d in drift[:6]],
        "conformance_drift_count": len(drift),
        "nonvacuity": {k: "refuted by TLC (%s)" % v for k, v in info["weak"].items()},
        "known_findings_reproduced": dict(verdict.known),
    }
    rc = verdict.finish()
    panics = (summ0.get("Panics") or []) + (summ1.get("Panics") or [])
    if panics and not verdict.new:
        # the run in which the real mempool panicked ends there; everything observed before is
        # validated above -- without a property failure a panic alone decides nothing
        raise Undecided("the real mempool panicked under a schedule and no property failure was observed: %s" % panics[:3])
    if info["dev_skip"]:
        raise Undecided("development mode (C12_DEV_SKIP=%s): parts of the check were skipped" % ",".join(info["dev_skip"]))
    ctx.write_evidence(coverage, [
        "the asynchronous ABCI connection is a scripted client with the socket client's observable semantics (FIFO, global "
        "callback then request callback); the synchronous one is the real abcicli local client over a scripted application",
        "v0 callers respect the documented protocol: Update under Lock() after FlushAppConn(); Flush/RemoveTxByKey not "
        "during an unfinished v0 recheck (clist panics otherwise; Flush is documented unsafe)",
        "v1 arrival order = list order = timestamp order (single driver thread; wall clock assumed monotone); "
        "TTLDuration (wall-clock expiry) is not modelled, TTLNumBlocks is",
        "'remembered' is the LRU cache as specified (ghost rcache): capacity CacheSize, push on admit and on commit, "
        "removal on rejection/eviction/TTL purge",
        "concurrent runs are judged at quiescent points only (state invariants), CommittedGone only when the cache cannot "
        "have evicted during the run",
        "a TLC verdict is accepted only if the verdict file covers every trace line",
    ], len(verdict.new))
    return rc


def replay(ctx, path):
    """Re-execute the failing prefix of a stored replay on the current tree and re-validate it."""
    with open(path) as f:
        rep = json.load(f)
    prefix = rep["replay"]["prefix"]
    ver = rep["replay"].get("version") or prefix[0]["cfg"]["version"]
    if not prefix or prefix[0].get("ev") != "Reset":
        raise Undecided("replay file has no run prefix")
    if prefix[0].get("mode") == "conc":
        raise Undecided("a violation seen by the concurrent driver cannot be replayed deterministically; "
                        "re-run ./check C12 with the same VERIF_SEED")
    steps = []
    for r in prefix[1:]:
        ev = r["ev"]
        s = {"op": ev}
        for k in ("tx", "peer", "v", "txs", "oks", "npre", "npost", "rv", "n", "b", "g"):
            if k in r:
                s[k] = r[k]
        steps.append(s)
    run1 = {"cfg": prefix[0]["cfg"], "mode": prefix[0]["mode"], "steps": steps, "src": "replay"}
    rows, _summ = run_harness(ctx, ver, [run1], 0, 0, 0)
    v = core.validate_traces(ctx, "TMMempoolTrace", rows, label="replay")
    verdict = core.Verdict(ctx)
    for x in v["viol"]:
        sig = sig_of(x)
        sig["version"] = ver
        verdict.add(sig, {"version": ver, "failing_step": x["row"], "prefix": x["prefix"]})
        log("replay: %s (%s) fails at %s" % (x["inv"], x["class"], json.dumps({k: y for k, y in x["row"].items() if k != "post"})))
    return verdict.finish()
