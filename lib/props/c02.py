"""C02 — A correct validator never equivocates and every vote it casts is justified.
Spec: TMConsensusNode + TMConsensusSolo (threshold-event adversary) + TMConsensusNet;
trace spec TMConsensusTrace (SignViolations); driver zz_verif_cons_test.go with a real FilePV."""
import json
import os

from vlib import core
from vlib.core import Undecided, log
from props import cons_common as cc
from props.c01 import load_attacks

WEAK_SOLO = {"RelockKeepsRound": "LockRespected", "PolProposalOverridesLock": "LockRespected", "PrevoteIgnoresLock": "LockRespected", "UnlockOnOlderPolka": "LockRespected",
             "PrecommitWithoutPolka": "PrecommitJustified", "PrecommitUnheldBlock": "PrecommitJustified",
             "ProposeFreshDespiteValid": "ProposalCarriesValid"}


# weak switch -> (rounds, adversarial values, corridor of TMConsensusSolo)
GUIDED = {"RelockKeepsRound": (3, ["Z0", "Z1"], "CorridorRelock"),
          "UnlockOnOlderPolka": (3, ["Z0", "Z1"], "CorridorOlder"),
          "PolProposalOverridesLock": (1, ["Z0", "Z1"], "CorridorPol")}
SOLO_ATTACKS = os.path.join(core.VERIF, "spec", "attacks", "C02")


def load_solo_attacks():
    out = {}
    if os.path.isdir(SOLO_ATTACKS):
        for f in sorted(os.listdir(SOLO_ATTACKS)):
            if f.endswith(".json"):
                with open(os.path.join(SOLO_ATTACKS, f)) as fh:
                    a = json.load(fh)
                if "weak" in a:
                    out[a["weak"]] = a
    return out


def run(ctx):
    quick = ctx.tier == "quick"
    binp = cc.build(ctx)
    verdict = core.Verdict(ctx)
    cov = {"configs": [], "conformance_drift": [], "conformance_drift_count": 0, "other_property_failures": []}
    tot = {"states": 0, "transitions": 0, "runs": 0, "events": 0, "signs": set(), "samples": []}

    def account(v, rows, label):
        for x in v["viol"]:
            if x["inv"] in cc.C02_INVS:
                verdict.add({"inv": x["inv"], "class": x["class"]}, {"failing_step": x["row"], "prefix": x["prefix"], "config": label})
            else:
                cov["other_property_failures"].append({"inv": x["inv"], "class": x["class"], "config": label})
        cov["conformance_drift"] += [{"what": d["what"], "fields": d.get("fields"), "config": label,
                                      "step": {k: d["row"].get(k) for k in ("ev", "n", "m", "k")}} for d in v["drift"][:3]]
        cov["conformance_drift_count"] += len(v["drift"])
        tot["runs"] += v["runs"]
        tot["events"] += len(rows)
        for r in rows:
            for sg in r.get("signs", []):
                if sg["ok"]:
                    tot["signs"].add(json.dumps([r["n"], sg, r["post"]["lockedV"], r["post"]["lockedR"]], sort_keys=True))

    # ---------------- A. one node against two adversarial validators (4/5 of the power) ----------
    powers, me = [2, 2, 1], "v2"
    info = cc.run_driver(ctx, binp, {"mode": "info", "powers": powers, "byz": [], "maxround": 4}, "info")
    byz = [n for n in info["names"] if n != me]
    witnesses = {}

    def collect(r):
        for g, lst in cc.solo_witnesses(r.out, me).items():
            witnesses.setdefault(g, [])
            for st in lst:
                if st not in witnesses[g]:
                    witnesses[g].append(st)

    mc = cc.solo_mc(ctx, "C02_solo_run", info, me, 1, ["Z0"], witness_k=2)
    rA = ctx.tlc(mc, mc + ".cfg", must_pass=True, timeout=2400, label="C02_solo", heap="8g")
    collect(rA)
    tot["states"] += rA.distinct
    tot["transitions"] += rA.generated
    # coverage-goal witnesses of larger configurations (two valid adversarial blocks; rounds 0..2 with an invalid
    # block and the node's own proposal; rounds 0..3): quick uses the committed library
    # (spec/attacks/C02/witnesses.json, written by lib/synth_witnesses.py), thorough re-derives them
    wl = os.path.join(SOLO_ATTACKS, "witnesses.json")
    if quick and os.path.exists(wl):
        with open(wl) as f:
            for g, lst in json.load(f)["witnesses"].items():
                for st in lst:
                    if st not in witnesses.setdefault(g, []):
                        witnesses[g].append(st)
    else:
        for nm, mrw, vals, budget in (("C02_wit_a", 1, ["Z0", "Z1"], 400), ("C02_wit_b", 2, ["Z0", "ZX"], 600)):
            mw = cc.solo_mc(ctx, nm, info, me, mrw, vals, witness_k=2)
            rw_ = ctx.tlc(mw, mw + ".cfg", timeout=budget, label=nm, heap="8g")
            if rw_.violations or rw_.errors:
                ctx.save_log(nm, rw_.out)
                raise Undecided("breadth-first run %s of the real solo spec reported %s" % (nm, (rw_.violations or rw_.errors)[:1]))
            collect(rw_)
            tot["transitions"] += rw_.generated
    exh = [{"config": "solo rounds 0..1, env values {Z0}", "states": rA.distinct, "complete": True}]
    if not quick:
        mc2 = cc.solo_mc(ctx, "C02_solo_zx", info, me, 1, ["ZX"])
        r2 = ctx.tlc(mc2, mc2 + ".cfg", must_pass=True, timeout=2400, label="C02_solo_zx", heap="8g")
        tot["states"] += r2.distinct
        tot["transitions"] += r2.generated
        exh.append({"config": "solo rounds 0..1, env values {ZX} (invalid block)", "states": r2.distinct, "complete": True})
        mc3 = cc.solo_mc(ctx, "C02_solo_r2", info, me, 2, ["Z0"])
        r3 = ctx.tlc(mc3, mc3 + ".cfg", timeout=1500, label="C02_solo_r2", heap="12g")
        if r3.violations or r3.errors:
            ctx.save_log("C02_solo_r2", r3.out)
            raise Undecided("solo rounds 0..2 run of the real spec reported %s" % (r3.violations or r3.errors)[:1])
        tot["states"] += r3.distinct
        tot["transitions"] += r3.generated
        exh.append({"config": "solo rounds 0..2 (own proposal in round 2), env values {Z0}", "states": r3.distinct,
                    "complete": not r3.timed_out})
    # non-vacuity: every weakened spec must break its clause
    # non-vacuity AND attack-schedule synthesis (DESIGN 4.3): every weakened solo spec must break its clause;
    # TLC's counterexample is the adversary's winning strategy against an implementation with that bug and is
    # replayed on the real node below (uneventful on correct code)
    nonvac = {}
    attack_scheds = []
    for weak, inv in WEAK_SOLO.items():
        if weak in GUIDED:
            # random simulation needs > 25 min for these: breadth-first inside a hand-guided corridor (state constraint of
            # TMConsensusSolo that restricts the adversary to the moves of the attack pattern), seconds
            mrw, vals, corridor = GUIDED[weak]
            m2 = cc.solo_mc(ctx, "C02_weak_" + weak, info, me, mrw, vals, weak=[weak], constraint=corridor, noenv=("commit",))
            rw = ctx.tlc(m2, m2 + ".cfg", timeout=900, label="weak_" + weak, heap="8g")
            # thorough: the real spec explored inside the same corridor (complete) has no violation
            if quick:
                found = [x["name"] for x in rw.violations]
            m3 = None if quick else cc.solo_mc(ctx, "C02_corr_" + weak, info, me, mrw, vals, constraint=corridor, noenv=("commit",))
            if m3:
                rc_ = ctx.tlc(m3, m3 + ".cfg", timeout=1800, label="corridor_" + weak, heap="8g")
                if rc_.violations or rc_.errors:
                    ctx.save_log("corridor_" + weak, rc_.out)
                    raise Undecided("the real solo spec inside corridor %s: %s" % (corridor, (rc_.violations or rc_.errors)[:1]))
                tot["states"] += rc_.distinct
                tot["transitions"] += rc_.generated
            tot["transitions"] += rw.generated
        else:
            m2 = cc.solo_mc(ctx, "C02_weak_" + weak, info, me, 2, ["Z0"], weak=[weak])
            rw = ctx.tlc(m2, m2 + ".cfg", simulate="num=100000000", depth=70, seed=ctx.seed, timeout=400 if quick else 1500,
                         label="weak_" + weak)
        found = [x["name"] for x in rw.violations]
        nonvac[weak] = found
        if inv not in found:
            ctx.save_log("weak_" + weak, rw.out)
            raise Undecided("vacuity: weakened solo spec %s does not violate %s (found %s)" % (weak, inv, found))
        steps = []
        for _h, st in rw.violations[0]["trace"]:
            steps += cc.solo_act_to_steps(st["act"], me)
        if steps:
            attack_scheds.append({"id": 800000 + len(attack_scheds), "steps": steps})
            if os.environ.get("VERIF_WRITE_ATTACKS") == "1":      # library maintenance only, never in a registered check
                os.makedirs(SOLO_ATTACKS, exist_ok=True)
                with open(os.path.join(SOLO_ATTACKS, weak + ".json"), "w") as f:
                    json.dump({"name": weak, "weak": weak, "violates": inv, "me": me, "powers": powers, "steps": steps}, f, indent=1)
    # behaviours of the solo spec (rounds 0..2, valid and invalid adversarial blocks) replayed on a real
    # node that signs with a real FilePV
    scheds = []
    nb = 50 if quick else 600
    for tag, noenv in (("S", ()), ("D", ("commit",))):     # D: no early commit, behaviours run deep into later rounds
        mcs = cc.solo_mc(ctx, "C02_solo_sim" + tag, info, me, 2, ["Z0", "ZX"], view=False, noenv=noenv)
        rS = ctx.tlc(mcs, mcs + ".cfg", simulate="file=%s,num=%d" % (os.path.join(ctx.spec_copy(), "beh" + tag), nb),
                     depth=60, seed=ctx.seed, workers=1, timeout=1500, label="C02_solo_sim" + tag)
        if rS.violations or rS.errors:
            ctx.save_log("C02_solo_sim" + tag, rS.out)
            raise Undecided("simulation of the real solo spec reported %s" % (rS.violations or rS.errors)[:1])
        tot["transitions"] += rS.generated
        more = cc.solo_sim_to_scheds(ctx.spec_copy(), "beh" + tag, me)
        for sc in more:
            sc["id"] += len(scheds)
        scheds += more
    wsched = list(attack_scheds)
    for g in sorted(witnesses):
        for steps in witnesses[g]:
            wsched.append({"id": 700000 + len(wsched), "steps": steps})
    inp = {"mode": "replay", "powers": powers, "byz": byz, "maxround": 3, "filepv": True, "scheds": scheds,
           "random": 50 if quick else 600, "randlen": 120}
    rows, stats = cc.run_driver(ctx, binp, inp, "solo")
    # the same schedules with a signer that has NO double-sign protection of its own (MockPV): the statement is about what
    # the validator signs, and FilePV's CheckHRS would mask a state machine that asks for a conflicting signature
    rows_m, stats_m = cc.run_driver(ctx, binp, dict(inp, filepv=False), "solo-mockpv")
    off = max([r["run"] for r in rows] + [0])
    for r in rows_m:
        r["run"] += off
    rows += rows_m
    stats = {k: stats[k] + stats_m[k] for k in stats}
    # the goal witnesses, each continued by 40 random steps, three different continuations each
    for rep in range(6 if quick else 12):
        wi = dict(inp, scheds=[dict(sc, id=sc["id"] + 1000 * rep) for sc in wsched], random=0, randtail=40, filepv=(rep % 2 == 0))
        rows_w, stats_w = cc.run_driver(ctx, binp, wi, "solo-wit%d" % rep)
        off = max([r["run"] for r in rows] + [0])
        for r in rows_w:
            r["run"] += off
        rows += rows_w
        stats = {k: stats[k] + stats_w[k] for k in stats}
    v = cc.validate(ctx, rows, info, byz, 3, "solo", dedupe=True)
    account(v, rows, "solo")
    arows, av = cc.amplify_drift(ctx, binp, rows, v["drift"], inp, info, byz, 3, "solo")
    if av is not None:
        account(av, arows, "solo, continuations of drifting runs")
        cov["drift_amplification"] = {"runs": av["runs"], "property_failures": len(av["viol"])}
    prows, pv = cc.plan_from_drift_solo(ctx, binp, rows, v["drift"], inp, info, byz, 3, me, "solo")
    if pv is not None:
        account(pv, prows, "solo, continuations planned by TLC from the observed drifting state")
        cov["drift_planning"] = {"schedules": pv["runs"], "property_failures": len(pv["viol"])}
    cov["configs"].append({"config": "1 correct (power 1) vs 2 adversarial validators (power 2 each)", "exhaustive_tlc": exh,
                           "simulated_behaviours_replayed": len(scheds), "driver": stats,
                           "coverage_goal_witnesses": {g: len(v) for g, v in sorted(witnesses.items())},
                           "attack_schedules_from_weakened_specs": len(attack_scheds),
                           "events_validated_after_prefix_dedupe": v["events"]})
    tot["samples"].append(core.abridge([{k: r.get(k) for k in ("ev", "n", "m", "k", "signs")} for r in rows if r.get("signs")][:6], 6))

    # ---------------- C. the repository's own scripted consensus tests, recorded through the step hook -----
    traces, npass, tail = cc.record_repo_tests(ctx, binp)
    if traces:
        vr = cc.validate_repo_traces(ctx, traces)
        rows_r = [r for t in traces for r in t]
        account(vr, rows_r, "repository tests (state_test.go)")
        cov["configs"].append({"config": "consensus/state_test.go scenarios run with -tags verif, one trace per consensus.State at the initial height",
                               "test_functions_passed": npass, "traces": len(traces), "events": vr["events"],
                               "note": "steps the tests make through direct calls (startTestRound, SetProposalAndBlock) are not seen by the hook and appear as conformance drift"})
    else:
        cov["configs"].append({"config": "repository tests", "note": "no trace recorded: " + tail[-200:]})

    # ---------------- B. the node inside a network: attack library + random walks, FilePV signing ----
    # w2: total power divisible by three (a quorum of exactly 2/3 is possible)
    for (tag, powers, bi) in ((("eq0", [1, 1, 1, 1], 0), ("w2", [2, 2, 1, 1], 2)) if quick else (("eq0", [1, 1, 1, 1], 0), ("eq3", [1, 1, 1, 1], 3), ("w2", [2, 2, 1, 1], 2))):
        info3 = cc.run_driver(ctx, binp, {"mode": "info", "powers": powers, "byz": [], "maxround": 4}, "info" + tag)
        byz3 = [info3["names"][bi]]
        attacks = [a for a in load_attacks() if a["powers"] == powers and a["byz"] == byz3 and not a.get("restart")]
        scheds = [{"id": 100000 + k, "steps": a["steps"]} for k, a in enumerate(attacks)]
        inp = {"mode": "replay", "powers": powers, "byz": byz3, "maxround": 3, "filepv": True, "scheds": scheds,
               "random": 16 if quick else 400, "randlen": 150}
        rows, stats = cc.run_driver(ctx, binp, inp, tag)
        v = cc.validate(ctx, rows, info3, byz3, 3, tag, dedupe=True)
        account(v, rows, "3+1 " + tag)
        cov["configs"].append({"config": "3 correct + 1 Byzantine (%s), powers %s" % (byz3[0], powers), "attack_schedules": [a["name"] for a in attacks],
                               "driver": stats, "events_validated_after_prefix_dedupe": v["events"]})

    # ---------------- R. the validator is stopped and started inside the height (real receiveRoutine, WAL, catchupReplay) ----
    # "once it has precommitted a block it prevotes nothing else ... until a more recent polka": the lock has to survive
    cc.restart_section(ctx, binp, load_attacks(), account, cov, tot, label="R2", exhaustive=not quick,
                       only_weak=None if not quick else ("ClaimsNotLogged", "WalSkipsBlockParts"))

    coverage = {
        "states": tot["states"], "transitions": tot["transitions"], "traces_validated_against_impl": tot["runs"],
        "evaluations": tot["events"], "distinct_nontrivial": len(tot["signs"]),
        "rule": "every handleMsg/handleTimeout call on a real consensus.State (signing through a real privval.FilePV) is one "
                "evaluation; distinct_nontrivial counts distinct (node, released signature with the polkas and held blocks seen "
                "at signing time, lock) tuples observed",
        "samples": tot["samples"], "exhaustive": False,
        "exhaustive_note": "the solo TLC configs listed under configs[0].exhaustive_tlc are complete; replay is by simulation "
                           "of the solo spec, the attack-schedule library and seeded random walks",
        "tlc_runs": ctx.tlc_stats, "nonvacuity": nonvac, "known_findings_reproduced": dict(verdict.known),
    }
    coverage.update(cov)
    rc = verdict.finish()
    ctx.write_evidence(coverage, [
        "signatures unforgeable, hashes collision-free (symbolic values)",
        "the adversary is abstracted to threshold events (pairs of votes of two validators holding 4/5 of the power) in the "
        "exhaustive solo model; explicit votes in simulation, replay and trace validation",
        "one height (the initial height)",
    ], len(verdict.new))
    return rc


def replay(ctx, path):
    from props import c01
    return c01.replay(ctx, path)
