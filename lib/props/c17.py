"""C17 — Channel messages arrive intact and in order; hostile input only drops the peer.

Spec: spec/TMMConn.tla (operators), spec/TMMConnSys.tla (state machine), spec/TMReactorAlphabet.tla
(hostile message-class alphabet of the reactors); trace specs: spec/trace/TMMConnTrace.tla,
spec/trace/TMReactorTrace.tla, spec/trace/TMPeerGossipTrace.tla (hostile sequences: spec/TMPeerGossip.tla,
spec/TMPeerGossipSys.tla); harnesses (overlay): harness/inpkg/p2p/conn, consensus, mempool/v0,
evidence, blockchain/v0, statesync, p2p/pex  zz_verif_c17_test.go.

Connection half: TLC explores TMMConnSys exhaustively; its state graph, simulated behaviours and the
counterexamples of the weakened specs are replayed on two real MConnections in lock-step; seeded random
lock-step, concurrent and hostile-packet runs are added; TLC validates every observed trace.
Hostile half: TLC enumerates the message-class alphabet (reactor x message kind x field class x
peer-state class); every case is executed on the real reactor under the production recover; TLC judges
HostileOnlyDrops on the observed outcome classes."""
import json
import os

from vlib import core
from vlib.core import Undecided, log
from vlib.tlaparse import to_json

MCCFG = {"chans": [1, 2], "qcap": [2, 1], "rcap": [5, 4], "payload": 2, "slack": 1}

WEAK = [  # (cfg, module, invariants one of which must be violated)
    ("C17_weak_NoCapacityCheck.cfg", ["BoundedBuffer"]),
    ("C17_weak_NoCapacityCheck_hostile.cfg", ["BoundedBuffer"]),
    ("C17_weak_EOFIgnored.cfg", ["DrainedComplete", "ExactlyOnceInOrder"]),
    ("C17_weak_SharedRecvBuffer.cfg", ["ExactlyOnceInOrder", "DrainedComplete", "BoundedBuffer"]),
    ("C17_weak_EmptyMsgLost.cfg", ["NoStuckMessage", "ExactlyOnceInOrder", "DrainedComplete"]),
    ("C17_weak_NoRecover.cfg", ["HostileOnlyDrops"]),
]

REACTOR_PKGS = ["consensus", "mempool/v0", "evidence", "blockchain/v0", "statesync", "p2p/pex"]


# ------------------------------------------------------------------------------ schedules
def acts_to_units(acts):
    """A TLC behaviour (list of act records) -> (lock-step schedule of the honest connection,
    packet list of the hostile connection)."""
    steps, pkts = [], []
    for a in acts:
        n = a.get("name")
        if n == "Send":
            steps.append({"a": "Send", "ch": a["ch"], "len": a["len"], "nil": bool(a.get("nilrep", False))})
        elif n == "SendPacket":
            steps.append({"a": "SendPacket", "ch": 0, "len": 0})
        elif n == "Recv" and a.get("k") == "h":
            steps.append({"a": "Recv", "ch": 0, "len": 0})
        elif n == "Inject":
            p = to_json(a["pkt"])
            pkts.append({"t": p["t"], "ch": p["ch"], "eof": p["eof"], "data": list(p["data"])})
    return steps, pkts


def graph_units(ctx, cfg, label, timeout):
    dot = os.path.join(ctx.work, label + ".dot")
    r = ctx.tlc("C17_mc", cfg, dump=["dot,actionlabels", dot], must_pass=True, timeout=timeout, label=label, workers=8)
    g = core.parse_dot(dot)
    os.remove(dot)
    scheds, hostile = [], []
    for nodes in core.graph_schedules(g):
        acts = [g.nodes[n]["act"] for n in nodes[1:]]
        st, pk = acts_to_units(acts)
        if st:
            scheds.append({"src": label, "steps": st})
        if pk:
            hostile.append({"src": label, "pkts": pk})
    return r, len(g.nodes), scheds, hostile


def rep_variants(units):
    """Every schedule with zero-length sends also in the variants 'all of them nil slices' and 'all of them
    empty non-nil slices' (the representation is the caller's choice: TMMConnSys!Send, nilrep)."""
    out = []
    for u in units:
        out.append(u)
        if any(s["a"] == "Send" and s["len"] == 0 for s in u["steps"]):
            for z in (True, False):
                out.append({"src": u["src"], "steps": [dict(s, nil=z) if s["a"] == "Send" and s["len"] == 0 else s
                                                        for s in u["steps"]]})
    return out


def dedup(units, key):
    seen, out = set(), []
    for u in units:
        k = json.dumps(u[key], sort_keys=True)
        if k not in seen:
            seen.add(k)
            out.append(u)
    return out


# ------------------------------------------------------------------------------ resilient harness runs
def run_resilient(ctx, binp, test, inp, outp, label, max_crashes=12, timeout=1500, env=None):
    """Run a harness whose work is a list of units; a unit starts with a Reset line carrying its
    index.  If the PROCESS dies with a Go panic / fatal error while a unit is executing, that is
    an observation about the code under test (the harness never panics by itself on a healthy
    tree): a Crash line is appended to the unit's trace and the harness is restarted after it."""
    inpath = outp + ".in.json"
    crashes = []
    start = 0
    if os.path.exists(outp):
        os.remove(outp)
    while True:
        inp["start"] = start
        with open(inpath, "w") as f:
            json.dump(inp, f)
        e = {"VERIF_IN": inpath, "VERIF_OUT": outp}
        e.update(env or {})
        rc, txt = ctx.run_test(binp, test, e, timeout=timeout, label="%s@%d" % (label, start))
        rows = []
        if os.path.exists(outp):
            with open(outp) as f:
                for line in f:
                    line = line.strip()
                    if not line:
                        continue
                    try:
                        rows.append(json.loads(line))
                    except ValueError:
                        pass
        if rc == 0 and rows and rows[-1].get("ev") == "Done":
            break
        died = ("panic:" in txt or "fatal error:" in txt) and "goroutine " in txt
        resets = [r for r in rows if r.get("ev") == "Reset"]
        if not died or not resets or rc == 124:
            ctx.save_log("harness-" + label, txt)
            raise Undecided("%s harness failed (rc=%d): %s" % (label, rc, txt[-1200:]))
        last = resets[-1]
        where = ""
        for ln in txt.splitlines():
            if ln.startswith("panic:") or ln.startswith("fatal error:"):
                where = ln[:300]
                break
        stack = [ln.strip() for ln in txt.splitlines() if "tendermint/" in ln and "zz_verif" not in ln][:6]
        crashes.append({"unit": last.get("unit"), "where": where, "stack": stack})
        ctx.save_log("crash-%s-%d" % (label, len(crashes)), txt)
        with open(outp, "a") as f:
            f.write(json.dumps({"ev": "Crash", "run": last.get("run"), "where": where}) + "\n")
        log("harness %s died in unit %s: %s" % (label, last.get("unit"), where))
        if len(crashes) >= max_crashes:
            # enough: every crash is already a recorded observation; the rest of the units is not executed
            log("harness %s died %d times; the remaining units are not executed" % (label, len(crashes)))
            crashes.append({"unit": None, "where": "remaining units not executed after %d crashes" % max_crashes, "stack": []})
            break
        start = int(last.get("unit")) + 1
    rows = [r for r in core.read_ndjson(outp) if r.get("ev") != "Done"]
    return rows, crashes


# ------------------------------------------------------------------------------ connection half
def conn_half(ctx, verdict, cov, quick):
    # ---- 1. design spec, exhaustive (independent TLC runs, three at a time)
    jobs = [
        ("deliver", "C17_deliver.cfg", True),
        ("deliver_2msgs", core.cfg_variant(ctx, "C17_deliver.cfg", "C17_deliver2.cfg",
                                           {"Sizes": "{0, 3}" if quick else "{0, 2, 5}", "MaxMsgs": 2, "MaxPings": 0}), True),
        ("hostile", "C17_hostile.cfg", True),
        ("mixed", "C17_mixed.cfg", True),
    ]
    if not quick:
        jobs.append(("deliver_3msgs", core.cfg_variant(ctx, "C17_deliver.cfg", "C17_deliver3.cfg",
                                                       {"Sizes": "{0, 3}", "MaxMsgs": 3, "MaxPings": 0}), True))
    jobs += [(cfg[:-4], cfg, False) for cfg, _ in WEAK]
    from concurrent.futures import ThreadPoolExecutor
    with ThreadPoolExecutor(max_workers=4) as ex:
        res = list(ex.map(lambda j: ctx.tlc("C17_mc", j[1], must_pass=j[2], timeout=1500, label=j[0], workers=3), jobs))
    byl = {j[0]: r for j, r in zip(jobs, res)}
    runs = [byl[j[0]] for j in jobs if j[2]]
    # ---- non-vacuity: every weakened spec is refuted; its counterexample becomes an attack schedule
    attack_s, attack_h = [], []
    nonvac = {}
    for cfg, invs in WEAK:
        rw = byl[cfg[:-4]]
        hit = [v for v in rw.violations if v["name"] in invs]
        if not hit:
            raise Undecided("vacuity: %s does not violate any of %s (%s)" % (cfg, invs, rw.errors[:2]))
        nonvac[cfg[4:-4] + " refuted by TLC (" + hit[0]["name"] + ")"] = True
        acts = [st["act"] for _h, st in hit[0]["trace"] if "act" in st]
        st, pk = acts_to_units(acts[1:])
        if st:
            attack_s.append({"src": cfg[4:-4], "steps": st})
        if pk:
            attack_h.append({"src": cfg[4:-4], "pkts": pk})

    # ---- 2. behaviours for replay
    gcfg = core.cfg_variant(ctx, "C17_deliver.cfg", "C17_deliver_graph.cfg",
                            {"Sizes": "{0, 3, 6}" if quick else "{0, 1, 2, 3, 5, 6}", "MaxPings": 0},
                            drop_view=True, drop_properties=True)
    rg, gstates, g_s, _ = graph_units(ctx, gcfg, "deliver_graph", 900)
    hcfg = core.cfg_variant(ctx, "C17_hostile.cfg", "C17_hostile_graph.cfg",
                            {"MaxHostile": 1 if quick else 2}, drop_view=True, drop_properties=True)
    rh, hstates, _, g_h = graph_units(ctx, hcfg, "hostile_graph", 900)
    # simulation of the larger sender model
    scfg = core.cfg_variant(ctx, "C17_deliver.cfg", "C17_deliver_sim.cfg",
                            {"Sizes": "{0, 1, 2, 3, 5, 6}", "MaxMsgs": 3, "MaxPings": 0},
                            drop_view=True, drop_properties=True)
    nsim = 150 if quick else 1500
    pref = os.path.join(ctx.work, "sim")
    rs = ctx.tlc("C17_mc", scfg, simulate="file=%s,num=%d" % (pref, nsim), depth=45, seed=ctx.seed, workers=1,
                 timeout=600, label="deliver_sim")
    if rs.errors or rs.violations or rs.timed_out:
        raise Undecided("simulation failed: %s" % (rs.errors or rs.violations)[:2])
    from vlib.tlaparse import parse_behaviour_text
    sim_s = []
    d = os.path.dirname(pref)
    for fn in sorted(os.listdir(d)):
        if fn.startswith("sim_"):
            with open(os.path.join(d, fn)) as f:
                beh = parse_behaviour_text("\n".join(ln for ln in f.read().splitlines() if not ln.startswith("\\*")))
            os.remove(os.path.join(d, fn))
            st, _ = acts_to_units([s["act"] for _h, s in beh[1:] if "act" in s])
            if st:
                sim_s.append({"src": "sim", "steps": st})
    scheds = dedup(rep_variants(attack_s + dedup(g_s, "steps") + dedup(sim_s, "steps")), "steps")
    hostile = attack_h + dedup(g_h, "pkts")

    # ---- 3. replay on real MConnections
    binp = ctx.go_build_test("p2p/conn", ["zz_verif_c17_test.go"])
    inp = {"cfg": MCCFG, "scheds": scheds, "hostile": hostile,
           "random": 150 if quick else 1500, "concurrent": 40 if quick else 400, "hrandom": 150 if quick else 1200}
    rows, crashes = run_resilient(ctx, binp, "^TestVerifC17$", inp, os.path.join(ctx.work, "conn.ndjson"), "conn")
    nunits = sum(1 for r in rows if r.get("ev") == "Reset")
    want = len(scheds) + len(hostile) + inp["random"] + inp["concurrent"] + inp["hrandom"]
    truncated = any(c["unit"] is None for c in crashes)
    if (nunits < want and not truncated) or nunits > want:
        raise Undecided("conn harness executed %d of %d units" % (nunits, want))

    # ---- 4. trace validation
    v = core.validate_traces(ctx, "TMMConnTrace", rows, label="conn", max_events=4000)
    for x in v["viol"]:
        row = x["row"]
        first = x["prefix"][0] if x["prefix"] else {}
        sig = {"half": "conn", "inv": x["inv"], "class": x["class"], "ev": row.get("ev"), "mode": first.get("mode", "?")}
        verdict.add(sig, {"failing_step": row, "prefix": x["prefix"], "tlc": {"inv": x["inv"], "class": x["class"]},
                          "crashes": crashes})
    distinct = set()
    for r in rows:
        if r["ev"] in ("Step", "SendRes", "Inject", "Dlv", "Sync"):
            distinct.add(json.dumps({k: r[k] for k in r if k not in ("run",)}, sort_keys=True))
    cov["states"] += sum(r.distinct for r in runs) + rg.distinct + rh.distinct
    cov["transitions"] += sum(r.generated for r in runs) + rg.generated + rh.generated + rs.generated
    cov["traces_validated_against_impl"] += v["runs"]
    cov["evaluations"] += len(rows)
    cov["distinct_nontrivial"] += len(distinct)
    cov["conn"] = {
        "deliver_graph_states_replayed": gstates, "deliver_graph_schedules": len(dedup(g_s, "steps")),
        "hostile_graph_states_replayed": hstates, "hostile_graph_schedules": len(dedup(g_h, "pkts")),
        "simulated_behaviours_replayed": len(dedup(sim_s, "steps")),
        "lockstep_schedules_incl_zero_length_representation_variants": len(scheds),
        "lockstep_schedules_with_a_nil_slice_send": sum(1 for u in scheds if any(s.get("nil") for s in u["steps"])),
        "attack_schedules_from_weakened_specs": len(attack_s) + len(attack_h),
        "random_lockstep_runs": inp["random"], "concurrent_runs": inp["concurrent"], "random_hostile_runs": inp["hrandom"],
        "events": len(rows), "process_crashes": crashes,
        "conformance_drift_count": len(v["drift"]),
        "conformance_drift": [{"what": d["what"], "step": core.abridge(d["row"])} for d in v["drift"][:5]],
    }
    cov["nonvacuity"].update(nonvac)
    cov["samples"].append(core.abridge(rows[:14], 14))
    return v


def new_cov():
    return {"states": 0, "transitions": 0, "traces_validated_against_impl": 0, "evaluations": 0,
            "distinct_nontrivial": 0, "samples": [], "nonvacuity": {}}


def run(ctx):
    quick = ctx.tier == "quick"
    verdict = core.Verdict(ctx)
    cov = new_cov()
    only = os.environ.get("C17_ONLY", "")          # development aid: "conn", "reactors", "alphabet" or "seq"
    from props import c17_reactors
    ctx.spec_copy()
    # the two halves are independent (TLC-bound / Go-bound): run them side by side
    from concurrent.futures import ThreadPoolExecutor
    with ThreadPoolExecutor(max_workers=3) as ex:
        futs = []
        if only not in ("reactors", "seq", "alphabet"):
            futs.append(ex.submit(conn_half, ctx, verdict, cov, quick))
        if only not in ("conn", "seq"):
            futs.append(ex.submit(c17_reactors.hostile_half, ctx, verdict, cov, quick))
        if only not in ("conn", "alphabet"):
            futs.append(ex.submit(c17_reactors.sequence_half, ctx, verdict, cov, quick))
        for f in futs:
            f.result()
    cov["rule"] = ("connection half: every state of the act-augmented TMMConnSys graphs (deliver: 2 channels, payload 2, "
                   "sizes %s; hostile: every sequence of <= %d hostile packets) reached by replaying its BFS path on real "
                   "MConnections in lock-step, plus simulated behaviours of the 3-message model, the counterexamples of the "
                   "weakened specs, seeded random lock-step / concurrent / hostile runs with random configurations; an "
                   "observation is distinct by (event, arguments, projected post-state). hostile half: one real execution "
                   "per (reactor, message kind, field class, peer-state class) of the TLC-enumerated alphabet, distinct by "
                   "(case, outcome). sequences: the targeted sequences of TMPeerGossip (bit-array message x size x state-setting prefix), "
                   "the weakened-spec counterexample and simulated behaviours, each on a fresh connection with the node's gossip "
                   "goroutines running; distinct by (message, reaction)" % ("{0,3,6}" if quick else "{0,1,2,3,5,6}", 1 if quick else 2))
    truncated = any(c.get("unit") is None for c in cov.get("conn", {}).get("process_crashes", [])) or \
        any(c.get("unit") is None for p in cov.get("reactors", {}).get("per_reactor", {}).values() for c in p["process_crashes"]) or \
        any(c.get("unit") is None for c in cov.get("sequences", {}).get("process_crashes", []))
    # the replay graphs are always replayed completely; the alphabet is executed completely in the thorough tier,
    # the quick tier executes the selection described in cases_of_reactors_without_harness_or_outside_tier
    cov["exhaustive"] = (not quick) and not truncated and only == ""
    cov["exhaustive_within_tier_selection"] = not truncated
    cov["tlc_runs"] = ctx.tlc_stats
    cov["known_findings_reproduced"] = dict(verdict.known)
    rc = verdict.finish()
    ctx.write_evidence(cov, [
        "message bytes are opaque to the connection; the two hostile content classes visible to it (callback panics, "
        "reactor stops the peer) are injected by the harness callback exactly where p2p/peer.go's onReceive would panic / "
        "a reactor would call StopPeerForError",
        "the lock-step driver parks the sender's sendRoutine and calls sendPacketMsg itself (as FlushStop does); the code "
        "still picks the channel; concurrent runs use the real sendRoutine",
        "hostile half is decided per message class (DESIGN.md section 6): unconstrained byte fuzzing is not claimed",
        "a harness process that dies with a Go panic while a case executes is recorded as the outcome 'process crash' of that case",
        "a TLC verdict is accepted only if the verdict file covers every trace line",
    ], len(verdict.new))
    return rc


def replay(ctx, path):
    """Re-execute the failing run of a stored replay on the current tree and re-validate it."""
    with open(path) as f:
        rep = json.load(f)
    sig = rep.get("signature", {})
    if sig.get("half") in ("reactor", "reactor-seq"):
        from props import c17_reactors
        return c17_reactors.replay(ctx, rep)
    prefix = rep["replay"]["prefix"]
    if not prefix or prefix[0].get("ev") != "Reset":
        raise Undecided("replay file has no run prefix")
    first = prefix[0]
    cfg = first["cfg"]
    inp = {"cfg": cfg, "scheds": [], "hostile": [], "random": 0, "concurrent": 0, "hrandom": 0}
    if first["mode"] == "hostile":
        inp["hostile"].append({"src": "replay", "pkts": [r["pkt"] for r in prefix if r["ev"] == "Inject"]})
    else:
        steps = []
        for r in prefix[1:]:
            if r["ev"] == "Send":
                steps.append({"a": "Send", "ch": r["ch"], "len": len(r["m"]), "nil": bool(r.get("nil", False))})
            elif r["ev"] == "Step":
                steps.append({"a": "SendPacket", "ch": 0, "len": 0})
            elif r["ev"] == "Sync":
                steps.append({"a": "Recv", "ch": 0, "len": 0})
        inp["scheds"].append({"src": "replay", "steps": steps})
    binp = ctx.go_build_test("p2p/conn", ["zz_verif_c17_test.go"])
    rows, crashes = run_resilient(ctx, binp, "^TestVerifC17$", inp, os.path.join(ctx.work, "conn.ndjson"), "conn")
    v = core.validate_traces(ctx, "TMMConnTrace", rows, label="replay")
    verdict = core.Verdict(ctx)
    for x in v["viol"]:
        log("replay: %s/%s fails at %s" % (x["inv"], x["class"], json.dumps(x["row"])[:300]))
        verdict.add({"half": "conn", "inv": x["inv"], "class": x["class"], "ev": x["row"].get("ev"),
                     "mode": first.get("mode", "?")}, {"failing_step": x["row"], "prefix": x["prefix"]})
    return verdict.finish()
