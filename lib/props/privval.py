"""PRIVVAL - the remote-signer protocol of package privval (auxiliary check).

Specs: spec/TMRemoteSignerOps.tla (handler, client interpretation, retry rule as operators),
spec/TMRemoteSigner.tla (listener endpoint, signer client, retry client | connections, backlog, faults |
dialer endpoint, signer server, FilePV = TMSigner), configs spec/mc/PRIVVAL_*; trace spec
spec/trace/TMRemoteSignerTrace.tla; harness harness/inpkg/privval/zz_verif_privval_test.go.

Properties (stated in the header of TMRemoteSigner.tla): ReturnOK (P1 RequestResponseMatching + P2
ErrorSurfaced), NoConflict (P3), RetryStops / RetryExhausts, NoDeadConnReuse + SignerRedials (P4),
ChainChecked (P5), OneOutstanding (P6).
"""
import hashlib
import json
import os
import re
from concurrent.futures import ThreadPoolExecutor

from vlib import core
from vlib import tlaparse
from vlib.core import Undecided, log
from vlib.tlaparse import to_json

# Behaviour of the unchanged tree that breaks a stated property; reported to the coordinator as findings with
# a tested repair (proposed-fixes/PRIVVAL-*.diff): printed as FINDING-REPRODUCED, exit code 0.  Narrow: the
# exact (invariant, class) pairs.  Any other failure is a VIOLATION.
TRANSPORT = ["conn_timeout", "no_conn", "write_err", "write_timeout", "read_timeout", "eof", "closed"]
FINDINGS = {
    ("NoDeadConnReuse", "signer_read_on_connection_after_read_eof"): "PRIVVAL-F1-signer-keeps-dead-connection",
    ("NoDeadConnReuse", "signer_read_on_connection_after_write_err"): "PRIVVAL-F1-signer-keeps-dead-connection",
    ("ReturnOK", "ping:response_of_wrong_kind_returned_as_success"): "PRIVVAL-F2-ping-error-swallowed",
}
for _t in TRANSPORT:
    FINDINGS[("ReturnOK", "ping:transport_error_returned_as_success:" + _t)] = "PRIVVAL-F2-ping-error-swallowed"

WEAK = {"NoDropOnReadTimeout": "ReturnOKInv", "PingNoMutex": "OneOutstanding", "ErrorIgnored": "ReturnOKInv",
        "NoChainCheck": "ChainChecked", "RetryOnRemoteError": "RetryStops", "RetrySwallowsError": "ReturnOKInv",
        "SameHRSResigns": "NoConflict"}
ASIS = {"KeepConnOnError": "NoDeadConnReuse", "PingSwallowsError": "ReturnOKInv"}
ENV = {"StartCall", "PingTick", "Write", "WriteTimeout", "ReadOK", "ReadTimeout", "ReadEOF", "WaitTimeout", "SvcAccept",
       "SvcAcceptTimeout", "SgnDial", "SgnDialFail", "SgnReadOK", "SgnReadTimeout", "SgnReadEOF", "SgnWrite", "Cut"}


def expected_kind(q):
    if q["k"] == "ping":
        return "ping"
    if q["k"] == "pubkey":
        return "pubkey"
    if q["k"] == "sign":
        return "prop" if q["t"] == "proposal" else "vote"
    return "empty"


def steps_of(states):
    """TLC behaviour (json-ified states) -> the environment's steps for the harness."""
    steps = []
    for i, st in enumerate(states[1:], start=1):
        a = st["act"]
        n = a.get("via", a["name"])     # an action that ends an attempt is recorded as Retry / Return / PingDone
        if n not in ENV:
            continue
        s = {"name": n}
        if "t" in a:
            s["t"] = a["t"]
        if n == "StartCall":
            s["q"] = a["q"]
            s["api"] = "plain" if a["q"]["k"] == "ping" else "retry"
        if n == "Cut":
            s["c"] = a["c"]
        if n == "SgnReadOK":
            # the answer the (hostile) signer will give is chosen in the SgnHandle step that follows
            for st2 in states[i + 1:]:
                b = st2["act"]
                if b["name"] == "SgnHandle":
                    r, q = b["resp"], b["q"]
                    if r["k"] == "empty" and expected_kind(q) != "empty":
                        s["variant"] = "empty"
                    elif r["k"] != expected_kind(q):
                        s["variant"] = "wrongkind"
                    elif r["out"]["v"] == "Z":
                        s["variant"] = "otherblock"
                    break
        steps.append(s)
    return steps


def read_sim(prefix, limit):
    out = []
    d = os.path.dirname(prefix)
    base = os.path.basename(prefix)
    names = sorted((f for f in os.listdir(d) if f.startswith(base + "_")), key=lambda s: [int(x) for x in re.findall(r'\d+', s)])
    for f in names[:limit]:
        with open(os.path.join(d, f)) as fh:
            beh = tlaparse.parse_behaviour_text(fh.read())
        out.append([to_json(s) for _h, s in beh])
    for f in names:
        os.remove(os.path.join(d, f))
    return out


def tlc_jobs(ctx, jobs, par):
    res = {}

    def one(j):
        key, kw = j
        kw = dict(kw)
        mod, cfg = kw.pop("module"), kw.pop("cfg")
        return key, ctx.tlc(mod, cfg, **kw)

    with ThreadPoolExecutor(max_workers=par) as ex:
        for key, r in ex.map(one, jobs):
            res[key] = r
    return res


def build(ctx, quick):
    W = max(1, min(6, ctx.cores))
    sp = ctx.spec_copy()
    M = "PRIVVAL_mc"
    exh = [("base", "PRIVVAL_base.cfg"), ("votes", "PRIVVAL_votes.cfg")]
    if quick:
        exh.append(("hostile", core.cfg_variant(ctx, "PRIVVAL_hostile.cfg", "PRIVVAL_hostile_q.cfg", {"MaxCalls": 1, "MaxPings": 1})))
    else:
        exh += [("hostile", "PRIVVAL_hostile.cfg"), ("full", "PRIVVAL_full.cfg")]
    jobs = [(k, dict(module=M, cfg=c, must_pass=True, timeout=900 if quick else 3000, workers=2 if quick else W, heap="4g", label=k))
            for k, c in exh]
    jobs.append(("live", dict(module=M, cfg="PRIVVAL_live.cfg", must_pass=True, timeout=600, workers=1, heap="3g", label="live")))
    small = []
    for w in WEAK:
        small.append(("weak_" + w, dict(module=M, cfg="PRIVVAL_weak_%s.cfg" % w, timeout=600, workers=1, heap="2g", label="weak_" + w)))
    for w in ASIS:
        small.append(("asis_" + w, dict(module=M, cfg="PRIVVAL_asis_%s.cfg" % w, timeout=600, workers=1, heap="2g", label="asis_" + w)))
    small.append(("asis_live", dict(module=M, cfg="PRIVVAL_asis_live.cfg", timeout=600, workers=1, heap="3g", label="asis_live")))
    # replay material: behaviours of the spec (as repaired, as the code is, with a hostile signer)
    simd = os.path.join(sp, "privvalsim")
    os.makedirs(simd, exist_ok=True)
    nsim = {"rep": 50 if quick else 300, "asis": 40 if quick else 250, "host": 25 if quick else 150}
    cf_asis = core.cfg_variant(ctx, "PRIVVAL_replay.cfg", "PRIVVAL_replay_asis.cfg", {"Weak_KeepConnOnError": True, "Weak_PingSwallowsError": True},
                               invariants=[])
    cf_host = core.cfg_variant(ctx, "PRIVVAL_replay.cfg", "PRIVVAL_replay_host.cfg", {"Hostile": True},
                               invariants=["KindChecked"])
    for key, cfg in (("rep", "PRIVVAL_replay.cfg"), ("asis", cf_asis), ("host", cf_host)):
        small.append(("sim_" + key, dict(module=M, cfg=cfg, simulate="file=%s,num=%d" % (os.path.join(simd, key), nsim[key]),
                                         depth=70, seed=ctx.seed, workers=1, timeout=600, must_pass=True, heap="2g", label="sim_" + key)))
    if quick:
        res = tlc_jobs(ctx, jobs + small, par=max(2, min(ctx.cores, 6)))
    else:
        res = tlc_jobs(ctx, jobs, par=max(1, ctx.cores // W))
        res.update(tlc_jobs(ctx, small, par=max(2, min(ctx.cores, 6))))
    nonvac = {}
    for w, inv in list(WEAK.items()) + list(ASIS.items()):
        r = res[("weak_" if w in WEAK else "asis_") + w]
        nonvac[w] = any(v["name"] == inv for v in r.violations)
    rl = res["asis_live"]
    nonvac["KeepConnOnError/SignerRedials"] = bool(rl.violations) or "Temporal properties were violated" in rl.out
    for w, ok in nonvac.items():
        if not ok:
            ctx.save_log("nonvac-" + re.sub(r'\W', '_', w), res.get("weak_" + w, res.get("asis_" + w, rl)).out)
            raise Undecided("vacuity: the weakened spec %s is not refuted by TLC" % w)
    runs = []
    for w in list(WEAK) + list(ASIS):
        r = res[("weak_" if w in WEAK else "asis_") + w]
        if r.violations and r.violations[0]["trace"]:
            states = [to_json(s) for _h, s in r.violations[0]["trace"]]
            runs.append({"id": "att_" + w, "retries": 2, "steps": steps_of(states)})
    for key in ("rep", "asis", "host"):
        for i, beh in enumerate(read_sim(os.path.join(simd, key), nsim[key])):
            runs.append({"id": "sim%d-%s-%d" % (ctx.seed, key, i), "retries": 2, "steps": steps_of(beh)})
    seen, out = set(), []
    for r in runs:
        k = json.dumps(r["steps"], sort_keys=True)
        if k in seen or not r["steps"]:
            continue
        seen.add(k)
        out.append(r)
    return res, nonvac, out + fixed_runs()


Q_A1 = {"k": "sign", "chain": "c", "t": "prevote", "h": 1, "r": 0, "v": "A", "ts": 1}
Q_B2 = {"k": "sign", "chain": "c", "t": "prevote", "h": 1, "r": 0, "v": "B", "ts": 2}
Q_A3 = {"k": "sign", "chain": "c", "t": "prevote", "h": 1, "r": 0, "v": "A", "ts": 3}
Q_PC = {"k": "sign", "chain": "c", "t": "precommit", "h": 1, "r": 0, "v": "A", "ts": 4}
Q_X = {"k": "sign", "chain": "x", "t": "precommit", "h": 2, "r": 0, "v": "A", "ts": 5}
Q_PING = {"k": "ping", "chain": "-", "t": "none", "h": 0, "r": 0, "v": "nil", "ts": 0}


def S(name, **kw):
    d = {"name": name}
    d.update(kw)
    return d


def fixed_runs():
    """Hand-written schedules for situations the seeded simulation reaches rarely: the late response (read deadline
    passes with the answer under way, then the same vote is asked for again on a new connection), a ping tick while a
    request is outstanding, a retry after the signer signed but the answer was lost, the reconnect after a node-side drop."""
    conn = [S("SgnDial"), S("SvcAccept")]
    rt = [S("Write", t="c1"), S("SgnReadOK"), S("SgnWrite"), S("ReadOK", t="c1")]
    return [
        {"id": "fix_late_response", "retries": 2, "steps": conn + [
            S("StartCall", q=Q_A1, api="retry"), S("Write", t="c1"), S("SgnReadOK"), S("SgnWrite"), S("ReadTimeout", t="c1"),
            S("SgnReadEOF"), S("SgnDial"), S("SvcAccept"), S("Write", t="c1"), S("SgnReadOK"), S("SgnWrite"), S("ReadOK", t="c1"),
            S("StartCall", q=Q_B2, api="retry")] + rt + [S("StartCall", q=Q_A3, api="retry")] + rt},
        {"id": "fix_ping_during_request", "retries": 2, "steps": conn + [
            S("StartCall", q=Q_A1, api="retry"), S("Write", t="c1"), S("PingTick"), S("SgnReadOK"), S("SgnWrite"), S("ReadOK", t="c1"),
            S("Write", t="pg"), S("SgnReadOK"), S("SgnWrite"), S("ReadOK", t="pg"), S("StartCall", q=Q_PC, api="retry")] + rt},
        {"id": "fix_refusal_and_foreign_chain", "retries": 3, "steps": conn + [
            S("StartCall", q=Q_A1, api="retry")] + rt + [S("StartCall", q=Q_B2, api="retry")] + rt + [
            S("StartCall", q=Q_X, api="retry")] + rt + [S("StartCall", q={"k": "pubkey", "chain": "x", "t": "none", "h": 0, "r": 0, "v": "nil", "ts": 0}, api="retry")] + rt + [
            S("StartCall", q={"k": "pubkey", "chain": "c", "t": "none", "h": 0, "r": 0, "v": "nil", "ts": 0}, api="plain")] + rt},
        {"id": "fix_retry_exhausted", "retries": 3, "steps": conn + [
            S("StartCall", q=Q_A1, api="retry"), S("Write", t="c1"), S("ReadTimeout", t="c1"), S("WaitTimeout", t="c1"), S("WaitTimeout", t="c1"),
            S("StartCall", q=Q_PING, api="plain"), S("WaitTimeout", t="c1")]},
        {"id": "fix_node_drop_signer_redials", "retries": 2, "steps": conn + [
            S("PingTick"), S("Write", t="pg"), S("ReadTimeout", t="pg"), S("SgnReadOK"), S("SgnWrite"), S("SgnReadEOF"), S("SgnDial"), S("SvcAccept"),
            S("StartCall", q=Q_A1, api="retry")] + rt},
        {"id": "fix_cut_then_ping_heals", "retries": 1, "steps": conn + [
            S("StartCall", q=Q_A1, api="retry"), S("Write", t="c1"), S("Cut", c=1), S("ReadEOF", t="c1"), S("SgnReadEOF"), S("SgnDial"),
            S("PingTick"), S("Write", t="pg"), S("SvcAccept"), S("Write", t="pg"), S("SgnReadOK"), S("SgnWrite"), S("ReadOK", t="pg"),
            S("StartCall", q=Q_A1, api="retry")] + rt},
    ]


def run_harness(ctx, binp, runs, out):
    inp = os.path.join(ctx.work, "privval-in.json")
    with open(inp, "w") as f:
        json.dump({"runs": runs}, f)
    rc, txt = ctx.run_test(binp, "^TestVerifPRIVVAL$", {"VERIF_IN": inp, "VERIF_OUT": out}, timeout=1500, label="privval")
    p = os.path.join(out, "privval.ndjson")
    if rc != 0 or not os.path.exists(p):
        ctx.save_log("harness-privval", txt)
        raise Undecided("PRIVVAL harness failed (rc=%d): %s" % (rc, txt[-1500:]))
    rows, keep = [], True
    stuck = 0
    for r in core.read_ndjson(p):
        if r["ev"] == "Reset":
            keep = True
        elif r["ev"] == "Drain":
            keep = False          # what follows is the harness shutting the run down
        elif r["ev"] == "Stuck":
            stuck += 1
        if keep:
            rows.append(r)
    return rows, stuck


def validate(ctx, rows, verdict, findings):
    v = core.validate_traces(ctx, "TMRemoteSignerTrace", rows, label="privval", max_events=2500)
    for x in v["viol"]:
        run = x["prefix"][0].get("run", "?") if x["prefix"] else "?"
        sig = {"inv": x["inv"], "class": x["class"]}
        payload = {"failing_step": x["row"], "prefix": x["prefix"], "run": run, "tlc": sig}
        fid = FINDINGS.get((x["inv"], x["class"]))
        if fid:
            findings.setdefault(fid, []).append((sig, payload))
        else:
            verdict.add(sig, payload)
    return v


def store_findings(ctx, findings, rundefs):
    d = os.path.join(os.environ.get("VERIF_REPLAYS", os.path.join(ctx.verif, "replays")), ctx.prop)
    out = {}
    for fid, items in sorted(findings.items()):
        sig, payload = items[0]
        payload = dict(payload)
        payload["rundef"] = rundefs.get(payload.get("run"))
        os.makedirs(d, exist_ok=True)
        p = os.path.join(d, "finding-%s.json" % fid)
        with open(p, "w") as f:
            json.dump({"property": ctx.prop, "signature": sig, "finding": fid, "replay": payload}, f, indent=1, default=str)
        print("FINDING-REPRODUCED: %s %s inv=%s class=%s (%d times) replay=%s" % (ctx.prop, fid, sig["inv"], sig["class"], len(items), p),
              flush=True)
        out[fid] = {"inv": sig["inv"], "class": sig["class"], "count": len(items), "replay": p}
    return out


def run(ctx):
    quick = ctx.tier == "quick"
    res, nonvac, runs = build(ctx, quick)
    rundefs = {r["id"]: r for r in runs}
    log("schedules: %d" % len(runs))
    out = ctx.subdir("privval-out")
    binp = ctx.go_build_test("privval", ["zz_verif_privval_test.go"])
    rows, stuck = run_harness(ctx, binp, runs, out)
    unsettled = [r for r in rows if r["ev"] == "Obs" and not r.get("settled", True)]
    skipped = sum(1 for r in rows if r["ev"] == "Skip")

    verdict = core.Verdict(ctx)
    findings = {}
    v = validate(ctx, rows, verdict, findings)
    fout = store_findings(ctx, findings, rundefs)
    if (unsettled or stuck) and not verdict.new:
        raise Undecided("%d projections were taken before the system had settled, %d runs did not shut down (machine overloaded "
                        "or a livelock): %s" % (len(unsettled), stuck, json.dumps((unsettled or [{}])[0])[:300]))

    distinct = set()
    last = []
    for r in rows:
        if r["ev"] == "Reset":
            last = []
        if r["ev"] != "Obs":
            last.append(json.dumps({k: x for k, x in r.items() if k not in ("n", "id")}, sort_keys=True))
        else:
            o = {k: x for k, x in r.items() if k != "n"}
            distinct.add(hashlib.sha1(("|".join(last[-3:]) + json.dumps(o, sort_keys=True)).encode()).hexdigest())
    exh_keys = [k for k in res if not k.startswith(("weak_", "asis_", "sim_"))]
    coverage = {
        "states": sum(res[k].distinct for k in exh_keys),
        "transitions": sum(res[k].generated for k in exh_keys),
        "traces_validated_against_impl": v["runs"],
        "evaluations": v["events"],
        "distinct_nontrivial": len(distinct),
        "rule": "%d step-controlled schedules (TLC -simulate of TMRemoteSigner as repaired / as the code is / with a hostile signer, "
                "seed %d; the counterexample of every Weak_*/as-is variant; 6 hand-written ones) run on the real RetrySignerClient + "
                "SignerClient + SignerListenerEndpoint against the real SignerServer + SignerDialerEndpoint + FilePV over the harness "
                "network.  A step is distinct by (last three events, observed projection)." % (len(runs), ctx.seed),
        "samples": [core.abridge(rows[:14], 14)],
        "exhaustive": False,
        "tlc_runs": ctx.tlc_stats,
        "schedules": len(runs),
        "schedules_cut_short_by_divergence": skipped,
        "conformance_drift": [{"what": d["what"], "spec": d["spec"], "row": d["row"]} for d in v["drift"][:5]],
        "conformance_drift_count": len(v["drift"]),
        "unsettled_projections": len(unsettled),
        "nonvacuity": {"Weak_%s refuted by TLC" % k: x for k, x in nonvac.items()},
        "findings_reproduced_on_real_code": fout,
        "known_findings_reproduced": dict(verdict.known),
    }
    rc = verdict.finish()
    ctx.write_evidence(coverage, [
        "the network is the harness': whole messages, a write on a connection whose peer end is closed or which was cut fails at once "
        "(a TCP write may still succeed), queued bytes are lost when the connection is cut",
        "deadlines are decisions of the schedule (every deadline may pass at any moment); only WaitConnection's time.After(300ms) is a real timer",
        "against a hostile signer only KindChecked is claimed: SignerClient does not compare the vote in the response with the vote it sent "
        "(consensus copies Signature and Timestamp only and verifies its own vote later)",
        "Stop()/Close() of the endpoints during a request, SignerDialerEndpoint giving up for good after maxConnRetries, TCP/unix listeners, "
        "SecretConnection are not covered",
        "an observation that was not settled makes the run undecided, never a violation",
    ], len(verdict.new))
    return rc


def replay(ctx, path):
    with open(path) as f:
        rep = json.load(f)
    rd = rep["replay"].get("rundef")
    if not rd:
        raise Undecided("replay file has no run definition")
    out = ctx.subdir("privval-out")
    binp = ctx.go_build_test("privval", ["zz_verif_privval_test.go"])
    rows, _stuck = run_harness(ctx, binp, [rd], out)
    verdict = core.Verdict(ctx)
    findings = {}
    validate(ctx, rows, verdict, findings)
    for fid, items in findings.items():
        log("replay: finding %s reproduced (%d times): %s" % (fid, len(items), items[0][0]["class"]))
        verdict.add(*items[0])
    for sig, payload in verdict.new:
        log("replay: %s / %s fails at %s" % (sig["inv"], sig["class"], json.dumps(payload["failing_step"])[:300]))
    return verdict.finish()
