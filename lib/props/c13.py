"""C13 — Block sync applies only the canonical chain, whatever peers send.
Spec: spec/TMFastSyncOps.tla (values, commit verification, pool operators), spec/TMFastSync.tla
(the syncing node as a state machine); trace spec: spec/trace/TMFastSyncTrace.tla;
harness: harness/inpkg/blockchain/v0/zz_verif_c13_test.go + zz_verif_c13_chain_test.go
(overlay, package v0: the real BlockchainReactor/BlockPool with all goroutines, mock peers,
real stores/executor/consensus hand-over)."""
import hashlib
import json
import os
import random
import re
from concurrent.futures import ThreadPoolExecutor

from vlib import core, tlaparse
from vlib.core import Undecided, log
from vlib.tlaparse import to_json

HARNESS = ["zz_verif_c13_test.go", "zz_verif_c13_chain_test.go"]
COMMIT_KINDS = ["quorumOnly", "noQuorum", "badEarly", "padBad", "padNil", "padAddr", "addrEarly", "shortSet", "nilAddr"]
LIE_KINDS = ["W", "WC", "commitH"] + COMMIT_KINDS + ["heightUp", "heightDown"]
WEAK = {  # switch -> the invariant TLC must refute with it (checked alone: deterministic, shortest counterexample)
    "NoCommitVerify": ["OnlyCanonical"],
    "SaveBeforeValidate": ["OnlyCanonical"],
    "NoRedo": ["LiarsDropped"],
    "SeenCommitUnchecked": ["CleanHandover"],
    "NilSlotAddressUnchecked": ["CleanHandover"],
    # bpRequester.reset counts a blockless requester as pending AGAIN: pool.numPending leaks, and at
    # maxPendingRequests no requester is created any more (scaled limits in the cfg)
    "RedoAlwaysCountsPending": ["PendingCounterExact"],
    # bpRequester.setBlock takes a block from the peer asked before the last reset: the requester has ONE owner,
    # the block of the old (lying) peer is attributed to the newly asked (honest) one
    "AcceptsFromPreviousPeer": ["AcceptOnlyFromAsked"],
    # bpRequester.reset keeps peerID: a requester that has NO owner (its peer removed, nobody else picked yet) still
    # takes a late block of that peer
    "ResetKeepsOwner": ["AcceptOnlyFromAsked"],   # a genuine nil precommit re-labelled with another validator's address
    # ValidateBlock(first) and the part-set-header comparison each catch a block whose LastCommit differs only in
    # fields Commit.Hash() does not cover (commit height / BlockID); the property breaks only when BOTH are gone
    "NoValidateNoPartSet": ["OnlyCanonical"],
}
WEAK_LIVE = {"StaleMaxPeerHeight": "Temporal"}   # thorough tier: LiveSpec with the switch violates ReachesTip
# nilAt: heights at which the last validator genuinely precommits nil (the canonical commit has an "N" slot)
VALS_A = {"powers": [2, 1, 1], "addAt": 1, "addPow": 1, "nilAt": [2, 4]}   # MC_ValsAt: {2,1,1} then {2,1,1,1} from height 3
VALS_C = {"powers": [3, 2, 1], "addAt": 0, "addPow": 0, "nilAt": [2, 3]}   # total = 0 mod 3
VALS_B = {"powers": [1, 1, 1], "addAt": 0, "addPow": 0, "nilAt": []}       # no room behind the quorum: pad kinds degenerate
TMAX = 6
P2 = [{"p": "h1", "honest": True}, {"p": "l1", "honest": False}]
P3 = P2 + [{"p": "l2", "honest": False}]
PL = [{"p": "l1", "honest": False}, {"p": "l2", "honest": False}]


# ---------------------------------------------------------------------------- schedules
def sched_matrix(T):
    """One lying response of every kind at every height 1..T+1: the liar reports the range
    [h,h] so that the pool asks it for exactly that height, answers, then the honest peer joins."""
    out = []
    for kind in ["H"] + LIE_KINDS:
        for h in range(1, T + 2):
            if h == 1 and (kind in COMMIT_KINDS or kind in ("WC", "commitH", "heightDown")):
                continue
            if kind in ("H", "heightUp") and h > T:
                continue
            steps = [{"a": "Join", "p": "l1"}, {"a": "Status", "p": "l1", "base": h, "height": h},
                     {"a": "Response", "p": "l1", "h": h, "kind": kind},
                     {"a": "Join", "p": "h1"}, {"a": "Status", "p": "h1", "base": 1, "height": T}]
            out.append({"id": "mx-%s-%d" % (kind, h), "src": "matrix", "T": T, "peers": P2, "steps": steps})
    return out


def sched_late(T):
    """A lying block that meets the verification as FIRST without ever having been SECOND: a liar serves
    1..h truthfully (h-1 gets saved with the genuine h as second), is dropped for silence on h+1 (its
    requesters reset, the genuine h is forgotten), a second liar is the only peer for h and answers with
    the lie, then the honest peer brings h+1."""
    out = []
    for kind in ["WC", "commitH", "W", "padBad", "addrEarly", "nilAddr", "H"]:
        for h in range(2, T):
            steps = [{"a": "Join", "p": "l1"}, {"a": "Status", "p": "l1", "base": 1, "height": h + 1}]
            steps += [{"a": "Response", "p": "l1", "h": k, "kind": "H"} for k in range(1, h + 1)]
            steps += [{"a": "Timeout", "p": "l1"}, {"a": "Join", "p": "l2"}, {"a": "Status", "p": "l2", "base": h, "height": h},
                      {"a": "Response", "p": "l2", "h": h, "kind": kind},
                      {"a": "Join", "p": "h1"}, {"a": "Status", "p": "h1", "base": 1, "height": T}]
            out.append({"id": "late-%s-%d" % (kind, h), "src": "late", "T": T, "peers": P3, "steps": steps})
    return out


def sched_status(T):
    """Lying status reports: inflated (and later lowered: the maximum must come down again), inflated and
    silent, stale, base above the node's height."""
    out = []
    hon = [{"a": "Join", "p": "h1"}, {"a": "Status", "p": "h1", "base": 1, "height": T}]
    for k in (1, 2, 3):
        out.append({"id": "st-lowered-%d" % k, "src": "status", "T": T, "peers": P2, "steps":
                    [{"a": "Join", "p": "l1"}, {"a": "Status", "p": "l1", "base": 1, "height": T + k},
                     {"a": "Status", "p": "l1", "base": 1, "height": T}] + hon})
        out.append({"id": "st-lowered-late-%d" % k, "src": "status", "T": T, "peers": P2, "steps":
                    hon + [{"a": "Join", "p": "l1"}, {"a": "Status", "p": "l1", "base": 1, "height": T + k},
                           {"a": "Status", "p": "l1", "base": 1, "height": max(1, T - k)}]})
        out.append({"id": "st-inflated-%d" % k, "src": "status", "T": T, "peers": P2, "steps":
                    [{"a": "Join", "p": "l1"}, {"a": "Status", "p": "l1", "base": 1, "height": T + k}] + hon})
        out.append({"id": "st-stale-%d" % k, "src": "status", "T": T, "peers": P2, "steps":
                    [{"a": "Join", "p": "l1"}, {"a": "Status", "p": "l1", "base": 1, "height": max(0, T - k)}] + hon})
        out.append({"id": "st-base-%d" % k, "src": "status", "T": T, "peers": P2, "steps":
                    [{"a": "Join", "p": "l1"}, {"a": "Status", "p": "l1", "base": 1 + k, "height": T}] + hon})
    return out


def sched_reassign(T):
    """A requester is re-assigned while the answer of the peer it asked before is still on its way: liar l1 is
    the only peer for h and stays silent; the honest peer joins; l1 narrows its range so that it is not eligible
    for h any more; the requester's retry timer fires and h is asked from the honest peer; THEN l1's late answer
    for h arrives (wrong block / padded commit / even the right block) -- before the honest peer's."""
    out = []
    for kind in ["W", "H", "padBad", "WC", "noQuorum"]:
        for h in range(2, T):
            # (l1 claims the tip at first: with a low-lying liar as the only known peer the node would
            # legitimately leave the sync at once)
            steps = [{"a": "Join", "p": "l1"}, {"a": "Status", "p": "l1", "base": h, "height": T},
                     {"a": "WaitAsked", "p": "l1", "h": h},
                     {"a": "Join", "p": "h1"}, {"a": "Status", "p": "h1", "base": 1, "height": T},
                     {"a": "Status", "p": "l1", "base": 1, "height": h - 1},
                     {"a": "Retry", "h": h}, {"a": "WaitAsked", "p": "h1", "h": h},
                     {"a": "Response", "p": "l1", "h": h, "kind": kind}]
            out.append({"id": "reassign-%s-%d" % (kind, h), "src": "reassign", "T": T, "peers": P2, "steps": steps})
    # the same with the late answer arriving after the honest peer has delivered the neighbours
    for kind in ["W", "padBad"]:
        h = T - 1
        steps = [{"a": "Join", "p": "l1"}, {"a": "Status", "p": "l1", "base": h, "height": h},
                 {"a": "WaitAsked", "p": "l1", "h": h},
                 {"a": "Join", "p": "h1"}, {"a": "Status", "p": "h1", "base": 1, "height": T},
                 {"a": "WaitAsked", "p": "h1", "h": T}, {"a": "Response", "p": "h1", "h": T, "kind": "H"},
                 {"a": "Status", "p": "l1", "base": 1, "height": h - 1},
                 {"a": "Retry", "h": h}, {"a": "WaitAsked", "p": "h1", "h": h},
                 {"a": "Response", "p": "l1", "h": h, "kind": kind}]
        out.append({"id": "reassign-late-%s-%d" % (kind, h), "src": "reassign", "T": T, "peers": P2, "steps": steps})
    return out


def sched_unassigned(T):
    """The unassigned window: the liar is the only peer, gets the requests, is removed (timeout); it reconnects
    under the same id (no status: it is not in the pool, no requester has an owner) and its late answer arrives;
    then the honest peer joins and answers."""
    out = []
    for kind in ["W", "H", "padBad"]:
        for h in (1, 2):
            steps = [{"a": "Join", "p": "l1"}, {"a": "Status", "p": "l1", "base": 1, "height": T},
                     {"a": "WaitReq", "p": "l1", "h": T}, {"a": "Timeout", "p": "l1"},
                     {"a": "Join", "p": "l1"}, {"a": "Late", "p": "l1", "h": h, "kind": kind},
                     {"a": "Join", "p": "h1"}, {"a": "Status", "p": "h1", "base": 1, "height": T}]
            out.append({"id": "unassigned-%s-%d" % (kind, h), "src": "unassigned", "T": T, "peers": P2, "steps": steps})
    return out


def sched_shrink(T):
    """A liar is given the whole window, then narrows its advertised range to [T,T] and only then answers:
    it owns requesters (and delivers blocks) outside its CURRENT range.  When it is caught with a bad block
    every one of its requests has to be redone, not only those inside the range it claims now."""
    out = []
    for kind in ["W", "badEarly", "padBad"]:
        for bad in range(2, T):
            steps = [{"a": "Join", "p": "l1"}, {"a": "Status", "p": "l1", "base": 1, "height": T},
                     {"a": "WaitReq", "p": "l1", "h": T}, {"a": "Status", "p": "l1", "base": T, "height": T}]
            steps += [{"a": "Response", "p": "l1", "h": k, "kind": kind if k == bad else "H"} for k in range(T, 0, -1)]
            steps += [{"a": "Join", "p": "h1"}, {"a": "Status", "p": "h1", "base": 1, "height": T}]
            out.append({"id": "shrink-%s-%d" % (kind, bad), "src": "shrink", "T": T, "peers": P2, "steps": steps})
    return out


CHURN_T, CHURN_W, CHURN_ROUNDS, CHURN_TMAX = 24, 21, 31, 26


def sched_churn():
    """Amplifier for leaks in the pool's bookkeeping (numPending, per-peer numPending, the 600 / 20 limits,
    which are Go constants): CHURN_ROUNDS silent peers one after the other, each claiming CHURN_W blocks,
    each given a full window of 20 requests, each timed out; then one honest peer with CHURN_T blocks that
    answers everything.  A leak of one count per redone request reaches maxPendingRequests = 600 after 30
    rounds: no requester above CHURN_W is ever created and the node stays in the sync for ever.  Second
    variant: the silent peers first deliver the next two blocks (their requesters hold blocks when reset)."""
    out = []
    for variant in ("silent", "mixed"):
        peers = [{"p": "h1", "honest": True}] + [{"p": "s%d" % k, "honest": False} for k in range(1, CHURN_ROUNDS + 1)]
        steps = []
        for k in range(1, CHURN_ROUNDS + 1):
            p = "s%d" % k
            steps += [{"a": "Join", "p": p}, {"a": "Status", "p": p, "base": 1, "height": CHURN_W},
                      {"a": "WaitReq", "p": p, "h": 20}]
            if variant == "mixed" and k % 3 == 0:
                # (answers the two lowest heights it was asked for; what they are depends on the run)
                steps += [{"a": "Response", "p": p, "h": 0, "kind": "H"}, {"a": "Response", "p": p, "h": 0, "kind": "H"}]
            steps += [{"a": "Timeout", "p": p}]
        steps += [{"a": "Join", "p": "h1"}, {"a": "Status", "p": "h1", "base": 1, "height": CHURN_T}]
        out.append({"id": "churn-" + variant, "src": "churn", "T": CHURN_T, "peers": peers, "steps": steps})
    return out


def sched_pairs(T, rng, n):
    """Both blocks of a pair from two different liars (first of kind a at h, second of kind b at h+1)."""
    out = []
    combos = [(a, b, h) for a in ["H", "W", "padBad", "quorumOnly"] for b in ["H"] + LIE_KINDS[:-2] for h in range(1, T + 1)]
    rng.shuffle(combos)
    for a, b, h in combos[:n]:
        steps = [{"a": "Join", "p": "l1"}, {"a": "Status", "p": "l1", "base": h, "height": h},
                 {"a": "Join", "p": "l2"}, {"a": "Status", "p": "l2", "base": h + 1, "height": h + 1},
                 {"a": "Response", "p": "l2", "h": h + 1, "kind": b},
                 {"a": "Response", "p": "l1", "h": h, "kind": a},
                 {"a": "Join", "p": "h1"}, {"a": "Status", "p": "h1", "base": 1, "height": T}]
        out.append({"id": "pair-%s-%s-%d" % (a, b, h), "src": "pairs", "T": T, "peers": P3, "steps": steps})
    return out


def sched_random(seed, n):
    out = []
    rng = random.Random(seed)
    for k in range(n):
        peers = rng.choice([P2, P2, P3, P3, PL])
        out.append({"id": "rnd-%d" % k, "src": "random", "T": rng.choice([3, 4, 4, 5]), "peers": peers,
                    "random": rng.randint(12, 40), "seed": seed * 1000 + k, "steps": []})
    return out


def steps_of_acts(acts):
    steps = []
    for a in acts:
        n = a.get("name")
        if n == "Join":
            steps.append({"a": "Join", "p": a["p"]})
        elif n == "Status":
            steps.append({"a": "Status", "p": a["p"], "base": a["base"], "height": a["height"]})
        elif n == "Response":
            steps.append({"a": "Response", "p": a["p"], "h": a["h"], "kind": a["kind"]})
        elif n == "NoBlock":
            steps.append({"a": "Response", "p": a["p"], "h": a["h"], "kind": "none"})
        elif n == "Timeout":
            steps.append({"a": "Timeout", "p": a["p"]})
        elif n == "Retry":
            steps.append({"a": "Retry", "h": a["h"]})
    return steps


_act_re = re.compile(r'^/\\ act = (.*?)(?=\n/\\ |\n\s*\n|\Z)', re.M | re.S)


def acts_of_text(text):
    return [to_json(tlaparse.parse_value(m.group(1))) for m in _act_re.finditer(text)]


def peers_of_cfg(ctx, cfg):
    with open(os.path.join(ctx.spec_copy(), cfg)) as f:
        txt = f.read()
    ps = re.findall(r'"(\w+)"', re.search(r'Peers = \{([^}]*)\}', txt).group(1))
    hs = re.findall(r'"(\w+)"', re.search(r'Honest = \{([^}]*)\}', txt).group(1))
    T = int(re.search(r'^\s*T = (\d+)', txt, re.M).group(1))
    return [{"p": p, "honest": p in hs} for p in ps], T


# ---------------------------------------------------------------------------- harness
def run_harness(ctx, binp, label, vals, scheds, par, tmax=TMAX):
    inp = os.path.join(ctx.work, "c13-in-%s.json" % label)
    with open(inp, "w") as f:
        json.dump({"vals": vals, "tmax": tmax, "par": par, "scheds": scheds,
                   "kinds": LIE_KINDS, "status": [[1, 0], [1, 0], [1, 1], [1, -2], [2, 0], [1, 2]]}, f)
    out = ctx.subdir("c13-out-" + label)
    rc, txt = ctx.run_test(binp, "^TestVerifC13$", {"VERIF_IN": inp, "VERIF_OUT": out}, timeout=1500, label="c13:" + label)
    # one file per run, written event by event: a panic inside the reactor's own goroutine kills the
    # test process, what was observed until then is still judged
    rows = []
    complete = 0
    for f in sorted(os.listdir(out)):
        if f.startswith("run-"):
            try:
                rr = core.read_ndjson(os.path.join(out, f))
            except ValueError:
                rr = []
                with open(os.path.join(out, f)) as fh:
                    for line in fh:
                        try:
                            rr.append(json.loads(line))
                        except ValueError:
                            break
            if rr and rr[0].get("ev") == "Reset":
                if rr[-1].get("ev") != "End":
                    # cut short by the death of the process: an event whose action never returned is incomplete
                    rr = [r for r in rr if r["ev"] == "Reset" or "pool" in r]
                rows += rr
                complete += 1 if rr[-1].get("ev") == "End" else 0
    crashed = None
    if rc != 0 or not os.path.exists(os.path.join(out, "done")):
        ctx.save_log("harness-" + label, txt)
        m = re.search(r'^(panic: .*|fatal error: .*)$', txt, re.M)
        crashed = "C13 harness (%s) died (rc=%d) after %d complete runs: %s" % (
            label, rc, complete, (m.group(1)[:300] if m else txt[-600:]))
        log(crashed)
    elif complete != len(scheds):
        raise Undecided("C13 harness (%s) executed %d of %d schedules" % (label, complete, len(scheds)))
    return rows, crashed


def collect(ctx, verdict, label, vals, scheds, rows, stats):
    v = core.validate_traces(ctx, "TMFastSyncTrace", rows, label=label, max_events=1000, timeout=1200)
    by_run = {}
    for r in rows:
        by_run.setdefault(r["run"], []).append(r)
    for x in v["viol"]:
        row = x["row"]
        sc = scheds[row["run"] - 1]
        sig = {"inv": x["inv"], "class": x["class"], "ev": row["ev"]}
        verdict.add(sig, {"failing_step": core.abridge(row), "sched": sc, "vals": vals,
                          "trace": by_run[row["run"]][:400], "tlc": {"inv": x["inv"], "class": x["class"]}})
        log("C13 %s: %s [%s] at %s of schedule %s" % (label, x["inv"], x["class"], row["ev"], sc["id"]))
    stats["drift"] += [{"what": d["what"], "ev": d["row"]["ev"], "sched": scheds[d["row"]["run"] - 1]["id"]} for d in v["drift"]]
    if os.environ.get("VERIF_C13_DEBUG"):
        dd = os.environ["VERIF_C13_DEBUG"]
        os.makedirs(dd, exist_ok=True)
        with open(os.path.join(dd, "drift-%s.json" % label), "w") as f:
            json.dump([{"what": d["what"], "row": d["row"], "prefix": d["prefix"][-6:], "sched": scheds[d["row"]["run"] - 1]} for d in v["drift"]], f)
        core.write_ndjson(os.path.join(dd, "rows-%s.ndjson" % label), rows)
    stats["runs"] += v["runs"]
    stats["events"] += v["events"]
    for r in rows:
        if r["ev"] == "End":
            stats["ends"] += 1
            stats["handed"] += 1 if r["handed"] else 0
            stats["unstable"] += 0 if r["stable"] else 1
            stats["skipped"] += r["skipped"]
        if r["ev"] in ("Handover", "Probe") and r["panic"]:
            stats["panics"] += 1
        if r["ev"] == "StopPeer":
            stats["stops"][r["why"]] = stats["stops"].get(r["why"], 0) + 1
        if r["ev"] == "Response":
            stats["kinds"][r["kind"]] = stats["kinds"].get(r["kind"], 0) + 1
        if r["ev"] not in ("Reset", "End"):
            k = {x: r[x] for x in r if x not in ("run", "msg")}
            stats["distinct"].add(hashlib.sha1(json.dumps(k, sort_keys=True).encode()).hexdigest())
    return v


def new_stats():
    return {"drift": [], "runs": 0, "events": 0, "ends": 0, "handed": 0, "unstable": 0, "skipped": 0, "panics": 0,
            "stops": {}, "kinds": {}, "distinct": set()}


# ---------------------------------------------------------------------------- the check
def run(ctx):
    quick = ctx.tier == "quick"
    seed = ctx.seed
    rng = random.Random(seed)
    par = max(4, min(16, ctx.cores))
    tw = 4 if quick else 8

    binp = ctx.go_build_test("blockchain/v0", HARNESS)

    # ---- 1. design spec: exhaustive configs, non-vacuity, liveness -------------------------
    exh = ["C13_small.cfg", "C13_liars.cfg", "C13_pending.cfg", "C13_retry.cfg"] if quick else \
          ["C13_small.cfg", "C13_t4.cfg", "C13_liars.cfg", "C13_pending.cfg", "C13_retry.cfg", "C13_quick.cfg"]
    fast = os.environ.get("VERIF_C13_FAST") == "1"      # development only: skip the exhaustive configs
    if fast:
        exh = ["C13_small.cfg"]
    results = {}
    ctx.spec_copy()   # before the threads start (the copy is not re-entrant)

    def tlc_exh(cfg):
        return cfg, ctx.tlc("C13_mc", cfg, workers=tw, timeout=2400, heap="5g", label=cfg[:-4])

    def tlc_weak(w):
        cfg = core.cfg_variant(ctx, "C13_weak_%s.cfg" % w, "C13_weak_%s_run.cfg" % w, {}, invariants=WEAK[w])
        return "weak:" + w, ctx.tlc("C13_mc", cfg, workers=1, timeout=600, label="C13_weak_" + w)

    def tlc_live(_):
        return "live", ctx.tlc("C13_mc", "C13_live.cfg", workers=tw, timeout=2400, heap="5g", label="C13_live")

    def tlc_weak_live(w):
        cfg = "C13_weak_%s.cfg" % w
        return "weaklive:" + w, ctx.tlc("C13_mc", cfg, workers=tw, timeout=1800, heap="5g", label=cfg[:-4])

    # the weakened specs first (their counterexamples become schedules); the exhaustive configs
    # run in the background while the schedules are executed on the real code
    with ThreadPoolExecutor(max_workers=3) as ex:
        for k, r in ex.map(tlc_weak, list(WEAK)):
            results[k] = r
    bg = ThreadPoolExecutor(max_workers=2)
    bg_jobs = [bg.submit(tlc_exh, c) for c in exh]
    if not quick and not fast:
        bg_jobs.append(bg.submit(tlc_live, None))
        bg_jobs += [bg.submit(tlc_weak_live, w) for w in WEAK_LIVE]

    def finish_design():
        states = transitions = 0
        for fu in bg_jobs:
            k, r = fu.result()
            results[k] = r
        bg.shutdown()
        for c in exh + (["live"] if not quick and not fast else []):
            r = results[c]
            if not r.ok:
                ctx.save_log(c, r.out)
                raise Undecided("TLC run %s did not pass cleanly: %s" % (
                    c, (r.errors or [v["name"] for v in r.violations] or ["timeout"])[:3]))
            states += r.distinct
            transitions += r.generated
        if not quick and not fast:
            for w, name in WEAK_LIVE.items():
                r = results["weaklive:" + w]
                # (this TLC prints "Temporal property ReachesTip was violated", which the runner's parser
                # files under errors; look at the text)
                if r.timed_out or not (any(v["name"] == name for v in r.violations)
                                       or re.search(r"Temporal propert(y ReachesTip was|ies were) violated", r.out)):
                    ctx.save_log("weaklive_" + w, r.out)
                    raise Undecided("vacuity: LiveSpec with Weak_%s does not violate ReachesTip" % w)
                nonvac["Weak_%s refuted by TLC (ReachesTip, temporal)" % w] = True
        return states, transitions

    nonvac = {}
    attack = []
    peers_small, t_small = peers_of_cfg(ctx, "C13_small.cfg")
    for w, invs in WEAK.items():
        r = results["weak:" + w]
        hit = [v for v in r.violations if v["name"] in invs]
        if not hit:
            ctx.save_log("weak_" + w, r.out)
            raise Undecided("vacuity: weakened spec Weak_%s does not violate any of %s" % (w, invs))
        nonvac["Weak_%s refuted by TLC (%s)" % (w, hit[0]["name"])] = True
        acts = [to_json(s["act"]) for _h, s in hit[0]["trace"] if "act" in s]
        for k in range(3):   # peer choice is not controlled: several attempts
            attack.append({"id": "attack-%s-%d" % (w, k), "src": "weak", "T": t_small, "peers": peers_small,
                           "steps": steps_of_acts(acts)})

    # ---- 2. behaviours of the design spec as schedules (simulation) ------------------------
    nsim = 40 if quick else 300
    prefix = "c13sim"
    rs = ctx.tlc("C13_mc", "C13_sim.cfg", simulate="file=%s,num=%d" % (prefix, nsim), depth=70, seed=seed, workers=1,
                 timeout=900, label="C13_sim")
    if rs.errors or rs.violations or rs.timed_out:
        ctx.save_log("C13_sim", rs.out)
        raise Undecided("TLC simulation of C13_sim.cfg failed: %s" % (rs.errors or [v["name"] for v in rs.violations] or ["timeout"])[:2])
    peers_sim, t_sim = peers_of_cfg(ctx, "C13_sim.cfg")
    sims = []
    d = ctx.spec_copy()
    for f in sorted(os.listdir(d)):
        if f.startswith(prefix + "_"):
            with open(os.path.join(d, f)) as fh:
                acts = acts_of_text(fh.read())
            os.remove(os.path.join(d, f))
            st = steps_of_acts(acts)
            if st:
                sims.append({"id": "sim-%s" % f[len(prefix) + 1:], "src": "tlc-simulate", "T": t_sim, "peers": peers_sim, "steps": st})
    if len(sims) < nsim // 2:
        raise Undecided("only %d simulation behaviours exported" % len(sims))

    # ---- 3. run on the real code -----------------------------------------------------------
    batches = []
    if quick:
        batches.append(("A", VALS_A, sched_churn() + sched_reassign(4) + sched_unassigned(4) + sched_shrink(4) + sched_matrix(4) + sched_late(4) + sched_status(4) + attack + sims + sched_pairs(4, rng, 16)
                        + sched_random(seed, 30)))
        batches.append(("C", VALS_C, sched_matrix(3)[::2] + sched_late(3) + sched_reassign(3) + sched_random(seed + 1, 16)))
    else:
        batches.append(("A", VALS_A, sched_churn() + sched_reassign(4) + sched_reassign(5) + sched_unassigned(4) + sched_unassigned(5) + sched_shrink(4) + sched_shrink(5) + sched_matrix(4) + sched_matrix(5) + sched_late(4) + sched_late(5) + sched_status(4) + sched_status(5) + attack + sims
                        + sched_pairs(4, rng, 150) + sched_random(seed, 350)))
        batches.append(("C", VALS_C, sched_matrix(4) + sched_late(4) + sched_pairs(3, rng, 50) + sched_random(seed + 1, 150)))
        batches.append(("B", VALS_B, sched_matrix(3) + sched_late(3) + sched_random(seed + 2, 60)))

    verdict = core.Verdict(ctx)
    stats = new_stats()
    samples = []
    crashes = []
    for label, vals, scheds in batches:
        # (batch A carries the churn family, which needs a chain of CHURN_TMAX blocks)
        rows, crashed = run_harness(ctx, binp, label, vals, scheds, par, tmax=CHURN_TMAX if label == "A" else TMAX)
        if crashed:
            crashes.append(crashed)
        if rows:
            collect(ctx, verdict, label, vals, scheds, rows, stats)
        if len(samples) < 2:
            first = [r for r in rows if r["run"] == 1]
            samples.append(core.abridge([{k: v for k, v in r.items() if k != "pool"} for r in first], 14))
    try:
        states, transitions = finish_design()
    except BaseException:
        for fu in bg_jobs:
            fu.cancel()
        raise
    if crashes and not verdict.new:
        # the driver died and nothing observed before its death breaks the property: cannot decide
        raise Undecided(crashes[0])
    if stats["ends"] and stats["unstable"] * 10 > stats["ends"]:
        raise Undecided("%d of %d runs never became quiescent (machine overloaded?)" % (stats["unstable"], stats["ends"]))

    coverage = {
        "states": states,
        "transitions": transitions,
        "traces_validated_against_impl": stats["runs"],
        "evaluations": stats["events"],
        "distinct_nontrivial": len(stats["distinct"]),
        "rule": "a run = one schedule executed against the real blockchain/v0 reactor+pool (all goroutines) with mock peers; "
                "schedules: every liar response kind at every height 1..T+1 (matrix), two-liar pairs, counterexamples of the "
                "Weak_* specs, TLC -simulate behaviours of TMFastSync (seeded), seeded random environment; an event is distinct "
                "by (event, arguments, projected pool after it)",
        "samples": samples,
        "exhaustive": False,
        "tlc_runs": ctx.tlc_stats[:40],
        "exhaustive_design_configs": exh + ([] if quick or fast else ["C13_live.cfg (LiveSpec => ReachesTip)"]),
        "dev_fast": fast,
        "schedules": {lab: len(s) for lab, _v, s in batches},
        "runs_handed_over": stats["handed"],
        "runs_not_quiescent_not_judged_for_liveness": stats["unstable"],
        "schedule_steps_not_enabled_on_real_run": stats["skipped"],
        "observed_panics": stats["panics"],
        "harness_process_deaths": crashes,
        "peer_stops_by_reason": stats["stops"],
        "responses_by_kind": stats["kinds"],
        "conformance_drift": stats["drift"][:8],
        "conformance_drift_count": len(stats["drift"]),
        "nonvacuity": nonvac,
        "known_findings_reproduced": dict(verdict.known),
    }
    rc = verdict.finish()
    ctx.write_evidence(coverage, [
        "signatures unforgeable, hashes collision-free (symbolic slot classes: a liar can only re-arrange genuine signatures)",
        "fewer than 1/3 of the voting power is Byzantine: liars hold no validator key",
        "the p2p transport is replaced by mock peers delivered through Reactor.Receive (wire encoding included)",
        "peer timeouts are triggered by calling bpPeer.onTimeout; the 30 s request retry and the flow-rate check are not exercised",
        "which peer a requester picks and the order of the reactor's goroutines are not controlled: the spec allows every order, "
        "every observed run is validated; a violation that needs a specific order may be missed in a given run",
        "ReachesTip on real runs: fair closure (honest peers keep re-joining and answering, silent liars time out); "
        "the code may hand over at T-2 (pool.height >= maxPeerHeight-1), which the spec allows",
    ], len(verdict.new))
    return rc


def replay(ctx, path):
    """Re-execute the schedule of a stored failing run on the current tree (several times: the
    reactor's goroutines are not deterministic) and re-validate."""
    with open(path) as f:
        rep = json.load(f)["replay"]
    sc = dict(rep["sched"])
    scheds = []
    for k in range(6):
        s = dict(sc)
        s["id"] = "%s#%d" % (sc["id"], k)
        s["seed"] = sc.get("seed", 0)
        scheds.append(s)
    binp = ctx.go_build_test("blockchain/v0", HARNESS)
    rows, crashed = run_harness(ctx, binp, "replay", rep["vals"], scheds, 6, tmax=CHURN_TMAX)
    verdict = core.Verdict(ctx)
    stats = new_stats()
    v = collect(ctx, verdict, "replay", rep["vals"], scheds, rows, stats) if rows else {"viol": []}
    if crashed and not verdict.new:
        raise Undecided(crashed)
    for x in v["viol"]:
        log("replay: %s [%s] at %s" % (x["inv"], x["class"], json.dumps(core.abridge(x["row"]))[:300]))
    return verdict.finish()
