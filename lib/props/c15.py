"""C15 — The consensus write-ahead log returns what was durably written, in order.
Spec: spec/TMWalOps.tla (the WAL as values + operators), spec/TMWal.tla (state machine);
trace spec: spec/trace/TMWalTrace.tla; harness: harness/inpkg/consensus/zz_verif_c15_test.go
(+ zz_verif_c15.s) injected into /repo/consensus by overlay.

Pipeline: TLC exhaustive on the design configs -> Weak_* configs must be refuted -> TLC simulation
behaviours become schedules -> the Go harness executes schedules, its own exhaustive crash-offset /
corrupted-byte enumerations, seeded random histories and node-level crash/restore runs on the REAL
code (under strace when available, so that fsync calls are observed) -> TLC validates every
observed trace (level 1 drift, level 2 property) -> verdict."""
import json
import os
import re
import shutil
import stat

from vlib import core
from vlib.core import Undecided, log
from vlib.tlaparse import to_json

WEAK = {
    # switch: (cfg, invariants that may refute it)
    "SyncNoFsync": ("C15_weak_SyncNoFsync.cfg", {"AckedDurable"}),
    "SyncNoFlush": ("C15_weak_SyncNoFlush.cfg", {"AckedDurable"}),
    "NoHeadCheck": ("C15_weak_NoHeadCheck.cfg", {"AckedReadable", "SearchExact", "SecondRestartSame", "ReplayRestores"}),
    "EH0OnEmptyHead": ("C15_weak_EH0OnEmptyHead.cfg", {"ReplayRestores"}),
    "NoRepair": ("C15_weak_NoRepair.cfg", {"ReplayRestores", "AckedReadable"}),
    "RepairDropsLast": ("C15_weak_RepairDropsLast.cfg", {"AckedDurable", "AckedReadable", "PruneWholeOldest"}),
    "RepairNoFsync": ("C15_weak_RepairNoFsync.cfg", {"AckedDurable"}),
    "SearchStopsEarly": ("C15_weak_SearchStopsEarly.cfg", {"SearchExact", "ReplayRestores"}),
    "RotateDropsBuf": ("C15_weak_RotateDropsBuf.cfg", {"AckedDurable", "AckedReadable", "PruneWholeOldest"}),
    "DecoderAcceptsBadCRC": ("C15_weak_DecoderAcceptsBadCRC.cfg", {"NoInvented"}),
    "PruneNewest": ("C15_weak_PruneNewest.cfg", {"PruneWholeOldest"}),
    "RecordInTwoGroupWrites": ("C15_weak_RecordInTwoGroupWrites.cfg", {"AckedReadable", "SearchExact", "SecondRestartSame", "PruneWholeOldest", "AckedDurable"}),
    "IndexWidth3Only": ("C15_weak_IndexWidth3Only.cfg", {"AckedReadable", "SearchExact", "PruneWholeOldest", "AckedDurable"}),
}

ACTS_SEEN = {}
SMALL_HEAD, SMALL_TOTAL = 100, 260     # bytes: ~3 / ~7 small records, like HeadLimit/TotalLimit = 30/70 in the model


# ------------------------------------------------------------------------- schedules from TLC
def act_to_steps(a):
    n = a["name"]
    if n == "Reopen":
        return [{"op": "Reopen"}] + ([{"op": "Observe"}] if a.get("res") != "fail" else [])
    if n in ("Write", "WriteSync"):
        r = a["rec"]
        return [{"op": n, "kind": r["kind"], "big": r["size"] > 20}]
    if n == "FlushAndSync":
        return [{"op": "Flush"}]
    if n == "FlushHalf":
        return [{"op": "FlushHalf"}]
    if n == "CheckHead":
        return [{"op": "CheckHead"}]
    if n == "CheckTotal":
        return [{"op": "CheckTotal"}, {"op": "Observe"}]
    if n == "Search":
        return [{"op": "Search", "h": a["h"]}]
    if n == "Stop":
        return [{"op": "Stop"}]
    if n == "Crash":
        return [{"op": "Crash", "j": a["j"], "tk": a["tk"], "keep": -1}]
    if n == "Corrupt":
        return [{"op": "Corrupt", "file": a["file"], "pos": a["pos"], "cls": a["cls"]}]
    if n == "Init":
        return []
    raise Undecided("unknown act %r in a TLC behaviour" % (n,))


def behaviours_to_scheds(ctx, prefix, limit):
    """simulation output files <prefix>_0_K -> schedules (deduplicated)"""
    scheds, seen = [], set()
    d = os.path.dirname(prefix)
    names = sorted(f for f in os.listdir(d) if f.startswith(os.path.basename(prefix) + "_"))
    for fn in names:
        with open(os.path.join(d, fn)) as f:
            txt = f.read()
        try:
            beh = core.tlaparse.parse_behaviour_text(txt)
        except Exception as e:
            raise Undecided("cannot parse simulated behaviour %s: %s" % (fn, e))
        steps = []
        for _h, st in beh:
            a = to_json(st["act"])
            ACTS_SEEN[a["name"]] = ACTS_SEEN.get(a["name"], 0) + 1
            steps += act_to_steps(a)
        while steps and steps[-1]["op"] in ("Crash", "Corrupt", "Stop"):
            steps.pop()
        if not steps:
            continue
        if steps[-1]["op"] != "Observe":
            steps.append({"op": "Observe"})
        key = json.dumps(steps, sort_keys=True)
        if key in seen:
            continue
        seen.add(key)
        scheds.append({"name": "tlc-%d" % len(scheds), "headLimit": SMALL_HEAD, "totalLimit": SMALL_TOTAL, "steps": steps})
        if len(scheds) >= limit:
            break
    return scheds


def S(op, **kw):
    d = {"op": op}
    d.update(kw)
    return d


def library(quick):
    """Schedules kept forever: the counterexamples of the weakened specs, as schedules (DESIGN 4.3)."""
    R, O = S("Reopen"), S("Observe")
    W = lambda k="in", **kw: S("Write", kind=k, **kw)
    WS = lambda k="in": S("WriteSync", kind=k)
    return [
        # append behind a torn tail (crc / length / data offsets), then restart again
        {"name": "lib-torn-tail-tk%d" % tk, "headLimit": 0, "totalLimit": 0, "steps":
            [R, WS(), W(), S("FlushHalf"), S("Crash", j=0, tk=tk, keep=-1), R, O, WS(), W("eh"), S("Flush"), O,
             S("Crash", j=0, tk=0, keep=-1), R, O]} for tk in (1, 2, 3, 4, 6, 8, 9, 20)
    ] + [
        # the end-of-height marker itself is torn: the state store is ahead, catch-up finds no marker
        {"name": "lib-torn-marker-tk%d" % tk, "headLimit": 0, "totalLimit": 0, "steps":
            [R, WS(), W("eh"), S("FlushHalf"), S("Crash", j=0, tk=tk, keep=-1), R, O, WS(), W("eh"), S("Flush"), O,
             S("Stop"), R, O]} for tk in (2, 6, 12)
    ] + [
        # restart right after a rotation in the initial height
        {"name": "lib-rotate-restart", "headLimit": SMALL_HEAD, "totalLimit": 0, "steps":
            [R, W("rs"), W(), WS(), S("CheckHead"), S("Crash", j=0, tk=0, keep=-1), R, O, WS(), O]},
        {"name": "lib-rotate-stop-restart", "headLimit": SMALL_HEAD, "totalLimit": 0, "steps":
            [R, WS(), WS(), S("CheckHead"), S("Stop"), R, O, WS(), W("eh"), S("Flush"), S("Stop"), R, O]},
        # marker in a rotated file, search from the head backwards
        {"name": "lib-search-rotated", "headLimit": SMALL_HEAD, "totalLimit": 0, "steps":
            [R, W(), W("eh"), S("Flush"), W(), WS(), S("CheckHead"), WS(), W("eh"), S("Flush"), S("CheckHead"), WS(), O,
             S("Crash", j=0, tk=0, keep=-1), R, O]},
        # pruning, stale minIndex, files re-created by readers
        {"name": "lib-prune", "headLimit": SMALL_HEAD, "totalLimit": SMALL_TOTAL, "steps":
            [R, WS(), WS(), S("CheckHead"), WS(), W("eh"), S("Flush"), WS(), S("CheckHead"), WS(), WS(), WS(), S("CheckHead"),
             WS(), S("CheckTotal"), O, S("Search", h=1), S("CheckTotal"), O, WS(), S("Crash", j=0, tk=0, keep=-1), R, O]},
        # rotation with buffered records, then a sync
        {"name": "lib-rotate-buffered", "headLimit": SMALL_HEAD, "totalLimit": 0, "steps":
            [R, W(), W(), S("FlushHalf"), W("rs"), S("CheckHead"), WS(), O, S("Crash", j=0, tk=0, keep=-1), R, O]},
        # a record larger than the bufio buffer: split write
        {"name": "lib-big", "headLimit": 0, "totalLimit": 0, "steps":
            [R, W(), W(big=True), O, S("Crash", j=0, tk=9, keep=-1), R, O, WS(), O]},
        {"name": "lib-big-part", "headLimit": 0, "totalLimit": 0, "steps":
            [R, W(), W(big=True), S("Crash", j=1, tk=20, keep=-1), R, O, WS(), S("Stop"), R, O]},
        # the group's ticker goroutine rotates right after the FIRST group write of a record (counterexample of
        # Weak_RecordInTwoGroupWrites: WriteSyncBegin, CheckHead, WriteEnd); on the real encoder that is the whole record
        {"name": "lib-rotate-inside-write-1", "headLimit": 1, "totalLimit": 0, "steps":
            [R, WS(), S("WriteRot", kind="in", sync=True, k=1), WS(), W("eh"), S("Flush"), O, S("Stop"), R, O, WS(), O]},
        {"name": "lib-rotate-inside-write-2", "headLimit": 1, "totalLimit": 0, "steps":
            [R, S("WriteRot", kind="rs", k=1), S("WriteRot", kind="in", k=1), S("FlushHalf"), S("WriteRot", kind="eh", sync=True, k=1),
             O, S("CheckHead"), WS(), O, S("Stop"), R, O]},
        {"name": "lib-rotate-inside-write-3", "headLimit": SMALL_HEAD, "totalLimit": SMALL_TOTAL, "steps":
            [R, WS(), WS(), S("WriteRot", kind="in", sync=True, k=1), WS(), W("eh"), S("Flush"), S("CheckTotal"), O,
             S("Crash", j=0, tk=0, keep=-1), R, O, S("WriteRot", kind="in", k=1), S("Flush"), O]},
        # damaged byte in a rotated file in front of the unfinished height
        {"name": "lib-corrupt-rotated", "headLimit": SMALL_HEAD, "totalLimit": 0, "steps":
            [R, WS(), WS(), S("CheckHead"), WS(), S("Crash", j=0, tk=0, keep=-1), S("Corrupt", file=0, pos=2, cls="len"), R, O]},
        {"name": "lib-corrupt-head", "headLimit": 0, "totalLimit": 0, "steps":
            [R, WS(), WS(), WS(), S("Stop"), S("Corrupt", file=-1, pos=3, cls="data"), R, O, WS(), O]},
    ]


def boundary_family(b):
    """Long histories: the counterexample TLC finds for Weak_IndexWidth3Only (WidthLimit = 2: rotate past the
    boundary, stop, reopen, read) scaled to where the decimal width of the real file names changes (b = 10, 100,
    1000; <head>.%03d).  One tiny record per file, a small total-size limit keeps only the newest few files, the
    #ENDHEIGHT markers of four heights are spread over the files around index b; then stop/reopen, search and
    read everything, rotate and prune again, reopen again."""
    R, O = S("Reopen"), S("Observe")
    steps = [R]
    for i in range(b + 3):
        if i in (b - 2, b - 1, b, b + 1):
            steps += [S("Write", kind="eh"), S("Flush")]
        else:
            steps += [S("WriteSync", kind="in")]
        steps.append(S("CheckHead"))
        if i % 4 == 3 or i >= b - 3:
            steps.append(S("CheckTotal"))
    steps += [S("WriteSync", kind="in"), S("Stop"), R, O,
              S("WriteSync", kind="in"), S("Write", kind="eh"), S("Flush"), S("CheckHead"), S("CheckTotal"), O,
              S("WriteSync", kind="in"), S("CheckHead"), S("CheckTotal"), S("Search", h=4), O, S("Stop"), R, O]
    return {"name": "lib-index-width-%d" % b, "headLimit": 1, "totalLimit": 300, "steps": steps, "fast": True}


def enums(quick):
    R, O = S("Reopen"), S("Observe")
    W = lambda k="in", **kw: S("Write", kind=k, **kw)
    WS = lambda k="in": S("WriteSync", kind=k)
    again = [R, O, WS(), W("eh"), S("Flush"), O]
    out = [
        # every byte offset of an unsynced tail of three records; append; crash again at offset classes
        {"name": "enum-tail", "headLimit": 0, "totalLimit": 0, "mode": "crash", "stride": 1, "file": 0, "pos": 0,
         "prefix": [R, WS(), W(), W("rs"), W("eh"), S("FlushHalf")],
         "suffix": again + [S("Stop"), R, O],
         "inner": [] if quick else [R, O, WS(), O]},
        # the same with rotated files and markers in them
        {"name": "enum-rotated", "headLimit": SMALL_HEAD, "totalLimit": 0, "mode": "crash", "stride": 1 if not quick else 3,
         "file": 0, "pos": 0,
         "prefix": [R, WS(), W("eh"), S("Flush"), S("CheckHead"), WS(), WS(), S("CheckHead"), W(), W("eh"), S("FlushHalf")],
         "suffix": again + [S("CheckHead"), WS(), S("Stop"), R, O],
         "inner": [R, O, WS(), O]},
        # a record split by the bufio buffer
        {"name": "enum-big", "headLimit": 0, "totalLimit": 0, "mode": "crash", "stride": 1499 if quick else 211, "file": 0, "pos": 0,
         "prefix": [R, WS(), W(), W(big=True), W("rs")],
         "suffix": [R, O, WS(), O, S("Stop"), R, O], "inner": []},
        # every byte of one record of the head file, and of a rotated file
        {"name": "enum-corrupt-head", "headLimit": 0, "totalLimit": 0, "mode": "corrupt", "stride": 1, "file": -1, "pos": 3,
         "prefix": [R, WS(), W("eh"), S("Flush"), WS(), WS(), W("eh"), S("Flush"), WS()],
         "suffix": [R, O, WS(), O, S("Stop"), R, O], "inner": []},
        {"name": "enum-corrupt-rotated", "headLimit": SMALL_HEAD, "totalLimit": 0, "mode": "corrupt", "stride": 1 if not quick else 2,
         "file": 0, "pos": 2,
         "prefix": [R, WS(), W("eh"), S("Flush"), S("CheckHead"), WS(), WS(), W("eh"), S("Flush"), S("CheckHead"), WS()],
         "suffix": [R, O], "inner": []},
    ]
    return out


# ------------------------------------------------------------------------- strace: observed fsync
TRACED = "fsync,fdatasync,write,pwrite64,openat,rename,renameat,renameat2,unlink,unlinkat,ftruncate,truncate"


def strace_usable(ctx):
    exe = shutil.which("strace")
    if not exe or os.environ.get("VERIF_C15_NOSTRACE") == "1":
        return None
    import subprocess
    try:
        p = subprocess.run([exe, "-f", "-qq", "-e", "trace=fsync", "-o", os.path.join(ctx.work, "st-probe"), "/bin/true"],
                           stdout=subprocess.PIPE, stderr=subprocess.PIPE, timeout=20)
        return exe if p.returncode == 0 else None
    except Exception:
        return None


def make_wrapper(ctx, exe, binp, outp):
    wp = os.path.join(ctx.work, "c15-strace-wrapper.sh")
    with open(wp, "w") as f:
        f.write("#!/bin/sh\nexec %s -f -qq -y -s 0 -e signal=none -e trace=%s -o %s %s \"$@\"\n" % (exe, TRACED, outp, binp))
    os.chmod(wp, os.stat(wp).st_mode | stat.S_IEXEC)
    return wp


_fd_re = re.compile(r'^\d+<([^>]*)>')


def parse_strace(path, need):
    """need: {marker m: dir basename}.  Returns {m: {"size": n, "synced": n}} for the head file of that
    directory at the END of event m (= when marker m+1, or the end of the log, is reached)."""
    files = {}      # dir basename -> {file name: [size, synced]}
    out = {}
    pending = {}    # pid -> unfinished call text
    cur = [None]

    def st(p):
        d, n = os.path.split(p)
        return files.setdefault(os.path.basename(d), {}), n

    def close_event():
        m = cur[0]
        if m is not None and m in need:
            fs = files.get(need[m], {})
            h = fs.get("wal")
            out[m] = {"size": h[0], "synced": h[1]} if h else {"size": 0, "synced": 0}
            out[m]["files"] = {n: (v[0], v[0] - v[1]) for n, v in fs.items() if n != "wal"}

    def handle(call, ret):
        name, _, args = call.partition("(")
        if name in ("fdatasync", "fsync"):
            a = args.strip().rstrip(")")
            if a.startswith("-"):
                try:
                    k = -int(a) - 1000000
                except ValueError:
                    return
                if name == "fdatasync" and k > 0:
                    close_event()
                    cur[0] = k
                return
            mm = _fd_re.match(a)
            if mm and "/c15wal-" in mm.group(1) and ret == "0":
                d, n = st(mm.group(1))
                if n in d:
                    d[n][1] = d[n][0]
            return
        if "/c15wal-" not in args:
            return
        if name in ("write", "pwrite64"):
            mm = _fd_re.match(args)
            if mm and ret.isdigit():
                d, n = st(mm.group(1))
                d.setdefault(n, [0, 0])[0] += int(ret)
        elif name == "openat":
            mm = re.search(r'"([^"]*)", ([A-Z_|0-9]+)', args)
            if mm and not ret.startswith("-"):
                d, n = st(mm.group(1))
                if "O_TRUNC" in mm.group(2):
                    d[n] = [0, 0]
                elif "O_CREAT" in mm.group(2):
                    d.setdefault(n, [0, 0])
        elif name in ("rename", "renameat", "renameat2"):
            ps = re.findall(r'"([^"]*)"', args)
            if len(ps) == 2 and ret == "0":
                d1, n1 = st(ps[0])
                d2, n2 = st(ps[1])
                if n1 in d1:
                    d2[n2] = d1.pop(n1)
        elif name in ("unlink", "unlinkat"):
            ps = re.findall(r'"([^"]*)"', args)
            if ps and ret == "0":
                d, n = st(ps[0])
                d.pop(n, None)
        elif name in ("ftruncate", "truncate"):
            raise Undecided("unexpected truncate on a WAL file in the strace log: " + call[:200])

    with open(path, errors="replace") as f:
        for line in f:
            line = line.rstrip("\n")
            sp = line.find(" ")
            if sp < 0:
                continue
            pid, rest = line[:sp], line[sp:].strip()
            if rest.endswith("<unfinished ...>"):
                pending[pid] = rest[:-len("<unfinished ...>")].strip()
                continue
            mm = re.match(r'<\.\.\. (\w+) resumed>(.*)$', rest)
            if mm:
                rest = pending.pop(pid, mm.group(1) + "(") + mm.group(2)
            eq = rest.rfind(" = ")
            if eq < 0:
                continue
            call, ret = rest[:eq].strip(), rest[eq + 3:].strip().split(" ")[0]
            handle(call, ret)
    close_event()
    return out


def merge_fs(rows, fsobs):
    """post.fsynced := head bytes on stable storage at the end of the event (strace), else the harness view."""
    used = miss = 0
    for r in rows:
        p = r.get("post")
        if p is None:
            continue
        o = fsobs.get(r.get("m")) if fsobs is not None else None
        if o is not None and o["size"] == p["hsize"]:
            p["fsynced"] = min(o["synced"], p["hsize"])
            used += 1
        else:
            p["fsynced"] = p["hsynced"]
            if fsobs is not None:
                miss += 1
        for f in p["files"]:      # rotated files: bytes written and never fsync'ed (a rename does not sync)
            t = (o or {}).get("files", {}).get("wal.%03d" % f["idx"])
            f["usz"] = t[1] if t is not None and t[0] == f["size"] else 0
        if r.get("ev") == "Reopen":
            o2 = fsobs.get(r.get("m")) if fsobs is not None else None
            # state when OnStart returned = end of the sub-event that started at marker m
            o2 = fsobs.get(("start", r.get("m"))) if fsobs is not None else None
            r["startsynced"] = o2["synced"] if o2 is not None else p["hsize"]
    return used, miss


# ------------------------------------------------------------------------- the check
def run(ctx):
    quick = ctx.tier == "quick"
    if os.environ.get("VERIF_C15_DEV"):      # development aid: real-code part only, small
        return run_dev(ctx)

    # ---- 1. design spec, exhaustive ------------------------------------------------------------
    runs = []
    sizes = {"base": 4, "corrupt": 3, "spill": 4, "prune": 5} if quick else {"base": 5, "corrupt": 4, "spill": 5, "prune": 6}
    for tag in ("base", "corrupt", "spill", "prune"):
        c = core.cfg_variant(ctx, "C15_%s.cfg" % tag, "C15_%s_run.cfg" % tag, {"MaxRecs": sizes[tag]})
        runs.append(ctx.tlc("C15_wal", c, must_pass=True, timeout=3000, workers=8, heap="6g", label=tag))
    if not quick:
        c = core.cfg_variant(ctx, "C15_base.cfg", "C15_stop_run.cfg", {"MaxRecs": 4, "MaxStop": 1, "MaxCrash": 1})
        runs.append(ctx.tlc("C15_wal", c, must_pass=True, timeout=3000, workers=8, heap="6g", label="stop"))
        c = core.cfg_variant(ctx, "C15_prune.cfg", "C15_prunecrash_run.cfg", {"MaxRecs": 5, "MaxCrash": 1})
        runs.append(ctx.tlc("C15_wal", c, must_pass=True, timeout=3000, workers=8, heap="6g", label="prune+crash"))
        runs.append(ctx.tlc("C15_wal", "C15_echo.cfg", must_pass=True, timeout=3000, workers=8, heap="6g", label="echo"))

    # ---- 2. non-vacuity: every weakened spec must be refuted -------------------------------------
    nonvac = {}
    from concurrent.futures import ThreadPoolExecutor

    def weak(item):
        sw, (cfgname, invs) = item
        r = ctx.tlc("C15_wal", cfgname, timeout=900, workers=2, heap="2g", label="weak_" + sw)
        hit = [v["name"] for v in r.violations if v["name"] in invs]
        if r.errors or r.timed_out or not hit:
            ctx.save_log("weak_" + sw, r.out)
            raise Undecided("vacuity: weakened spec Weak_%s is not refuted by TLC (violations: %s, errors: %s)" % (
                sw, [v["name"] for v in r.violations], r.errors[:1]))
        return sw, hit[0]

    with ThreadPoolExecutor(max_workers=4) as ex:
        for sw, inv in ex.map(weak, WEAK.items()):
            nonvac["Weak_%s refuted by" % sw] = inv

    # ---- 3. behaviours of the spec -> schedules ----------------------------------------------------
    nsim = 100 if quick else 800
    simdir = ctx.subdir("sim")
    scheds = []
    for tag, cfgname in (("base", "C15_sim.cfg"), ("corrupt", "C15_sim_corrupt.cfg")):
        prefix = os.path.join(simdir, tag)
        rs = ctx.tlc("C15_wal", cfgname, simulate="file=%s,num=%d" % (prefix, nsim if tag == "base" else nsim // 3),
                     depth=22, seed=ctx.seed, workers=1, timeout=900, label="simulate_" + tag)
        if rs.errors or rs.violations:
            ctx.save_log("simulate_" + tag, rs.out)
            raise Undecided("simulation of the design spec failed: %s" % (rs.errors or [v["name"] for v in rs.violations])[:2])
        scheds += behaviours_to_scheds(ctx, prefix, nsim)
    for i, s in enumerate(scheds):
        s["name"] = "tlc-%d" % i
    # the long history first: its trace is one big chunk, TLC should start on it right away
    lib = [boundary_family(b) for b in (1000, 100, 10)] + library(quick)
    inp = {"scheds": lib + scheds, "enums": enums(quick), "random": 40 if quick else 600,
           "node": {"runs": 5 if quick else 24, "steps": 12 if quick else 20, "headLimit": 0, "offsets": 3}}

    # ---- 4. the real code ---------------------------------------------------------------------------
    rows_wal, rows_node, fsinfo = execute(ctx, inp)

    # ---- 5. TLC judges the observed traces ---------------------------------------------------------
    # one pool for both files: no barrier between them (every run starts with its own Reset line)
    v1 = core.validate_traces(ctx, "TMWalTrace", rows_wal + rows_node, max_events=1500, timeout=1800, label="wal+node")
    v2 = {"viol": [], "drift": [], "runs": 0}

    # ---- 6. verdict -----------------------------------------------------------------------------------
    verdict = core.Verdict(ctx)
    for v in v1["viol"] + v2["viol"]:
        add_violation(verdict, v, {"seed": ctx.seed, "node": inp["node"]})
    drift = v1["drift"] + v2["drift"]

    distinct = set()
    nreopen = nobs = 0
    for r in rows_wal + rows_node:
        p = r.get("post")
        if p is None:
            continue
        if r["ev"] == "Reopen":
            nreopen += 1
        if r["ev"] == "Observe":
            nobs += 1
        distinct.add(json.dumps([r["ev"], r.get("rec", {}).get("kind"), r.get("j"), r.get("tk"), r.get("cls"), r.get("res"),
                                 abstract_post(p)], sort_keys=True))
    coverage = {
        "states": sum(r.distinct for r in runs),
        "transitions": sum(r.generated for r in runs),
        "traces_validated_against_impl": v1["runs"] + v2["runs"],
        "evaluations": len(rows_wal) + len(rows_node),
        "distinct_nontrivial": len(distinct),
        "rule": "a real-code step is distinct by (event, record kind, crash cut (records, torn bytes), damaged field, start-up "
                "result, abstract post-state: per file the sequence of (kind, state) of its items, buffered?, group indices); "
                "schedules: %d from TLC simulation of TMWal (seed %d), %d library schedules (counterexamples of the weakened "
                "specs), %d enumerations (every byte offset of the unsynced tail / every byte of one record), %d seeded random "
                "histories, %d node-level runs (real consensus.State driven to a mid-height state, crash, real OnStart)" % (
                    len(scheds), ctx.seed, len(lib), len(inp["enums"]), inp["random"], inp["node"]["runs"]),
        "samples": [core.abridge([slim(r) for r in rows_wal[:14]], 14),
                    core.abridge([slim(r) for r in rows_node[-6:]], 6)],
        "exhaustive": False,
        "exhaustive_note": "the bounded TMWal graphs are explored completely by TLC; on the real code every byte offset of the "
                           "enumerated tails / records is executed, but the TLC graphs are sampled (simulation), not replayed edge by edge",
        "tlc_runs": ctx.tlc_stats,
        "restarts_through_real_OnStart": nreopen,
        "observations": nobs,
        "fsync_observation": fsinfo,
        "conformance_drift": [{"what": d["what"], "step": slim(d["row"])} for d in drift[:5]],
        "conformance_drift_count": len(drift),
        "nonvacuity": nonvac,
        "spec_actions_in_simulated_behaviours": dict(ACTS_SEEN),
        "known_findings_reproduced": dict(verdict.known),
    }
    rc = verdict.finish()
    ctx.write_evidence(coverage, [
        "file system = POSIX file with fsync: a crash keeps everything fsync'ed and any byte prefix of what was written later; "
        "directory-entry durability of rename (RotateFile) is not modelled",
        "crc32c detects every damaged byte; a desynchronised decoder never assembles a record that was not written",
        "a crash is emulated by copying the WAL directory with the head file cut inside its unsynced region; fsync calls are "
        "observed with strace when it is usable (see fsync_observation), otherwise a nil FlushAndSync is taken to have synced",
        "the instant between headBuf.Flush() and Head.Sync() inside FlushAndSync is reached by flushing the real bufio.Writer directly",
        "node-level restore is started without a validator key so that replay produces no new signed messages; the projection "
        "compared is (height, round, step, locked/valid round+block, proposal, block parts, votes of all rounds, last commit)",
        "a TLC verdict is accepted only if the verdict file covers every trace line",
    ], len(verdict.new))
    return rc


def run_dev(ctx):
    sel = os.environ["VERIF_C15_DEV"].split(",")
    inp = {"scheds": (library(True) if "lib" in sel else []) + ([boundary_family(b) for b in (10, 100, 1000)] if "width" in sel else []), "enums": [e for e in enums(True) if e["name"] in sel],
           "random": 20 if "random" in sel else 0,
           "node": {"runs": int(os.environ.get("VERIF_C15_NODERUNS", "3")) if "node" in sel else 0,
                    "steps": int(os.environ.get("VERIF_C15_NODESTEPS", "10")), "headLimit": 0, "offsets": 3}}
    rows_wal, rows_node, fsinfo = execute(ctx, inp)
    log("fsync observation: %s" % fsinfo)
    verdict = core.Verdict(ctx)
    for rows, label in ((rows_wal, "wal"), (rows_node, "node")):
        if rows:
            v = core.validate_traces(ctx, "TMWalTrace", rows, max_events=1500, label=label)
            for x in v["viol"]:
                add_violation(verdict, x)
            seen = set()
            for d in v["drift"]:
                if d["what"] not in seen:
                    seen.add(d["what"])
                    log("DRIFT %s at %s" % (d["what"], json.dumps(slim(d["row"]))[:700]))
            seenv = set()
            for x in v["viol"]:
                k = (x["inv"], re.sub(r'\d+', 'N', x["class"]))
                if k not in seenv:
                    seenv.add(k)
                    log("VIOL %s / %s at %s" % (x["inv"], x["class"], json.dumps(slim(x["row"]))[:500]))
    return verdict.finish()


def add_violation(verdict, v, extra=None):
    row = v["row"]
    sig = {"inv": v["inv"], "class": re.sub(r'\d+', 'N', v["class"]), "ev": row["ev"]}
    pre = [slim(r) for r in v["prefix"]]
    for r in pre[:-20]:            # long histories: the schedule is in the events, keep the projections of the end only
        r.pop("post", None)
    payload = {"failing_step": slim(row), "prefix": pre, "tlc": {"inv": v["inv"], "class": v["class"]}}
    payload.update(extra or {})
    verdict.add(sig, payload)


def abstract_post(p):
    def its(items):
        return [(x["kind"], x["st"]) for x in items]
    return [[(f["idx"], its(f["items"])) for f in p["files"]], its(p["head"]), p["buffered"] > 0, p["gmin"], p["gmax"],
            p["extra"] > 0, p.get("fsynced") == p["hsize"]]


def slim(r):
    r = dict(r)
    for k in ("solo", "reads"):
        if k in r:
            r[k] = "(%d readers)" % len(r[k])
    if "search" in r:
        r["search"] = [[s["h"], s["ign"], s["found"], s["err"]] for s in r["search"]]
    return r


def execute(ctx, inp):
    inp_path = os.path.join(ctx.work, "c15-in.json")
    with open(inp_path, "w") as f:
        json.dump(inp, f)
    out = ctx.subdir("c15-out")
    # the extra tag keeps these two files out of any build that overlays the whole harness directory
    # without the .s file (body-less go:linkname declarations need it)
    binp = ctx.go_build_test("consensus", ["zz_verif_c15_test.go", "zz_verif_c15.s"], tags="verif,c15")
    exe = strace_usable(ctx)
    stp = os.path.join(ctx.work, "c15-strace.txt")
    runner = make_wrapper(ctx, exe, binp, stp) if exe else binp
    rc, txt = ctx.run_test(runner, "^TestVerifC15$", {"VERIF_IN": inp_path, "VERIF_OUT": out}, timeout=2400)
    if rc != 0 and exe:
        log("harness under strace failed (rc=%d); retrying without" % rc)
        exe = None
        shutil.rmtree(out, ignore_errors=True)
        out = ctx.subdir("c15-out")
        rc, txt = ctx.run_test(binp, "^TestVerifC15$", {"VERIF_IN": inp_path, "VERIF_OUT": out}, timeout=2400)
    if rc != 0:
        ctx.save_log("harness", txt)
        raise Undecided("C15 harness failed (rc=%d): %s" % (rc, txt[-1500:]))
    rows_wal = core.read_ndjson(os.path.join(out, "wal.ndjson"))
    rows_node = core.read_ndjson(os.path.join(out, "node.ndjson"))
    fsobs = None
    if exe:
        need = {}
        for r in rows_wal + rows_node:
            if "m" in r and "dir" in r:
                need[r["m"]] = r["dir"]
                if r.get("ev") == "Reopen" and "m2" in r:
                    need[r["m2"]] = r["dir"]
        raw = parse_strace(stp, need)
        fsobs = dict(raw)
        for r in rows_wal + rows_node:
            # the sub-event [m, m2) of a Reopen is the real OnStart; [m2, next) is the harness stopping the node
            if r.get("ev") == "Reopen" and "m2" in r:
                if r["m"] in raw:
                    fsobs[("start", r["m"])] = raw[r["m"]]
                if r["m2"] in raw:
                    fsobs[r["m"]] = raw[r["m2"]]
        if not ctx.keep:
            os.remove(stp)
    used1, miss1 = merge_fs(rows_wal, fsobs)
    used2, miss2 = merge_fs(rows_node, fsobs)
    fsinfo = {"strace": bool(exe), "rows_with_observed_fsync_state": used1 + used2, "rows_falling_back_to_harness_view": miss1 + miss2}
    if exe and (miss1 + miss2) > 0.02 * max(1, used1 + used2):
        raise Undecided("strace bookkeeping of the head file size disagrees with the files on %d rows" % (miss1 + miss2))
    m = re.search(r'C15 harness: .*', txt)
    log(m.group(0) if m else "harness done")
    return rows_wal, rows_node, fsinfo


def replay(ctx, path):
    """Re-execute the schedule of a stored failing trace on the current tree and re-validate it."""
    with open(path) as f:
        rep = json.load(f)
    prefix = rep["replay"]["prefix"]
    if not prefix or prefix[0].get("ev") != "Reset":
        raise Undecided("replay file has no run prefix")
    if any(r.get("ev") == "NodeState" for r in prefix):
        # a node-level run is a seeded walk of a real consensus.State: re-run the set it came from
        ctx.seed = int(rep["replay"].get("seed", ctx.seed))
        inp = {"scheds": [], "enums": [], "random": 0, "node": rep["replay"].get("node", {"runs": 6, "steps": 14, "headLimit": 0})}
    else:
        steps = []
        for r in prefix[1:]:
            ev = r["ev"]
            if ev in ("Write", "WriteSync") and r.get("rot", 0) > 0:
                steps.append({"op": "WriteRot", "kind": r["rec"]["kind"], "big": r["rec"]["size"] > 20000,
                              "sync": ev == "WriteSync", "k": r["rot"]})
            elif ev in ("Write", "WriteSync"):
                steps.append({"op": ev, "kind": r["rec"]["kind"], "big": r["rec"]["size"] > 20000})
            elif ev == "FlushAndSync":
                steps.append({"op": "Flush"})
            elif ev == "Crash":
                steps.append({"op": "Crash", "keep": r["keep"], "j": r["j"], "tk": r["tk"]})
            elif ev == "Corrupt":
                steps.append({"op": "Corrupt", "file": r["file"], "pos": r["pos"], "cls": r["cls"]})
            elif ev == "Search":
                steps.append({"op": "Search", "h": r["h"]})
            else:
                steps.append({"op": ev})
        if steps[-1]["op"] != "Observe":
            steps.append({"op": "Observe"})
        inp = {"scheds": [{"name": "replay", "headLimit": prefix[0]["headLimit"], "totalLimit": prefix[0]["totalLimit"], "steps": steps}],
               "enums": [], "random": 0, "node": {"runs": 0, "steps": 0, "headLimit": 0}}
    rows_wal, rows_node, _ = execute(ctx, inp)
    verdict = core.Verdict(ctx)
    for rows, label in ((rows_wal, "replay-wal"), (rows_node, "replay-node")):
        if not rows:
            continue
        v = core.validate_traces(ctx, "TMWalTrace", rows, max_events=1500, label=label)
        for x in v["viol"]:
            add_violation(verdict, x)
            log("replay: %s (%s) fails at %s" % (x["inv"], x["class"], json.dumps(slim(x["row"]))[:300]))
    return verdict.finish()
