"""Shared plumbing of the consensus checks C01/C02/C03 (driver zz_verif_cons_test.go,
specs TMConsensusNode / TMConsensusNet / TMConsensusSolo, trace spec TMConsensusTrace)."""
import json
import os
import shutil

from vlib import core
from vlib.core import Undecided, log
from vlib.tlaparse import to_json

HARNESS = ["zz_verif_cons_test.go", "zz_verif_cons_sync_test.go", "zz_verif_cons_routine_test.go", "zz_verif_repotrace_test.go"]


def build(ctx):
    return ctx.go_build_test("consensus", HARNESS, name="cons")


def run_driver(ctx, binp, inp, label, timeout=1800):
    d = ctx.subdir("drv-" + label)
    ip = os.path.join(d, "in.json")
    with open(ip, "w") as f:
        json.dump(inp, f)
    rc, txt = ctx.run_test(binp, "^TestVerifCons$", {"VERIF_IN": ip, "VERIF_OUT": d}, timeout=timeout, label="cons-" + label)
    if rc != 0:
        ctx.save_log("cons-" + label, txt)
        raise Undecided("consensus driver failed (%s, rc=%d): %s" % (label, rc, txt[-2000:]))
    if inp.get("mode") == "info":
        with open(os.path.join(d, "info.json")) as f:
            return json.load(f)
    rows = core.read_ndjson(os.path.join(d, "trace.ndjson"))
    with open(os.path.join(d, "stats.json")) as f:
        stats = json.load(f)
    return rows, stats


def tla_set(xs):
    return "{" + ", ".join('"%s"' % x for x in xs) + "}"


def gen_mc(ctx, name, extends, info, byz, maxround, extra_consts=None, init="Init", next_="Next",
           invariants=(), view=None, properties=(), weak=()):
    """Write <name>.tla/.cfg into the spec copy: constants from the REAL validator set
    (names, powers, proposer rotation measured on the code by the harness' info mode)."""
    d = ctx.spec_copy()
    names = info["names"]
    pw = " [] ".join('v = "%s" -> %d' % (n, info["powers"][n]) for n in names)
    ps = ", ".join('"%s"' % p for p in info["proposers"][:maxround + 1])
    with open(os.path.join(d, name + ".tla"), "w") as f:
        f.write("---- MODULE %s ----\nEXTENDS %s\nPW == [v \\in Vals |-> CASE %s]\nPS == <<%s>>\n====\n" % (name, extends, pw, ps))
    corr = [n for n in names if n not in byz]
    lines = ["CONSTANTS", "  Vals = %s" % tla_set(names), "  Corr = %s" % tla_set(corr),
             "  PowerOf <- PW", "  ProposerSeq <- PS", "  MaxRound = %d" % maxround,
             '  InvalidValues = {"ZX"}', "  Weak = %s" % tla_set(weak)]
    for k, v in (extra_consts or {}).items():
        lines.append("  %s = %s" % (k, v))
    lines += ["INIT " + init, "NEXT " + next_, "CHECK_DEADLOCK FALSE"]
    if invariants:
        lines.append("INVARIANTS " + " ".join(invariants))
    for p in properties:
        lines.append("PROPERTY " + p)
    if view:
        lines.append("VIEW " + view)
    with open(os.path.join(d, name + ".cfg"), "w") as f:
        f.write("\n".join(lines) + "\n")
    return name


def dedupe_runs(rows, names):
    """Runs replayed from a state graph share prefixes.  Each distinct prefix is validated
    once: a run whose first k events already occurred (same events, same observations) in
    an earlier run gets those k events replaced by `Set` events that restore the logged
    state reached there.  Returns (new rows, number of events removed)."""
    runs, cur = [], None
    for r in rows:
        if r.get("ev") == "Reset":
            cur = [r]
            runs.append(cur)
        elif cur is not None:
            cur.append(r)
    trie = {}
    out = []
    removed = 0
    for run in runs:
        node = trie
        k = 0
        keys = []
        for e in run[1:]:
            ee = dict(e)
            ee.pop("run", None)
            keys.append(json.dumps(ee, sort_keys=True))
        while k < len(keys) and keys[k] in node:
            node = node[keys[k]]
            k += 1
        for j in range(k, len(keys)):
            node = node.setdefault(keys[j], {})
        if k == len(keys) and k > 0:
            removed += len(run)
            continue          # the whole run is a prefix of an earlier one
        out.append(run[0])
        if k > 0:
            post, signs, dec, catch, claims = {}, {}, {}, {}, {}
            for e in run[1:k + 1]:
                n = e.get("n")
                if e["ev"] == "Decision":
                    dec[n] = e["v"]
                    continue
                if "post" not in e:
                    continue
                pre = post.get(n)
                pre_tracked = pre["tracked"] if pre else [0]
                m = e.get("m", {})
                if e["ev"] == "Deliver" and m.get("t") in ("prevote", "precommit") and \
                        m["r"] not in pre_tracked and m["r"] in e["post"]["tracked"]:
                    c = catch.setdefault(n, {})
                    c[e["peer"]] = c.get(e["peer"], 0) + 1
                if e["ev"] == "Deliver" and m.get("t") in ("claim_prevote", "claim_precommit") and m["r"] in pre_tracked:
                    cl = claims.setdefault(n, {}).setdefault((m["t"], m["r"]), [])
                    if not any(c[0] == e["peer"] for c in cl):
                        cl.append([e["peer"], m["v"]])
                if e["post"]["height"] != 1:
                    catch[n] = {}
                    claims[n] = {}
                post[n] = e["post"]
                signs.setdefault(n, []).extend(x for x in e.get("signs", []) if x["ok"])
            for n in sorted(post):
                out.append({"ev": "Set", "run": run[0]["run"], "n": n, "post": post[n], "signs": signs.get(n, []),
                            "dec": dec.get(n, "nil"),
                            "catchup": {v: catch.get(n, {}).get(v, 0) for v in list(names) + ["ext"]},
                            "pmv": [claims.get(n, {}).get(("claim_prevote", r), []) for r in range(len(post[n]["pv"]))],
                            "pmc": [claims.get(n, {}).get(("claim_precommit", r), []) for r in range(len(post[n]["pc"]))]})
            removed += k - len(post)
        out.extend(run[k + 1:])
    return out, removed


def validate(ctx, rows, info, byz, maxround, label, max_events=2500, dedupe=False):
    name = "CTrace_" + label
    gen_mc(ctx, name, "TMConsensusTrace", info, byz, maxround)
    removed = 0
    if dedupe:
        rows, removed = dedupe_runs(rows, info["names"])
        log("trace %s: %d shared-prefix events validated once (removed), %d events to validate" % (label, removed, len(rows)))
    res = core.validate_traces(ctx, name, rows, cfg=name + ".cfg", label=label, max_events=max_events)
    res["deduped"] = removed
    return res


def act_to_step(a):
    a = to_json(a)
    return {"name": a["name"], "n": a["n"], "m": a["m"], "k": a["k"]}


NET_CONSTS = {"ByzValues": '{"Z0", "Z0~", "ZX"}', "LazyByz": "TRUE",
              "TimeoutsOn": '{"NewHeight", "Propose", "PrevoteWait", "PrecommitWait"}'}
NET_INVS = ["Agreement", "DecisionValid", "NoPanic", "DecisionCertified", "NoEquivocation", "CommitPartsMatch"]


def net_mc(ctx, name, info, byz, maxround, weak=(), lazy=True, view=True, invariants=NET_INVS, byzvalues=None):
    consts = dict(NET_CONSTS)
    consts["Byz"] = tla_set(byz)
    consts["LazyByz"] = "TRUE" if lazy else "FALSE"
    if byzvalues is not None:
        consts["ByzValues"] = tla_set(byzvalues)
    return gen_mc(ctx, name, "TMConsensusNet", info, byz, maxround, extra_consts=consts,
                  invariants=invariants, view="View" if view else None, weak=weak)


def graph_to_scheds(g, limit=None):
    scheds = []
    for k, nodes in enumerate(core.graph_schedules(g)):
        steps = [act_to_step(g.nodes[nid]["act"]) for nid in nodes[1:]]
        if steps:
            scheds.append({"id": k, "steps": steps})
        if limit and len(scheds) >= limit:
            break
    return scheds


def sim_to_scheds(ctx, prefix_dir, prefix):
    """-simulate file=<prefix> writes <prefix>_<worker>_<k> files; one behaviour each."""
    from vlib import tlaparse
    scheds = []
    files = sorted(f for f in os.listdir(prefix_dir) if f.startswith(prefix + "_"))
    for k, f in enumerate(files):
        with open(os.path.join(prefix_dir, f)) as fh:
            beh = tlaparse.parse_behaviour_text(fh.read())
        steps = [act_to_step(s["act"]) for _h, s in beh if s.get("act", {}).get("name") not in (None, "Init")]
        if steps:
            scheds.append({"id": k, "steps": steps})
    return scheds


def trace_to_sched(trace, sid=0):
    """counterexample trace [(hdr, state)] of a Net spec -> schedule"""
    steps = [act_to_step(s["act"]) for _h, s in trace if s.get("act", {}).get("name") not in (None, "Init")]
    return {"id": sid, "steps": steps}


C01_INVS = {"Agreement", "DecisionValid", "DecisionCertified", "StoreMatches"}
C02_INVS = {"NoEquivocation", "PrecommitJustified", "LockRespected"}
C03_INVS = {"BoundedRounds", "Termination"}


def solo_act_to_steps(a, me):
    a = to_json(a)
    if a["name"] == "EnvPair":
        return [{"name": "Deliver", "n": me, "m": a["m"], "k": "-"}, {"name": "Deliver", "n": me, "m": a["m2"], "k": "-"}]
    if a["name"] in ("Deliver", "ProcessInternal", "Timeout"):
        return [{"name": a["name"], "n": me, "m": a["m"], "k": a["k"]}]
    return []


def solo_sim_to_scheds(prefix_dir, prefix, me):
    from vlib import tlaparse
    scheds = []
    files = sorted(f for f in os.listdir(prefix_dir) if f.startswith(prefix + "_"))
    for k, f in enumerate(files):
        with open(os.path.join(prefix_dir, f)) as fh:
            beh = tlaparse.parse_behaviour_text(fh.read())
        steps = []
        for _h, s in beh:
            steps += solo_act_to_steps(s["act"], me)
        if steps:
            scheds.append({"id": k, "steps": steps})
    return scheds


def solo_witnesses(out, me, tag="WITNESS"):
    """schedules exported by the Witness 'invariant' of TMConsensusSolo: {goal: [schedule steps]}"""
    from vlib import tlaparse
    res = {}
    for w in tlaparse.extract_tagged(out, tag):
        goal, hist = str(w[1]), w[2]
        steps = []
        for a in hist:
            steps += solo_act_to_steps(a, me)
        res.setdefault(goal, []).append(steps)
    return res


def solo_mc(ctx, name, info, me, maxround, envvalues, weak=(), view=True, invariants=None, noenv=(), witness_k=0, constraint=None):
    adv = [n for n in info["names"] if n != me]
    d = ctx.spec_copy()
    names = info["names"]
    pw = " [] ".join('v = "%s" -> %d' % (n, info["powers"][n]) for n in names)
    ps = ", ".join('"%s"' % p for p in info["proposers"][:maxround + 1])
    with open(os.path.join(d, name + ".tla"), "w") as f:
        f.write("---- MODULE %s ----\nEXTENDS TMConsensusSolo\nPW == [v \\in Vals |-> CASE %s]\nPS == <<%s>>\nADV == <<%s>>\n====\n" % (
            name, pw, ps, ", ".join('"%s"' % a for a in adv)))
    invs = list(invariants if invariants is not None else ["NoEquivocation", "PrecommitJustified", "LockRespected", "ProposalCarriesValid"])
    if witness_k:
        invs.append("Witness")
    lines = ["CONSTANTS", "  Vals = %s" % tla_set(names), '  Me = "%s"' % me, "  Adv <- ADV", "  PowerOf <- PW",
             "  ProposerSeq <- PS", "  MaxRound = %d" % maxround, '  InvalidValues = {"ZX"}',
             "  EnvValues = %s" % tla_set(envvalues), "  Weak = %s" % tla_set(weak), "  NoEnv = %s" % tla_set(noenv), "  WitnessK = %d" % witness_k,
             "INIT Init", "NEXT Next", "CHECK_DEADLOCK FALSE"]
    if invs:
        lines.append("INVARIANTS " + " ".join(invs))
    if view:
        lines.append("VIEW View")
    if constraint:
        lines.append("CONSTRAINT " + constraint)
    with open(os.path.join(d, name + ".cfg"), "w") as f:
        f.write("\n".join(lines) + "\n")
    return name


# ---------------------------------------------------------------------- the repository's own tests, traced (H1 hook)
REPO_TESTS = ("TestState|TestSetValidBlock|TestProposeValidBlock|TestCommitFromPreviousRound|TestStartNextHeight|"
              "TestResetTimeoutPrecommit|TestEmitNewValidBlock|TestWaitingTimeout|TestRoundSkip|TestSignSameVoteTwice")


def record_repo_tests(ctx, binp, regex=REPO_TESTS, timeout=900):
    """Run the consensus package's own scripted tests with the step hook recording; returns
    (list of per-State traces, number of test functions that passed, raw tail)."""
    d = ctx.subdir("repotrace")
    rc, txt = ctx.run_test(binp, "^(%s)" % regex, {"VERIF_TRACE_DIR": d}, timeout=timeout, label="repo-tests")
    npass = txt.count("--- PASS")
    if rc != 0:
        # the repository's tests failing on an edited tree is not our verdict; their traces are still judged
        log("repository tests exited rc=%d (%d passed); traces recorded so far are validated" % (rc, npass))
    traces = []
    for f in sorted(os.listdir(d)):
        if f.startswith("repotrace-") and f.endswith(".ndjson"):
            try:
                rows = core.read_ndjson(os.path.join(d, f))
            except Exception:
                continue            # a truncated last line of a test that was killed
            if len(rows) >= 3 and rows[0].get("ev") == "Reset":
                traces.append(rows)
    return traces, npass, txt[-600:]


def validate_repo_traces(ctx, traces, label="repo"):
    """Group traces by configuration (validators, powers, proposer rotation, node, invalid values) and
    validate each group with TMConsensusTrace."""
    groups = {}
    for rows in traces:
        r0 = rows[0]
        invalid = sorted({x for r in rows for x in _names_in(r) if x.startswith("ZX")})
        key = json.dumps([r0["vals"], r0["powers"], r0["proposers"], r0["corr"], invalid])
        groups.setdefault(key, []).append(rows)
    res = {"viol": [], "drift": [], "runs": 0, "events": 0, "groups": len(groups)}
    for gi, (key, lst) in enumerate(sorted(groups.items())):
        vals, powers, proposers, corr, invalid = json.loads(key)
        info = {"names": vals, "powers": powers, "proposers": proposers}
        byz = [v for v in vals if v not in corr]
        name = "CTrace_%s%d" % (label, gi)
        gen_mc(ctx, name, "TMConsensusTrace", info, byz, lst[0][0]["maxround"])
        if invalid:
            p = os.path.join(ctx.spec_copy(), name + ".cfg")
            txt = open(p).read().replace('InvalidValues = {"ZX"}', "InvalidValues = " + tla_set(invalid))
            open(p, "w").write(txt)
        rows = []
        for k, t in enumerate(lst):
            for r in t:
                r = dict(r)
                r["run"] = k + 1
                rows.append(r)
        v = core.validate_traces(ctx, name, rows, cfg=name + ".cfg", label="%s%d" % (label, gi), max_events=4000)
        for k in ("viol", "drift"):
            res[k] += v[k]
        res["runs"] += v["runs"]
        res["events"] += v["events"]
    return res


def _names_in(r):
    out = []
    p = r.get("post")
    if p:
        out += [p["lockedV"], p["validV"], p["propBlock"], p["partsHdr"], p["decision"], p["prop"]["v"]]
    m = r.get("m")
    if isinstance(m, dict):
        out.append(m.get("v", ""))
    return [x for x in out if isinstance(x, str)]


# ---------------------------------------------------------------------- drift amplification
def amplify_drift(ctx, binp, rows, drifts, base_inp, info, byz, maxround, label, nprefix=8, tails=40, taillen=80):
    """Conformance drift (the real step differs from the spec's step) is not a verdict, but it marks the
    place where the code deviates.  Re-execute the schedules that led to the first drifts and continue each
    of them with many seeded random adversarial tails, so that a deviation which needs further steps to
    become a property violation gets the chance to show it.  Costs nothing on a tree without drift.
    Returns (rows, validation result) or (None, None)."""
    if not drifts:
        return None, None
    runs = {}
    for r in rows:
        runs.setdefault(r.get("run"), []).append(r)
    seen, scheds = set(), []
    for d in drifts:
        row = d["row"]
        run = runs.get(row.get("run"))
        if not run:
            continue
        key = json.dumps({k: row.get(k) for k in ("ev", "n", "m", "k", "post")}, sort_keys=True)
        idx = None
        for i, e in enumerate(run):
            if e.get("ev") == row.get("ev") and json.dumps({k: e.get(k) for k in ("ev", "n", "m", "k", "post")}, sort_keys=True) == key:
                idx = i
                break
        if idx is None:
            continue
        steps = [{"name": e["ev"], "n": e["n"], "m": e.get("m"), "k": e.get("k", "-")} for e in run[1:idx + 1]
                 if e.get("ev") in ("Deliver", "ProcessInternal", "Timeout")]
        sk = json.dumps(steps, sort_keys=True)
        if sk in seen or not steps:
            continue
        seen.add(sk)
        for t in range(tails):
            scheds.append({"id": 900000 + len(scheds), "steps": steps})
        if len(seen) >= nprefix:
            break
    if not scheds:
        return None, None
    inp = dict(base_inp, scheds=scheds, random=0, randtail=taillen)
    arows, astats = run_driver(ctx, binp, inp, "amp-" + label)
    v = validate(ctx, arows, info, byz, maxround, "amp" + label, dedupe=True)
    log("drift amplification %s: %d prefixes x %d tails -> %d property failures" % (label, len(seen), tails, len(v["viol"])))
    return arows, v


def load_prefixes(powers, byz):
    """adversarial prefixes synthesised by lib/synth_prefixes.py for this configuration"""
    d = os.path.join(core.VERIF, "spec", "attacks", "C03")
    out = []
    if os.path.isdir(d):
        for f in sorted(os.listdir(d)):
            if f.endswith(".json"):
                with open(os.path.join(d, f)) as fh:
                    a = json.load(fh)
                if a["powers"] == powers and a["byz"] == byz:
                    out.append(a)
    return out


# ---------------------------------------------------------------------- planning from an observed state
def _balanced(text, start):
    """text of the TLA+ tuple that starts at text[start] == '<' ('<<' ... matching '>>'), string-aware"""
    depth, i, n, instr = 0, start, len(text), False
    while i < n:
        c = text[i]
        if instr:
            if c == "\\":
                i += 1
            elif c == '"':
                instr = False
        elif c == '"':
            instr = True
        elif text.startswith("<<", i):
            depth += 1
            i += 1
        elif text.startswith(">>", i):
            depth -= 1
            i += 1
            if depth == 0:
                return text[start:i + 1]
        i += 1
    return None


def _tla_msg(m):
    return '[t |-> "%s", src |-> "%s", r |-> %d, v |-> "%s", pol |-> %d]' % (m["t"], m["src"], m["r"], m["v"], m["pol"])


def _inq_after(run, me):
    """the node's own-message queue after the rows of `run` (the driver feeds it in FIFO order: every output of a
    step is appended — a proposal as proposal + block — and ProcessInternal pops the head)"""
    q = []
    for e in run:
        if e.get("n") != me or e.get("ev") not in ("Deliver", "ProcessInternal", "Timeout"):
            continue
        if e["ev"] == "ProcessInternal" and q:
            q.pop(0)
        for o in e.get("out") or []:
            if o["t"] == "sched":
                continue
            if o["t"] == "proposal":
                q.append({"t": "proposal", "src": me, "r": o["r"], "v": o["v"], "pol": o["pol"]})
                q.append({"t": "block", "src": "-", "r": -1, "v": o["v"], "pol": -2})
            else:
                q.append({"t": o["t"], "src": me, "r": o["r"], "v": o["v"], "pol": -2})
    return q


def plan_from_drift_solo(ctx, binp, rows, drifts, base_inp, info, byz, maxround, me, label, nprefix=4, budget=150):
    """Conformance drift marks a state of the REAL node that the spec would not have produced.  Use TLC as a planner:
    take the observed state at the first drifting step (node record as projected from the real object, own-message queue,
    signatures released so far), make it the initial state of the design spec TMConsensusSolo (real rules, Weak = {}) and
    search breadth-first for an adversary continuation after which a C02 clause fails.  Such a continuation is the
    adversary's strategy against a node whose state really is what was observed; it is appended to the schedule that led
    to the drift and executed on the real node.  Only what the real node then does is judged (level 2, by the trace spec).
    Costs nothing on a tree without drift.  Returns (rows, validation result) or (None, None)."""
    if not drifts:
        return None, None
    runs = {}
    for r in rows:
        runs.setdefault(r.get("run"), []).append(r)
    plans, seen, percls = [], set(), {}
    for d in drifts:
        row = d["row"]
        if row.get("n") != me or row.get("ev") not in ("Deliver", "ProcessInternal", "Timeout"):
            continue
        cls = json.dumps([d.get("what"), d.get("fields")], sort_keys=True)
        run = runs.get(row.get("run")) or []
        key = json.dumps({k: row.get(k) for k in ("ev", "n", "m", "k", "post")}, sort_keys=True)
        idx = next((i for i, e in enumerate(run) if e.get("ev") == row.get("ev") and
                    json.dumps({k: e.get(k) for k in ("ev", "n", "m", "k", "post")}, sort_keys=True) == key), None)
        if idx is None or any(e.get("ev") == "Set" for e in run[:idx + 1]):
            continue            # deduplicated runs do not carry their own prefix; the first run with this prefix does
        prefix = run[:idx + 1]
        steps = [{"name": e["ev"], "n": e["n"], "m": e.get("m"), "k": e.get("k", "-")} for e in prefix[1:]
                 if e.get("ev") in ("Deliver", "ProcessInternal", "Timeout")]
        sk = json.dumps(steps, sort_keys=True)
        if sk in seen or percls.get(cls, 0) >= 2:
            continue
        if len(seen) >= nprefix + 2:          # attempts, successful or not
            break
        seen.add(sk)
        percls[cls] = percls.get(cls, 0) + 1
        k = len(plans)
        # 1. the observed state, as TLC sees it after consuming the prefix with the trace spec
        name = "PlanDump_%s_%d" % (label, k)
        gen_mc(ctx, name, "TMConsensusTrace", info, byz, maxround, next_="PlanNext")
        base = ctx.spec_copy()
        with open(os.path.join(base, name + ".tla")) as f:
            txt = f.read()
        txt = txt.replace("====", 'PlanFinish == l = Len(Trace) + 1 /\\ PrintT(<<"PLANSTATE", st, sgn>>) /\\ l\' = l + 1 /\\ '
                          'UNCHANGED <<st, dec, sgn, gst, viol, drift, wlog>>\nPlanNext == Step \\/ PlanFinish\n====')
        with open(os.path.join(base, name + ".tla"), "w") as f:
            f.write(txt)
        dd = os.path.join(ctx.work, "plan-%s-%d" % (label, k))
        shutil.copytree(base, dd)
        core.write_ndjson(os.path.join(dd, "trace.ndjson"), prefix)
        r = ctx.tlc(name, name + ".cfg", cwd=dd, workers=1, timeout=300, deque=True, label=name)
        import re as _re
        mm = _re.search(r'<<\s*"PLANSTATE"', r.out)
        st_txt = _balanced(r.out, mm.start()) if mm else None
        shutil.rmtree(dd, ignore_errors=True)
        if not st_txt:
            log("plan %s/%d: no state dump" % (label, k))
            continue
        # 2. the design spec from that state
        vals = sorted({x for e in prefix for x in _names_in(e) if x and x not in ("-", "nil") and not x.startswith("B")} | {"Z0", "Z1"})
        pname = "Plan_%s_%d" % (label, k)
        solo_mc(ctx, pname, info, me, maxround, vals)
        with open(os.path.join(base, pname + ".tla")) as f:
            txt = f.read()
        inq = "<<" + ", ".join(_tla_msg(m) for m in _inq_after(prefix, me)) + ">>"
        txt = txt.replace("====", r'''PLANSTATE == %s
PSt == PLANSTATE[2][Me]
PSg == PLANSTATE[3][Me]
PSeqSet(q) == {q[i] : i \in DOMAIN q}
PlanInit ==
  /\ s = PSt
  /\ inq = %s
  /\ sig = [k \in SigKeys |-> LET I == {i \in DOMAIN PSg : PSg[i].t = k[1] /\ PSg[i].r = k[2]} IN
               IF I = {} THEN NoSig ELSE LET i == CHOOSE x \in I : \A y \in I : y <= x IN [v |-> PSg[i].v, pol |-> PSg[i].pol]]
  /\ lock = LET I == {i \in DOMAIN PSg : PSg[i].t = "precommit" /\ PSg[i].v # Nil} IN
               IF I = {} THEN [r |-> -1, v |-> Nil] ELSE LET i == CHOOSE x \in I : \A y \in I : y <= x IN [r |-> PSg[i].r, v |-> PSg[i].v]
  /\ have = UNION {PSeqSet(PSg[i].held) : i \in DOMAIN PSg} \cup ({PSt.propBlock} \ {Nil})
  /\ bad = {}
  /\ act = [name |-> "Init", m |-> NoMsg, m2 |-> NoMsg, k |-> "-"]
  /\ hist = << >>
====''' % (st_txt, inq))
        with open(os.path.join(base, pname + ".tla"), "w") as f:
            f.write(txt)
        with open(os.path.join(base, pname + ".cfg")) as f:
            c = f.read()
        with open(os.path.join(base, pname + ".cfg"), "w") as f:
            f.write(c.replace("INIT Init", "INIT PlanInit"))
        rp = ctx.tlc(pname, pname + ".cfg", timeout=budget, heap="8g", label=pname)
        if rp.errors:
            ctx.save_log(pname, rp.out)
            log("plan %s/%d: TLC error %s" % (label, k, rp.errors[:1]))
            continue
        if not rp.violations:
            log("plan %s/%d: no continuation found that breaks a clause (%d states, %ds)" % (label, k, rp.distinct, budget))
            continue
        tail = []
        for _h, stt in rp.violations[0]["trace"][1:]:
            tail += solo_act_to_steps(stt["act"], me)
        log("plan %s/%d: continuation of %d steps breaks %s in the design spec from the observed state" % (
            label, k, len(tail), rp.violations[0]["name"]))
        plans.append({"id": 950000 + k, "steps": steps + tail})
        if len(plans) >= nprefix:
            break
    if not plans:
        return None, None
    inp = dict(base_inp, scheds=plans, random=0, randtail=0)
    prow, _st = run_driver(ctx, binp, inp, "plan-" + label)
    v = validate(ctx, prow, info, byz, maxround, "plan" + label, dedupe=False)
    log("planned continuations %s: %d schedules -> %d property failures on the real node" % (label, len(plans), len(v["viol"])))
    return prow, v


# ---------------------------------------------------------------------- TLC as planner behind a given prefix (network spec)
def _tla_step(st):
    m = st.get("m") or {"t": "-", "src": "-", "r": -1, "v": "-", "pol": -2}
    return '[name |-> "%s", n |-> "%s", m |-> %s, k |-> "%s"]' % (st["name"], st["n"], _tla_msg(m), st.get("k") or "-")


def restart_mc(ctx, name, info, byz, maxround, weak=(), lazy=True, view=True, invariants=(), byzvalues=None,
               max_restarts=1):
    """TMConsensusRestart (TMConsensusNet + WAL + stop/start inside the height)."""
    consts = dict(NET_CONSTS)
    consts["Byz"] = tla_set(byz)
    consts["LazyByz"] = "TRUE" if lazy else "FALSE"
    consts["MaxRestarts"] = str(max_restarts)
    if byzvalues is not None:
        consts["ByzValues"] = tla_set(byzvalues)
    return gen_mc(ctx, name, "TMConsensusRestart", info, byz, maxround, extra_consts=consts, init="RInit", next_="RNext",
                  invariants=invariants, view="RView" if view else None, weak=weak)


def net_plan(ctx, name, info, byz, maxround, prefix_steps, weak, invariant, corridor=None, slack=14, budget=900, byzvalues=None,
             restarts=None):
    """Breadth-first search of TMConsensusNet (with the Weak switches given) for a violation of `invariant` among the
    behaviours that START WITH the schedule `prefix_steps` and continue freely for at most `slack` steps (inside the
    state constraint `corridor`, if any).  Returns (all steps, TLCResult) or (None, TLCResult).  Synthesis only."""
    init, nxt = "Init", "Next"
    if restarts is None:
        net_mc(ctx, name, info, byz, maxround, weak=weak, lazy=False, view=False, invariants=[invariant], byzvalues=byzvalues)
    else:     # behaviours of TMConsensusRestart; restarts = {"max": n}
        restart_mc(ctx, name, info, byz, maxround, weak=weak, lazy=False, view=False, invariants=[invariant], byzvalues=byzvalues,
                   max_restarts=restarts.get("max", 2))
        init, nxt = "RInit", "RNext"
    d = ctx.spec_copy()
    with open(os.path.join(d, name + ".tla")) as f:
        txt = f.read()
    sched = "<<" + ",\n  ".join(_tla_step(s) for s in prefix_steps) + ">>"
    txt = txt.replace("====", """VARIABLE pc
PSched == %s
PInit == %s /\\ pc = 0
PNext == /\\ %s
         /\\ pc' = pc + 1
         /\\ (pc < Len(PSched) => (act'.name = PSched[pc + 1].name /\\ act'.n = PSched[pc + 1].n /\\ act'.k = PSched[pc + 1].k
                                    /\\ (act'.name # "Deliver" \\/ act'.m = PSched[pc + 1].m)))
PBound == pc <= Len(PSched) + %d
PCorridor == pc <= Len(PSched) \\/ %s
====""" % (sched, init, nxt, slack, corridor or "TRUE"))
    with open(os.path.join(d, name + ".tla"), "w") as f:
        f.write(txt)
    with open(os.path.join(d, name + ".cfg")) as f:
        c = f.read()
    with open(os.path.join(d, name + ".cfg"), "w") as f:
        f.write(c.replace("INIT " + init, "INIT PInit").replace("NEXT " + nxt, "NEXT PNext") + "CONSTRAINT PBound\nCONSTRAINT PCorridor\n")
    r = ctx.tlc(name, name + ".cfg", timeout=budget, heap="12g", label=name)
    if not r.violations:
        return None, r
    return trace_to_sched(r.violations[0]["trace"])["steps"], r


PLAN_NET_INVS = ["Agreement", "DecisionValid", "DecisionCertified", "NoEquivocation", "CommitPartsMatch"]


def plan_from_drift_net(ctx, binp, rows, drifts, base_inp, info, byz, maxround, label, nprefix=3, budget=150, invariants=PLAN_NET_INVS):
    """Network counterpart of plan_from_drift_solo: the observed states of ALL correct nodes at the first drifting step (plus
    their own-message queues, the messages already visible to the network and the signatures released so far) become the
    initial state of the design spec TMConsensusNet (real rules); TLC searches breadth-first for a continuation that breaks
    a C01 invariant (or strands a node in the commit step); the continuation is appended to the schedule and executed on
    the real nodes (followed by whatever tail the caller's input asks for, e.g. the synchronous suffix).  Planning only:
    the verdict comes from the trace of the real run.  Costs nothing on a tree without drift."""
    import re as _re
    if not drifts:
        return None, None
    runs = {}
    for r in rows:
        runs.setdefault(r.get("run"), []).append(r)
    corr = [n for n in info["names"] if n not in byz]
    plans, seen, percls = [], set(), {}
    for d in drifts:
        row = d["row"]
        if row.get("ev") not in ("Deliver", "ProcessInternal", "Timeout"):
            continue
        cls = json.dumps([d.get("what"), d.get("fields")], sort_keys=True)
        run = runs.get(row.get("run")) or []
        key = json.dumps({k: row.get(k) for k in ("ev", "n", "m", "k", "post")}, sort_keys=True)
        idx = next((i for i, e in enumerate(run) if e.get("ev") == row.get("ev") and
                    json.dumps({k: e.get(k) for k in ("ev", "n", "m", "k", "post")}, sort_keys=True) == key), None)
        if idx is None or any(e.get("ev") in ("Set", "GST") for e in run[:idx + 1]):
            continue
        prefix = run[:idx + 1]
        steps = [{"name": e["ev"], "n": e["n"], "m": e.get("m"), "k": e.get("k", "-")} for e in prefix[1:]
                 if e.get("ev") in ("Deliver", "ProcessInternal", "Timeout")]
        sk = json.dumps(steps, sort_keys=True)
        if sk in seen or percls.get(cls, 0) >= 2:
            continue
        if len(seen) >= nprefix + 1:          # attempts, successful or not (each costs up to `budget` seconds)
            break
        seen.add(sk)
        percls[cls] = percls.get(cls, 0) + 1
        k = len(seen)
        name = "PlanDumpN_%s_%d" % (label, k)
        gen_mc(ctx, name, "TMConsensusTrace", info, byz, maxround, next_="PlanNext")
        base = ctx.spec_copy()
        with open(os.path.join(base, name + ".tla")) as f:
            txt = f.read()
        txt = txt.replace("====", 'PlanFinish == l = Len(Trace) + 1 /\\ PrintT(<<"PLANSTATE", st, sgn>>) /\\ l\' = l + 1 /\\ '
                          'UNCHANGED <<st, dec, sgn, gst, viol, drift, wlog>>\nPlanNext == Step \\/ PlanFinish\n====')
        with open(os.path.join(base, name + ".tla"), "w") as f:
            f.write(txt)
        dd = os.path.join(ctx.work, "plann-%s-%d" % (label, k))
        shutil.copytree(base, dd)
        core.write_ndjson(os.path.join(dd, "trace.ndjson"), prefix)
        r = ctx.tlc(name, name + ".cfg", cwd=dd, workers=1, timeout=300, deque=True, label=name)
        mm = _re.search(r'<<\s*"PLANSTATE"', r.out)
        st_txt = _balanced(r.out, mm.start()) if mm else None
        shutil.rmtree(dd, ignore_errors=True)
        if not st_txt:
            log("plan %s/%d: no state dump" % (label, k))
            continue
        vals = sorted({x for e in prefix for x in _names_in(e) if x and x not in ("-", "nil") and not x.startswith("B")} | {"Z0", "ZX"})
        pname = "PlanN_%s_%d" % (label, k)
        net_mc(ctx, pname, info, byz, maxround, lazy=True, view=False, invariants=list(invariants), byzvalues=vals)
        inq = " [] ".join('n = "%s" -> <<%s>>' % (n, ", ".join(_tla_msg(m) for m in _inq_after(prefix, n))) for n in corr)
        soup = ", ".join(sorted({_tla_msg(e["m"]) for e in prefix if e.get("ev") == "ProcessInternal" and isinstance(e.get("m"), dict)}))
        signed = ", ".join(sorted({'[n |-> "%s", t |-> "%s", r |-> %d, v |-> "%s", pol |-> %d]' % (e["n"], o["t"], o["r"], o["v"], o["pol"])
                                   for e in prefix for o in (e.get("out") or []) if o.get("t") != "sched" and e.get("n") in corr}))
        with open(os.path.join(base, pname + ".tla")) as f:
            txt = f.read()
        txt = txt.replace("====", r'''PLANSTATE == %s
PlanInit ==
  /\ rs = PLANSTATE[2]
  /\ inq = [n \in Corr |-> CASE %s]
  /\ soup = {%s}
  /\ signed = {%s}
  /\ act = [name |-> "Init", n |-> "-", m |-> [t |-> "-", src |-> "-", r |-> -1, v |-> "-", pol |-> -2], k |-> "-"]
PlanR == LET S == {PLANSTATE[2][n].round : n \in Corr} IN CHOOSE x \in S : \A y \in S : y <= x
PlanCorridor == \A n \in Corr : rs[n].round <= PlanR + 1
====''' % (st_txt, inq, soup, signed))
        with open(os.path.join(base, pname + ".tla"), "w") as f:
            f.write(txt)
        with open(os.path.join(base, pname + ".cfg")) as f:
            c = f.read()
        with open(os.path.join(base, pname + ".cfg"), "w") as f:
            f.write(c.replace("INIT Init", "INIT PlanInit") + "CONSTRAINT PlanCorridor\n")
        rp = ctx.tlc(pname, pname + ".cfg", timeout=budget, heap="8g", label=pname)
        if rp.errors:
            ctx.save_log(pname, rp.out)
            log("plan %s/%d: TLC error %s" % (label, k, rp.errors[:1]))
            continue
        if not rp.violations:
            log("plan %s/%d: no continuation found that breaks an invariant (%d states)" % (label, k, rp.distinct))
            continue
        tail = trace_to_sched(rp.violations[0]["trace"][1:])["steps"]
        log("plan %s/%d: continuation of %d steps breaks %s in the design spec from the observed state" % (
            label, k, len(tail), rp.violations[0]["name"]))
        plans.append({"id": 960000 + k, "steps": steps + tail})
        if len(plans) >= nprefix:
            break
    if not plans:
        return None, None
    inp = dict(base_inp, scheds=plans, random=0, randtail=0)
    prow, _st = run_driver(ctx, binp, inp, "plann-" + label)
    v = validate(ctx, prow, info, byz, maxround, "plann" + label, dedupe=False)
    log("planned continuations %s: %d schedules -> %d property failures on the real nodes" % (label, len(plans), len(v["viol"])))
    return prow, v


# ---------------------------------------------------------------- stop/start inside a height (TMConsensusRestart)
RESTART_WEAK = (("ClaimsNotLogged", "LockSurvives"), ("WalSkipsBlockParts", "ReplayFaithful"),
                ("WalSkipsTimeouts", "ReplayFaithful"), ("WalSkipsOwnVotes", "ReplayFaithful"))


def restart_section(ctx, binp, attacks, account, cov, totals, label="R", walks=None, quick=None, exhaustive=True, only_weak=None):
    """Nodes run the real receiveRoutine on a real WAL (routine mode of the driver); a node may be stopped and started
    inside the height (real catchupReplay).  TLC: TMConsensusRestart exhaustive on 2+1 with one restart (all network
    invariants + ReplayFaithful + LockSurvives), its weak switches refuted on 3+1 round 0 and the counterexamples
    (followed by the restart they prepare) executed on the real nodes, simulated behaviours with restarts, the
    restart schedules of the attack library, random walks with restarts.  Everything observed is validated by
    TMConsensusTrace (StepRestart folds the observed log)."""
    quick = ctx.tier == "quick" if quick is None else quick
    out = {}
    # R1: exhaustive, 2 correct + 1 faulty, rounds 0..1, at most one restart (thorough: two)
    powers, byz = [2, 2, 1], ["v2"]
    info = run_driver(ctx, binp, {"mode": "info", "powers": powers, "byz": byz, "maxround": 14}, "info" + label)
    if exhaustive:
        mc = restart_mc(ctx, "CR_small_" + label, info, byz, 1, invariants=NET_INVS + ["ReplayFaithful", "LockSurvives"],
                        max_restarts=1 if quick else 2)
        r1 = ctx.tlc(mc, mc + ".cfg", must_pass=True, timeout=3000, label="restart_small")
        totals["states"] += r1.distinct
        totals["transitions"] += r1.generated
        out["exhaustive_2+1"] = {"states": r1.distinct, "max_restarts": 1 if quick else 2, "exhaustive": not r1.timed_out}
    # R2: non-vacuity on 3 correct + 1 faulty, round 0; each counterexample + the restart it prepares runs on real nodes
    powers3 = [1, 1, 1, 1]
    info3 = run_driver(ctx, binp, {"mode": "info", "powers": powers3, "byz": [], "maxround": 14}, "info3" + label)
    byz3 = [info3["names"][3]]
    corr3 = [n for n in info3["names"] if n not in byz3]
    scheds, nonvac = [], {}
    for k, (weak, inv) in enumerate([x for x in RESTART_WEAK if only_weak is None or x[0] in only_weak]):
        m2 = restart_mc(ctx, "CR_weak_%s_%s" % (weak, label), info3, byz3, 0, weak=[weak], invariants=[inv], max_restarts=1)
        rw = ctx.tlc(m2, m2 + ".cfg", timeout=900, label="restart_weak_" + weak)
        found = [x["name"] for x in rw.violations]
        nonvac[weak] = found
        if not found:
            raise Undecided("vacuity: TMConsensusRestart with the switch %s is not refuted by TLC" % weak)
        steps = trace_to_sched(rw.violations[0]["trace"])["steps"]
        for n in corr3:
            scheds.append({"id": 300000 + 10 * k + corr3.index(n),
                           "steps": steps + [{"name": "Restart", "n": n, "m": {"t": "-", "src": "-", "r": -1, "v": "-", "pol": -2}, "k": "-"}]})
    out["nonvacuity"] = nonvac
    # R3: simulated behaviours of the real restart spec (3+1, rounds 0..2)
    mcs = restart_mc(ctx, "CR_sim_" + label, info3, byz3, 2, lazy=False, view=False, invariants=NET_INVS + ["ReplayFaithful", "LockSurvives"],
                     max_restarts=3)
    nb = 12 if quick else 200
    pref = "behR" + label
    rs_ = ctx.tlc(mcs, mcs + ".cfg", simulate="file=%s,num=%d" % (os.path.join(ctx.spec_copy(), pref), nb),
                  depth=70, seed=ctx.seed, workers=1, timeout=1500, label="restart_sim")
    if rs_.violations or rs_.errors:
        ctx.save_log("simR" + label, rs_.out)
        raise Undecided("simulation of TMConsensusRestart reported %s" % (rs_.violations or rs_.errors)[:1])
    totals["transitions"] += rs_.generated
    sims = sim_to_scheds(ctx, ctx.spec_copy(), pref)
    for k, sc in enumerate(sims):
        sc["id"] = 310000 + k
    n_restarts_sim = sum(1 for sc in sims for st in sc["steps"] if st["name"] == "Restart")
    scheds += sims
    lib = [a for a in attacks if a.get("restart") and a["powers"] == powers3 and a["byz"] == byz3]
    nwalk = walks if walks is not None else (12 if quick else 150)
    stats_all = {}
    for stamp in (0, 1):
        for fpv in ([False] if quick else [False, True]):
            sch = list(scheds) if stamp == 0 else []
            sch += [{"id": 320000 + k, "steps": a["steps"]} for k, a in enumerate(lib) if a.get("stamp", 0) == stamp]
            tag = "%s%d%s" % (label, stamp, "f" if fpv else "m")
            inp = {"mode": "replay", "dups": 0, "powers": powers3, "byz": byz3, "maxround": 9, "filepv": fpv, "scheds": sch,
                   "routine": True, "stamp": stamp, "restarts": 14, "synctail": True, "byzafter": True,
                   "random": nwalk // 2, "randlen": 160}
            rows, stats = run_driver(ctx, binp, inp, tag)
            v = validate(ctx, rows, info3, byz3, 9, tag)
            account(v, rows, "3+1 with stop/start inside the height (real receiveRoutine, WAL, catchupReplay), part stamp +%d, %s" %
                    (stamp, "FilePV" if fpv else "MockPV"))
            for k2 in stats:
                stats_all[k2] = stats_all.get(k2, 0) + stats[k2]
            out.setdefault("restarts_executed", 0)
            out["restarts_executed"] += sum(1 for r in rows if r.get("ev") == "Restart")
    out.update({"simulated_behaviours": len(sims), "restarts_in_simulated_behaviours": n_restarts_sim,
                "attack_schedules": [a["name"] for a in lib], "driver": stats_all})
    cov["restart_family"] = out
    return out
