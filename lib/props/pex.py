"""PEX - the p2p address book (p2p/pex/addrbook.go, known_address.go, file.go) - auxiliary check.

Spec: spec/TMAddrBook.tla (operators, properties), spec/TMAddrBookSM.tla (design state machine),
spec/mc/PEX_* (TLC instances, Weak_* non-vacuity configs); trace spec: spec/trace/TMAddrBookTrace.tla;
harness: harness/inpkg/p2p/pex/zz_verif_pex_test.go (overlay, package pex), built twice: against the
production constants of params.go and against a copy of the tree's own params.go with tiny bucket
counts/sizes (so that the collisions/evictions the small TLC model explores happen on the real code).

Properties (stated in the header of TMAddrBook.tla): BucketShape, CountsExact, BucketBound, BannedNotKnown,
KeyedById, RepAgree, AddFilter, OldIsSticky, MarkGoodKeeps, ReinstateKeeps/BanHolds, BanTakesEffect,
PickSound, SelectionSound, SaveLoadIdentity, QueriesAgree, NoPanic.
"""
import hashlib
import json
import os
import re
from concurrent.futures import ThreadPoolExecutor

from vlib import core
from vlib import tlaparse
from vlib.core import Undecided, log
from vlib.tlaparse import to_json

# Behaviour of the UNCHANGED v0.34 tree that breaks a stated property: reported as FINDING-REPRODUCED
# (exit code stays 0), each with a tested repair in proposed-fixes/PEX-*.diff.  Narrow: (inv, class) as
# computed by TLC on the observed step.  Everything else TLC reports on an observed trace is a VIOLATION.
FINDINGS = {
    ("MarkGoodKeeps", "displaced_old_address_dropped"): "PEX-F1-displaced-old-address-dropped",
    ("ReinstateKeeps", "expired_ban_of_old_peer_dropped"): "PEX-F2-reinstated-old-peer-dropped",
    ("SelectionSound", "bias_selection_one_more_than_requested"): "PEX-F3-bias-selection-overshoot",
    ("BucketBound", "new_bucket_holds_size_plus_one"): "PEX-F4-bucket-size-off-by-one",
    ("BucketBound", "old_bucket_holds_size_plus_one"): "PEX-F4-bucket-size-off-by-one",
    ("NoPanic", "IsGood_of_unknown_address_panics"): "PEX-F5-IsGood-nil-dereference",
}

WEAK = {  # switch -> the invariant / action property TLC must refute with it
    "DemoteKeepsOldType": "PropMarkGood", "ReinstateKeepsOldType": "PropReinstate", "PickAtLeastOne": "InvSelectionBound",
    "BucketFullOffByOne": "InvBucketBound", "NoBanCheck": "InvBannedNotKnown", "NoPrivateCheck": "PropAddFilter",
    "NoSelfCheck": "PropAddFilter", "NoRoutableCheck": "PropAddFilter", "ExpireKeepsCount": "InvCountsExact",
    "NoMaxBucketsPerAddr": "InvBucketShape", "MarkBadKeepsAddress": "InvBannedNotKnown",
    "ReinstateIgnoresBanTime": "PropReinstate", "LoadSkipsCounts": "InvCountsExact", "OldNotSticky": "PropAddFilter",
    "SelectionIgnoresMax": "InvSelectionBound",
}
RWEAK = {  # reactor discipline model (spec/TMAddrBookPex.tla): cfg suffix -> property TLC must refute
    "NoRateLimit": "RateLimited", "AcceptUnsolicited": "PropSolicited", "RequestAlways": "OneOutstanding",
    "RemoveKeepsState": "CleanWhenGone", "SeedAnswersEveryRequest": "SeedOnce",
}
ASIS = ["DemoteKeepsOldType", "ReinstateKeepsOldType", "PickAtLeastOne", "BucketFullOffByOne"]

SMALL = {"needAddressThreshold": 4, "oldBucketSize": 1, "oldBucketCount": 2, "newBucketSize": 2, "newBucketCount": 2,
         "maxNewBucketsPerAddress": 2, "getSelectionPercent": 50, "minGetSelection": 2, "maxGetSelection": 3}

# the model universe of spec/mc/PEX_book.tla (MCAddrsS, MCSrcs) and its bucket functions
M_ADDRS = [("p1", "e1", "ok"), ("p1", "e9", "ok"), ("p2", "e2", "ok"), ("p3", "e3", "ok"), ("p4", "e4", "unroutable"), ("p5", "e5", "invalid")]
M_SRCS = [("s1", "f1"), ("s2", "f2")]
_NUM = {"p1": 1, "p2": 2, "p3": 3, "p4": 4, "p5": 5, "s1": 0, "s2": 1, "e9": 1}


def _num(s):
    return _NUM.get(s, 0)


def model_tables(nb, ob, epochs=2):
    """MCNewBucketOf / MCOldBucketOf of PEX_book.tla (the harness searches real addresses whose real keyed
    hashes realise these tables; the trace carries the buckets the real code computed, so a wrong table
    only costs coverage)."""
    nbt, obt = [], []
    for i, (aid, aep, kind) in enumerate(M_ADDRS):
        if kind != "ok":
            continue
        for e in range(epochs):
            for j, (sid, _sep) in enumerate(M_SRCS):
                nbt.append([i, j, e, (_num(aid) + _num(aep) + _num(sid) + e) % nb])
            obt.append([i, e, (_num(aid) + e) % ob])
    return nbt, obt


def small_params(ctx):
    """the tree's own params.go with tiny bucket constants (overlay for the second harness build)"""
    src = os.path.join(ctx.repo, "p2p", "pex", "params.go")
    with open(src) as f:
        txt = f.read()
    for k, v in SMALL.items():
        txt, n = re.subn(r'^(\s*%s)\s*=\s*\d+' % k, lambda m: "%s = %d" % (m.group(1), v), txt, flags=re.M)
        if n != 1:
            raise Undecided("params.go: constant %s not found (edited tree?)" % k)
    d = ctx.subdir("smallparams")
    p = os.path.join(d, "params.go")
    with open(p, "w") as f:
        f.write(txt)
    return p


def behaviours_to_runs(files, prefix, seedrng):
    """TLC -simulate behaviours of TMAddrBookSM -> API call sequences (queries injected: they are not
    actions of the state machine, their results are judged against the observed state)."""
    runs = []
    biases = [-5, 0, 30, 50, 99, 100, 120]
    for k, path in enumerate(sorted(files)):
        with open(path) as f:
            beh = tlaparse.parse_behaviour_text(f.read())
        steps = []
        for _h, st in beh[1:]:
            a = to_json(st["act"])
            n = a["name"]
            if n in ("Init",):
                continue
            s = {"op": n, "a": a["a"], "s": a["s"], "id": a["id"], "d": a["d"], "bias": 0, "coin": a["coin"]}
            steps.append(s)
            x = seedrng(len(steps) * 131 + k)
            if x % 3 == 0:
                steps.append({"op": ["PickAddress", "GetSelectionWithBias", "GetSelection", "Queries"][(x // 3) % 4],
                              "a": {"id": "p%d" % (1 + x % 3), "ep": "e%d" % (1 + x % 3)}, "s": {"id": "none", "ep": "none"},
                              "id": "none", "d": 0, "bias": biases[(x // 7) % len(biases)], "coin": ""})
        if steps:
            runs.append({"id": "%s%d" % (prefix, k), "strict": True, "steps": steps})
    return runs


def run_harness(ctx, binp, inp_obj, label):
    inp = os.path.join(ctx.work, "pex-in-%s.json" % label)
    with open(inp, "w") as f:
        json.dump(inp_obj, f)
    out = ctx.subdir("pex-out-" + label)
    rc, txt = ctx.run_test(binp, "^TestVerifPEX$", {"VERIF_IN": inp, "VERIF_OUT": out}, timeout=900, label="pex_" + label)
    if rc != 0:
        ctx.save_log("harness-" + label, txt)
        raise Undecided("PEX harness (%s) failed (rc=%d): %s" % (label, rc, txt[-1500:]))
    rows = core.read_ndjson(os.path.join(out, "book.ndjson"))
    os.remove(os.path.join(out, "book.ndjson"))
    if not rows:
        raise Undecided("PEX harness (%s) wrote no events" % label)
    return rows


def judge(ctx, fam, rows, verdict, findings, drift, max_events):
    v = core.validate_traces(ctx, "TMAddrBookTrace", rows, label=fam, max_events=max_events, timeout=1500)
    for x in v["viol"]:
        run = x["prefix"][0].get("run", "?") if x["prefix"] else "?"
        sig = {"inv": x["inv"], "class": x["class"], "build": fam}
        payload = {"failing_step": x["row"], "prefix": x["prefix"], "run": run, "build": fam,
                   "tlc": {"inv": x["inv"], "class": x["class"]}}
        fid = FINDINGS.get((x["inv"], x["class"]))
        if fid:
            findings.setdefault(fid, []).append((sig, payload))
        else:
            verdict.add({"inv": x["inv"], "class": x["class"]}, payload)
    for x in v["drift"]:
        drift.append({"build": fam, "what": x["what"], "step": {k: x["row"].get(k) for k in x["row"] if k != "post"}})
    return v


def store_findings(ctx, findings):
    d = os.path.join(os.environ.get("VERIF_REPLAYS", os.path.join(ctx.verif, "replays")), ctx.prop)
    out = {}
    for fid, items in sorted(findings.items()):
        items = sorted(items, key=lambda it: len(it[1]["prefix"]))
        sig, payload = items[0]
        os.makedirs(d, exist_ok=True)
        p = os.path.join(d, "finding-%s.json" % fid)
        with open(p, "w") as f:
            json.dump({"property": ctx.prop, "signature": sig, "finding": fid, "replay": payload}, f, default=str)
        print("FINDING-REPRODUCED: %s %s (%s/%s, %d times) replay=%s" % (ctx.prop, fid, sig["inv"], sig["class"], len(items), p), flush=True)
        out[fid] = {"inv": sig["inv"], "class": sig["class"], "count": len(items), "replay": p}
    return out


def run(ctx):
    quick = ctx.tier == "quick"
    W = max(1, min(ctx.cores, 6))
    sp = ctx.spec_copy()

    # ---- 1. design spec: exhaustive configs, non-vacuity, replay material -------------------------------------
    exh = [("book", "PEX_book_q.cfg" if quick else "PEX_book.cfg"), ("filter", "PEX_filter.cfg"), ("time", "PEX_time_q.cfg" if quick else "PEX_time.cfg")]
    res = {}
    for label, cfg in exh:
        res[label] = ctx.tlc("PEX_book", cfg, workers=W, timeout=1500, must_pass=True, heap="4g", label=label)
    simd = os.path.join(sp, "pexsim")
    os.makedirs(simd, exist_ok=True)
    nsim = 40 if quick else 300
    cfg_rep = core.cfg_variant(ctx, "PEX_book.cfg", "PEX_replay.cfg", {}, drop_view=True, drop_properties=True, invariants=[])
    cfg_asis = core.cfg_variant(ctx, "PEX_book.cfg", "PEX_asis.cfg", {"Weak_" + w: True for w in ASIS}, drop_view=True,
                                drop_properties=True, invariants=[])
    cfg_timer = core.cfg_variant(ctx, "PEX_time.cfg", "PEX_time_replay.cfg", {}, drop_view=True, drop_properties=True, invariants=[])
    jobs = [("sim_rep", dict(module="PEX_book", cfg=cfg_rep, simulate="file=%s,num=%d" % (os.path.join(simd, "r"), nsim), depth=28,
                             seed=ctx.seed, workers=1, timeout=600, must_pass=True, label="sim_repaired")),
            ("sim_asis", dict(module="PEX_book", cfg=cfg_asis, simulate="file=%s,num=%d" % (os.path.join(simd, "a"), nsim), depth=28,
                              seed=ctx.seed + 1000, workers=1, timeout=600, must_pass=True, label="sim_asis")),
            ("sim_time", dict(module="PEX_book", cfg=cfg_timer, simulate="file=%s,num=%d" % (os.path.join(simd, "t"), nsim // 2), depth=24,
                              seed=ctx.seed + 2000, workers=1, timeout=600, must_pass=True, label="sim_time"))]
    jobs.append(("reactor", dict(module="TMAddrBookPex", cfg="PEX_reactor.cfg", workers=2, timeout=900, must_pass=True, label="reactor")))
    jobs.append(("reactor_seed", dict(module="TMAddrBookPex", cfg="PEX_reactor_seed.cfg", workers=2, timeout=900, must_pass=True,
                                      label="reactor_seed")))
    for w in RWEAK:
        jobs.append(("rweak_" + w, dict(module="TMAddrBookPex", cfg="PEX_rweak_%s.cfg" % w, workers=1, timeout=600, label="rweak_" + w)))
    for w in WEAK:
        jobs.append(("weak_" + w, dict(module="PEX_book", cfg="PEX_weak_%s.cfg" % w, workers=1, timeout=600, label="weak_" + w)))
    with ThreadPoolExecutor(max_workers=max(2, min(ctx.cores, 6))) as ex:
        futs = {name: ex.submit(ctx.tlc, kw.pop("module"), kw.pop("cfg"), **kw) for name, kw in jobs}
        for name, fu in futs.items():
            res[name] = fu.result()
    nonvac = {}
    for w, inv in WEAK.items():
        r = res["weak_" + w]
        ok = any(v["name"] == inv for v in r.violations)
        nonvac["Weak_%s refuted (%s)" % (w, inv)] = ok
        if not ok:
            ctx.save_log("weak_" + w, r.out)
            raise Undecided("vacuity: weakened spec Weak_%s does not violate %s" % (w, inv))

    for w, inv in RWEAK.items():
        r = res["rweak_" + w]
        ok = any(v["name"] == inv for v in r.violations)
        nonvac["reactor model: Weak_%s refuted (%s)" % (w, inv)] = ok
        if not ok:
            ctx.save_log("rweak_" + w, r.out)
            raise Undecided("vacuity: weakened reactor spec Weak_%s does not violate %s" % (w, inv))

    def rng(x):
        return int(hashlib.sha256(("%d-%d" % (ctx.seed, x)).encode()).hexdigest()[:8], 16)

    def simfiles(pfx):
        return [os.path.join(simd, f) for f in os.listdir(simd) if re.match(r'^%s_\d+_\d+$' % pfx, f)]
    runs = behaviours_to_runs(simfiles("r"), "rep", rng) + behaviours_to_runs(simfiles("a"), "asis", rng) \
        + behaviours_to_runs(simfiles("t"), "time", rng)
    if len(runs) < nsim:
        raise Undecided("only %d behaviours exported by TLC" % len(runs))
    nbt, obt = model_tables(SMALL["newBucketCount"], SMALL["oldBucketCount"])
    model = {"addrs": [{"id": a, "ep": e, "kind": k} for a, e, k in M_ADDRS], "srcs": [{"id": a, "ep": e} for a, e in M_SRCS],
             "nb": SMALL["newBucketCount"], "ob": SMALL["oldBucketCount"], "nbt": nbt, "obt": obt}

    # ---- 2. the real code, two builds ---------------------------------------------------------------------------
    bin_real = ctx.go_build_test("p2p/pex", ["zz_verif_pex_test.go"], name="pex_real")
    bin_small = ctx.go_build_test("p2p/pex", ["zz_verif_pex_test.go", small_params(ctx)], name="pex_small")
    rows_small = run_harness(ctx, bin_small, {"model": model, "runs": runs, "random": 12 if quick else 120,
                                              "rand_steps": 120 if quick else 250, "big": 0}, "small")
    rows_real = run_harness(ctx, bin_real, {"model": model, "runs": runs[:: (4 if quick else 2)], "random": 2 if quick else 12,
                                            "rand_steps": 150 if quick else 300, "big": 2 if quick else 8}, "real")

    # ---- 3. TLC judges the observed behaviour -------------------------------------------------------------------
    verdict = core.Verdict(ctx)
    findings, drift = {}, []
    v1 = judge(ctx, "small", rows_small, verdict, findings, drift, 3000)
    v2 = judge(ctx, "real", rows_real, verdict, findings, drift, 500)
    found = store_findings(ctx, findings)

    # how well did the small build realise the model's bucket tables?  (coverage, not a verdict)
    distinct = set()
    evkinds = {}
    for r in rows_small + rows_real:
        evkinds[r["ev"]] = evkinds.get(r["ev"], 0) + 1
        if r["ev"] in ("Reset", "Tick", "Queries"):
            continue
        post = r["post"]
        shape = sorted((k["typ"], len(k["bkts"])) for i, k in post["ka"].items() if i != "_")
        distinct.add(json.dumps([r["ev"], r.get("err"), r.get("bias"), shape, len(post["bad"]) - 1, len(r.get("sel", []))]))
    sizes = [len(r["post"]["ka"]) - 1 for r in rows_real]
    exh_keys = [k for k, _c in exh] + ["reactor", "reactor_seed"]
    coverage = {
        "states": sum(res[k].distinct for k in exh_keys),
        "transitions": sum(res[k].generated for k in exh_keys),
        "traces_validated_against_impl": v1["runs"] + v2["runs"],
        "evaluations": len(rows_small) + len(rows_real),
        "distinct_nontrivial": len(distinct),
        "rule": "API histories of the address book: %d behaviours of TMAddrBookSM exported by TLC -simulate (repaired spec, spec of the "
                "code as it is, time model; seed %d) executed call by call on a real pex.addrBook built with tiny bucket constants "
                "(real addresses searched so that the real keyed hashes realise the model's bucket tables) and on the production "
                "build, plus seeded random histories over collision-heavy universes and bucket-filling runs with the production "
                "constants; every call is one trace line judged by TLC (TMAddrBookTrace); a step is distinct by (call, error, bias, "
                "multiset of (type, #buckets) of the known addresses, #banned, selection length)" % (len(runs), ctx.seed),
        "samples": [core.abridge([{k: r[k] for k in r if k != "post"} for r in rows_small[1:9]], 8)],
        "exhaustive": False,
        "tlc_runs": ctx.tlc_stats,
        "events_by_call": evkinds,
        "largest_book_observed": max(sizes) if sizes else 0,
        "reactor_discipline_model": "spec/TMAddrBookPex.tla is model-checked only (PEX_reactor*.cfg); it is not bound to pex.Reactor by replay",
        "conformance_drift": drift[:5],
        "conformance_drift_count": len(drift),
        "nonvacuity": nonvac,
        "findings_reproduced": found,
        "known_findings_reproduced": dict(verdict.known),
    }
    rc = verdict.finish()
    ctx.write_evidence(coverage, [
        "calcNewBucket/calcOldBucket (keyed highwayhash) are inputs: the harness reports the buckets the real code computed, the "
        "specification checks the structural rules; the design model explores collision-rich bucket functions exhaustively",
        "time is observed in whole minutes; the harness moves the clock by shifting the stored timestamps of the book (ticks of 2 "
        "minutes and of 7 days + 2 minutes, never on a threshold)",
        "the small build replaces numeric constants of the tree's own params.go only (bucket counts/sizes, selection limits)",
        "saveRoutine / OnStart goroutine are not started: Save() and loadFromFile are called as OnStart/OnStop do",
        "a TLC verdict is accepted only if the verdict file covers every trace line",
    ], len(verdict.new))
    return rc


def replay(ctx, path):
    """Re-execute the stored prefix (real addresses, call by call) on the current tree and re-validate it."""
    with open(path) as f:
        rep = json.load(f)
    prefix = rep["replay"]["prefix"]
    if not prefix or prefix[0].get("ev") != "Reset":
        raise Undecided("replay file has no run prefix")
    small = prefix[0]["p"]["nb"] == SMALL["newBucketCount"]
    steps = []
    prev = prefix[0]
    for r in prefix[1:]:
        def raw(a):
            return {"id": a["id"], "ep": a["ep"], "kind": "raw"} if a else {"id": "none", "ep": "none"}
        coin = ""
        if r["ev"] == "AddAddress" and r["a"]["id"] in prev["post"]["ka"] and r["a"]["id"] in r["post"]["ka"]:
            coin = "add" if len(r["post"]["ka"][r["a"]["id"]]["bkts"]) > len(prev["post"]["ka"][r["a"]["id"]]["bkts"]) else "skip"
        steps.append({"op": r["ev"], "a": raw(r.get("a")), "s": raw(r.get("s")), "id": r.get("id") or (r.get("ids") or ["none"])[0],
                      "d": r.get("d", 0), "bias": r.get("bias", 0), "coin": coin})
        prev = r
    files = ["zz_verif_pex_test.go"] + ([small_params(ctx)] if small else [])
    binp = ctx.go_build_test("p2p/pex", files, name="pex_replay")
    rows = run_harness(ctx, binp, {"model": {"addrs": [], "srcs": [], "nb": 0, "ob": 0, "nbt": [], "obt": []},
                                   "runs": [{"id": "replay", "strict": prefix[0]["strict"], "steps": steps, "raw": True, "key": prefix[0].get("key", ""),
                                             "hks": [r["hk"] for r in prefix if r.get("hk")]}],
                                   "random": 0, "rand_steps": 0, "big": 0}, "replay")
    verdict = core.Verdict(ctx)
    findings, drift = {}, []
    judge(ctx, "replay", rows, verdict, findings, drift, 3000)
    for fid, items in findings.items():
        print("FINDING-REPRODUCED: %s %s (%d times)" % (ctx.prop, fid, len(items)), flush=True)
    return verdict.finish()
