"""GOSSIP — the consensus reactor's gossip discharges C03's "idealised gossip" assumption as far as it goes.

Spec: spec/TMGossip.tla (PeerState bookkeeping, the three gossip routines, Receive, Lacks / Gaps, properties), composed with
spec/TMConsensusNode.tla (own round state of node and peer); spec/TMGossipSys.tla (state machine, situations);
trace spec spec/trace/TMGossipTrace.tla; harness harness/inpkg/consensus/zz_verif_gossip_test.go (overlay, package consensus).

  1. TLC, exhaustive: every situation of the menus (node script x peer script x connection mode, same world) and every
     interleaving of the three routines with delivery / the peer's reaction / environment moves: PeerStateSound,
     GossipComplete (safety form: at rest nothing servable is lacking), StepProps (sends truthful, not redundant, recorded;
     announcements recorded; VoteSetBits answers exact); liveness form (no starvation under weak fairness) on small menus.
  2. non-vacuity: every Weak_* switch and every named gap removed from the exemptions must be refuted by TLC.
  3. replay: every situation TLC enumerates (initial states of GOSSIP_cases) is set up on a REAL Reactor + consensus.State
     and a real consensus.State behind a scripted peer; the real goroutines are released one iteration at a time, under
     seeded interleavings with environment moves, until they come to rest.
  4. TLC judges the observed traces (level 1 drift, level 2 violations).  Only level 2 becomes VIOLATION."""
import json
import os
import random
from concurrent.futures import ThreadPoolExecutor

from vlib import core
from vlib.core import Undecided, log
from vlib.tlaparse import to_json

WEAK = {
    "NoCatchupCommitParts": {"GossipComplete"},
    "SkipPOLPrevotes": {"GossipComplete"},
    "HasVoteNotRecorded": {"StepProps"},
    "Maj23QueryOnlyCurrentRound": {"GossipComplete"},
    "PartsOnlyForCurrentRoundProposal": {"GossipComplete"},
    "SentVoteNotRecorded": {"StepProps"},
    "NoLastCommitForLaggingPeer": {"GossipComplete"},
    "VoteSetBitsIgnored": {"GossipComplete"},
    "NewValidBlockIgnored": {"GossipComplete", "StepProps"},
    "InitMarksPartsHad": {"PeerStateSound", "GossipComplete"},
    "VoteMarkedBeforeRoundCheck": {"PeerStateSound"},
    "ClaimAppliedInReceive": {"StepProps"},
}
GAPS = ["G1", "G2", "G3", "G4", "G5", "G6"]     # G3: reachability witness (NoG3AtRest must be refuted), the others: un-exempted
ROUTINES = ["data", "votes", "maj23"]
ENVS = ["peertimeout", "peergetsvote", "peerclaim"]


def _sched(rng, n, envs):
    out = []
    left = envs
    for _ in range(n):
        if left > 0 and rng.random() < 0.18:
            out.append(rng.choice(ENVS))
            left -= 1
        else:
            out.append(rng.choice(ROUTINES))
    return out


def _load_cases(ctx, cfg, label):
    dump = os.path.join(ctx.work, "cases-" + label)
    r = ctx.tlc("GOSSIP_cases", cfg, dump=[dump], must_pass=True, timeout=900, workers=2, label="cases_" + label)
    cs = [to_json(s["cs"]) for s in core.read_state_dump(dump + ".dump")]
    os.remove(dump + ".dump")
    if not cs:
        raise Undecided("no situations exported")
    cs.sort(key=lambda c: json.dumps([c["node"], c["peer"], c["mode"]], sort_keys=True))
    return r, cs


def _case(cid, c, sched, cont):
    return {"id": cid, "node": c["node"], "peer": c["peer"], "mode": c["mode"], "nscript": c["nscript"], "pscript": c["pscript"],
            "sched": sched, "cont": cont}


def _run_harness(ctx, binp, cases, label, seed):
    inp = os.path.join(ctx.work, "gossip-in-%s.json" % label)
    outp = os.path.join(ctx.work, "gossip-out-%s.ndjson" % label)
    with open(inp, "w") as f:
        json.dump({"cases": cases, "maxround": 2, "nparts": 2, "maxrounds": 100, "wait_ms": 60000, "seed": seed}, f)
    rc, txt = ctx.run_test(binp, "^TestVerifGossip$", {"VERIF_IN": inp, "VERIF_OUT": outp}, timeout=3000, label="gossip_" + label)
    if rc != 0:
        ctx.save_log("harness-" + label, txt)
        raise Undecided("GOSSIP harness failed (rc=%d): %s" % (rc, txt[-1500:]))
    rows = core.read_ndjson(outp)
    os.remove(outp)
    if not rows or rows[-1].get("ev") != "Done":
        raise Undecided("GOSSIP harness did not finish")
    return rows


def _split_runs(rows):
    runs, cur = {}, None
    for r in rows:
        if r.get("ev") == "Reset":
            cur = r["run"]
            runs[cur] = []
        if cur is not None and r.get("ev") != "Done":
            runs[cur].append(r)
    return runs


def _execute(ctx, binp, cases, label, seed):
    """run the cases; runs in which something was not observed in time are repeated once, then given up (exit 2)"""
    rows = _run_harness(ctx, binp, cases, label, seed)
    runs = _split_runs(rows)
    bad = [rid for rid, rr in runs.items() if not rr or rr[-1].get("ev") != "End" or rr[-1].get("undecided")]
    if bad:
        log("GOSSIP: %d runs not observed in time, repeating them" % len(bad))
        again = [c for c in cases if c["id"] in set(bad)]
        rows2 = _run_harness(ctx, binp, again, label + "-retry", seed)
        runs2 = _split_runs(rows2)
        for rid in bad:
            rr = runs2.get(rid)
            if not rr or rr[-1].get("ev") != "End" or rr[-1].get("undecided"):
                raise Undecided("run %s: %s" % (rid, (rr[-1].get("undecided") if rr else "no output")))
            runs[rid] = rr
    out = []
    for rid in sorted(runs):
        out.extend(runs[rid])
    return out, runs


def _verdict(ctx, v, verdict):
    for x in v["viol"]:
        row = x["row"]
        what = row.get("routine") or (row.get("m") or {}).get("k") or row.get("kind") or "-"
        sig = {"inv": x["inv"], "class": x["class"], "ev": row["ev"], "what": what}
        verdict.add(sig, {"failing_step": row, "prefix": x["prefix"], "tlc": {"inv": x["inv"], "class": x["class"]}})


def _witness(r, by_key):
    """a TLC counterexample of a weakened spec as a schedule: the situation it starts in and the order of routine
    iterations / environment moves (the picks inside an iteration are the real code's own)"""
    if not r.violations or not r.violations[0]["trace"]:
        return None
    acts = [to_json(st["act"]) for _h, st in r.violations[0]["trace"] if "act" in st]
    if not acts or acts[0].get("name") != "Init":
        return None
    key = json.dumps([acts[0]["node"], acts[0]["peer"], acts[0]["mode"]], sort_keys=True)
    if key not in by_key:
        return None
    return by_key[key], [a["name"] for a in acts[1:] if a["name"] in ROUTINES + ENVS]


def _impl(ctx, quick, rng, f_build, witness_runs=()):
    """steps 3 and 4: situations from TLC -> runs on the real reactor -> TLC judges the traces"""
    r_cases, cs = _load_cases(ctx, "GOSSIP_cases.cfg" if quick else "GOSSIP_cases_full.cfg", "q" if quick else "full")
    r_nv, cs_nv = _load_cases(ctx, "GOSSIP_cases_nv.cfg", "nv")
    key = lambda c: json.dumps([c["node"], c["peer"], c["mode"]], sort_keys=True)
    have = set(key(c) for c in cs)
    cs = cs + [c for c in cs_nv if key(c) not in have]
    by_key = {key(c): c for c in cs}
    cases = []
    for c in cs:                                   # every situation, fair rounds until rest
        cont = 3 if c["dh"] >= 1 and rng.random() < (0.3 if quick else 0.5) else 0
        # every other situation starts with the peer claiming a majority it holds (the node must answer with VoteSetBits)
        cases.append(_case(len(cases), c, ["peerclaim"] if len(cases) % 2 else [], cont))
    nwit = 0
    for name, r in witness_runs:                   # counterexamples of the weakened specs / un-exempted gaps as schedules
        wt = _witness(r, by_key)
        if wt is not None:
            cases.append(_case(len(cases), wt[0], wt[1], 0))
            nwit += 1
    nsched = 160 if quick else 1500
    for _ in range(nsched):                        # seeded interleavings with environment moves
        c = rng.choice(cs)
        cases.append(_case(len(cases), c, _sched(rng, rng.randint(3, 28), 2), 2 if rng.random() < 0.2 else 0))
    binp = f_build.result()
    rows, runs = _execute(ctx, binp, cases, "main", ctx.seed)
    # GOSSIP_STRICT_GAPS=1: the named gaps observed at rest are reported as violations (to obtain replay files that show
    # each gap on the real code); normally they are listed in the evidence only
    strict = os.environ.get("GOSSIP_STRICT_GAPS") == "1"
    # GOSSIP_TRACE_CFG: another trace cfg (TMGossipTrace_fixedG6.cfg judges a tree with proposed-fixes/GOSSIP-pol-shadowed.diff)
    tcfg = os.environ.get("GOSSIP_TRACE_CFG") or ("TMGossipTrace_strict.cfg" if strict else None)
    v = core.validate_traces(ctx, "TMGossipTrace", rows, cfg=tcfg, max_events=2500, timeout=1800, label="gossip")
    return r_cases, cs, cases, nsched, rows, runs, v


def run(ctx):
    quick = ctx.tier == "quick"
    rng = random.Random(ctx.seed)
    pool = ThreadPoolExecutor(max_workers=3)
    f_build = pool.submit(ctx.go_build_test, "consensus", ["zz_verif_gossip_test.go"])

    # ---- 1. design spec, exhaustive --------------------------------------------------------------
    # GOSSIP_SKIP_MC=1 (development aid for mutation experiments): the two long exhaustive runs are replaced by the
    # smallest menus; the evidence says so
    skip_mc = os.environ.get("GOSSIP_SKIP_MC") == "1"
    w = max(1, min(ctx.cores, 6))
    f_sys = pool.submit(ctx.tlc, "GOSSIP_sys", "GOSSIP_gap_none.cfg" if skip_mc else "GOSSIP_sys.cfg" if quick else "GOSSIP_sys_full.cfg",
                        must_pass=True, timeout=900 if quick else 3000, workers=w, heap="6g", label="sys")
    f_live = pool.submit(ctx.tlc, "GOSSIP_sys", "GOSSIP_live_q.cfg" if quick or skip_mc else "GOSSIP_live.cfg", must_pass=True,
                         timeout=900 if quick else 2400, workers=2, label="live")
    # ---- 2. non-vacuity ----------------------------------------------------------------------------
    f_weak = [(k, pool.submit(ctx.tlc, "GOSSIP_sys", "GOSSIP_weak_%s.cfg" % k, timeout=600, workers=2, label="weak_" + k)) for k in WEAK]
    f_gap = [(g, pool.submit(ctx.tlc, "GOSSIP_sys", "GOSSIP_gap_%s.cfg" % g, timeout=600, workers=2, label="gap_" + g)) for g in GAPS]
    f_lw = None if quick else pool.submit(ctx.tlc, "GOSSIP_sys", "GOSSIP_live_weak.cfg", timeout=1800, workers=2, label="live_weak")

    # ---- 3./4. situations from TLC -> runs on the real reactor -> trace validation -----------------------
    # the counterexamples of the weakened specs are replayed too: on correct code they are uneventful, on code with the
    # corresponding regression they lead to the violation
    wit = [("weak_" + k, f.result()) for k, f in f_weak] + [("gap_" + g, f.result()) for g, f in f_gap]
    r_cases, cs, cases, nsched, rows, runs, v = _impl(ctx, quick, rng, f_build, wit)

    # ---- 5. collect the model-checking results ------------------------------------------------------------
    r_sys = f_sys.result()
    r_live = f_live.result()
    nonvac = {}
    for k, f in f_weak:
        r = f.result()
        names = {x["name"] for x in r.violations}
        if not (names & WEAK[k]):
            ctx.save_log("weak_" + k, r.out)
            raise Undecided("vacuity: weakened spec Weak_%s is not refuted (%s)" % (k, sorted(names) or r.errors[:1] or "timeout"))
        nonvac["Weak_" + k] = sorted(names & WEAK[k])[0]
    for g, f in f_gap:
        r = f.result()
        if not any(x["name"] in ("GossipComplete", "NoG3AtRest") for x in r.violations):
            ctx.save_log("gap_" + g, r.out)
            raise Undecided("vacuity: with gap %s not exempted GossipComplete is not refuted: the gap is not real in the model" % g)
        nonvac["gap " + g + " is real in the model"] = r.violations[0]["name"]
    if f_lw is not None:
        r = f_lw.result()
        if not any(x["name"] == "Starvation" for x in r.violations):
            raise Undecided("vacuity: the liveness form is not refuted when neither sends nor HasVote are recorded")
        nonvac["Weak_SentVoteNotRecorded + Weak_HasVoteNotRecorded (liveness form)"] = "Starvation"

    verdict = core.Verdict(ctx)
    _verdict(ctx, v, verdict)

    gaps_seen, drift = {}, []
    for d in v["drift"]:
        if d["what"].startswith("gap:"):
            gaps_seen[d["what"][4:]] = gaps_seen.get(d["what"][4:], 0) + 1
        else:
            drift.append(d)
    log("GOSSIP: level-1 conformance drift: %d; observations of the named gaps at rest (listed with the drifts above): %d"
        % (len(drift), sum(gaps_seen.values())))
    classes, steps_sending, rest = set(), 0, 0
    for r in rows:
        if r["ev"] == "Step":
            if r["sent"]:
                steps_sending += 1
                for m in r["sent"]:
                    classes.add(json.dumps([r["routine"], m["k"], m["h"] - r["prs"]["h"], m["r"] - r["prs"]["r"], m["t"], r["prs"]["step"]]))
        elif r["ev"] == "Quiesce" and r["reached"]:
            rest += 1
    sit = set(json.dumps([c["node"], c["peer"], c["mode"]], sort_keys=True) for c in cases)
    sample_run = runs[min(runs)]
    coverage = {
        "states": r_sys.distinct + r_live.distinct + r_cases.distinct,
        "transitions": r_sys.generated + r_live.generated + r_cases.generated,
        "traces_validated_against_impl": v["runs"],
        "evaluations": len(rows),
        "distinct_nontrivial": len(classes),
        "rule": "every situation of the menus (%d = node script x peer script x connection mode within one world, enumerated by TLC as "
                "initial states of GOSSIP_cases) is set up on a real Reactor/consensus.State and a real peer State and run to rest under a "
                "fair order; %d further runs follow seeded interleavings of the three routines with environment moves (peer timeout, third-"
                "party vote, peer claim).  A sending iteration is distinct by (routine, message kind, height and round relative to the peer "
                "state, vote type, peer step)" % (len(cs), nsched),
        "samples": [core.abridge([{k: r[k] for k in r if k not in ("n", "x", "nscript", "pscript")} for r in sample_run], 14)],
        "exhaustive": not skip_mc,
        "design_model_checked_on_full_menus": not skip_mc,
        "tlc_runs": ctx.tlc_stats,
        "situations_replayed": len(sit),
        "runs": len(runs),
        "runs_at_rest": rest,
        "iterations_with_sends": steps_sending,
        "conformance_drift": [{"what": d["what"], "spec": d.get("spec"), "step": {k: d["row"][k] for k in d["row"] if k not in ("n", "x")}} for d in drift[:5]],
        "conformance_drift_count": len(drift),
        "named_gaps_observed_on_real_code_at_rest": gaps_seen,
        "nonvacuity": nonvac,
        "known_findings_reproduced": dict(verdict.known),
    }
    rc = verdict.finish()
    ctx.write_evidence(coverage, [
        "one peer; the peer is a correct node: a real consensus.State behind a scripted p2p.Peer, its reactor's announcements are built "
        "from the State's events by the harness; the peer sends no votes / parts of its own (only its Proposal at connect time)",
        "the gossip goroutines are the real ones, released one iteration at a time (peer.IsRunning() is the gate); concurrency BETWEEN "
        "the routines of one peer and between Receive and a routine is not explored on real code (it is in the model only as interleaving "
        "of whole iterations)",
        "send never fails (a full channel queue / TrySend returning false is not exercised)",
        "four validators of power 1, two parts per block, rounds 0..2, heights 1..4; bit-array sizes are C17's subject",
        "the named gaps G1, G2, G4, G5, G6 (TMGossip.tla) are exempt from GossipComplete, G3 is outside its notion of 'holds': they are "
        "what the real reactor does not serve; each is observed on the real code in this run (named_gaps_observed_on_real_code_at_rest)",
        "a TLC verdict is accepted only if the verdict file covers every trace line",
    ], len(verdict.new))
    pool.shutdown(wait=False)
    return rc


def replay(ctx, path):
    """Re-execute the situation and the schedule of a stored failing run on the current tree and re-validate it."""
    with open(path) as f:
        rep = json.load(f)
    prefix = rep["replay"]["prefix"]
    if not prefix or prefix[0].get("ev") != "Reset":
        raise Undecided("replay file has no run prefix")
    r0 = prefix[0]
    sched, started = [], False
    for r in prefix[1:]:
        if r["ev"] == "Situation":
            started = True
        elif started and r["ev"] == "Step":
            sched.append(r["routine"])
        elif started and r["ev"] == "Env" and r["kind"] != "script":
            sched.append(r["kind"])
        elif started and r["ev"] == "Recv" and r.get("why") == "peerclaim":
            sched.append("peerclaim")
    case = {"id": r0["run"], "node": r0["node"], "peer": r0["peer"], "mode": r0["mode"], "nscript": r0["nscript"], "pscript": r0["pscript"],
            "sched": sched, "cont": 0}
    binp = ctx.go_build_test("consensus", ["zz_verif_gossip_test.go"])
    rows, _runs = _execute(ctx, binp, [case], "replay", ctx.seed)
    strict = str(rep.get("signature", {}).get("class", "")).startswith("gap:")
    v = core.validate_traces(ctx, "TMGossipTrace", rows, cfg="TMGossipTrace_strict.cfg" if strict else None, label="replay")
    for d in v["drift"]:
        log("replay: level-1 note at line %d: %s" % (d["l"], d["what"]))
    verdict = core.Verdict(ctx)
    _verdict(ctx, v, verdict)
    for x in v["viol"]:
        log("replay: %s (%s) fails at %s" % (x["inv"], x["class"], json.dumps({k: x["row"][k] for k in x["row"] if k not in ("n", "x")})[:400]))
    return verdict.finish()
