"""C20 — Verifying RPC client relays an answer iff it matches light-verified headers.
Spec: spec/TMLightRPC.tla; cases: spec/mc/C20_cases.tla; trace spec: spec/trace/TMLightRPCTrace.tla;
harness: harness/inpkg/light/rpc/zz_verif_c20{,b,c}_test.go (overlay, package rpc of light/rpc)."""
import hashlib
import json
import os

from vlib import core
from vlib.core import Undecided, log
from vlib.tlaparse import to_json

HARNESS = ["zz_verif_c20_test.go", "zz_verif_c20b_test.go", "zz_verif_c20c_test.go", "zz_verif_c20d_test.go"]
WEAK = ["NoTrustedHashCompare", "NoBlockIDCompare", "NoLastCommitBinding", "TxNotBound", "NoTxProofCheck",
        "ResultsPreimage", "ResultsHeightUnbound", "NoResultsHashCompare", "NoQueryProofCheck", "AbsenceRawKey",
        "NoParamsHashCompare", "ValsNotHashed", "BackwardsTargetNotRechecked", "BackwardsCommitUnverified",
        "LatestPanicsWhenUpToDate", "LatestUnverifiedWhenUpToDate", "EvidenceBoundByIdOnly",
        "SearchProofFromCachedBlock"]
# the invariant each weakened spec must violate (any of)
WEAK_EXPECT = {"ResultsPreimage": ["RelayComplete"], "AbsenceRawKey": ["RelayComplete"],
               "SearchProofFromCachedBlock": ["ServedProofsVerify"], "LatestPanicsWhenUpToDate": ["RelayComplete"]}


def _descs(r):
    out = []
    for p in r.printed:
        v = to_json(p)
        if isinstance(v, list) and len(v) == 2 and v[0] == "desc":
            out.append(v[1])
    return out


def _run_harness(ctx, descs, cases, nrandom, timeout=2400):
    inp = os.path.join(ctx.work, "c20-in.json")
    with open(inp, "w") as f:
        json.dump({"descs": descs, "cases": cases, "random": nrandom}, f)
    out = ctx.subdir("c20-out")
    binp = ctx.go_build_test("light/rpc", HARNESS)
    rc, txt = ctx.run_test(binp, "^TestVerifC20$", {"VERIF_IN": inp, "VERIF_OUT": out, "VERIF_SEED": str(ctx.seed)},
                           timeout=timeout)
    if rc != 0:
        ctx.save_log("harness", txt)
        raise Undecided("C20 harness failed (rc=%d): %s" % (rc, txt[-1500:]))
    return core.read_ndjson(os.path.join(out, "c20.ndjson"))


def _sig(v):
    row = v["row"]
    return {"inv": v["inv"], "class": v["class"], "ev": row["ev"], "kind": row.get("kind", row.get("via", ""))}


def _payload(v):
    return {"failing_step": row_abridge(v["row"]), "prefix": [r for r in v["prefix"] if r.get("ev") == "Reset"] + [v["row"]],
            "tlc": {k: v[k] for k in ("inv", "class", "scope")}}


def row_abridge(row):
    return row


def _collect(ctx, val, verdict, extra_obs):
    for v in val["viol"]:
        if v.get("scope") == "extra":
            key = "%s/%s" % (v["inv"], v["class"])
            extra_obs[key] = extra_obs.get(key, 0) + 1
            continue
        verdict.add(_sig(v), _payload(v))


def _tree_consts(ctx):
    """Which of two ACCEPTABLE behaviours the tree under test has (not a property judgement): does
    SignedHeader.ValidateBasic validate Commit.BlockID (then a malformed PartSetHeader hash is refused like any bad
    light block) or not (then VerifyCommitLight* panics on it, the call dies: TMLightRPC "lc:panic")."""
    try:
        with open(os.path.join(ctx.repo, "types", "light.go")) as f:
            src = f.read()
    except OSError as e:
        raise Undecided("cannot read types/light.go: %s" % e)
    i = src.find("func (sh SignedHeader) ValidateBasic")
    body = src[i:src.find("\n}\n", i)] if i >= 0 else ""
    return {"CommitBlockIDValidated": "Commit.BlockID.ValidateBasic()" in body}


def run(ctx):
    quick = ctx.tier == "quick"
    tree = _tree_consts(ctx)
    lie_heights = "{5}" if quick else "{1, 2, 3, 4, 5, 6}"
    nrandom = 240 if quick else 3000

    # ---- 1. design spec: every case is an initial state; exhaustive --------------------------
    cfg = core.cfg_variant(ctx, "C20_cases.cfg", "C20_cases_run.cfg", dict(tree, LieHeights=lie_heights))
    dump = os.path.join(ctx.work, "cases")
    r1 = ctx.tlc("C20_cases", cfg, dump=[dump], must_pass=True, timeout=2400, workers=8, heap="6g", label="cases")
    descs = _descs(r1)
    cases = [to_json(s["cs"]) for s in core.read_state_dump(dump + ".dump") if to_json(s["ph"]) == 0]
    if not cases or len(descs) < 2:
        raise Undecided("no cases / chain descriptions exported by TLC")

    # non-vacuity: every weakened spec (incl. the three v0.34.24 behaviours that were repaired) must be
    # refuted by TLC; the strict property (TxResult / validator address bound) must be refuted too
    nonvac = {}
    small = "{5}"
    from concurrent.futures import ThreadPoolExecutor

    def weak(w):
        c = core.cfg_variant(ctx, "C20_weak_%s.cfg" % w, "C20_weak_%s_run.cfg" % w, dict(tree, LieHeights=small))
        return w, ctx.tlc("C20_cases", c, timeout=900, workers=2, heap="2g", label="weak_" + w)

    def other(name, cfgname):
        c = core.cfg_variant(ctx, cfgname, name + "_run.cfg", dict(tree, LieHeights=small))
        return name, ctx.tlc("C20_cases", c, timeout=900, workers=2, heap="2g", label=name)

    with ThreadPoolExecutor(max_workers=4) as ex:
        weak_res = list(ex.map(weak, WEAK))
        oth_res = dict(ex.map(lambda a: other(*a), [("strict", "C20_cases_strict.cfg"), ("extra_complete", "C20_extra_complete.cfg")]))
    for w, rw in weak_res:
        names = [v["name"] for v in rw.violations]
        want = WEAK_EXPECT.get(w, ["RelaySound", "ExtraSound"])
        if not any(n in want for n in names):
            ctx.save_log("weak_" + w, rw.out)
            raise Undecided("vacuity: weakened spec Weak_%s is not refuted (%s)" % (w, names or rw.errors[:1]))
        nonvac["Weak_%s refuted by TLC" % w] = names[0]
        if w in ("SearchProofFromCachedBlock", "BackwardsTargetNotRechecked", "BackwardsCommitUnverified",
                 "LatestPanicsWhenUpToDate", "LatestUnverifiedWhenUpToDate", "EvidenceBoundByIdOnly"):
            # the counterexample (a descending page spanning several heights / a forged block below the trust
            # height followed by a broken interim chain) is replayed on the real code
            try:
                attack = to_json(rw.violations[0]["trace"][0][1]["cs"])
            except Exception:
                attack = None
            if attack is None:
                raise Undecided("could not read the counterexample of Weak_%s" % w)
            if attack not in cases:
                cases.append(attack)
            nonvac["attack case of Weak_%s (replayed on the real code)" % w] = {"kind": attack["kind"], "a": attack["a"], "f": attack["f"]}
    nonvac["RelaySoundStrict (TxResult / validator address) refuted by TLC"] = any(
        v["name"] == "RelaySoundStrict" for v in oth_res["strict"].violations)
    nonvac["ExtraComplete (BlockchainInfo with a fresh light client) refuted by TLC"] = any(
        v["name"] == "ExtraComplete" for v in oth_res["extra_complete"].violations)

    # ---- 2. replay every case on the real client + random chains / double lies -----------------
    rows = _run_harness(ctx, descs, cases, nrandom)
    calls = [r for r in rows if r["ev"] == "Call"]
    searches = [r for r in rows if r["ev"] == "Search"]
    ncase_rows = sum(1 for r in calls + searches if r.get("src") == "tlc")
    if ncase_rows != len(cases):
        raise Undecided("harness executed %d of %d cases" % (ncase_rows, len(cases)))

    # ---- 3. trace validation --------------------------------------------------------------------
    tcfg = core.cfg_variant(ctx, "TMLightRPCTrace.cfg", "TMLightRPCTrace_run.cfg", tree)
    val = core.validate_traces(ctx, "TMLightRPCTrace", rows, cfg=tcfg, max_events=700, timeout=1800, label="c20")

    # ---- 4. verdict -------------------------------------------------------------------------------
    verdict = core.Verdict(ctx)
    extra_obs = {}
    _collect(ctx, val, verdict, extra_obs)
    drift = val["drift"]

    distinct = set()
    relayed_lies = {}
    for r in calls:
        distinct.add(hashlib.sha1(json.dumps([r["kind"], r["a"], r["sent"], r["relayed"]], sort_keys=True).encode()).hexdigest())
        if r["relayed"] and r["f"]["edits"] and r.get("changed"):
            k = r["kind"] + ":" + "+".join(".".join("*" if x.isdigit() else x for x in e["path"]) for e in r["f"]["edits"])
            relayed_lies[k] = relayed_lies.get(k, 0) + 1
    honest = [r for r in calls if not r["f"]["edits"]]
    coverage = {
        "states": r1.distinct,          # every case appears twice: as enumerated (ph=0) and as judged (ph=1)
        "transitions": r1.generated,
        "traces_validated_against_impl": val["runs"],
        "evaluations": len(rows),
        "distinct_nontrivial": len(distinct),
        "rule": "every case enumerated by TLC from TMLightRPC!Cases (2 chains: with txs/events/validator+param change, and bare; "
                "9 kinds + TxSearch(prove) served by the real rpc/core for height ranges x asc/desc x per_page x every page; every honest request with a fresh and a warm light client; every field x replacement x "
                "raw/coherent lie at heights %s) executed on a real light/rpc.Client over a real light.Client and the real "
                "rpc/core handlers; plus %d random cases on random chains (single, double, coherent lies); a case is distinct "
                "by (kind, args, projected sent response, outcome)" % (lie_heights, nrandom),
        "samples": [core.abridge([r for r in calls if r["relayed"]][:1], 1),
                    core.abridge([r for r in calls if not r["relayed"] and r["f"]["edits"]][:2], 2)],
        "exhaustive": True,
        "tlc_runs": ctx.tlc_stats,
        "cases_from_tlc": len(cases),
        "calls_total": len(calls),
        "honest_calls": len(honest),
        "honest_calls_relayed": sum(1 for r in honest if r["relayed"]),
        "lies_total": len(calls) - len(honest),
        "lies_effective (sent differs from the honest answer)": sum(1 for r in calls if r.get("changed")),
        "lies_relayed": sum(1 for r in calls if r["relayed"] and r.get("changed")),
        "client_panics": sum(1 for r in calls if r.get("stage") == "panic"),
        "served_proofs_checked": sum(1 for r in rows if r["ev"] == "Served") + sum(len(r["txs"]) for r in searches),
        "tx_searches_with_proofs": len(searches),
        "tx_searches_desc_multi_height_pages": sum(1 for r in searches if r["a"]["ord"] == "desc"
                                                   and len(set(t["h"] for t in r["txs"])) > 1),
        "relayed_lie_fields (uncommitted fields S19 / genuine-elsewhere / known findings)": relayed_lies,
        "outside_statement_observations (ConsensusParams, BlockchainInfo)": extra_obs,
        "conformance_drift": [{"what": d["what"], "step": core.abridge(d["row"])} for d in drift[:5]],
        "conformance_drift_count": len(drift),
        "nonvacuity": nonvac,
        "tree_variant": tree,
        "known_findings_reproduced": dict(verdict.known),
    }
    rc = verdict.finish()
    for k, n in sorted(extra_obs.items()):
        print("OBSERVATION (outside the statement's list, not a verdict): property=C20 %s x%d" % (k, n), flush=True)
    npanic = coverage["client_panics"]
    if npanic:
        print("OBSERVATION (not a C20 verdict; see proposed-fixes/C20-commit-blockid-validate.diff): a light block whose "
              "Commit.BlockID.PartSetHeader.Hash has a wrong length passes LightBlock.ValidateBasic (also in light/provider/http) "
              "and panics the light client in VerifyCommitLight[Trusting] -> Commit.VoteSignBytes -> types.CanonicalizeBlockID "
              "x%d" % npanic, flush=True)
    ctx.write_evidence(coverage, [
        "hashes and signatures symbolic: SHA-256 collision-free, ed25519 unforgeable and deterministic",
        "the light client itself is correct (C09): a header in its trusted store is the chain's header; checked on every trace "
        "(TrustedOnChain) but not re-proved here",
        "honest answers are required to be relayed only when their proving header exists on the static chain (h+1 <= tip for "
        "ABCIQuery / BlockResults)",
        "fields no header commits to (S19: all consensus parameters but block max_bytes/max_gas, begin/end-block events, validator "
        "and parameter updates, log/info/events/codespace of results, proposer priority, LastCommit.Round, signatures beyond the "
        "quorum) are listed in TMLightRPC!Uncommitted; relaying such lies is a stated limit, not a violation",
        "request binding (the answer is about the block/tx/key that was ASKED for) is not part of the statement and not judged",
        "HTTP/JSON transport, TxSearch/BlockSearch/subscriptions (pass-through) not exercised",
        "a TLC verdict is accepted only if the verdict file covers every trace line",
    ], len(verdict.new))
    return rc


def replay(ctx, path):
    """Re-execute the failing case of a stored replay on the current tree and re-validate it."""
    with open(path) as f:
        rep = json.load(f)
    prefix = rep["replay"]["prefix"]
    reset = [r for r in prefix if r.get("ev") == "Reset"]
    step = rep["replay"]["failing_step"]
    if not reset:
        raise Undecided("replay file has no chain description")
    desc = reset[0]["desc"]
    cases = []
    if step.get("ev") == "Call":
        cases = [{"chain": desc["id"], "kind": step["kind"], "a": step["a"], "f": step["f"]}]
    elif step.get("ev") == "Search":
        cases = [{"chain": desc["id"], "kind": "TxSearch", "a": step["a"], "f": {"edits": [], "coh": False}}]
    rows = _run_harness(ctx, [desc], cases, 0)
    tcfg = core.cfg_variant(ctx, "TMLightRPCTrace.cfg", "TMLightRPCTrace_run.cfg", _tree_consts(ctx))
    val = core.validate_traces(ctx, "TMLightRPCTrace", rows, cfg=tcfg, max_events=700, label="replay")
    verdict = core.Verdict(ctx)
    extra = {}
    _collect(ctx, val, verdict, extra)
    for x in val["viol"]:
        log("replay: %s %s fails at %s" % (x["inv"], x["class"], json.dumps(x["row"])[:300]))
    return verdict.finish()
