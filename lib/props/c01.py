"""C01 — Agreement and validity of decisions.
Spec: TMConsensusNode + TMConsensusNet; trace spec TMConsensusTrace; driver
harness/inpkg/consensus/zz_verif_cons_test.go."""
import json
import os

from vlib import core
from vlib.core import Undecided, log
from props import cons_common as cc

ATTACKS = os.path.join(core.VERIF, "spec", "attacks", "C01")


def load_attacks():
    out = []
    if os.path.isdir(ATTACKS):
        for f in sorted(os.listdir(ATTACKS)):
            if f.endswith(".json"):
                with open(os.path.join(ATTACKS, f)) as fh:
                    out.append(json.load(fh))
    return out


def run(ctx):
    quick = ctx.tier == "quick"
    binp = cc.build(ctx)
    verdict = core.Verdict(ctx)
    cov = {"configs": [], "conformance_drift": [], "conformance_drift_count": 0, "other_property_failures": []}
    totals = {"states": 0, "transitions": 0, "runs": 0, "events": 0, "distinct": set(), "samples": []}

    def account(v, rows, label):
        for x in v["viol"]:
            sig = {"inv": x["inv"], "class": x["class"]}
            if x["inv"] in cc.C01_INVS:
                verdict.add(sig, {"failing_step": x["row"], "prefix": x["prefix"], "config": label})
            else:   # clauses of C02/C03 and node panics are judged by their own checks; listed here for the reader
                cov["other_property_failures"].append(dict(sig, config=label))
        cov["conformance_drift"] += [{"what": d["what"], "fields": d.get("fields"), "config": label,
                                      "step": {k: d["row"].get(k) for k in ("ev", "n", "m", "k")}} for d in v["drift"][:3]]
        cov["conformance_drift_count"] += len(v["drift"])
        totals["runs"] += v["runs"]
        totals["events"] += len(rows)
        for r in rows:
            if r.get("ev") == "Decision":
                totals["decisions"] = totals.get("decisions", 0) + 1
                key = "round %d" % r["commitRound"]
                totals.setdefault("decision_rounds", {})[key] = totals.setdefault("decision_rounds", {}).get(key, 0) + 1
        for r in rows:
            if "post" in r and r.get("ev") != "Set":
                totals["distinct"].add(hash(json.dumps([r["n"], r.get("m"), r.get("k"), r["post"], r["out"]], sort_keys=True)))

    # ---------------- A. 2 correct + 1 Byzantine, exhaustive ----------------------------------------
    # quick: rounds 0..1, every state of the act-augmented graph replayed;
    # thorough: additionally rounds 0..2 exhaustive in TLC (4.3e5 states) with a sampled replay
    powers, byz = [2, 2, 1], ["v2"]
    mr = 1
    info = cc.run_driver(ctx, binp, {"mode": "info", "powers": powers, "byz": byz, "maxround": 14}, "infoA")
    mc = cc.net_mc(ctx, "C01_small_run", info, byz, mr)
    rA = ctx.tlc(mc, mc + ".cfg", must_pass=True, timeout=1500, label="C01_small")
    totals["states"] += rA.distinct
    totals["transitions"] += rA.generated
    mcg = cc.net_mc(ctx, "C01_small_graph", info, byz, mr, view=False, invariants=())
    dot = os.path.join(ctx.work, "c01.dot")
    rG = ctx.tlc(mcg, mcg + ".cfg", dump=["dot,actionlabels", dot], must_pass=True, timeout=1500, label="C01_small_graph")
    g = core.parse_dot(dot)
    os.remove(dot)
    scheds = cc.graph_to_scheds(g)
    graph_nodes = len(g.nodes)
    del g
    # rounds 0..2 of the same configuration (the Byzantine validator proposes in round 2): simulation
    mcs2 = cc.net_mc(ctx, "C01_small_sim", info, byz, 2, lazy=False, view=False)
    nb2 = 40 if quick else 800
    rS2 = ctx.tlc(mcs2, mcs2 + ".cfg", simulate="file=%s,num=%d" % (os.path.join(ctx.spec_copy(), "behA"), nb2),
                  depth=80, seed=ctx.seed, workers=1, timeout=1500, label="C01_small_sim")
    if rS2.violations or rS2.errors:
        ctx.save_log("simA", rS2.out)
        raise Undecided("simulation of the real spec reported %s" % (rS2.violations or rS2.errors)[:1])
    totals["transitions"] += rS2.generated
    sims = cc.sim_to_scheds(ctx, ctx.spec_copy(), "behA")
    for k, sc in enumerate(sims):
        sc["id"] = 500000 + k
    if not quick:
        mc2 = cc.net_mc(ctx, "C01_small_r2", info, byz, 2)
        rA2 = ctx.tlc(mc2, mc2 + ".cfg", timeout=3000, label="C01_small_r2", heap="8g")
        if rA2.violations or rA2.errors:
            ctx.save_log("C01_small_r2", rA2.out)
            raise Undecided("exhaustive 2+1 rounds 0..2 run of the real spec reported %s" % (rA2.violations or rA2.errors)[:1])
        totals["states"] += rA2.distinct
        totals["transitions"] += rA2.generated
        cov["configs"].append({"config": "2+1 powers 2:2:1 rounds 0..2, TLC only", "exhaustive": not rA2.timed_out,
                               "tlc_states": rA2.distinct})
    # graph paths as they are; simulated prefixes and random walks are completed by the synchronous-suffix
    # executor so that every run ends in decisions reached from an adversarial prefix
    inp = {"mode": "replay", "dups": 5, "powers": powers, "byz": byz, "maxround": 9, "scheds": scheds, "random": 0}
    rows, stats = cc.run_driver(ctx, binp, inp, "A")
    inp2 = {"mode": "replay", "dups": 5, "powers": powers, "byz": byz, "maxround": 9, "scheds": sims, "synctail": True, "byzafter": True,
            "random": 30 if quick else 400, "randlen": 150}
    rows2, stats2 = cc.run_driver(ctx, binp, inp2, "A2")
    off = max([r["run"] for r in rows] + [0])
    for r in rows2:
        r["run"] += off
    rows += rows2
    stats = {k: stats[k] + stats2[k] for k in stats}
    v = cc.validate(ctx, rows, info, byz, 9, "A", dedupe=True)
    account(v, rows, "2+1 powers 2:2:1")
    prow, pv = cc.plan_from_drift_net(ctx, binp, rows, v["drift"], inp2, info, byz, 9, "A")
    if pv is not None:
        account(pv, prow, "2+1, continuations planned by TLC from the observed drifting state")
        cov["drift_planning_2+1"] = {"schedules": pv["runs"], "property_failures": len(pv["viol"])}
    cov["configs"].append({"config": "2 correct + 1 Byzantine, powers 2:2:1, rounds 0..%d" % mr, "exhaustive": True,
                           "tlc_states": rA.distinct, "graph_nodes_replayed": graph_nodes, "schedules": len(scheds),
                           "simulated_behaviours_rounds_0_2": len(sims),
                           "driver": stats, "events_validated_after_prefix_dedupe": v["events"]})
    totals["samples"].append(core.abridge([{k: r.get(k) for k in ("ev", "n", "m", "k", "out")} for r in rows[1:8]], 8))

    # ---------------- B. non-vacuity of the exhaustive config ------------------------------------
    nonvac = {}
    for weak, inv in (("QuorumOffByOne", "Agreement"),):
        m2 = cc.net_mc(ctx, "C01_weak_" + weak, info, byz, mr, weak=[weak])
        rw = ctx.tlc(m2, m2 + ".cfg", timeout=600, label="weak_" + weak)
        found = [x["name"] for x in rw.violations]
        nonvac[weak] = found
        if not found and not rw.errors:
            raise Undecided("vacuity: weakened spec %s is not refuted by TLC on the 2+1 config" % weak)

    # ---------------- C. 3 correct + 1 Byzantine: simulation of the real spec + attack library ----
    cfgs3 = [("eq0", [1, 1, 1, 1], 0, "3+1 equal powers, Byzantine proposer of round 0"),
             ("eq1", [1, 1, 1, 1], 1, "3+1 equal powers, Byzantine proposer of round 1"),
             ("eq3", [1, 1, 1, 1], 3, "3+1 equal powers, Byzantine never proposes"),
             ("w2", [2, 2, 1, 1], 2, "3+1 powers 2:2:1:1 (total divisible by 3)")]
    if quick:          # two of the four configurations per quick run, rotating with the seed; all four in thorough
        k = ctx.seed % 2
        cfgs3 = [cfgs3[k], cfgs3[2 + k]]
    for (tag, powers, bi, label) in cfgs3:
        mr3 = 2
        info3 = cc.run_driver(ctx, binp, {"mode": "info", "powers": powers, "byz": [], "maxround": 14}, "info" + tag)
        byz3 = [info3["names"][bi]]
        mcs = cc.net_mc(ctx, "C01_sim_" + tag, info3, byz3, mr3, lazy=False, view=False)
        nb = 30 if quick else 500
        pref = "beh" + tag
        rS = ctx.tlc(mcs, mcs + ".cfg", simulate="file=%s,num=%d" % (os.path.join(ctx.spec_copy(), pref), nb),
                     depth=70, seed=ctx.seed, workers=1, timeout=1500, label="C01_sim_" + tag)
        if rS.violations or rS.errors:
            ctx.save_log("sim" + tag, rS.out)
            raise Undecided("simulation of the real spec reported %s" % (rS.violations or rS.errors)[:1])
        totals["transitions"] += rS.generated
        scheds = cc.sim_to_scheds(ctx, ctx.spec_copy(), pref)
        attacks = [a for a in load_attacks() if a["powers"] == powers and a["byz"] == byz3 and not a.get("restart")] + cc.load_prefixes(powers, byz3)
        for k, a in enumerate(attacks):
            scheds.append({"id": 100000 + k, "steps": a["steps"]})
        inp = {"mode": "replay", "dups": 5, "powers": powers, "byz": byz3, "maxround": 9, "scheds": scheds, "synctail": True, "byzafter": True,
               "random": 25 if quick else 400, "randlen": 200}
        rows, stats = cc.run_driver(ctx, binp, inp, tag)
        v = cc.validate(ctx, rows, info3, byz3, 9, tag, dedupe=True)
        account(v, rows, label)
        prow, pv = cc.plan_from_drift_net(ctx, binp, rows, v["drift"], inp, info3, byz3, 9, tag)
        if pv is not None:
            account(pv, prow, label + ", continuations planned by TLC from the observed drifting state")
            cov["drift_planning_" + tag] = {"schedules": pv["runs"], "property_failures": len(pv["viol"])}
        cov["configs"].append({"config": label + ", rounds 0..%d" % mr3, "exhaustive": False,
                               "simulated_behaviours": len(scheds) - len(attacks), "attack_schedules": [a["name"] for a in attacks],
                               "driver": stats, "events_validated_after_prefix_dedupe": v["events"]})

    # ---------------- D. attack schedules of the library for configurations not run above (quick rotates the 3+1 configs) ----
    done = {(tuple(pw), bi) for (_t, pw, bi, _l) in cfgs3}
    groups = {}
    for a in load_attacks():
        if not a.get("restart"):
            groups.setdefault((tuple(a["powers"]), tuple(a["byz"])), []).append(a)
    for (powers, byzl), lst in sorted(groups.items()):
        powers, byzl = list(powers), list(byzl)
        infoL = cc.run_driver(ctx, binp, {"mode": "info", "powers": powers, "byz": [], "maxround": 14}, "infoL")
        if (tuple(powers), infoL["names"].index(byzl[0])) in done:
            continue
        if 3 * sum(infoL["powers"][b] for b in byzl) >= sum(infoL["powers"].values()):
            log("library group %s/%s skipped: the faulty validators hold 1/3 or more of the power" % (powers, byzl))
            continue
        scheds = [{"id": 100000 + k, "steps": a["steps"]} for k, a in enumerate(lst)]
        tag = "lib" + "".join(str(x) for x in powers) + byzl[0]
        inp = {"mode": "replay", "dups": 5, "powers": powers, "byz": byzl, "maxround": 9, "scheds": scheds, "synctail": True, "byzafter": True,
               "random": 0}
        rows, stats = cc.run_driver(ctx, binp, inp, tag)
        v = cc.validate(ctx, rows, infoL, byzl, 9, tag, dedupe=True)
        account(v, rows, "attack library " + tag)
        cov["configs"].append({"config": "powers %s, faulty %s: attack library only" % (powers, byzl), "exhaustive": False,
                               "attack_schedules": [a["name"] for a in lst], "driver": stats, "events_validated_after_prefix_dedupe": v["events"]})

    # ---------------- R. stop/start of a node inside the height (real receiveRoutine, WAL and catchupReplay) -------------
    cc.restart_section(ctx, binp, load_attacks(), account, cov, totals)

    coverage = {
        "states": totals["states"], "transitions": totals["transitions"],
        "traces_validated_against_impl": totals["runs"],
        "evaluations": totals["events"], "distinct_nontrivial": len(totals["distinct"]),
        "rule": "every handleMsg/handleTimeout call executed on real consensus.State objects is one evaluation; distinct by "
                "(node, input, projected post-state, outputs). 2+1 config: every state of the act-augmented TLC graph is "
                "replayed; 3+1 configs: TLC simulation behaviours, the committed attack-schedule library (synthesised from "
                "weakened specs) and seeded random walks.",
        "samples": totals["samples"], "exhaustive": False,
        "exhaustive_note": "exhaustive and fully replayed for the 2+1 configuration only; 3+1 by simulation (see configs)",
        "decisions_observed": totals.get("decisions", 0), "decision_commit_rounds": totals.get("decision_rounds", {}),
        "tlc_runs": ctx.tlc_stats, "nonvacuity": nonvac,
        "known_findings_reproduced": dict(verdict.known),
    }
    coverage.update(cov)
    rc = verdict.finish()
    ctx.write_evidence(coverage, [
        "signatures unforgeable, hashes collision-free (symbolic values)",
        "gossip idealised to a message soup; reactor PeerState bookkeeping not in this module",
        "one height (the initial height); SkipTimeoutCommit off",
        "LazyByz / DerivedTimeouts reductions in the exhaustive 2+1 config (DESIGN.md 5/C01), none in simulation or trace validation",
    ], len(verdict.new))
    return rc


def replay(ctx, path):
    with open(path) as f:
        rep = json.load(f)
    pre = rep["replay"]["prefix"]
    reset = pre[0]
    powers = [reset["powers"][n] for n in reset["vals"]]
    steps = [{"name": r["ev"], "n": r["n"], "m": r.get("m"), "k": r.get("k", "-")} for r in pre[1:] if r["ev"] in ("Deliver", "ProcessInternal", "Timeout", "Restart")]
    binp = cc.build(ctx)
    mr = reset["maxround"]
    info = cc.run_driver(ctx, binp, {"mode": "info", "powers": powers, "byz": reset["byz"], "maxround": mr}, "info")
    rows, stats = cc.run_driver(ctx, binp, {"mode": "replay", "powers": powers, "byz": reset["byz"], "maxround": mr,
                                            "routine": bool(reset.get("routine")), "stamp": reset.get("stamp", 0), "filepv": bool(reset.get("filepv")),
                                            "scheds": [{"id": 0, "steps": steps}]}, "replay")
    v = cc.validate(ctx, rows, info, reset["byz"], mr, "replay")
    verdict = core.Verdict(ctx)
    for x in v["viol"]:
        verdict.add({"inv": x["inv"], "class": x["class"]}, {"failing_step": x["row"], "prefix": x["prefix"]})
        log("replay: %s (%s) at %s" % (x["inv"], x["class"], json.dumps(x["row"])[:300]))
    return verdict.finish()
