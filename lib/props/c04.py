"""C04 — No crash or restart can make a validator sign conflicting messages.

Spec:   spec/TMSigner.tla (operators), spec/TMSignerPV.tla (FilePV + crashes inside saveSigned),
        spec/TMSignCrash.tla (signing pipeline of consensus/state.go with WAL, crash, restart, replay)
Trace:  spec/trace/TMSignerTrace.tla
Harness: harness/inpkg/privval/zz_verif_c04_test.go   (real FilePV on files)
         harness/inpkg/consensus/zz_verif_c04_test.go (real State + FilePV + BaseWAL, crash/restart)
"""
import json
import os

from vlib import core
from vlib.core import Undecided, log
from vlib.tlaparse import to_json

PV_WEAK = ["ReleaseBeforeSave", "CheckHRSIgnoresStep", "SameHRSResigns", "TimestampOnlyComparesNothing",
           "LoadResetsState"]
PROPS = ("NoConflictingRelease", "PersistBeforeRelease", "HRSMonotone")


# ------------------------------------------------------------------------------ signer half
def pv_ops_from_acts(acts):
    """Turn the act sequence of a TMSignerPV behaviour into harness ops.  A request that gets
    a fresh signature is Call, WriteTmp, Rename, Return in the spec and ONE real call; a Crash
    in between becomes a crash op that names the stage."""
    ops = []
    i = 0
    n = len(acts)
    while i < n:
        a = acts[i]
        name = a["name"]
        if name == "Call":
            req = to_json(a["req"])
            if a["kind"] != "new":
                ops.append({"op": "sign", "req": req})
                i += 1
                continue
            j = i + 1
            while j < n and acts[j]["name"] in ("WriteTmp", "Rename"):
                j += 1
            if j < n and acts[j]["name"] == "Return":
                ops.append({"op": "sign", "req": req})
                i = j + 1
            elif j < n and acts[j]["name"] == "Crash":
                ops.append({"op": "crash", "stage": acts[j]["stage"], "torn": bool(acts[j]["torn"]), "req": req})
                i = j + 1
            else:       # behaviour ends inside the call: nothing observable happened yet
                i = n
        elif name == "Crash":
            ops.append({"op": "crash", "stage": "idle", "torn": False, "req": to_json(a["req"])})
            i += 1
        elif name == "Load":
            ops.append({"op": "load"})
            i += 1
        else:
            i += 1
    return ops


def pv_schedules_from_graph(g):
    scheds, seen = [], set()
    for nodes in core.graph_schedules(g):
        acts = [g.nodes[nid]["act"] for nid in nodes[1:]]
        ops = pv_ops_from_acts(acts)
        key = json.dumps(ops, sort_keys=True)
        if ops and key not in seen:
            seen.add(key)
            scheds.append({"ops": ops})
    return scheds


def pv_schedules_from_sim(ctx, prefix, num):
    from vlib.tlaparse import parse_behaviour_text
    scheds, seen = [], set()
    d = os.path.dirname(prefix)
    base = os.path.basename(prefix)
    for f in sorted(os.listdir(d)):
        if not f.startswith(base + "_"):
            continue
        with open(os.path.join(d, f)) as fh:
            # -simulate files carry the action location as a TLA+ comment line before each state
            beh = parse_behaviour_text("\n".join(ln for ln in fh.read().splitlines() if not ln.startswith("\\*")))
        os.remove(os.path.join(d, f))
        acts = [s["act"] for _h, s in beh[1:]]
        ops = pv_ops_from_acts(acts)
        key = json.dumps(ops, sort_keys=True)
        if ops and key not in seen:
            seen.add(key)
            scheds.append({"ops": ops})
    return scheds


# ------------------------------------------------------------------------------ pipeline half
STAGE_AT = {"flush": "flush", "check": "sign_before", "sign": "sign_before", "computed": "computed", "tmp": "tmp",
            "renamed": "renamed", "release": "sign_after", "ownsync": "wsync_mid", "ownhandle": "wsync_after"}
PREEMPTS = ("flush", "sign_before", "computed", "tmp", "renamed")   # crash points before the signer call returns


def cs_ops_from_acts(acts):
    """Turn the act sequence of a TMSignCrash behaviour into harness ops, and the list of signer
    calls the spec expects the real node to make (for the schedule-conformance statistic).
    One op = one iteration of the receive routine (in / own) or one node start (restart, the
    whole catch-up replay); the pipeline actions in between belong to the op in progress; a
    Crash inside an op becomes that op's crash directive."""
    ops, expect = [], []
    cur = None          # op in progress
    attempts = 0        # signing attempts begun inside cur
    pending = None      # the Check act whose call is in flight

    def close():
        nonlocal cur, attempts, pending
        if pending is not None:
            expect.append(pending)
            pending = None
        cur, attempts = None, 0

    for a in acts:
        name = a["name"]
        if name == "Deliver":
            close()
            m = a["m"]
            cur = {"op": "in", "t": m["t"], "r": m["r"], "v": m["v"], "fv": str(a["fv"])}
            ops.append(cur)
        elif name == "OwnAppend":
            close()
            cur = {"op": "own"}
            ops.append(cur)
        elif name == "BackgroundSync":
            close()
            ops.append({"op": "sync", "t": a["how"]})
        elif name == "Restart":
            close()
            cur = {"op": "restart", "fv": ""}
            ops.append(cur)
        elif name == "ReplayStep":
            if cur is not None and cur["op"] == "restart" and not cur["fv"]:
                cur["_fv1"] = cur.get("_fv1") or str(a["fv"])
            if cur is not None:
                cur["_lastfv"] = str(a["fv"])
        elif name == "ReplayDone":
            close()
        elif name == "FlushWal":
            attempts += 1
            if pending is not None:
                expect.append(pending)
                pending = None
        elif name == "Check":
            req = to_json(a["req"])
            pending = {"t": req["t"], "r": req["r"], "v": req["v"], "kind": "err" if a["kind"] == "err" else "ok",
                       "err": a["err"]}
            if req["t"] == "proposal" and cur is not None and cur["op"] == "restart" and not cur["fv"]:
                cur["fv"] = cur.get("_lastfv", "")
        elif name == "Crash":
            stage = a["stage"]
            # torn: "no" | "long" (>= 4 bytes of the next record survive) | "short" (1..3 bytes)
            d = {"keep": a["keep"], "of": a["unsynced"], "torn": a["torn"] != "no",
                 "tornlen": (1 + (a["keep"] + len(ops)) % 3) if a["torn"] == "short" else -1}
            if cur is None or (stage == "idle" and cur["op"] != "restart"):
                close()
                ops.append(dict(op="crash", **d))
            else:
                if stage == "idle":      # between two replayed records: dies at the next signing attempt
                    d.update(at="flush", attempt=attempts + 1)
                else:
                    d.update(at=STAGE_AT[stage], attempt=max(attempts, 1), tmptorn=bool(a["tmptorn"]))
                cur["crash"] = d
                if pending is not None and d["at"] in PREEMPTS:
                    pending = None
                elif pending is not None:
                    pending["discarded"] = True
                close()
        # ComputeSig, WriteTmp, Rename, Release, OwnSync, OwnHandle: inside the real call
    close()
    for o in ops:
        if o["op"] == "restart" and not o["fv"]:
            o["fv"] = o.get("_fv1", "A") or "A"
        for k in ("_fv1", "_lastfv"):
            o.pop(k, None)
    return ops, expect


def beh_of_states(states):
    """(acts, open_end) of a behaviour given as its list of states; open_end: it stops in the
    middle of an op, which the real node will nevertheless finish"""
    last = states[-1]
    open_end = bool(last["up"]) and (last["pc"]["stage"] != "idle" or last["replay"] > 0)
    return [st["act"] for st in states[1:]], open_end


def cs_schedules(behaviours, proposer, tag):
    out, seen = [], set()
    for acts, open_end in behaviours:
        ops, expect = cs_ops_from_acts(acts)
        if not ops:
            continue
        key = json.dumps(ops, sort_keys=True)
        if key in seen:
            continue
        seen.add(key)
        out.append({"proposer": proposer, "future_genesis": len(out) % 2 == 1, "ops": ops, "expect": expect, "src": tag,
                    "open_end": open_end})
    return out


def sim_behaviours(ctx, prefix):
    from vlib.tlaparse import parse_behaviour_text
    d, base = os.path.dirname(prefix), os.path.basename(prefix)
    out = []
    for f in sorted(os.listdir(d)):
        if not f.startswith(base + "_"):
            continue
        with open(os.path.join(d, f)) as fh:
            beh = parse_behaviour_text("\n".join(ln for ln in fh.read().splitlines() if not ln.startswith("\\*")))
        os.remove(os.path.join(d, f))
        out.append(beh_of_states([s for _h, s in beh]))
    return out


def judged(rows):
    """the events TLC needs: the per-record WAL log is in the raw trace for reading, the signer
    events carry the number of unsynced records themselves"""
    return [r for r in rows if r["ev"] != "Wal"]


def observed_calls(rows):
    """per run: the signer calls the real node made, in order"""
    runs, cur = [], None
    for r in rows:
        if r["ev"] == "Reset":
            cur = []
            runs.append(cur)
        elif r["ev"] == "CsSign" and cur is not None:
            cur.append({"t": r["req"]["t"], "r": r["req"]["r"], "v": r["req"]["v"], "kind": r["kind"],
                        "err": r["err"]})
    return runs


def schedule_from_rows(rows):
    """Rebuild the schedule of a pipeline run from its logged events (used by --replay: the
    failing prefix of a run, TLC-derived or random, is re-executed op by op; surviving WAL
    tails are given in concrete records, "exact")."""
    reset = rows[0]
    prop = [r for r, k in ((0, "proposer0"), (1, "proposer1")) if reset.get(k)]
    ops = []
    pending = None
    for r in rows[1:]:
        ev = r["ev"]
        if ev == "In":
            op = {"op": r["op"], "t": r["t"], "r": r["rr"], "v": r["v"], "fv": r["fv"]}
            ops.append(op)
            pending = op if not r["completed"] else None
        elif ev == "Sync":
            ops.append({"op": "sync", "t": r["how"]})
        elif ev == "Restart":
            op = {"op": "restart", "fv": r["fv"]}
            ops.append(op)
            pending = op
        elif ev == "Replay":
            if r["done"]:
                pending = None
        elif ev == "Crash":
            w = r["wal"]
            d = {"keep": w["kept"], "of": w["unsynced"], "exact": True, "torn": w["torn"], "tornlen": w["tornlen"]}
            if pending is not None and r["reached"] and r["stage"] not in ("idle", "panic"):
                d.update(at=r["stage"], attempt=max(r.get("attempt", 1), 1), tmptorn=r["tmp"] == "torn")
                pending["crash"] = d
            else:
                ops.append(dict(op="crash", **d))
            pending = None
    return {"proposer": prop, "future_genesis": bool(reset.get("future_genesis")), "ops": ops}


def add_violations(verdict, v, half):
    for x in v["viol"]:
        row = x["row"]
        sig = {"inv": x["inv"], "class": x["class"], "ev": row["ev"], "half": half}
        verdict.add(sig, {"half": half, "failing_step": row, "prefix": x["prefix"],
                          "tlc": {k: x[k] for k in ("inv", "class")}})


def run_pv_harness(ctx, scheds, nrandom, tag="pv"):
    inp = os.path.join(ctx.work, "c04-%s-in.json" % tag)
    with open(inp, "w") as f:
        json.dump({"scheds": scheds, "random": nrandom}, f)
    out = ctx.subdir("c04-%s-out" % tag)
    binp = ctx.go_build_test("privval", ["zz_verif_c04_test.go"])
    rc, txt = ctx.run_test(binp, "^TestVerifC04PV$", {"VERIF_IN": inp, "VERIF_OUT": out}, timeout=1800)
    if rc != 0:
        ctx.save_log("harness-pv", txt)
        raise Undecided("C04 privval harness failed (rc=%d): %s" % (rc, txt[-1500:]))
    rows = core.read_ndjson(os.path.join(out, "pv.ndjson"))
    n = sum(1 for r in rows if r["ev"] == "Reset")
    if n != len(scheds) + nrandom:
        raise Undecided("privval harness executed %d of %d runs" % (n, len(scheds) + nrandom))
    return rows


def run_cs_harness(ctx, scheds, nrandom, tag="cs"):
    inp = os.path.join(ctx.work, "c04-%s-in.json" % tag)
    with open(inp, "w") as f:
        json.dump({"scheds": [{k: v for k, v in sc.items() if k in ("proposer", "future_genesis", "ops")} for sc in scheds],
                   "random": nrandom}, f)
    out = ctx.subdir("c04-%s-out" % tag)
    binc = ctx.go_build_test("consensus", ["zz_verif_c04_test.go"])
    rc, txt = ctx.run_test(binc, "^TestVerifC04CS$", {"VERIF_IN": inp, "VERIF_OUT": out}, timeout=2400)
    if rc != 0:
        ctx.save_log("harness-cs", txt)
        raise Undecided("C04 consensus harness failed (rc=%d): %s" % (rc, txt[-1500:]))
    rows = core.read_ndjson(os.path.join(out, "cs.ndjson"))
    n = sum(1 for r in rows if r["ev"] == "Reset")
    if n != len(scheds) + nrandom:
        raise Undecided("consensus harness executed %d of %d runs" % (n, len(scheds) + nrandom))
    herr = [r for r in rows if r["ev"] == "HarnessError"]
    if herr:
        raise Undecided("consensus harness error in %d runs: %s" % (len(herr), herr[0]["msg"][:300]))
    return rows


def run(ctx):
    from concurrent.futures import ThreadPoolExecutor
    pool = ThreadPoolExecutor(max_workers=3)
    try:
        return run_with(ctx, pool)
    finally:
        pool.shutdown(wait=True, cancel_futures=True)     # no TLC process outlives the check


def run_with(ctx, pool):
    quick = ctx.tier == "quick"
    stats, nonvac = {}, {}
    W = 2                                   # TLC workers per run, three runs at a time: at most 8 workers

    def tlc(module, cfg, **kw):
        kw.setdefault("workers", W)
        kw.setdefault("timeout", 2400)
        return pool.submit(ctx.tlc, module, cfg, **kw)

    # ---- 1. submit every TLC run (they are independent) --------------------------------------
    # exhaustive
    f_pv = tlc("C04_pv", core.cfg_variant(ctx, "C04_pv.cfg", "C04_pv_run.cfg",
                                          {"MaxCalls": 3 if quick else 4, "MaxCrashes": 1}),
               must_pass=True, label="pv", workers=3)
    crash_cfgs = [("r0_prop", {"MaxRound": 0, "MaxCrashes": 2 if quick else 3, "Proposer": "{0}"}),
                  ("r0_noprop", {"MaxRound": 0, "MaxCrashes": 2 if quick else 3, "Proposer": "{}"})]
    if not quick:
        # two rounds (lock in round 0, proposer of round 1): one block value besides nil, measured 1.1M / 1.7M states
        crash_cfgs += [("r1_prop1", {"MaxRound": 1, "MaxCrashes": 1, "Proposer": "{1}", "Values": '{"A"}'}),
                       ("r1_noprop", {"MaxRound": 1, "MaxCrashes": 1, "Proposer": "{}", "Values": '{"A"}'})]
    f_crash = [tlc("C04_crash", core.cfg_variant(ctx, "C04_crash.cfg", "C04_crash_%s.cfg" % tag, consts),
                   must_pass=True, heap="6g", label="crash_" + tag, workers=3) for tag, consts in crash_cfgs]
    # graphs (act-augmented, no VIEW)
    dot_pv = os.path.join(ctx.work, "pv.dot")
    f_pvg = tlc("C04_pv", core.cfg_variant(ctx, "C04_pv.cfg", "C04_pv_graph.cfg", {"MaxCalls": 2, "MaxCrashes": 1 if quick else 2},
                                           drop_view=True, drop_properties=True),
                dump=["dot,actionlabels", dot_pv], must_pass=True, label="pv_graph")
    graph_cfgs = [] if quick else [("prop", "{0}", [0]), ("noprop", "{}", [])]
    f_csg = []
    for tag, prop, plist in graph_cfgs:
        cg = core.cfg_variant(ctx, "C04_crash.cfg", "C04_crash_graph_%s.cfg" % tag,
                              {"MaxRound": 0, "MaxCrashes": 1, "Proposer": prop}, drop_view=True, drop_properties=True)
        dotc = os.path.join(ctx.work, "crash_%s.dot" % tag)
        f_csg.append((tag, plist, dotc, tlc("C04_crash", cg, dump=["dot,actionlabels", dotc], must_pass=True,
                                            label="crash_graph_" + tag)))
    # simulation
    nsim = 150 if quick else 2500
    simdir = ctx.subdir("pvsim")
    f_pvs = tlc("C04_pv", core.cfg_variant(ctx, "C04_pv.cfg", "C04_pv_sim.cfg",
                                           {"MaxCalls": 8, "MaxCrashes": 3, "MaxHeight": 2, "MaxTs": 3},
                                           drop_view=True, drop_properties=True),
                simulate="file=%s,num=%d" % (os.path.join(simdir, "b"), nsim), depth=40, seed=ctx.seed, workers=1,
                label="pv_sim")
    nsimc = 90 if quick else 600
    f_css = []
    for tag, prop, plist, mr in (("prop0", "{0}", [0], 1), ("prop1", "{1}", [1], 1), ("noprop", "{}", [], 1),
                                 ("r0prop", "{0}", [0], 0), ("r0noprop", "{}", [], 0)):
        csim = core.cfg_variant(ctx, "C04_crash.cfg", "C04_crash_sim_%s.cfg" % tag,
                                {"MaxRound": mr, "MaxCrashes": 3, "Proposer": prop}, drop_view=True, drop_properties=True)
        sd = ctx.subdir("cssim_" + tag)
        f_css.append((tag, plist, sd, tlc("C04_crash", csim, simulate="file=%s,num=%d" % (os.path.join(sd, "b"), nsimc),
                                          depth=120, seed=ctx.seed, workers=1, label="crash_sim_" + tag)))
    # non-vacuity: every weakened signer / pipeline must be refuted; the pipeline counterexamples
    # are the environment's winning strategies against an implementation with that regression
    f_wpv = [(w, tlc("C04_pv", "C04_weak_pv_%s.cfg" % w, label="weak_pv_" + w, workers=1)) for w in PV_WEAK]
    f_wcs = [(w, tlc("C04_crash", "C04_weak_crash_%s.cfg" % w, label="weak_crash_" + w))
             for w in PV_WEAK + ["NoFlushBeforeSign"]]
    f_nf = tlc("C04_crash", core.cfg_variant(ctx, "C04_crash_noflush_safe.cfg", "C04_crash_noflush_safe_run.cfg",
                                             {"MaxCrashes": 1}), must_pass=True, label="crash_noflush_safe")
    f_det = tlc("C04_crash", core.cfg_variant(ctx, "C04_crash_detected.cfg", "C04_crash_detected_run.cfg",
                                              {"MaxCrashes": 1 if quick else 2}), must_pass=True, label="crash_detected")
    f_st = [tlc("C04_crash", "C04_crash_%s_lockout.cfg" % k, label="crash_%s_lockout" % k) for k in ("shorttorn", "emptyhead")]
    # the Go harnesses build meanwhile
    f_b1 = pool.submit(ctx.go_build_test, "privval", ["zz_verif_c04_test.go"])
    f_b2 = pool.submit(ctx.go_build_test, "consensus", ["zz_verif_c04_test.go"])

    # ---- 2. signer half: schedules, replay on the real FilePV --------------------------------
    r_g = f_pvg.result()
    g = core.parse_dot(dot_pv)
    os.remove(dot_pv)
    scheds = pv_schedules_from_graph(g)
    graph_states = len(g.nodes)
    del g
    r_s = f_pvs.result()
    if r_s.errors or r_s.violations:
        ctx.save_log("pv_sim", r_s.out)
        raise Undecided("simulation of TMSignerPV failed: %s" % (r_s.errors or r_s.violations)[:1])
    sim_scheds = pv_schedules_from_sim(ctx, os.path.join(simdir, "b"), nsim)
    nrandom = 200 if quick else 4000
    f_b1.result()
    f_rows_pv = pool.submit(run_pv_harness, ctx, scheds + sim_scheds, nrandom)

    # ---- 3. pipeline half: schedules ------------------------------------------------------------
    attack = []
    for w, f in f_wcs:
        rw = f.result()
        names = [v["name"] for v in rw.violations]
        wanted = PROPS if w != "NoFlushBeforeSign" else ("NoSelfLockout",)
        if not any(n in wanted for n in names):
            raise Undecided("vacuity: weakened pipeline Weak_%s is not refuted by TLC (%s)" % (w, names or rw.errors[:1]))
        nonvac["pipeline Weak_%s refuted by TLC (%s)" % (w, names[0])] = True
        for v in rw.violations[:1]:
            attack.append(beh_of_states([st for _h, st in v["trace"]]))
    for f in f_st:
        r_st = f.result()
        if not any(v["name"] == "NoSelfLockout" for v in r_st.violations):
            raise Undecided("a WAL behaviour that loses synced records no longer breaks NoSelfLockout in the spec")
        for v in r_st.violations[:1]:
            attack.append(beh_of_states([st for _h, st in v["trace"]]))
    cs_scheds = cs_schedules(attack, [0], "attack")
    graph_total, graph_complete, r_graphs = 0, not quick, []
    for tag, plist, dotc, f in f_csg:
        r_graphs.append(f.result())
        gg = core.parse_dot(dotc)
        os.remove(dotc)
        behs = [beh_of_states([gg.nodes[nid] for nid in nodes]) for nodes in core.graph_schedules(gg)]
        graph_total += len(gg.nodes)
        del gg
        cs_scheds += cs_schedules(behs, plist, "graph_" + tag)
    for tag, plist, sd, f in f_css:
        rs = f.result()
        if rs.errors or rs.violations:
            ctx.save_log("crash_sim", rs.out)
            raise Undecided("simulation of TMSignCrash failed: %s" % (rs.errors or rs.violations)[:1])
        cs_scheds += cs_schedules(sim_behaviours(ctx, os.path.join(sd, "b")), plist, "sim_" + tag)
    ncsrandom = 80 if quick else 1000
    f_b2.result()
    rows_cs = run_cs_harness(ctx, cs_scheds, ncsrandom)
    rows_pv = f_rows_pv.result()

    # ---- 4. the remaining TLC verdicts ---------------------------------------------------------
    r_pv = f_pv.result()
    r_crash = [f.result() for f in f_crash]
    for w, f in f_wpv:
        rw = f.result()
        names = [v["name"] for v in rw.violations]
        if not any(n in PROPS for n in names):
            raise Undecided("vacuity: weakened spec Weak_%s is not refuted by TLC (%s)" % (w, names or rw.errors[:1]))
        nonvac["signer Weak_%s refuted by TLC (%s)" % (w, names[0])] = True
    f_nf.result()
    nonvac["the three C04 properties hold in the pipeline WITHOUT flush-before-sign (the signer alone prevents the "
           "conflict; the flush is what makes replay recompute the same vote: NoSelfLockout)"] = True
    f_det.result()
    nonvac["NoSelfLockout holds iff the WAL never loses synced records; the code as it is breaks it in two ways (undetected "
           "1..3-byte torn tail; #ENDHEIGHT 0 written into an empty head behind rotated files) - WAL defects, property C15"] = True

    # ---- 5. trace validation (TLC judges the observed behaviour) --------------------------------
    v_pv = core.validate_traces(ctx, "TMSignerTrace", rows_pv, label="pv", max_events=4000)
    v_cs = core.validate_traces(ctx, "TMSignerTrace", judged(rows_cs), label="cs", max_events=4000)

    # how well the abstract node of TMSignCrash predicts the real node: signer calls expected
    # by the behaviour vs. signer calls made (statistic only)
    obs = observed_calls(rows_cs)
    same, nsched, mism = 0, 0, []
    for i, sc in enumerate(cs_scheds):
        if sc["src"] == "attack":
            continue        # counterexamples of weakened specs: the real code must NOT follow them
        nsched += 1
        exp = [{k: x[k] for k in ("t", "r", "v", "kind", "err")} for x in sc["expect"]]
        if exp == obs[i] or (sc["open_end"] and exp == obs[i][:len(exp)]):
            same += 1
        elif len(mism) < 2:
            mism.append({"src": sc["src"], "expected": exp, "observed": obs[i]})
    stats["pipeline_schedules"] = {"attack": sum(1 for x in cs_scheds if x["src"] == "attack"),
                                   "graph": sum(1 for x in cs_scheds if x["src"].startswith("graph")),
                                   "sim": sum(1 for x in cs_scheds if x["src"].startswith("sim")),
                                   "random": ncsrandom}
    stats["pipeline_schedule_conformance"] = {"runs": nsched, "signer_calls_as_predicted": same, "first_mismatches": mism}
    crashes = [r for r in rows_cs if r["ev"] == "Crash"]
    stats["pipeline_crashes"] = {"total": len(crashes),
                                 "by_stage": {st: sum(1 for r in crashes if r["stage"] == st)
                                              for st in sorted(set(r["stage"] for r in crashes))},
                                 "during_replay": sum(1 for r in crashes if r["replay"]),
                                 "with_torn_wal_record": sum(1 for r in crashes if r["wal"]["torn"]),
                                 "with_short_torn_tail": sum(1 for r in crashes if 0 < r["wal"]["tornlen"] < 4),
                                 "not_reached": sum(1 for r in rows_cs if r["ev"] == "CrashNotReached"),
                                 "wal_repaired_on_restart": sum(1 for r in rows_cs if r["ev"] == "Replay" and r["repaired"])}
    stats["pipeline_node_panics"] = sum(1 for r in crashes if r["stage"] == "panic")
    stats["pipeline_graph_states"] = graph_total
    stats["pipeline_graph_completely_replayed"] = graph_complete

    # ---- 6. verdict ------------------------------------------------------------------------
    verdict = core.Verdict(ctx)
    add_violations(verdict, v_pv, "signer")
    add_violations(verdict, v_cs, "pipeline")
    drift = v_pv["drift"] + v_cs["drift"]

    distinct = set()
    for r in rows_pv:
        if r["ev"] == "Sign":
            distinct.add(json.dumps([r["req"], r["kind"], r["err"], r["out"], r["mem"]], sort_keys=True))
        elif r["ev"] == "Crash":
            distinct.add(json.dumps([r["stage"], r["torn"], r["req"], r["file"]], sort_keys=True))
    for r in rows_cs:
        if r["ev"] == "CsSign":
            distinct.add(json.dumps(["cs", r["req"]["t"], r["req"]["r"], r["req"]["v"], r["kind"], r["err"], r["out"]["v"],
                                     r["mem"]["r"], r["mem"]["s"], r["mem"]["sb"]["v"], r["replay"], r["discarded"]], sort_keys=True))
        elif r["ev"] == "Crash":
            distinct.add(json.dumps(["cs", r["stage"], r["signed"], r["wal"]["kept"], r["wal"]["unsynced"], r["wal"]["torn"],
                                     r["file"]["r"], r["file"]["s"], r["replay"]], sort_keys=True))
    sample_cs = [r for r in rows_cs if r["ev"] != "Wal"][:14]
    tlc_all = [r_pv, r_g] + r_crash + r_graphs
    coverage = {
        "states": sum(x.distinct for x in tlc_all),
        "transitions": sum(x.generated for x in tlc_all),
        "traces_validated_against_impl": v_pv["runs"] + v_cs["runs"],
        "evaluations": len(rows_pv) + len(rows_cs),
        "distinct_nontrivial": len(distinct),
        "rule": "signer half: every state of the act-augmented TMSignerPV graph (2 calls) reached by replaying its BFS "
                "path on a real FilePV, %d simulated behaviours (8 calls, 3 crashes, 2 heights), %d seeded random runs. "
                "pipeline half: a real consensus.State + FilePV + BaseWAL crashed and restarted along %d TLC behaviours of "
                "TMSignCrash (counterexamples of the weakened pipelines, %ssimulation with rounds 0..1 and up to 3 crashes) "
                "and %d seeded random schedules. A step is distinct by (request, result, returned message, memory state) / "
                "(crash stage, surviving WAL tail, file)" % (
                    len(sim_scheds), nrandom, len(cs_scheds),
                    "every BFS path of the round-0 one-crash graphs, " if graph_complete else "", ncsrandom),
        "samples": [core.abridge([r for r in rows_pv[:10]], 10), core.abridge(sample_cs, 14)],
        # the signer graph is always replayed completely; the pipeline graphs only in the thorough tier
        "exhaustive": bool(graph_complete),
        "tlc_runs": ctx.tlc_stats,
        "pv_graph_states_replayed": graph_states,
        "pv_graph_schedules": len(scheds),
        "pv_sim_schedules": len(sim_scheds),
        "pv_random_runs": nrandom,
        "conformance_drift": [{"what": d["what"], "spec": d.get("spec"), "step": core.abridge(d["row"])} for d in drift[:5]],
        "conformance_drift_count": len(drift),
        "conformance_drift_kinds": {w: sum(1 for d in drift if d["what"] == w) for w in sorted(set(d["what"] for d in drift))},
        "nonvacuity": nonvac,
        "known_findings_reproduced": dict(verdict.known),
    }
    coverage.update(stats)
    rc = verdict.finish()
    ctx.write_evidence(coverage, [
        "ed25519 signing is deterministic and unforgeable: a signature is identified with the sign bytes it verifies over",
        "crash = process death; a power loss that undoes a completed rename (no directory fsync in WriteFileAtomic) is not modelled and can never be a violation here",
        "the crash points inside saveSigned (temp file written / renamed, call not returned) are produced by placing the file the real call wrote as a stray temp file / as the state file",
        "the pipeline harness plays the three cases of State.receiveRoutine itself (wal.Write / wal.WriteSync, then handleMsg / handleTimeout) so that it is the only scheduler; the catch-up loop of State.OnStart is copied into it",
        "a signature handed back by the real FilePV counts as released even when the (simulated) crash falls before consensus gets it",
        "one height, rounds 0..1, four validators of equal power; remote signers are not covered",
        "a TLC verdict is accepted only if the verdict file covers every trace line",
    ], len(verdict.new))
    return rc


def replay(ctx, path):
    """Re-execute the failing prefix of a stored replay on the current tree and re-validate it."""
    with open(path) as f:
        rep = json.load(f)
    prefix = rep["replay"]["prefix"]
    half = rep["replay"].get("half", "signer")
    if half == "signer":
        ops = []
        for r in prefix[1:]:
            if r["ev"] == "Sign":
                ops.append({"op": "sign", "req": r["req"]})
            elif r["ev"] == "Crash":
                ops.append({"op": "crash", "stage": r["stage"], "torn": r["torn"], "req": r["req"]})
            elif r["ev"] == "Load":
                ops.append({"op": "load"})
        rows = run_pv_harness(ctx, [{"ops": ops}], 0, tag="replay")
    else:
        # the schedule is stored with the replay (a random run is reproduced by its recorded ops)
        sched = rep["replay"].get("schedule")
        if not sched:
            sched = schedule_from_rows(prefix)
        rows = run_cs_harness(ctx, [sched], 0, tag="replay")
    v = core.validate_traces(ctx, "TMSignerTrace", judged(rows), label="replay")
    verdict = core.Verdict(ctx)
    add_violations(verdict, v, half)
    for x in v["viol"]:
        log("replay: %s fails at %s" % (x["inv"], json.dumps(x["row"])[:300]))
    return verdict.finish()
