"""C03 — Termination: correct nodes decide once the network behaves.
Spec: TMConsensusGST (TMConsensusNet + GST + one-slot ticker + idealised gossip);
trace spec TMConsensusTrace (BoundedRounds, Termination); driver zz_verif_cons_test.go +
the synchronous-suffix executor zz_verif_cons_sync_test.go."""
import json
import os
import re

from vlib import core
from vlib.core import Undecided, log
from props import cons_common as cc

GST_CONSTS = {"LazyByz": "TRUE", "TimeoutsOn": '{"NewHeight", "Propose", "PrevoteWait", "PrecommitWait"}'}


def gst_mc(ctx, name, info, byz, maxround, premax, bound, byzafter, byzvalues, weak=(), invariants=("BoundedRounds", "NoPostGSTDeadlock", "Agreement"),
           view=True, liveness=False):
    consts = dict(GST_CONSTS)
    consts.update({"Byz": cc.tla_set(byz), "ByzValues": cc.tla_set(byzvalues), "PreMax": premax, "Bound": bound,
                   "ByzAfterGST": "TRUE" if byzafter else "FALSE"})
    cc.gen_mc(ctx, name, "TMConsensusGST", info, byz, maxround, extra_consts=consts, init="GInit", next_="GNext",
              invariants=list(invariants), view="GView" if view else None, weak=weak)
    if liveness:
        p = os.path.join(ctx.spec_copy(), name + ".cfg")
        txt = open(p).read()
        txt = txt.replace("INIT GInit\n", "SPECIFICATION GSpec\n").replace("NEXT GNext\n", "")
        txt = re.sub(r'^INVARIANTS.*\n', '', txt, flags=re.M)
        txt = re.sub(r'^VIEW.*\n', '', txt, flags=re.M)
        txt += "PROPERTY Termination\n"
        open(p, "w").write(txt)
    return name


def run(ctx):
    quick = ctx.tier == "quick"
    binp = cc.build(ctx)
    verdict = core.Verdict(ctx)
    cov = {"configs": [], "conformance_drift": [], "conformance_drift_count": 0, "other_property_failures": []}
    tot = {"states": 0, "transitions": 0, "runs": 0, "events": 0, "distinct": set(), "samples": [], "outcomes": {}, "extra": {}}

    def account(v, rows, label):
        for x in v["viol"]:
            sig = {"inv": x["inv"], "class": x["class"]}
            if x["inv"] in cc.C03_INVS:
                verdict.add(sig, {"failing_step": x["row"], "prefix": x["prefix"], "config": label})
            else:
                cov["other_property_failures"].append(dict(sig, config=label))
        cov["conformance_drift"] += [{"what": d["what"], "fields": d.get("fields"), "config": label,
                                      "step": {k: d["row"].get(k) for k in ("ev", "n", "m", "k")}} for d in v["drift"][:3]]
        cov["conformance_drift_count"] += len(v["drift"])
        tot["runs"] += v["runs"]
        tot["events"] += len(rows)
        gst_round, cur = {}, None
        for r in rows:
            if r["ev"] == "Reset":
                cur = r["run"]
                last_round = {}
            elif r["ev"] == "GST":
                gst_round[cur] = max(last_round.values()) if last_round else 0
            elif r["ev"] == "SyncEnd":
                tot["outcomes"][r["outcome"]] = tot["outcomes"].get(r["outcome"], 0) + 1
            elif "post" in r and r["post"]["height"] == 1:
                last_round[r["n"]] = r["post"]["round"]
                if cur in gst_round:
                    ex = r["post"]["round"] - gst_round[cur]
                    tot["extra"][cur, label] = max(tot["extra"].get((cur, label), 0), ex)
                    tot["distinct"].add(hash(json.dumps([label, r["n"], r.get("m"), r.get("k"), r["post"]], sort_keys=True)))

    # ---------------- A. 2+1 GST model: exhaustive invariants + liveness, graph replayed ---------------
    powers, byz = [2, 2, 1], ["v2"]
    info = cc.run_driver(ctx, binp, {"mode": "info", "powers": powers, "byz": byz, "maxround": 16}, "infoA")
    premax, bound, mr = 1, 2, 4
    mc = gst_mc(ctx, "C03_small_run", info, byz, mr, premax, bound, False, ["Z0"])
    rA = ctx.tlc(mc, mc + ".cfg", must_pass=True, timeout=1500, label="C03_small")
    tot["states"] += rA.distinct
    tot["transitions"] += rA.generated
    mcl = gst_mc(ctx, "C03_small_live", info, byz, mr, premax, bound, False, ["Z0"], liveness=True)
    rL = ctx.tlc(mcl, mcl + ".cfg", must_pass=True, timeout=1500, label="C03_small_liveness")
    tot["states"] += rL.distinct
    tot["transitions"] += rL.generated
    nonvac = {}
    mcb = gst_mc(ctx, "C03_small_b1", info, byz, mr, premax, bound - 1, False, ["Z0"])
    rB = ctx.tlc(mcb, mcb + ".cfg", timeout=600, label="C03_bound_minus_1")
    nonvac["Bound-1 refuted"] = [x["name"] for x in rB.violations]
    if "BoundedRounds" not in nonvac["Bound-1 refuted"]:
        raise Undecided("vacuity: BoundedRounds also holds with Bound-1")
    mcw = gst_mc(ctx, "C03_weak_ticker", info, byz, mr, premax, bound, False, ["Z0"], weak=["TickerKeepsFirst"])
    rW = ctx.tlc(mcw, mcw + ".cfg", timeout=600, label="C03_weak_TickerKeepsFirst")
    nonvac["TickerKeepsFirst refuted"] = [x["name"] for x in rW.violations]
    if not rW.violations:
        raise Undecided("vacuity: a ticker that loses later timeouts is not refuted")
    if not quick:
        mcz = gst_mc(ctx, "C03_small_byz", info, byz, mr, premax, bound + 1, True, ["Z0"])
        rZ = ctx.tlc(mcz, mcz + ".cfg", timeout=2400, label="C03_small_byzafter", heap="8g")
        if rZ.violations or rZ.errors:
            ctx.save_log("C03_small_byzafter", rZ.out)
            raise Undecided("GST model with active Byzantine validators reported %s" % (rZ.violations or rZ.errors)[:1])
        tot["states"] += rZ.distinct
        tot["transitions"] += rZ.generated
        cov["configs"].append({"config": "2+1 GST model, Byzantine active after GST, Bound %d" % (bound + 1),
                               "tlc_states": rZ.distinct, "complete": not rZ.timed_out})
    mcg = gst_mc(ctx, "C03_small_graph", info, byz, mr, premax, bound, False, ["Z0"], invariants=(), view=False)
    dot = os.path.join(ctx.work, "c03.dot")
    ctx.tlc(mcg, mcg + ".cfg", dump=["dot,actionlabels", dot], must_pass=True, timeout=1500, label="C03_small_graph")
    g = core.parse_dot(dot)
    os.remove(dot)
    scheds = cc.graph_to_scheds(g)
    graph_nodes = len(g.nodes)
    del g
    nvals = len(powers)
    # the graph paths carry the model's own synchronous suffix (GST step, gossip deliveries, tick firings);
    # the random prefixes are completed by the driver's synchronous-suffix executor
    inp = {"mode": "replay", "powers": powers, "byz": byz, "maxround": 14, "scheds": scheds, "synctail": not quick,
           "syncmax": 2 * nvals, "byzafter": True, "random": 0}
    rows, stats = cc.run_driver(ctx, binp, inp, "A")
    inp2 = dict(inp, scheds=[], synctail=True, random=80 if quick else 1000, randlen=60)
    rows2, stats2 = cc.run_driver(ctx, binp, inp2, "A2")
    off = max([r["run"] for r in rows] + [0])
    for r in rows2:
        r["run"] += off
    rows += rows2
    stats = {k: stats[k] + stats2[k] for k in stats}
    v = cc.validate(ctx, rows, info, byz, 14, "A", dedupe=True)
    account(v, rows, "2+1")
    cov["configs"].append({"config": "2 correct + 1 Byzantine, GST model rounds 0..%d, pre-GST rounds 0..%d, Bound %d" % (mr, premax, bound),
                           "exhaustive": True, "tlc_states": rA.distinct, "liveness_states": rL.distinct,
                           "graph_nodes_replayed": graph_nodes, "schedules": len(scheds), "driver": stats,
                           "events_validated_after_prefix_dedupe": v["events"]})
    tot["samples"].append(core.abridge([{k: r.get(k) for k in ("ev", "n", "m", "k", "outcome")} for r in rows if r["ev"] in ("GST", "Timeout", "SyncEnd")][:8], 8))

    # ---------------- B. 3+1: adversarial prefixes (simulation of the asynchronous spec, random walks) + suffix
    for (tag, powers, bi) in (("eq0", [1, 1, 1, 1], 0), ("eq3", [1, 1, 1, 1], 3), ("w2", [2, 2, 1, 1], 2)):
        info3 = cc.run_driver(ctx, binp, {"mode": "info", "powers": powers, "byz": [], "maxround": 16}, "info" + tag)
        byz3 = [info3["names"][bi]]
        mcs = cc.net_mc(ctx, "C03_pre_" + tag, info3, byz3, 2, lazy=False, view=False)
        nb = 40 if quick else 300
        rS = ctx.tlc(mcs, mcs + ".cfg", simulate="file=%s,num=%d" % (os.path.join(ctx.spec_copy(), "pre" + tag), nb),
                     depth=50, seed=ctx.seed, workers=1, timeout=1500, label="C03_pre_" + tag)
        if rS.violations or rS.errors:
            ctx.save_log("C03_pre_" + tag, rS.out)
            raise Undecided("simulation of the asynchronous spec reported %s" % (rS.violations or rS.errors)[:1])
        tot["transitions"] += rS.generated
        scheds = cc.sim_to_scheds(ctx, ctx.spec_copy(), "pre" + tag)
        pre = cc.load_prefixes(powers, byz3)
        for k, a in enumerate(pre):           # each goal prefix three times: the suffix' Byzantine interference is seeded per run
            for rep in range(3):
                scheds.append({"id": 300000 + 10 * k + rep, "steps": a["steps"]})
        n3 = len(powers)
        inp = {"mode": "replay", "powers": powers, "byz": byz3, "maxround": 14, "scheds": scheds, "synctail": True,
               "syncmax": 2 * n3, "byzafter": True, "random": 60 if quick else 500, "randlen": 70}
        rows, stats = cc.run_driver(ctx, binp, inp, tag)
        v = cc.validate(ctx, rows, info3, byz3, 14, tag, dedupe=True)
        account(v, rows, "3+1 " + tag)
        prow, pv = cc.plan_from_drift_net(ctx, binp, rows, v["drift"], inp, info3, byz3, 14, tag)
        if pv is not None:
            account(pv, prow, "3+1 " + tag + ", continuations planned by TLC from the observed drifting state")
            cov["drift_planning_" + tag] = {"schedules": pv["runs"], "property_failures": len(pv["viol"])}
        cov["configs"].append({"config": "3 correct + 1 Byzantine (%s), powers %s: asynchronous prefixes + synchronous suffix" % (byz3[0], powers),
                               "prefixes_from_tlc_simulation": len(scheds) - 3 * len(pre),
                               "goal_prefixes": [a["name"] for a in pre], "driver": stats,
                               "events_validated_after_prefix_dedupe": v["events"]})

    # ---------------- C. library schedules for validator sets / faulty validators not among the configurations above
    covered = set()
    for (tag, powers, bi) in (("eq0", [1, 1, 1, 1], 0), ("eq3", [1, 1, 1, 1], 3), ("w2", [2, 2, 1, 1], 2)):
        covered.add((tuple(powers), bi))
    libdir = os.path.join(core.VERIF, "spec", "attacks", "C03")
    groups = {}
    for f in sorted(os.listdir(libdir)) if os.path.isdir(libdir) else []:
        if f.endswith(".json"):
            with open(os.path.join(libdir, f)) as fh:
                a = json.load(fh)
            groups.setdefault((tuple(a["powers"]), tuple(a["byz"])), []).append(a)
    for (powers, byzl), lst in sorted(groups.items()):
        powers, byzl = list(powers), list(byzl)
        infoL = cc.run_driver(ctx, binp, {"mode": "info", "powers": powers, "byz": [], "maxround": 16}, "infoL")
        if (tuple(powers), infoL["names"].index(byzl[0])) in covered:
            continue
        if 3 * sum(infoL["powers"][b] for b in byzl) >= sum(infoL["powers"].values()):
            log("library group %s/%s skipped: the faulty validators hold 1/3 or more of the power" % (powers, byzl))
            continue
        scheds = [{"id": 400000 + 10 * k + rep, "steps": a["steps"]} for k, a in enumerate(lst) for rep in range(3)]
        inp = {"mode": "replay", "powers": powers, "byz": byzl, "maxround": 14, "scheds": scheds, "synctail": True,
               "syncmax": 2 * len(powers), "byzafter": True, "random": 20 if quick else 500, "randlen": 70}
        tag = "lib" + "".join(str(x) for x in powers) + byzl[0]
        rows, stats = cc.run_driver(ctx, binp, inp, tag)
        v = cc.validate(ctx, rows, infoL, byzl, 14, tag, dedupe=True)
        account(v, rows, "library " + tag)
        cov["configs"].append({"config": "powers %s, faulty %s: committed attack / prefix schedules + synchronous suffix" % (powers, byzl),
                               "schedules": [a["name"] for a in lst], "driver": stats, "events_validated_after_prefix_dedupe": v["events"]})

    hist = {}
    for x in tot["extra"].values():
        hist[x] = hist.get(x, 0) + 1
    coverage = {
        "states": tot["states"], "transitions": tot["transitions"], "traces_validated_against_impl": tot["runs"],
        "evaluations": tot["events"], "distinct_nontrivial": len(tot["distinct"]),
        "rule": "one evaluation = one handleMsg/handleTimeout call on a real consensus.State; distinct_nontrivial counts distinct "
                "(config, node, input, post-state) tuples observed AFTER GST. Every run ends with the synchronous-suffix executor "
                "(idealised gossip, earliest timeout first, faulty validators still active); TLC checks on the recorded trace that "
                "no node exceeds the round bound and that all nodes decide.",
        "samples": tot["samples"], "exhaustive": False,
        "exhaustive_note": "the 2+1 GST model is exhaustive (invariants and liveness) and its graph is fully replayed; 3+1 by simulated "
                           "and random adversarial prefixes",
        "suffix_outcomes": tot["outcomes"], "rounds_needed_after_gst_histogram": {str(k): hist[k] for k in sorted(hist)},
        "tlc_runs": ctx.tlc_stats, "nonvacuity": nonvac, "known_findings_reproduced": dict(verdict.known),
    }
    coverage.update(cov)
    rc = verdict.finish()
    ctx.write_evidence(coverage, [
        "after GST message delays are negligible relative to timeouts (global quiescence before any timeout) and timers run at "
        "comparable speed on all nodes (the timeout scheduled for the earliest round/step fires first)",
        "gossip is idealised by the driver (the property assumes exactly that); consensus/reactor.go is not exercised",
        "round bound used on real runs: 2 x number of validators; one height",
        "the ticker's one-slot overwrite rule is transcribed in the driver and in the spec (consensus/ticker.go itself runs timers "
        "on wall-clock time and is not driven)",
    ], len(verdict.new))
    return rc


def replay(ctx, path):
    from props import c01
    return c01.replay(ctx, path)
