"""C19 — Subscribers get exactly their matching events; searches return exact matches.
Spec: spec/TMQuery.tla (query semantics, one source of truth), spec/TMPubSub.tla +
TMPubSubSM.tla (server loop), spec/TMIndexer.tla (kv tx / block index and search);
trace specs: spec/trace/TMPubSubTrace.tla, spec/trace/TMIndexerTrace.tla;
harnesses: harness/inpkg/libs/pubsub/zz_verif_c19_test.go (package pubsub, real server loop),
harness/inpkg/state/txindex/zz_verif_c19_test.go (real EventBus + IndexerService + kv indexers)."""
import hashlib
import json
import os
import random
from concurrent.futures import ThreadPoolExecutor

from vlib import core
from vlib.core import Undecided, log
from vlib.tlaparse import to_json

# ------------------------------------------------------------------------------------------
# alphabets (concrete syntax of the query language / event attribute values)
# ------------------------------------------------------------------------------------------


def C(key, op, kind="none", arg=""):
    return {"key": key, "op": op, "kind": kind, "arg": arg}


# the queries/events of spec/mc/C19_pubsub.tla (MCQueries / MCEvents), same order
MC_QUERIES = [[C("tx.height", ">", "int", "5")],
              [C("a.s", "=", "str", "x y")],
              [C("a.s", "=", "str", "x  y")]]
MC_EVENTS = [[{"k": "tm.event", "v": ["Tx"]}, {"k": "tx.height", "v": ["7"]}, {"k": "a.s", "v": ["x y"]}],
             [{"k": "tm.event", "v": ["Tx"]}, {"k": "tx.height", "v": ["abc"]}, {"k": "a.s", "v": ["x  y"]}],
             [{"k": "tm.event", "v": ["NewBlock"]}]]

PS_QUERIES = [
    [C("tm.event", "=", "str", "Tx")],
    [C("tm.event", "=", "str", "NewBlockHeader")],
    [C("tx.height", ">", "int", "5")],                                    # errors on "abc"
    [C("tm.event", "=", "str", "Tx"), C("tx.height", ">=", "int", "3")],
    [C("a.n", "=", "int", "10")],                                         # errors on non-numeric a.n
    [C("a.n", "<=", "int", "7")],
    [C("a.n", ">", "float", "1.5")],
    [C("a.s", "CONTAINS", "str", "x")],
    [C("a.s", "EXISTS")],
    [C("a", "EXISTS")],
    [C("tm.event", "=", "str", "Tx"), C("a.n", "<", "int", "3")],         # errors only on Tx events
    [C("a.n", "=", "int", "10"), C("a.s", "=", "str", "xy")],
    [C("tm.event", "EXISTS")],
    [C("a.s", "=", "str", "y/z")],
]
PS_ERRING = [2, 4, 5, 6, 10, 11]     # indices into PS_QUERIES that can evaluate to an error

# NEAR-DUPLICATE queries: different queries of the language (a quoted operand is compared
# exactly) whose texts differ only in white space inside the quotes (blank runs, tab) or in
# letter case, each pair with event values that tell the two apart.  A server that keys
# subscriptions by anything coarser than the exact query text confuses them.
NEAR_DUP = [
    ([C("a.s", "=", "str", "x y")], [C("a.s", "=", "str", "x  y")], ["x y"], ["x  y"]),
    ([C("a.s", "=", "str", "x y")], [C("a.s", "=", "str", "x\ty")], ["x y"], ["x\ty"]),
    ([C("a.s", "=", "str", " x")], [C("a.s", "=", "str", "x")], [" x"], ["x"]),
    ([C("a.s", "CONTAINS", "str", "b  c")], [C("a.s", "CONTAINS", "str", "b c")], ["ab  cd"], ["ab cd"]),
    ([C("a.s", "=", "str", "XY")], [C("a.s", "=", "str", "xy")], ["XY"], ["xy"]),
    ([C("tm.event", "=", "str", "Tx"), C("a.s", "=", "str", "x y ")],
     [C("tm.event", "=", "str", "Tx"), C("a.s", "=", "str", "x y")], ["x y "], ["x y"]),
]

V_TM = [["Tx"], ["NewBlockHeader"]]
V_HEIGHT = [None, ["3"], ["7"], ["abc"], ["abc", "7"], ["7", "abc"]]
V_AN = [None, ["10"], ["1.5"], ["10atom"], ["abc"], [""], ["3/4"], ["2", "10"], ["1.2.3"], ["007"]]
V_AS = [None, ["x"], ["xy"], ["y/z"], ["x", "b"], ["x y"], ["x  y"], ["x\ty"], ["XY"]]


def mk_events(rng, err_bias=0.5, as_values=None):
    """as_values: a.s values that must be likely (the ones that tell near-duplicates apart)"""
    if rng.random() < 0.05:
        return []
    ev = [{"k": "tm.event", "v": rng.choice(V_TM)}]
    h = rng.choice(V_HEIGHT) if rng.random() < 0.8 else None
    if h is not None and rng.random() > err_bias and "abc" in h:
        h = ["7"]
    if h is not None:
        ev.append({"k": "tx.height", "v": h})
    an = rng.choice(V_AN)
    if an is not None:
        ev.append({"k": "a.n", "v": an})
    as_ = rng.choice(V_AS)
    if as_values and rng.random() < 0.6:
        as_ = rng.choice(as_values)
    if as_ is not None:
        ev.append({"k": "a.s", "v": as_})
    return ev


def render(conds, spell=0):
    """The query text the harness will build (mirror of c19RenderSpelled), used to make sure
    two query ids of one schedule never denote the same text."""
    sp, and_ = {0: (" ", " AND "), 1: ("", " AND "), 2: ("  ", "  AND  ")}[spell]
    parts = []
    for c in conds:
        pre = " " if sp == "" and c["op"] in ("EXISTS", "CONTAINS") else sp
        if c["op"] == "EXISTS":
            parts.append(c["key"] + pre + "EXISTS")
        elif c["kind"] == "str":
            parts.append(c["key"] + pre + c["op"] + sp + "'" + c["arg"] + "'")
        else:
            parts.append(c["key"] + pre + c["op"] + sp + c["arg"])
    return and_.join(parts)


QM = [C("tm.event", "=", "str", "Tx")]
EV_TX = [{"k": "tm.event", "v": ["Tx"]}, {"k": "tx.height", "v": ["7"]}]


def slow_recovery_steps(fast, slow, other, qm, qo, k, fastcap, variant):
    """fast and slow hold the same query text qm (other holds qo); slow (capacity k) does not read
    and is dropped by the loop on the (k+1)-th matching publication; then it recovers the way a
    client does -- Unsubscribe / UnsubscribeAll / Subscribe again -- and publications go on."""
    pub = {"op": "Publish", "events": EV_TX}
    steps = [{"op": "Subscribe", "c": fast, "q": qm, "cap": fastcap},
             {"op": "Subscribe", "c": other, "q": qo, "cap": 0},
             {"op": "Subscribe", "c": slow, "q": qm, "cap": k}] + [dict(pub) for _ in range(k + 1)]
    unsub = {"op": "Unsubscribe", "c": slow, "q": qm}
    resub = {"op": "Subscribe", "c": slow, "q": qm, "cap": 2}
    steps += {"a": [unsub], "b": [{"op": "UnsubscribeAll", "c": slow}],
              "c": [dict(resub), unsub, dict(resub)], "d": [unsub, {"op": "Subscribe", "c": slow, "q": qm, "cap": 0}]}[variant]
    return steps + [dict(pub), dict(pub)]


def slow_recovery_scheds(reps):
    """the motif on its own, every variant (always part of the schedule set, both tiers)"""
    out = []
    queries = [QM, [C("tm.event", "=", "str", "NewBlockHeader")], [C("a.s", "=", "str", "x y")]]
    for k in (1, 2):
        for fastcap in (0, 3):
            for variant in "abcd":
                steps = slow_recovery_steps("c1", "c2", "c3", 1, 2, k, fastcap, variant)
                steps += [{"op": "Publish", "events": [{"k": "tm.event", "v": ["NewBlockHeader"]}]},
                          {"op": "Publish", "events": EV_TX}]
                out.append({"clients": ["c1", "c2", "c3"], "queries": queries, "spell": [0, 0, 0], "cmdcap": 0,
                            "steps": steps, "reps": reps, "tag": "slow-recovery-%d-%d-%s" % (k, fastcap, variant)})
    return out


def random_sched(rng, k, reps):
    ncl = rng.randint(2, 6)
    clients = ["c%d" % (i + 1) for i in range(ncl)]
    nq = rng.randint(3, 7)
    qidx = rng.sample(range(len(PS_QUERIES)), nq)
    # several erroring queries per schedule so that order-dependent behaviour is likely witnessed
    for e in rng.sample(PS_ERRING, 2):
        if e not in qidx:
            qidx[rng.randrange(nq)] = e
    qidx = list(dict.fromkeys(qidx))
    nq = len(qidx)
    queries = [PS_QUERIES[i] for i in qidx]
    spell = [0] * len(queries)
    as_values = []
    # near-duplicate pairs (most schedules) ...
    for qa, qb, va, vb in rng.sample(NEAR_DUP, rng.choice([0, 1, 1, 1, 2])):
        pair = [qa, qb]
        rng.shuffle(pair)
        queries += pair
        spell += [0, 0]
        as_values += [va, vb]
    # ... and, separately, textually different but equivalent spellings of one query
    for _ in range(rng.choice([0, 0, 1, 2])):
        j = rng.randrange(len(queries))
        # (two ids with the same conditions AND the same spelling would be ONE query text)
        free = [x for x in (0, 1, 2) if all(not (q == queries[j] and sp == x) for q, sp in zip(queries, spell))]
        if free:
            queries.append(queries[j])
            spell.append(rng.choice(free))
    # one id per query TEXT: (conditions, spelling) pairs must be unique
    uq, usp = [], []
    for q, sp in zip(queries, spell):
        if not any(render(q, sp) == render(q2, sp2) for q2, sp2 in zip(uq, usp)):
            uq.append(q)
            usp.append(sp)
    queries, spell = uq, usp
    order = list(range(len(queries)))
    rng.shuffle(order)
    queries = [queries[i] for i in order][:8]
    spell = [spell[i] for i in order][:8]
    nq = len(queries)
    dupq = [i + 1 for i, q in enumerate(queries) if any(q in (a, b) for a, b, _va, _vb in NEAR_DUP)]
    steps = []
    nsub = 0
    # opening: most clients subscribe to something (both subscription orders occur across schedules);
    # the members of a near-duplicate pair are subscribed by different clients and by the same one
    opening = []
    for c in rng.sample(clients, ncl):
        for _ in range(rng.randint(1, 2)):
            opening.append({"op": "Subscribe", "c": c, "q": rng.randint(1, nq), "cap": rng.choice([0, 1, 1, 2, 3])})
    for q in dupq:
        opening.append({"op": "Subscribe", "c": rng.choice(clients), "q": q, "cap": rng.choice([0, 0, 2, 3])})
    rng.shuffle(opening)
    steps += opening
    nsub += len(opening)
    # slow-client recovery (half of the schedules): a client that the LOOP dropped with
    # ErrOutOfCapacity is still listed in the Server-level map and afterwards unsubscribes /
    # re-subscribes, while another client holds the SAME query text and one a different text
    if rng.random() < 0.5:
        if QM not in queries:
            queries[-1], spell[-1] = QM, 0
        qm = queries.index(QM) + 1
        qo = rng.choice([i for i in range(1, nq + 1) if i != qm] or [qm])
        cl = rng.sample(clients, min(3, ncl))
        fast, slow, other = cl[0], cl[1], cl[-1]
        m = slow_recovery_steps(fast, slow, other, qm, qo, rng.choice([1, 2]), rng.choice([0, 0, 3]),
                                rng.choice("abcd"))
        steps += m
        nsub += sum(1 for x in m if x["op"] == "Subscribe")
    for _ in range(rng.randint(6, 16)):
        x = rng.random()
        if x < 0.5:
            steps.append({"op": "Publish", "events": mk_events(rng, as_values=as_values)})
        elif x < 0.65:
            steps.append({"op": "Subscribe", "c": rng.choice(clients), "q": rng.randint(1, nq),
                          "cap": rng.choice([0, 1, 2, 3])})
            nsub += 1
        elif x < 0.75:
            steps.append({"op": "Unsubscribe", "c": rng.choice(clients), "q": rng.randint(1, nq)})
        elif x < 0.8:
            steps.append({"op": "UnsubscribeAll", "c": rng.choice(clients)})
        else:
            steps.append({"op": "Consume", "sid": rng.randint(1, max(1, nsub))})
    return {"clients": clients, "queries": queries, "spell": spell, "cmdcap": rng.choice([0, 0, 1, 3]), "steps": steps,
            "reps": reps, "tag": "random-%d" % k}


def sched_from_acts(acts, tag, reps, cmdcap=0):
    """Project a TLC behaviour of TMPubSubSM (sequence of act records) onto the steps the
    environment controls: API calls and client reads.  Loop steps are the code's business."""
    steps = []
    for a in acts:
        n = a.get("name")
        if n == "Subscribe":
            steps.append({"op": "Subscribe", "c": a["c"], "q": a["q"], "cap": a["cap"]})
        elif n == "Unsubscribe":
            steps.append({"op": "Unsubscribe", "c": a["c"], "q": a["q"]})
        elif n == "UnsubscribeAll":
            steps.append({"op": "UnsubscribeAll", "c": a["c"]})
        elif n == "Publish":
            steps.append({"op": "Publish", "events": MC_EVENTS[a["e"] - 1]})
        elif n == "Consume":
            steps.append({"op": "Consume", "sid": a["sid"]})
    return {"clients": ["c1", "c2"], "queries": MC_QUERIES, "spell": [0] * len(MC_QUERIES), "cmdcap": cmdcap,
            "steps": steps, "reps": reps, "tag": tag}


def sched_key(s):
    return json.dumps([s["clients"], s["queries"], s.get("spell"), s["cmdcap"], s["steps"]], sort_keys=True)


def eval_cases(rng, n):
    """(query, event map) pairs for the conformance of TMQuery!Matches with query.Matches."""
    conds = []
    for key, vals in (("a.n", V_AN), ("tx.height", V_HEIGHT)):
        for op in ("=", "<", "<=", ">", ">="):
            for kind, arg in (("int", "10"), ("int", "1"), ("int", "0"), ("float", "1.5"), ("float", "10."),
                              ("int", "7"), ("float", "3.25")):
                conds.append(C(key, op, kind, arg))
    for key in ("a.s", "a.n", "tm.event"):
        for arg in ("x", "xy", "", "y/z", "10", "Tx", "1.5", "x y", "x  y", "x\ty", " x", "XY", "b c"):
            conds.append(C(key, "=", "str", arg))
            conds.append(C(key, "CONTAINS", "str", arg))
    for key in ("a.s", "a.n", "a", "tx", "tm.event", "b.z", "a."):
        conds.append(C(key, "EXISTS"))
    cases = []
    for _ in range(n):
        q = [rng.choice(conds) for _ in range(rng.choice([1, 1, 2, 2, 3]))]
        cases.append({"q": q, "spell": rng.choice([0, 0, 1, 2]), "events": mk_events(rng)})
    # every single condition against every single-attribute event (systematic part)
    for c in conds:
        for vals in V_AN + V_AS + [["1."], [".5"], ["."], ["x3.25y"], ["-5"], ["5e3"], ["12abc3"], [" x"], ["ab  cd"],
                                   ["ab cd"], ["x y "]]:
            if vals is None:
                continue
            cases.append({"q": [c], "spell": (len(cases) % 3), "events": [{"k": c["key"] if "." in c["key"] and c["key"] != "a." else "a.n",
                                                 "v": vals}]})
    return cases


def read_ndjson_tolerant(path):
    """Rows of a trace whose writer may have died in the middle of a line."""
    out = []
    if not os.path.exists(path):
        return out
    with open(path) as f:
        for line in f:
            try:
                out.append(json.loads(line))
            except ValueError:
                break
    return out


def run_hash(rows):
    return hashlib.sha1(json.dumps([{k: v for k, v in r.items() if k != "run"} for r in rows],
                                   sort_keys=True).encode()).hexdigest()


def split_by_run(rows):
    runs, cur = [], None
    for r in rows:
        if r.get("ev") == "Reset":
            cur = [r]
            runs.append(cur)
        elif cur is not None:
            cur.append(r)
    return runs


# ------------------------------------------------------------------------------------------
def pubsub_part(ctx, st):
    """Exhaustive TLC runs of the design spec go on in the background while schedules are
    derived, executed on the real server and validated; joined before returning."""
    main_ex, main_futs = ThreadPoolExecutor(max_workers=2), []
    try:
        res = pubsub_body(ctx, st, main_ex, main_futs)
        for f in main_futs:
            r1 = f.result()
            st["states"] += r1.distinct
            st["transitions"] += r1.generated
        return res
    finally:
        main_ex.shutdown(wait=True)


def pubsub_body(ctx, st, main_ex, main_futs):
    quick = ctx.tier == "quick"
    rng = random.Random(ctx.seed * 7919 + 19)
    reps = 40 if quick else 400

    # ---- 1. design spec, exhaustive; weakened variants must be refuted ---------------------
    from concurrent.futures import ThreadPoolExecutor
    if quick:
        mains = [("pubsub", {"MaxCalls": 4}, 8)]
    else:
        # measured: 4 calls x caps {0,1,2}: 1.4e6 states; 5 calls x the erroring event only: 2.7e6 states
        # (5 calls x 3 events: 7.5e6 states, 14 min -- outside the budget)
        mains = [("pubsub_caps012", {"MaxCalls": 4, "Caps": "{0, 1, 2}"}, 4),
                 ("pubsub_5calls", {"MaxCalls": 5, "EventIds": "{2}", "CmdCap": 1}, 4)]
    main_futs += [main_ex.submit(ctx.tlc, "C19_pubsub",
                                 core.cfg_variant(ctx, "C19_pubsub.cfg", "C19_%s_run.cfg" % lab, consts),
                                 must_pass=True, timeout=1700, workers=w, heap="6g", label=lab) for lab, consts, w in mains]
    attack = []
    from concurrent.futures import ThreadPoolExecutor
    weak = (("ErrorAbortsPublish", "ExactDelivery"), ("BlockOnFullBuffer", "NeverBlockedOnBuffered"),
            ("UnsubLeavesQuery", None), ("DoubleRemoveReleasesForeignRef", "ExactDelivery"))
    with ThreadPoolExecutor(max_workers=4) as ex:
        weak_res = list(ex.map(lambda wi: ctx.tlc("C19_pubsub", "C19_weak_%s.cfg" % wi[0], timeout=600, workers=3,
                                                  label="weak_" + wi[0]), weak))
    for (w, inv), rw in zip(weak, weak_res):
        if rw.errors or rw.timed_out or not rw.violations or (inv and not any(v["name"] == inv for v in rw.violations)):
            ctx.save_log("weak_" + w, rw.out)
            raise Undecided("vacuity: weakened spec Weak_%s is not refuted by TLC" % w)
        st["nonvacuity"]["Weak_%s refuted by TLC (%s)" % (w, rw.violations[0]["name"])] = True
        # attack schedule = the environment's part of the counterexample
        acts = [to_json(s["act"]) for _h, s in rw.violations[0]["trace"] if "act" in s]
        sc = sched_from_acts(acts, "attack-" + w, reps)
        # ... followed by one publication of every event, so that the consequence of the
        # weakened step is observable at the subscribers
        sc["steps"] += [{"op": "Publish", "events": e} for e in MC_EVENTS + MC_EVENTS[:1]]
        attack.append(sc)
    # the slow-client recovery motif in every variant (dropped by the loop, then Unsubscribe /
    # UnsubscribeAll / Subscribe again, while others hold the same and a different query text)
    attack += slow_recovery_scheds(3)

    # ---- 2. schedules: whole act-augmented graph of the small config, simulation, attack, random
    cfg_rep = core.cfg_variant(ctx, "C19_pubsub_replay.cfg", "C19_pubsub_replay_run.cfg",
                               {"MaxCalls": 2 if quick else 3})
    dot = os.path.join(ctx.work, "ps.dot")
    r2 = ctx.tlc("C19_pubsub", cfg_rep, dump=["dot,actionlabels", dot], must_pass=True, timeout=1500, workers=8,
                 heap="6g", label="pubsub_graph")
    g = core.parse_dot(dot)
    os.remove(dot)
    st["states"] += r2.distinct
    st["transitions"] += r2.generated
    scheds, seen = [], set()

    def add(s):
        k = sched_key(s)
        if k not in seen and s["steps"]:
            seen.add(k)
            scheds.append(s)

    for s in attack:
        add(s)
    ngraph = 0
    for nodes in core.graph_schedules(g):
        acts = [to_json(g.nodes[n]["act"]) for n in nodes[1:]]
        s = sched_from_acts(acts, "graph", 3)
        if any(x["op"] == "Publish" for x in s["steps"]) and len({x.get("q") for x in s["steps"] if x["op"] == "Subscribe"}) > 1:
            s["reps"] = 8 if quick else 12
        before = len(scheds)
        add(s)
        ngraph += len(scheds) - before
    st["graph_states"] = len(g.nodes)
    st["graph_calls"] = 2 if quick else 3
    st["reps"] = reps
    st["graph_schedules"] = ngraph
    del g
    # simulation of the full design config (longer histories, queued commands)
    nsim = 150 if quick else 600
    pref = os.path.join(ctx.work, "pssim")
    cfg_sim = core.cfg_variant(ctx, "C19_pubsub.cfg", "C19_pubsub_sim.cfg", {"MaxCalls": 9, "Caps": "{0, 1, 2}"},
                               drop_view=True, drop_properties=True)
    rs = ctx.tlc("C19_pubsub", cfg_sim, simulate="file=%s,num=%d" % (pref, nsim), depth=60, seed=ctx.seed, workers=1,
                 timeout=600, label="pubsub_sim")
    if rs.errors or rs.violations:
        ctx.save_log("pubsub_sim", rs.out)
        raise Undecided("TLC simulation of TMPubSubSM failed: %s" % (rs.errors or rs.violations)[:1])
    from vlib.tlaparse import parse_behaviour_text
    nsimb = 0
    d = os.path.dirname(pref)
    for f in sorted(os.listdir(d)):
        if f.startswith("pssim_"):
            with open(os.path.join(d, f)) as fh:
                beh = parse_behaviour_text("\n".join(x for x in fh.read().splitlines() if not x.startswith("\\*")))
            os.remove(os.path.join(d, f))
            acts = [to_json(s["act"]) for _h, s in beh if "act" in s]
            add(sched_from_acts(acts, "sim", 6 if quick else 20, cmdcap=rng.choice([0, 2])))
            nsimb += 1
    st["sim_behaviours"] = nsimb
    nrand = 60 if quick else 400
    st["nrandom_ps"] = nrand
    for k in range(nrand):
        add(random_sched(rng, k, reps if k % 4 == 0 else (5 if quick else 30)))

    evals = eval_cases(rng, 400 if quick else 4000)

    # ---- 3. run on the real server ------------------------------------------------------------
    inp = os.path.join(ctx.work, "c19-ps-in.json")
    with open(inp, "w") as f:
        json.dump({"scheds": scheds, "evals": evals}, f)
    out = ctx.subdir("c19-ps-out")
    binp = ctx.go_build_test("libs/pubsub", ["zz_verif_c19_test.go"])
    rc, txt = ctx.run_test(binp, "^TestVerifC19PubSub$", {"VERIF_IN": inp, "VERIF_OUT": out}, timeout=1500)
    rows_ev = read_ndjson_tolerant(os.path.join(out, "evals.ndjson"))
    rows_ps = read_ndjson_tolerant(os.path.join(out, "pubsub.ndjson"))
    if rc != 0:
        # the driver died (e.g. the loop goroutine panicked): what was observed before is still
        # judged; without a violation in it the outcome is "undecided" (see run())
        ctx.save_log("harness-pubsub", txt)
        st["crashed"].append("C19 pubsub harness failed (rc=%d): %s" % (rc, txt[-1200:]))
        runs_ = split_by_run(rows_ps)
        rows_ps = [x for r in runs_[:-1] for x in r] + (runs_[-1] if runs_ else [])
    elif len(rows_ev) != len(evals):
        raise Undecided("harness executed %d of %d eval cases" % (len(rows_ev), len(evals)))

    # ---- 4. trace validation.  The harness writes a run only if its content differs from the
    # runs already written for the same schedule (map order makes most repetitions identical)
    runs = split_by_run(rows_ps)
    summary = []
    sp = os.path.join(out, "summary.json")
    if os.path.exists(sp):
        with open(sp) as f:
            summary = json.load(f)
    nexec = sum(x["runs"] for x in summary) or len(runs)
    v1 = core.validate_traces(ctx, "TMPubSubTrace", rows_ev, label="evals", max_events=4000)
    v2 = core.validate_traces(ctx, "TMPubSubTrace", rows_ps, label="pubsub", max_events=1500, timeout=1500)
    st["evaluations"] += len(rows_ev) + sum(len(scheds[x["sched"]]["steps"]) * x["runs"] for x in summary)
    st["runs"] += v1["runs"] + nexec
    st["pubsub"] = {
        "schedules": len(scheds), "runs_executed": nexec, "distinct_runs_validated": len(runs),
        "events_validated": len(rows_ps), "eval_cases": len(rows_ev),
        "schedules_with_more_than_one_observed_outcome": sum(1 for x in summary if x["distinct"] > 1),
        "stuck_events": sum(1 for r in rows_ps if r.get("stuck")),
    }
    nontriv = set()
    for r in rows_ps:
        if r["ev"] in ("Publish", "Subscribe", "Unsubscribe", "UnsubscribeAll", "Consume") and r["res"] == "ok":
            nontriv.add(hashlib.sha1(json.dumps([r["ev"], r["c"], r["q"], r["cap"], r["events"], r["post"]["subs"]],
                                                sort_keys=True).encode()).hexdigest())
    for r in rows_ev:
        nontriv.add(hashlib.sha1(json.dumps([r["q"], r["events"]], sort_keys=True).encode()).hexdigest())
    st["distinct"] |= nontriv
    st["samples"].append(core.abridge(rows_ps[:5], 5))
    st["samples"].append(core.abridge(rows_ev[:2], 2))
    return v1, v2


# ------------------------------------------------------------------------------------------
# indexing half
# ------------------------------------------------------------------------------------------
IX_NUM = ["1", "3", "5", "7", "10", "12", "1.5", "2.75", "10atom", "abc", "", "007", "3/4", "-5"]
IX_STR = ["x", "xy", "y", "y/z", "", "abc", "x y", "x  y", "XY"]
IX_INTS = ["1", "3", "5", "7", "10"]
IX_FLOATS = ["1.5", "2.75", "10."]
RANGE_OPS = ["<", "<=", ">", ">="]


def rnd_events(rng, types_, nkey, skey):
    evs = []
    for _ in range(rng.choice([0, 1, 1, 2, 3])):
        typ = rng.choice(types_ + ([""] if rng.random() < 0.05 else []))
        attrs = []
        for _ in range(rng.choice([1, 1, 2])):
            if rng.random() < 0.55:
                k, v = nkey, rng.choice(IX_NUM if rng.random() < 0.5 else IX_INTS)
            else:
                k, v = skey, rng.choice(IX_STR)
            if rng.random() < 0.04:
                k = ""
            attrs.append({"k": k, "v": v, "idx": rng.random() < 0.85})
        evs.append({"type": typ, "attrs": attrs})
    return evs


def rnd_history(rng, k):
    blocks, ntx = [], 0
    for h in range(1, rng.randint(1, 4) + 1):
        txs = []
        for i in range(rng.choice([0, 1, 1, 2, 3])):
            ntx += 1
            name = "t%d" % ntx
            if ntx > 1 and rng.random() < 0.04:
                name = "t%d" % rng.randint(1, ntx - 1)      # the same tx bytes committed again
            txs.append({"tx": name, "height": h, "index": i, "code": 0 if rng.random() < 0.85 else 1,
                        "events": rnd_events(rng, ["a", "a", "b"], "n", "s")})
        blocks.append({"height": h, "begin": rnd_events(rng, ["blk"], "n", "s"),
                       "end": rnd_events(rng, ["blk"], "n", "s"), "txs": txs})
    return blocks, ntx


def rnd_num_conds(rng, key, n):
    kind = rng.choice(["int", "int", "int", "float"])
    out = []
    for _ in range(n):
        op = rng.choice(RANGE_OPS + ["="])
        out.append(C(key, op, kind, rng.choice(IX_INTS if kind == "int" else IX_FLOATS)))
    return out


def rnd_query(rng, kind, ntx, nblocks):
    nkeys = ["a.n", "a.n", "b.n"] if kind == "tx" else ["blk.n"]
    skeys = ["a.s", "a.s", "b.s"] if kind == "tx" else ["blk.s"]
    hkey = "tx.height" if kind == "tx" else "block.height"
    conds = []
    for _ in range(rng.choice([1, 1, 2, 2, 3])):
        x = rng.random()
        if x < 0.35:
            conds += rnd_num_conds(rng, rng.choice(nkeys), rng.choice([1, 1, 2]))
        elif x < 0.55:
            conds.append(C(rng.choice(skeys), rng.choice(["=", "CONTAINS"]), "str", rng.choice(IX_STR + ["z"])))
        elif x < 0.68:
            conds.append(C(rng.choice(nkeys + skeys + ["a", "b", "blk", "tx", "block", hkey]), "EXISTS"))
        elif x < 0.9:
            n = rng.choice([1, 1, 2])
            for _ in range(n):
                conds.append(C(hkey, rng.choice(RANGE_OPS + ["=", "="]), "int", str(rng.randint(1, max(1, nblocks) + 1))))
        elif kind == "tx":
            conds.append(C("tx.hash", "=", "str", "H(t%d)" % rng.randint(1, ntx + 1)))
        else:
            conds.append(C(rng.choice(nkeys), "=", "str", rng.choice(IX_NUM)))
    rng.shuffle(conds)
    if rng.random() < 0.02:
        conds.append(C(hkey, "=", "float", "1.5"))          # operand type the shortcut does not expect
    if kind == "tx" and rng.random() < 0.01:
        conds.append(C("tx.hash", "EXISTS"))
    return conds[:3]


USER_SUBS = [
    [C("a.n", ">", "int", "5")],                                   # errors on non-numeric a.n
    [C("tm.event", "=", "str", "Tx"), C("a.n", "<", "int", "3")],
    [C("a.s", "CONTAINS", "str", "x")],
    [C("tx.height", ">", "int", "1")],
    [C("b.n", "<=", "float", "2.75")],
    [C("tm.event", "=", "str", "NewBlock")],
    [C("blk.n", ">=", "int", "5")],                                # errors on non-numeric blk.n (block events)
    [C("a", "EXISTS")],
    [C("a.s", "=", "str", "x y")],                                 # near-duplicates (see NEAR_DUP)
    [C("a.s", "=", "str", "x  y")],
    [C("a.s", "=", "str", "XY")],
    [C("a.s", "=", "str", "xy")],
]


def rnd_user_subs(rng):
    subs = []
    pick = rng.sample(range(len(USER_SUBS) - 4), rng.randint(2, 4))
    if rng.random() < 0.7:
        pick += rng.choice([[8, 9], [9, 8], [10, 11], [11, 10]])
    for i, qi in enumerate(pick):
        subs.append({"c": "u%d" % (i + 1), "q": USER_SUBS[qi], "cap": rng.choice([0, 0, 0, 1, 2])})
    return subs


def blocks_key(blocks):
    return json.dumps(blocks, sort_keys=True)


def indexer_part(ctx, st):
    quick = ctx.tier == "quick"
    rng = random.Random(ctx.seed * 104729 + 7)

    # ---- 1. design spec (service + stores + searches over the pools), weakened variants -------
    r1 = ctx.tlc("C19_indexer", "C19_indexer.cfg", must_pass=True, timeout=900, workers=4, label="indexer")
    st["states"] += r1.distinct
    st["transitions"] += r1.generated
    from concurrent.futures import ThreadPoolExecutor
    strict = (("C19_indexer_strict_tx", "TxSearchExact"), ("C19_indexer_strict_block", "BlockSearchExact"))
    weak = (("RangeIgnoresUpper", ("TxSearchExactUpToKnown", "BlockSearchExactUpToKnown")),
            ("PrefixMatchAsEquality", ("TxSearchExactUpToKnown", "BlockSearchExactUpToKnown")),
            ("BatchSkipsFirst", ("IndexOnce",)), ("TxEventLost", ("IndexOnce", "NeverWedged")))
    with ThreadPoolExecutor(max_workers=6) as ex:
        fs = [ex.submit(ctx.tlc, "C19_indexer", c + ".cfg", timeout=600, workers=2, label=c) for c, _ in strict]
        fw = [ex.submit(ctx.tlc, "C19_indexer", "C19_weak_%s.cfg" % w, timeout=600, workers=2, label="weak_" + w)
              for w, _ in weak]
        strict_res = [f.result() for f in fs]
        weak_res = [f.result() for f in fw]
    for (cfg, inv), rs in zip(strict, strict_res):
        st["nonvacuity"]["strict %s refuted by TLC (S14/S17 exist in the model of the code as it is)" % inv] = \
            any(v["name"] == inv for v in rs.violations)
    for (w, invs), rw in zip(weak, weak_res):
        if rw.errors or rw.timed_out or not any(v["name"] in invs for v in rw.violations):
            ctx.save_log("weak_" + w, rw.out)
            raise Undecided("vacuity: weakened spec Weak_%s is not refuted by TLC" % w)
        st["nonvacuity"]["Weak_%s refuted by TLC (%s)" % (w, rw.violations[0]["name"])] = True

    # ---- 2. histories: every chain of the model's graph x every pool query; random ones ---------
    dump = os.path.join(ctx.work, "c19q")
    rq = ctx.tlc("C19_queries", "C19_queries.cfg", dump=[dump], must_pass=True, timeout=600, workers=2, label="queries")
    qs = [to_json(s["cs"]) for s in core.read_state_dump(dump + ".dump")]
    mc_txq = [x["q"] for x in qs if x["kind"] == "tx"]
    mc_blkq = [x["q"] for x in qs if x["kind"] == "block"]
    if not mc_txq or not mc_blkq:
        raise Undecided("no queries exported by C19_queries")
    dot = os.path.join(ctx.work, "ix.dot")
    r2 = ctx.tlc("C19_indexer", core.cfg_variant(ctx, "C19_indexer.cfg", "C19_indexer_graph.cfg", {}, invariants=[]),
                 dump=["dot,actionlabels", dot], must_pass=True, timeout=900, workers=2, label="indexer_graph")
    g = core.parse_dot(dot)
    os.remove(dot)
    st["states"] += r2.distinct
    st["transitions"] += r2.generated
    chains = {}
    for nodes in core.graph_schedules(g):
        blocks = [to_json(g.nodes[n]["act"])["b"] for n in nodes[1:] if to_json(g.nodes[n]["act"]).get("name") == "Commit"]
        if blocks:
            chains.setdefault(blocks_key(blocks), blocks)
    # every non-empty prefix is a chain of the model too
    for blocks in list(chains.values()):
        for k in range(1, len(blocks)):
            chains.setdefault(blocks_key(blocks[:k]), blocks[:k])
    st["indexer_graph_states"] = len(g.nodes)
    st["n_pool_queries"] = len(mc_txq) + len(mc_blkq)
    st["n_rand_queries"] = (10 if quick else 14) + (6 if quick else 8)
    del g
    hists = []
    for i, blocks in enumerate(chains.values()):
        for direct in ("", "batch", "index"):
            hists.append({"tag": "graph-%d%s" % (i, "-" + direct if direct else ""), "direct": direct,
                          "subs": rnd_user_subs(rng) if direct == "" else [], "blocks": blocks,
                          "txq": mc_txq, "blkq": mc_blkq})
    n_graph_hists = len(hists)
    nrand = 120 if quick else 1500
    for k in range(nrand):
        blocks, ntx = rnd_history(rng, k)
        direct = rng.choice(["", "", "batch", "index"])
        hists.append({"tag": "random-%d" % k, "direct": direct, "subs": rnd_user_subs(rng) if direct == "" else [],
                      "blocks": blocks,
                      "txq": [rnd_query(rng, "tx", ntx, len(blocks)) for _ in range(10 if quick else 14)],
                      "blkq": [rnd_query(rng, "block", ntx, len(blocks)) for _ in range(6 if quick else 8)]})

    # ---- 3. run on the real service / indexers --------------------------------------------------
    inp = os.path.join(ctx.work, "c19-ix-in.json")
    with open(inp, "w") as f:
        json.dump({"hists": hists}, f)
    out = ctx.subdir("c19-ix-out")
    binp = ctx.go_build_test("state/txindex", ["zz_verif_c19_test.go"])
    rc, txt = ctx.run_test(binp, "^TestVerifC19Indexer$", {"VERIF_IN": inp, "VERIF_OUT": out}, timeout=1500)
    rows = read_ndjson_tolerant(os.path.join(out, "indexer.ndjson"))
    nruns = sum(1 for r in rows if r["ev"] == "Reset")
    if rc != 0:
        ctx.save_log("harness-indexer", txt)
        st["crashed"].append("C19 indexer harness failed (rc=%d): %s" % (rc, txt[-1200:]))
    elif nruns != len(hists):
        raise Undecided("indexer harness executed %d of %d histories" % (nruns, len(hists)))

    # ---- 4. trace validation ---------------------------------------------------------------------
    v = core.validate_traces(ctx, "TMIndexerTrace", rows, label="indexer", max_events=700, timeout=1500)
    st["evaluations"] += len(rows)
    st["runs"] += v["runs"]
    nontriv = set()
    cur_blocks = None
    for r in rows:
        if r["ev"] == "Reset":
            cur_blocks = []
        elif r["ev"] == "Block":
            cur_blocks = cur_blocks + [json.dumps(r["b"], sort_keys=True)]
            nontriv.add(hashlib.sha1(json.dumps(["B", cur_blocks]).encode()).hexdigest())
        elif (r.get("txs") or r.get("heights")):
            nontriv.add(hashlib.sha1(json.dumps([r["ev"], cur_blocks, r["q"]], sort_keys=True).encode()).hexdigest())
    st["distinct"] |= nontriv
    st["indexer"] = {
        "histories": len(hists), "model_chains": len(chains), "model_chain_histories": n_graph_hists,
        "random_histories": nrand, "events": len(rows),
        "tx_searches": sum(1 for r in rows if r["ev"] == "TxSearch"),
        "block_searches": sum(1 for r in rows if r["ev"] == "BlockSearch"),
        "searches_with_nonempty_result": sum(1 for r in rows if r.get("txs") or r.get("heights")),
        "blocks_not_settled": sum(1 for r in rows if r["ev"] == "Block" and not r["settled"]),
    }
    st["samples"].append(core.abridge([r for r in rows if r["ev"] in ("TxSearch", "BlockSearch") and (r.get("txs") or r.get("heights"))][:3], 3))
    return v


def trim_prefix(prefix, row):
    """For a search step keep the run's Reset/Block lines and the failing search only."""
    if row.get("ev") in ("TxSearch", "BlockSearch"):
        return [r for r in prefix if r.get("ev") in ("Reset", "Block")] + [row]
    return prefix


def verdict_sig(v):
    row = v["row"]
    return {"inv": v["inv"], "class": v["class"], "ev": row["ev"]}


RULE = ("pub-sub: (a) every state of the act-augmented TMPubSubSM graph (2 clients, 3 queries incl. one that errors, 3 "
        "events, caps {0,1}, %d API calls) reached by replaying the API/read steps of its BFS path on a real "
        "pubsub.Server, (b) %d TLC simulation behaviours of the larger config, (c) the counterexamples of the four "
        "weakened specs as attack schedules and the slow-client recovery motif (dropped with ErrOutOfCapacity, then "
        "Unsubscribe / UnsubscribeAll / Subscribe again, others holding the same and another query text) in 16 "
        "variants, (d) %d seeded random schedules, half of them containing that motif (2-6 clients, 3-7 queries with >= 2 that "
        "can error, caps 0-3, command buffer 0/1/3); order-sensitive schedules are run up to %d times because Go map "
        "order cannot be forced, EVERY run is validated (identical runs once); a step is distinct by (call, arguments, "
        "observed subscription objects). query semantics: %d (query, event map) pairs evaluated by the real "
        "query.Matches and by TMQuery!Matches. indexing: every chain of the TMIndexerSM graph (%d chains) through the "
        "real EventBus+IndexerService and directly through AddBatch and Index, each with all %d pool queries, plus %d "
        "random histories (values: integers, 1.5, 10atom, abc, empty, 007, -5, a/b, repeated attributes, unindexed "
        "attributes, repeated tx bytes) with %d random queries each; a search is distinct by (history, query)")


def run(ctx):
    st = {"states": 0, "transitions": 0, "evaluations": 0, "runs": 0, "distinct": set(), "samples": [],
          "nonvacuity": {}, "crashed": []}
    ctx.spec_copy()
    # the two halves are independent: run them side by side
    from concurrent.futures import ThreadPoolExecutor
    st2 = {"states": 0, "transitions": 0, "evaluations": 0, "runs": 0, "distinct": set(), "samples": [],
           "nonvacuity": {}, "crashed": []}
    only = os.environ.get("VERIF_C19_PART", "")     # development aid: run one half only
    empty = {"viol": [], "drift": [], "runs": 0, "events": 0}
    with ThreadPoolExecutor(max_workers=2) as ex:
        f1 = ex.submit(pubsub_part, ctx, st) if only in ("", "pubsub") else None
        f2 = ex.submit(indexer_part, ctx, st2) if only in ("", "indexer") else None
        v1, v2 = f1.result() if f1 else (empty, empty)
        v3 = f2.result() if f2 else empty
    if only:
        st.setdefault("pubsub", {"eval_cases": 0})
        st2.setdefault("indexer", {"model_chains": 0, "random_histories": 0})
        for k in ("graph_calls", "sim_behaviours", "nrandom_ps", "reps", "n_pool_queries", "n_rand_queries"):
            st.setdefault(k, 0) if k not in st2 else None
    for k in ("states", "transitions", "evaluations", "runs"):
        st[k] += st2[k]
    st["distinct"] |= st2["distinct"]
    st["samples"] += st2["samples"]
    st["nonvacuity"].update(st2["nonvacuity"])
    for k, v in st2.items():
        st.setdefault(k, v)
    for k in ("graph_calls", "sim_behaviours", "nrandom_ps", "reps", "n_pool_queries", "n_rand_queries"):
        st.setdefault(k, 0)
    verdict = core.Verdict(ctx)
    drift = []
    for part, v in (("pubsub", v1), ("pubsub", v2), ("indexer", v3)):
        for x in v["viol"]:
            verdict.add(verdict_sig(x), {"part": part, "failing_step": x["row"], "prefix": trim_prefix(x["prefix"], x["row"]),
                                         "tlc": {k: x[k] for k in ("inv", "class")}})
        drift += v["drift"]
    for d in drift:
        if "not in send" in d["what"]:
            raise Undecided("the pub-sub loop stopped taking commands outside send(): %s" % json.dumps(d["row"])[:400])
    crashed = st["crashed"] + st2["crashed"]
    if crashed and not verdict.new:
        raise Undecided(crashed[0])
    ps, ix = st["pubsub"], st["indexer"]
    coverage = {
        "states": st["states"], "transitions": st["transitions"],
        "traces_validated_against_impl": st["runs"],
        "evaluations": st["evaluations"], "distinct_nontrivial": len(st["distinct"]),
        "rule": RULE % (st["graph_calls"], st["sim_behaviours"], st["nrandom_ps"], st["reps"], ps["eval_cases"],
                        ix["model_chains"], st["n_pool_queries"], ix["random_histories"], st["n_rand_queries"]),
        "samples": st["samples"],
        # the pub-sub graph is replayed through its API projection only (loop steps are not controllable)
        "exhaustive": False,
        "tlc_runs": ctx.tlc_stats,
        "pubsub": ps, "indexer": ix,
        "conformance_drift": [{"what": d["what"], "spec": d.get("spec"), "step": core.abridge(d["row"])} for d in drift[:5]],
        "conformance_drift_count": len(drift),
        "nonvacuity": st["nonvacuity"],
        "known_findings_reproduced": dict(verdict.known),
        "driver_died_after_the_violation": crashed[:1],
    }
    rc = verdict.finish()
    ctx.write_evidence(coverage, [
        "query.Matches (libs/pubsub/query) defines 'matches'; TMQuery!Matches transcribes it and is compared with the real "
        "one on every case (drift, not verdict); DATE/TIME operands are not modelled",
        "numbers in the model are fixed point with 3 decimals; the alphabets keep values inside that range",
        "the harness observes the pub-sub server only when its loop is idle (it pushes no-op commands through Server.cmds); "
        "unbuffered subscriptions are read eagerly, buffered ones under schedule control",
        "Go map iteration order is not controlled: every observed run is validated, runs are repeated; an order-dependent "
        "violation can be missed in one invocation but never falsely reported",
        "a pub-sub loop that does not take commands for 15 s while a goroutine sits in a channel send inside state.send is "
        "reported as blocked on a buffered subscriber; an indexer that has not indexed a block 15 s after its events were "
        "published is reported as not indexing it",
        "EventsOf(item) for the search oracle = attributes flagged index:true plus tx.height/tx.hash (block.height)",
        "psql sink, the WebSocket layer of rpc/core/events.go and calls racing with Server.Stop are not covered",
    ], len(verdict.new))
    return rc


def replay(ctx, path):
    """Re-execute a stored failing run on the current tree and re-validate it."""
    with open(path) as f:
        rep = json.load(f)
    rp = rep["replay"]
    prefix = rp["prefix"]
    verdict = core.Verdict(ctx)
    if rp.get("part") == "indexer":
        reset = prefix[0]
        blocks = [r["b"] for r in prefix if r.get("ev") == "Block"]
        last = prefix[-1]
        hist = {"tag": reset.get("tag", "replay"), "direct": reset.get("direct", ""), "subs": [], "blocks": blocks,
                "txq": [last["q"]] if last["ev"] == "TxSearch" else [], "blkq": [last["q"]] if last["ev"] == "BlockSearch" else []}
        hist["subs"] = reset.get("subs", [])
        # through the event bus the outcome can depend on Go map order: repeat
        n = 40 if hist["direct"] == "" and hist["subs"] else 1
        inp = os.path.join(ctx.work, "c19-ix-in.json")
        with open(inp, "w") as f:
            json.dump({"hists": [hist] * n}, f)
        out = ctx.subdir("c19-ix-out")
        binp = ctx.go_build_test("state/txindex", ["zz_verif_c19_test.go"])
        rc, txt = ctx.run_test(binp, "^TestVerifC19Indexer$", {"VERIF_IN": inp, "VERIF_OUT": out})
        if rc != 0:
            raise Undecided("harness failed: " + txt[-800:])
        rows = core.read_ndjson(os.path.join(out, "indexer.ndjson"))
        distinct = {}
        for r in split_by_run(rows):
            distinct.setdefault(run_hash(r), r)
        rows = [x for r in distinct.values() for x in r]
        v = core.validate_traces(ctx, "TMIndexerTrace", rows, label="replay")
    else:
        reset = prefix[0]
        if reset.get("ev") == "Eval":
            scheds, evals = [], [{"q": r["q"], "spell": r.get("spell", 0), "events": r["events"]} for r in prefix]
        else:
            steps = []
            for r in prefix[1:]:
                if r["ev"] == "Stop":
                    continue
                steps.append({"op": r["ev"], "c": r["c"], "q": r["q"], "cap": r["cap"], "sid": r["sid"], "events": r["events"]})
            scheds = [{"clients": reset["clients"], "queries": reset["queries"],
                       "spell": reset.get("spell", [0] * len(reset["queries"])), "cmdcap": reset["cmdcap"], "steps": steps,
                       "reps": 200, "tag": "replay"}]
            evals = []
        inp = os.path.join(ctx.work, "c19-ps-in.json")
        with open(inp, "w") as f:
            json.dump({"scheds": scheds, "evals": evals}, f)
        out = ctx.subdir("c19-ps-out")
        binp = ctx.go_build_test("libs/pubsub", ["zz_verif_c19_test.go"])
        rc, txt = ctx.run_test(binp, "^TestVerifC19PubSub$", {"VERIF_IN": inp, "VERIF_OUT": out})
        if rc != 0:
            raise Undecided("harness failed: " + txt[-800:])
        rows = core.read_ndjson(os.path.join(out, "pubsub.ndjson")) + core.read_ndjson(os.path.join(out, "evals.ndjson"))
        distinct = {}
        for r in split_by_run(rows):
            distinct.setdefault(run_hash(r), r)
        rows = [x for r in distinct.values() for x in r] + [r for r in rows if r["ev"] == "Eval"]
        v = core.validate_traces(ctx, "TMPubSubTrace", rows, label="replay")
    for x in v["viol"]:
        verdict.add(verdict_sig(x), {"failing_step": x["row"], "prefix": trim_prefix(x["prefix"], x["row"])})
        log("replay: %s/%s fails at %s" % (x["inv"], x["class"], json.dumps(x["row"])[:300]))
    return verdict.finish()
