"""C11 -- Evidence is admitted exactly when valid, fresh and new, and is used once.
Spec: spec/TMEvidence.tla (admission predicate + pool step operators + properties),
spec/TMEvidencePool.tla (state machine), spec/TMEvidenceUniverse.tla (genuine items and
single-field perturbations), spec/mc/C11_*; trace spec: spec/trace/TMEvidenceTrace.tla;
harness: harness/inpkg/evidence/zz_verif_c11*_test.go (overlay, package evidence)."""
import hashlib
import json
import os
from concurrent.futures import ThreadPoolExecutor

from vlib import core
from vlib.core import Undecided, log
from vlib.tlaparse import to_json, parse_behaviour_text

WEAK = {  # switch -> properties one of which TLC must refute
    "ExpiryEither": ("ExpiryBoth", "AdmitGenuine", "SurvivesRestart"),
    "NoCommittedCheck": ("OnceOnly", "AdmitOnlyAdmissible", "BlockCheck"),
    "SizeDoubleCount": ("SizeExact",),
    "DupInBlockOK": ("BlockCheck",),
    "BufferDropped": ("BufferFlushed",),
    "NoReloadOnRestart": ("SizeExact", "SurvivesRestart"),
    "PendingSkipsExpiry": ("BlockCheck",),
    "LateAddUnchecked": ("OnceOnly", "AdmitOnlyAdmissible"),
    "BufferUsesCurrentValSet": ("AdmitOnlyAdmissible", "NoPanic", "BufferFlushed"),
    "BufferDedupIgnoresVoteType": ("BufferFlushed",),
    "UpdateAfterStateSave": ("OnceOnly", "BlockCheck", "OfferedOnce"),
    "CommittedMarkersDeferred": ("OnceOnly", "BlockCheck", "AdmitOnlyAdmissible"),
    "ExpiryUsesStartupParams": ("BlockCheck", "ExpiryBoth", "SurvivesRestart", "PendingKept"),
}
HARNESS = ["zz_verif_c11_test.go", "zz_verif_c11_gen_test.go", "zz_verif_c11_apply_test.go"]
NAPPLY = 14   # runs of the ApplyBlock crash-point family (harness: c11RunApplyFamily)


def act_to_op(a):
    a = to_json(a)
    n = a["name"]
    if n == "Add":
        return {"op": "Add", "id": a["id"]}
    if n == "Check":
        return {"op": "Check", "ids": list(a["ids"])}
    if n == "Report":
        return {"op": "Report", "pair": a["pair"]}
    if n == "Update":
        return {"op": "Update", "ids": list(a["ids"]), "crash": bool(a["crash"])}
    if n == "SaveState":   # weakened pipeline: the crash between the two steps of ApplyBlock
        return {"op": "Update", "ids": list(a["ids"]), "crash": True}
    if n == "UpdateBegin":
        return {"op": "UpdateBegin", "ids": list(a["ids"]), "k": a["k"]}
    if n == "UpdateEnd":
        return {"op": "UpdateEnd"}
    if n == "Pending":
        return {"op": "Pending", "mb": a["mb"]}
    if n == "Restart":
        return {"op": "Restart"}
    if n == "AddBegin":
        return {"op": "AddBegin", "id": a["id"], "tk": a["tk"]}
    if n == "AddEnd":
        return {"op": "AddEnd", "tk": a["tk"]}
    return None


def row_to_op(r):
    e = r["ev"]
    if e in ("Add", "VerifyDV"):
        return {"op": "Add", "id": r["id"]}
    if e == "Check":
        return {"op": "Check", "ids": r["ids"]}
    if e == "Report":
        return {"op": "Report", "pair": r["pair"], "swap": bool(r.get("swap"))}
    if e == "Update":
        return {"op": "Update", "ids": r["ids"], "crash": r["crash"], "to": r["to"]}
    if e == "UpdateBegin":
        return {"op": "UpdateBegin", "ids": r["ids"], "k": r["k"]}
    if e == "UpdateEnd":
        return {"op": "UpdateEnd"}
    if e == "Pending":
        return {"op": "Pending", "real": True, "bytes": r["mb"]}
    if e in ("Restart", "RestartFailed"):
        return {"op": "Restart"}
    if e == "AddBegin":
        # an AddEvidence that waited for the pool's mutex was a plain concurrent call
        if r.get("how") == "mutex":
            return {"op": "Add", "id": r["id"]}
        return {"op": "AddBegin", "id": r["id"], "tk": r["tk"]}
    if e == "AddEnd":
        return {"op": "AddEnd", "tk": r["tk"]}
    return None


def case_runs(c):
    """Admission cases: at every pool height, every item of the universe is offered to a
    pool that has not seen it (perturbed variants before the genuine item of the same key)."""
    runs = []
    fams = {}
    for kind in ("dv", "lca"):
        for i, it in c[kind].items():
            fams.setdefault(i[:2], []).append((0 if it["mut"] != "genuine" else 1, i, kind))
    for H in range(c["H0"], c["N"]):
        for fam in sorted(fams):
            ops = [{"op": "Update", "ids": []} for _ in range(H - c["H0"])]
            ids = [(i, k) for _g, i, k in sorted(fams[fam])]
            for i, k in ids:
                ops.append({"op": "Check", "ids": [i]} if k == "lca" else {"op": "Add", "id": i})
            for i, k in ids:
                ops.append({"op": "Add", "id": i} if k == "lca" else {"op": "Check", "ids": [i]})
            runs.append({"src": "cases", "ctx": "cases", "ops": ops})
    # conflicting votes reported on time (while their height is being decided) and late (one
    # and two heights later, when the validator set may already be another one)
    for q in sorted(c["pairs"]):
        h = c["pairs"][q]["h"]
        for at in (h - 1, h, h + 1):
            if at < c["H0"] or at + 1 > c["N"]:
                continue
            ops = [{"op": "Update", "ids": []} for _ in range(at - c["H0"])]
            ops += [{"op": "Report", "pair": q}, {"op": "Update", "ids": []}, {"op": "Pending", "mb": -1},
                    {"op": "Restart"}, {"op": "Update", "ids": []}]
            runs.append({"src": "cases", "ctx": "cases", "ops": ops})
    # a block commits an item while a peer gossips the very same item (and the proposer asks for
    # evidence): Update stopped before each of its committed-marker writes
    gen = sorted(i for i, it in c["dv"].items() if it["mut"] == "genuine")
    for i in gen:
        h = c["dv"][i]["h"]
        for at in (h, h + 1):
            if at < c["H0"] or at + 1 > c["N"]:
                continue
            others = [j for j in gen if j != i and c["dv"][j]["h"] <= at]
            for ids in [[i]] + [[o, i] for o in others[:1]] + [[i, o] for o in others[:1]]:
                for k in range(1, len(ids) + 1):
                    ops = [{"op": "Update", "ids": []} for _ in range(at - c["H0"])]
                    ops += [{"op": "Add", "id": j} for j in ids] + [{"op": "Check", "ids": ids}]
                    ops += [{"op": "UpdateBegin", "ids": ids, "k": k}, {"op": "Add", "id": i}, {"op": "Pending", "mb": -1},
                            {"op": "Add", "id": ids[0]}, {"op": "UpdateEnd"}, {"op": "Pending", "mb": -1},
                            {"op": "Check", "ids": [i]}, {"op": "Restart"}, {"op": "Pending", "mb": -1}]
                    runs.append({"src": "cases", "ctx": "cases", "ops": ops})
    # one validator double-signing prevote AND precommit in one round: two pairs, each reported
    # several times and in both orders; every distinct pair must become one pending item
    for v in sorted(q for q in c["pairs"] if q.startswith("v")):
        q = "q" + v[1:]
        if q not in c["pairs"]:
            continue
        h = c["pairs"][q]["h"]
        for at in (h - 1, h):
            if at < c["H0"] or at + 1 > c["N"]:
                continue
            for first, second in ((q, v), (v, q)):
                ops = [{"op": "Update", "ids": []} for _ in range(at - c["H0"])]
                ops += [{"op": "Report", "pair": first}, {"op": "Report", "pair": second, "swap": True},
                        {"op": "Report", "pair": first, "swap": True}, {"op": "Report", "pair": second},
                        {"op": "Update", "ids": []}, {"op": "Pending", "mb": -1}, {"op": "Restart"}, {"op": "Update", "ids": []}]
                runs.append({"src": "cases", "ctx": "cases", "ops": ops})
    return runs


def run(ctx):
    quick = ctx.tier == "quick"
    nrandom = 60 if quick else 800
    nconc = 60 if quick else 800
    nsim = 0 if quick else 400

    # ---- 0. contexts (chain facts + universes) out of the spec ---------------------------
    dump = os.path.join(ctx.work, "c11ctx")
    r0 = ctx.tlc("C11_ctx", "C11_ctx.cfg", dump=[dump], must_pass=True, timeout=300, workers=1, label="contexts")
    st = core.read_state_dump(dump + ".dump")
    if len(st) != 1:
        raise Undecided("context export: %d states" % len(st))
    cx = to_json(st[0]["out"])

    # ---- 1-3. TLC: exhaustive design spec | Weak_ switches (non-vacuity + attack schedules) |
    #           act-augmented state graph; independent runs, executed side by side
    pool_cfg = "C11_pool_quick.cfg" if quick else "C11_pool.cfg"
    graph_cfg = "C11_graph.cfg" if quick else "C11_graph_mid.cfg"
    dot = os.path.join(ctx.work, "c11.dot")
    big = min(ctx.cores, 8)

    def job(spec):
        kind, name = spec
        if kind == "pool":
            return spec, ctx.tlc("C11_pool", pool_cfg, timeout=3600, workers=max(2, big - 3), heap="6g", label="pool")
        if kind == "graph":
            return spec, ctx.tlc("C11_pool", graph_cfg, dump=["dot,actionlabels", dot], timeout=2400, workers=2, heap="4g", label="graph")
        return spec, ctx.tlc("C11_pool", "C11_weak_%s.cfg" % name, timeout=900, workers=1, heap="2g", label="weak_" + name)

    jobs = [("pool", ""), ("graph", "")] + [("weak", n) for n in sorted(WEAK)]
    res = {}
    with ThreadPoolExecutor(max_workers=4) as ex:
        for spec, r in ex.map(job, jobs):
            res[spec] = r
    r1, r3 = res[("pool", "")], res[("graph", "")]
    for lbl, r in (("pool", r1), ("graph", r3)):
        if not r.ok:
            ctx.save_log(lbl, r.out)
            raise Undecided("TLC run %s did not pass cleanly: %s" % (
                lbl, (r.errors or [x["name"] for x in r.violations] or ["timeout"])[:3]))

    # non-vacuity: every Weak_ switch is refuted; the counterexamples become schedules
    attack = []
    nonvac = {}
    for name in sorted(WEAK):
        rw = res[("weak", name)]
        hit = [x for x in rw.violations if x["name"] in WEAK[name]]
        if rw.errors or rw.timed_out or not hit:
            ctx.save_log("weak_" + name, rw.out)
            raise Undecided("vacuity: weakened spec Weak_%s does not violate any of %s" % (name, WEAK[name]))
        nonvac["Weak_%s refuted by TLC (%s)" % (name, hit[0]["name"])] = True
        ops = [act_to_op(st_["act"]) for _h, st_ in hit[0]["trace"][1:]]
        attack.append({"src": "attack:" + name, "ctx": "weak", "ops": [o for o in ops if o]})

    # act-augmented state graph of the pool (state-changing calls) -> schedules
    g = core.parse_dot(dot)
    os.remove(dot)
    graph = []
    for nodes in core.graph_schedules(g):
        ops = [act_to_op(g.nodes[n]["act"]) for n in nodes[1:]]
        graph.append({"src": "graph", "ctx": "graph" if quick else "mid", "ops": [o for o in ops if o]})
    graph_states = len(g.nodes)
    graph_views = set()
    for n in g.nodes.values():
        graph_views.add(view_of_tlc(to_json(n["pool"])))
    del g

    # ---- 4. simulated behaviours of the full alphabet (thorough) ------------------------------
    sims = []
    r4 = None
    if nsim:
        pfx = os.path.join(ctx.work, "c11sim")
        r4 = ctx.tlc("C11_pool", core.cfg_variant(ctx, "C11_pool.cfg", "C11_sim_run.cfg", {}, drop_view=True, drop_properties=True,
                                                  invariants=[]),
                     simulate="file=%s,num=%d" % (pfx, nsim), depth=30, seed=ctx.seed, workers=1, timeout=900, label="simulate")
        if r4.errors or r4.timed_out:
            ctx.save_log("simulate", r4.out)
            raise Undecided("simulation failed: %s" % (r4.errors[:1] or ["timeout"]))
        d = os.path.dirname(pfx)
        for f in sorted(os.listdir(d)):
            if f.startswith("c11sim_"):
                with open(os.path.join(d, f)) as fh:
                    beh = parse_behaviour_text(fh.read())
                os.remove(os.path.join(d, f))
                ops = [act_to_op(s["act"]) for _h, s in beh[1:]]
                sims.append({"src": "sim", "ctx": "pool", "ops": [o for o in ops if o]})

    # ---- 5. replay on the real code ------------------------------------------------------------
    cases = case_runs(cx["cases"])
    runs = attack + graph + cases + sims
    inp = os.path.join(ctx.work, "c11-in.json")
    with open(inp, "w") as f:
        json.dump({"ctxs": cx, "runs": runs, "random": nrandom, "conc": nconc, "apply": 1}, f)
    out = ctx.subdir("c11-out")
    binp = ctx.go_build_test("evidence", HARNESS)
    rc, txt = ctx.run_test(binp, "^TestVerifC11$", {"VERIF_IN": inp, "VERIF_OUT": out}, timeout=1200)
    if rc != 0:
        ctx.save_log("harness", txt)
        raise Undecided("C11 harness failed (rc=%d): %s" % (rc, txt[-1500:]))
    rows = core.read_ndjson(os.path.join(out, "pool.ndjson"))
    nruns = sum(1 for r in rows if r["ev"] == "Reset")
    if nruns != len(runs) + nrandom + nconc + NAPPLY:
        raise Undecided("harness executed %d of %d runs" % (nruns, len(runs) + nrandom + nconc + NAPPLY))

    # ---- 6. trace validation (TLC on observed behaviour) -----------------------------------------
    v = core.validate_traces(ctx, "TMEvidenceTrace", rows, max_events=3000, timeout=1500, label="obs")

    # ---- 7. verdict ----------------------------------------------------------------------------------
    verdict = core.Verdict(ctx)
    for x in v["viol"]:
        row = x["row"]
        sig = {"inv": x["inv"], "class": x["class"], "ev": row["ev"]}
        verdict.add(sig, {"failing_step": strip(row), "prefix": [strip_keep_ctx(r) for r in x["prefix"]],
                          "tlc": {k: x[k] for k in ("inv", "class")}})
    drift = v["drift"]

    # measured coverage
    distinct, by_src, seen_views, per_ev = set(), {}, set(), {}
    pre, src, run_ops = None, "", 0
    for r in rows:
        if r["ev"] == "Reset":
            pre, src = r["post"], r["src"].split(":")[0]
            by_src[src] = by_src.get(src, 0) + 1
            if src == "graph":
                seen_views.add(view_of_obs(r["post"]))
            continue
        per_ev[r["ev"]] = per_ev.get(r["ev"], 0) + 1
        post = r.get("post", pre)
        if src == "graph":
            seen_views.add(view_of_obs(post))
        changed = json.dumps(post, sort_keys=True) != json.dumps(pre, sort_keys=True)
        if changed or r.get("res") == "err":
            args = {k: r[k] for k in ("ev", "id", "ids", "pair", "to", "crash", "mb", "tk", "res", "why") if k in r}
            distinct.add(hashlib.sha1(json.dumps([abstract_pre(pre), args], sort_keys=True).encode()).hexdigest())
        pre = post
    graph_cov = len(graph_views & seen_views)
    complete = graph_cov == len(graph_views) and not drift
    coverage = {
        "states": r1.distinct + r3.distinct + r0.distinct,
        "transitions": r1.generated + r3.generated,
        "traces_validated_against_impl": v["runs"],
        "evaluations": len(rows) - nruns,
        "distinct_nontrivial": len(distinct),
        "rule": "a replayed/observed step is distinct by (projected pool state before the call incl. height, pruning marks, "
                "pending/committed keys, buffer, in-flight adds; call + arguments + result) and counted when it changed the "
                "pool or was a refusal; sources: counterexamples of the 8 weakened specs, BFS paths to every state of the "
                "act-augmented graph %s (state-changing calls), admission cases = every item of the universe (genuine + every "
                "single-field perturbation) offered at every pool height, %s seeded random runs and %s runs with interleaved "
                "AddEvidence calls on random chains, the ApplyBlock crash-point family (real BlockExecutor / sm.Store / "
                "store.BlockStore / pool, power loss after evpool.Update or after store.Save at heights 2-4, restart + handshake rule)%s" % (graph_cfg, nrandom, nconc, (", %d simulated behaviours" % len(sims)) if sims else ""),
        "samples": [core.abridge([strip(r) for r in rows[1:4]], 3),
                    core.abridge([strip(r) for r in rows if r["ev"] == "Update"][:2], 2)],
        "exhaustive": bool(complete),
        "tlc_runs": ctx.tlc_stats,
        "runs_by_source": by_src,
        "events_by_call": per_ev,
        "graph_states": graph_states,
        "graph_pool_states": len(graph_views),
        "graph_pool_states_observed_on_real_code": graph_cov,
        "admission_case_items": len(cx["cases"]["dv"]) + len(cx["cases"]["lca"]),
        "conformance_drift": [{"what": d["what"], "spec": d.get("spec"), "step": strip(d["row"])} for d in drift[:5]],
        "conformance_drift_count": len(drift),
        "nonvacuity": nonvac,
        "known_findings_reproduced": dict(verdict.known),
    }
    rc = verdict.finish()
    ctx.write_evidence(coverage, [
        "signatures unforgeable / hashes collision-free: an item is 'validly signed' iff the harness signed exactly that vote or "
        "commit with the validator's real key; a forged signature is a real signature with one bit flipped",
        "consensus reports only genuinely conflicting, validly signed votes of validators of that height (ReportConflictingVotes does not verify)",
        "Update is called with the evidence of a block that passed CheckEvidence on this pool, heights increase by one, "
        "a crash between Update and the state save is followed by a restart and a replay of the same block",
        "block store stub with store.BlockStore's availability rules (commit of height h only below the tip); state store is the real sm.Store",
        "light-client-attack evidence limited to one lunatic and one equivocation/amnesia scenario and their perturbations; "
        "forged commit signature only at the first position",
        "interleavings of AddEvidence are controlled at one point (after its look-ups, before verify+store); finer races inside "
        "the store step are not scheduled",
        "a TLC verdict is accepted only if the verdict file covers every trace line",
    ], len(verdict.new))
    return rc


def strip(r):
    return {k: v for k, v in r.items() if k != "c"}


def strip_keep_ctx(r):
    return r


def abstract_pre(post):
    return {k: post[k] for k in ("pending", "committed", "size", "buffer", "height", "pruneH", "pruneT", "tip", "saved", "inflight")}


def view_of_obs(post):
    return json.dumps([sorted(x["id"] for x in post["pending"]), sorted(post["committed"]), post["size"], list(post["buffer"]),
                       post["height"], post["pruneH"], post["pruneT"], post["tip"], post["saved"],
                       sorted((x["tk"], x["id"], x["h"]) for x in post["inflight"])])


def view_of_tlc(p):
    return json.dumps([sorted(p["pending"]), sorted(p["committed"]), p["size"], list(p["buffer"]),
                       p["height"], p["pruneH"], p["pruneT"], p["tip"], p["saved"],
                       sorted((x["tk"], x["id"], x["h"]) for x in p["inflight"])])


def replay(ctx, path):
    """Re-execute the failing prefix of a stored replay on the current tree and re-validate it."""
    with open(path) as f:
        rep = json.load(f)
    prefix = rep["replay"]["prefix"]
    if not prefix or prefix[0].get("ev") != "Reset":
        raise Undecided("replay file has no Reset line")
    ops = [o for o in (row_to_op(r) for r in prefix[1:]) if o]
    inp = os.path.join(ctx.work, "c11-in.json")
    with open(inp, "w") as f:
        if prefix[0].get("src") == "apply":
            # a run of the ApplyBlock crash-point family: the whole (small, deterministic) family is re-run
            json.dump({"ctxs": {}, "runs": [], "random": 0, "conc": 0, "apply": 1}, f)
        else:
            json.dump({"ctxs": {"replay": prefix[0]["c"]}, "runs": [{"src": "replay", "ctx": "replay", "ops": ops}], "random": 0, "conc": 0}, f)
    out = ctx.subdir("c11-out")
    binp = ctx.go_build_test("evidence", HARNESS)
    rc, txt = ctx.run_test(binp, "^TestVerifC11$", {"VERIF_IN": inp, "VERIF_OUT": out})
    if rc != 0:
        raise Undecided("harness failed: " + txt[-800:])
    rows = core.read_ndjson(os.path.join(out, "pool.ndjson"))
    v = core.validate_traces(ctx, "TMEvidenceTrace", rows, label="replay")
    verdict = core.Verdict(ctx)
    for x in v["viol"]:
        verdict.add({"inv": x["inv"], "class": x["class"], "ev": x["row"]["ev"]},
                    {"failing_step": strip(x["row"]), "prefix": x["prefix"]})
        log("replay: %s (%s) fails at %s" % (x["inv"], x["class"], json.dumps(strip(x["row"]))[:300]))
    return verdict.finish()
