"""C05 — The application sees each block exactly once, in order, even across crashes; stores and
app agree after restart; no new CheckTx in flight between Commit and the end of mempool
update/recheck.

Spec: spec/TMCommitPipeline.tla (+ mc/C05_pipeline.tla), spec/TMMempoolLock.tla, TMMempoolLockObs.tla
Trace specs: spec/trace/TMCommitPipelineTrace.tla, spec/trace/TMMempoolLockTrace.tla
Harness: harness/inpkg/consensus/zz_verif_c05_test.go (crash pipeline), zz_verif_c05_mempool_test.go
(overlay, package consensus)."""
import hashlib
import json
import os
import random
from concurrent.futures import ThreadPoolExecutor

from vlib import core
from vlib.core import Undecided, log
from vlib.tlaparse import to_json

HARNESS = ["zz_verif_c05_test.go", "zz_verif_c05_mempool_test.go"]

# the chain the node commits (Plan 1 of mc/C05_pipeline.tla): txs, a validator-set change at
# height 1, a consensus-param change at height 2, pruning requested by Commit(3)
PLAN = {"1": ["a=1", "VAL"], "2": ["b=2"], "3": [], "4": ["c=3"], "5": []}
PARAM_AT = 2
RETAIN = {"3": 2}
HEIGHTS = 3

WEAK_PIPELINE = {
    "EndHeightBeforeSaveBlock": {"WalEndImpliesStored"},
    "SaveStateBeforeAppCommit": {"HeightsAgree", "NoStuck"},
    "NoABCIResponsesSaved": {"NoStuck"},
    "HandshakeReplaysCommitted": {"JournalWellFormed"},
    "InitChainAlways": {"JournalWellFormed"},
    "CommitWithoutMempoolLock": {"MempoolBracket"},
    "NoFlushBeforeCommit": {"MempoolBracket"},
    "NoEndHeightRepair": {"NoStuck"},
    "HandshakeAcceptsAppAhead": {"JournalWellFormed"},
    "EmptyStoreAcceptsAppAhead": {"JournalWellFormed"},
    "NoInitialHeightBase": {"NoStuck"},
    "ReplayDropsParamUpdates": {"StateIsChainState"},
    "CrashCopyDropsValUpdates": {"StateIsChainState"},
}
IH = 5          # genesis InitialHeight of the "chain that starts above height 1" runs
IH_BLOCKS = 2

# attack-schedule library: crash between SaveBlock and the #ENDHEIGHT write of height h, then again
# in height h+1 after the key has signed its prevote (found by TLC with Weak_NoEndHeightRepair)
ATTACKS = [{"id": "atk:endheight%d+prevote%d" % (h, h + 1),
            "crashes": [{"idx": 0, "label": "wal/endheight/%d/0" % h, "occ": 1},
                        {"idx": 0, "label": "wal/msg:prevote/%d/0" % (h + 1), "occ": 1}]} for h in (1, 2, 3)]


def _op(label, **kw):
    c = {"idx": 0, "label": label, "occ": 1, "rollback": 0, "app_forward": 0, "restore_bs": 0, "restore_ss": 0}
    c.update(kw)
    return c


# operator-made (store, state, app) triples no crash of this node can produce; run with an application
# whose hash only moves with transactions (hash_mode txs), so that the app-hash comparison cannot save the day
H = HEIGHTS
TRIPLE_ATTACKS = [
    # app ahead of store = state (clean stop after H-1, the app went on alone by 1 / 2 empty blocks)
    {"id": "atk:app+1", "crashes": [_op("wal/msg:*/%d/*" % H, app_forward=1)]},
    {"id": "atk:app+2", "crashes": [_op("wal/msg:*/%d/*" % H, app_forward=2)]},
    # the node's whole data directory is from an older backup than the app's (store = state < app)
    {"id": "atk:data-1", "crashes": [_op("wal/msg:*/%d/*" % H, restore_bs=1, restore_ss=1)]},
    {"id": "atk:data-1-midcommit", "crashes": [_op("mp/Update/%d/0" % H, restore_bs=2, restore_ss=1)]},
    # store = state + 1 and the app beyond the store
    {"id": "atk:app+1-store+1", "crashes": [_op("abci/Commit/%d/0" % H, app_forward=2)]},
    # a brand-new node (nothing stored yet) meets an app that already has blocks
    {"id": "atk:fresh-node-app+1", "crashes": [_op("wal/msg:*/1/*", app_forward=1)]},
    {"id": "atk:fresh-node-app+2", "crashes": [_op("wal/msg:*/1/*", app_forward=2)]},
]


# ------------------------------------------------------------------------------ spec label -> harness label
def harness_label(a, ih=1):
    """Operation label of TMCommitPipeline!Label -> label pattern of the Go harness ("op/k/h/i")."""
    n, h, i = a["name"], a["h"], a["i"]
    t = {
        "HS_Info": ("abci", "Info", 0, 0), "HS_InitChain": ("abci", "InitChain", 0, 0),
        "HS_SaveGenVals1": ("db", "ss:vals", ih, 0), "HS_SaveGenVals2": ("db", "ss:vals", ih + 1, 0),
        "HS_SaveGenParams": ("db", "ss:params", ih, 0), "HS_SaveGenState": ("db", "ss:state", 0, 0),
        "EC_Begin": ("abci", "BeginBlock", h, 0), "AB_Begin": ("abci", "BeginBlock", h, 0),
        "EC_Deliver": ("abci", "DeliverTx", h, i), "AB_Deliver": ("abci", "DeliverTx", h, i),
        "EC_End": ("abci", "EndBlock", h, 0), "AB_End": ("abci", "EndBlock", h, 0),
        "EC_Commit": ("abci", "Commit", h, 0), "AB_AppCommit": ("abci", "Commit", h, 0),
        "AB_SaveABCIResp1": ("db", "ss:abci", h, 0), "AB_SaveABCIResp2": ("db", "ss:lastabci", h, 0),
        "AB_MempoolLock": ("mp", "Lock", h, 0), "AB_FlushMempoolConn": ("mp", "FlushAppConn", h, 0),
        "AB_MempoolUpdate": ("mp", "Update", h, 0), "AB_MempoolUnlock": ("mp", "Unlock", h, 0),
        "AB_EvpoolUpdate": ("evp", "Update", h, 0),
        "AB_SaveVals": ("db", "ss:vals", h + 2, 0), "AB_SaveParams": ("db", "ss:params", h + 1, 0),
        "AB_SaveStateKey": ("db", "ss:state", h, 0),
        "FC_BSPart": ("db", "bs:part", h, 0), "FC_BSMeta": ("db", "bs:meta", h, 0),
        "FC_BSHash": ("db", "bs:hash", h, 0), "FC_BSCommit": ("db", "bs:commit", h, 0),
        "FC_BSSeen": ("db", "bs:seen", h, 0), "FC_BSState": ("db", "bs:state", h, i),
        "FC_WalEndHeight": ("wal", "endheight", h, 0),
        "FC_PruneBSState": ("db", "bs:state", h, i), "FC_PruneBSBatch": ("db", "bs:batch", 0, 0),
        "FC_PruneSSBatch": ("db", "ss:batch", 0, 0),
        "CS_WalOther": ("wal", "msg:*", h, "*"), "CS_WalPrecommit": ("wal", "msg:precommit", h, 0),
    }.get(n)
    if t is None:
        return None
    if a.get("mode") == "mock" and n in ("AB_Begin", "AB_Deliver", "AB_End", "AB_AppCommit"):
        return None          # calls swallowed by the mock app: not an operation of the real run
    return "%s/%s/%s/%s" % t


def run_specs_from_tlc(scheds, prefix="tlc", ih=1):
    out, skipped = [], 0
    for sc in scheds:
        if not sc:
            continue
        labs = [harness_label(a, ih) for a in sc]
        if any(x is None for x in labs):
            skipped += 1
            continue
        rid = prefix + ":" + "|".join("%s(%s,%s)%s" % (a["name"], a["h"], a["i"], "-%d" % a["rb"] if a.get("rb") else "")
                                      for a in sc)
        rid += "".join("%s" % ("[fwd%d,bs-%d,ss-%d]" % (a.get("fwd", 0), a.get("rbs", 0), a.get("rss", 0))
                               if (a.get("fwd") or a.get("rbs") or a.get("rss")) else "") for a in sc)
        out.append({"id": rid, "crashes": [{"idx": 0, "label": x, "occ": 1, "rollback": a.get("rb", 0),
                                            "app_forward": a.get("fwd", 0), "restore_bs": a.get("rbs", 0),
                                            "restore_ss": a.get("rss", 0)}
                                           for x, a in zip(labs, sc)]})
    return out, skipped


# ------------------------------------------------------------------------------ harness plumbing
def pipeline_input(runs, retain=None, hash_mode="commits", initial_height=1, heights=HEIGHTS, discard_abci=False):
    return {"heights": heights, "plan": PLAN, "param_at": PARAM_AT, "retain": RETAIN if retain is None else retain,
            "hash_mode": hash_mode, "initial_height": initial_height, "discard_abci": discard_abci, "runs": runs}


def run_pipeline(ctx, binp, runs, tag, procs, retain=None, hash_mode="commits", initial_height=1, heights=HEIGHTS,
                 discard_abci=False):
    """Execute run specs on the real node, sharded over `procs` processes. Returns rows in run order."""
    if not runs:
        return []
    procs = max(1, min(procs, len(runs)))
    shards = [runs[k::procs] for k in range(procs)]
    d = ctx.subdir("pipe-" + tag)

    def one(k):
        inp = os.path.join(d, "in-%d.json" % k)
        outp = os.path.join(d, "out-%d.ndjson" % k)
        with open(inp, "w") as f:
            json.dump(pipeline_input(shards[k], retain, hash_mode, initial_height, heights, discard_abci), f)
        rc, txt = ctx.run_test(binp, "^TestVerifC05Pipeline$", {"VERIF_IN": inp, "VERIF_OUT": outp},
                               timeout=1500, label="pipeline-%s-%d" % (tag, k))
        if rc != 0:
            ctx.save_log("harness-pipeline-%s-%d" % (tag, k), txt)
            raise Undecided("C05 pipeline harness failed (rc=%d): %s" % (rc, txt[-1500:]))
        return core.read_ndjson(outp)

    with ThreadPoolExecutor(max_workers=procs) as ex:
        parts = list(ex.map(one, range(procs)))
    by_run = {}
    for rows in parts:
        for r in rows:
            by_run.setdefault(r["run"], []).append(r)
    missing = [r["id"] for r in runs if r["id"] not in by_run]
    if missing:
        raise Undecided("pipeline harness produced no trace for %d runs, e.g. %s" % (len(missing), missing[:3]))
    out = []
    for r in runs:
        out.extend(by_run[r["id"]])
    return out


def split_by_run(rows):
    runs, cur = [], None
    for r in rows:
        if r["ev"] == "Reset":
            cur = []
            runs.append(cur)
        cur.append(r)
    return runs


def ops_of_incarnation(run_rows, inc):
    return max([r["idx"] for r in run_rows if r["inc"] == inc and r["ev"] in ("Op", "Crash")] or [0])


def crash_signature(run_rows):
    return tuple((r["op"], r["k"], r["h"], r["i"], r["phase"]) for r in run_rows if r["ev"] == "Crash")


# ------------------------------------------------------------------------------ the check
def run(ctx):
    quick = ctx.tier == "quick"
    rnd = random.Random(ctx.seed)
    procs = max(2, min(8, ctx.cores // 2))
    tlcw = min(8, ctx.cores)

    # ---- 1. design specs, exhaustive ------------------------------------------------------
    stats = {}
    r_small = ctx.tlc("C05_pipeline", "C05_small.cfg", must_pass=True, timeout=900, workers=tlcw,
                      label="pipeline_H2_k1_liveness")
    cfg_main = core.cfg_variant(ctx, "C05_small.cfg", "C05_main_run.cfg",
                                {"MaxHeight": 3, "MaxCrashes": 1 if quick else 2}, drop_properties=True)
    r_main = ctx.tlc("C05_pipeline", cfg_main, must_pass=True, timeout=1200, workers=tlcw, heap="6g",
                     label="pipeline_H3_k%d" % (1 if quick else 2))
    exhaustive_runs = [r_small, r_main]
    if not quick:
        for plan, mh, mc in ((2, 3, 2), (3, 4, 2), (1, 2, 3)):
            c = core.cfg_variant(ctx, "C05_small.cfg", "C05_p%d_%d_%d.cfg" % (plan, mh, mc),
                                 {"MaxHeight": mh, "MaxCrashes": mc, "PlanId": plan}, drop_properties=True)
            exhaustive_runs.append(ctx.tlc("C05_pipeline", c, must_pass=True, timeout=1500, workers=tlcw, heap="6g",
                                           label="pipeline_plan%d_H%d_k%d" % (plan, mh, mc)))
    r_l0 = ctx.tlc("C05_mplock", "C05_mplock_v0_sync.cfg", must_pass=True, timeout=600, workers=tlcw, label="mplock_v0_sync")
    r_l1 = ctx.tlc("C05_mplock", "C05_mplock_v0_async.cfg", must_pass=True, timeout=600, workers=tlcw, label="mplock_v0_async")
    exhaustive_runs += [r_l0, r_l1]
    if not quick:
        for cl in ("sync", "async"):
            c = core.cfg_variant(ctx, "C05_mplock_v0_%s.cfg" % cl, "C05_mplock_big_%s.cfg" % cl,
                                 {"Subs": "{s1, s2, s3}", "TxPerSub": 2, "Blocks": 2})
            exhaustive_runs.append(ctx.tlc("C05_mplock", c, must_pass=True, timeout=1500, workers=tlcw, heap="6g",
                                           label="mplock_v0_%s_3subs" % cl))

    # non-vacuity: every Weak_ switch must be refuted by TLC through the expected invariant
    nonvac = {}
    attacks = list(ATTACKS)
    triple_attacks = list(TRIPLE_ATTACKS)
    ih_attacks = []
    for w, expect in WEAK_PIPELINE.items():
        rw = ctx.tlc("C05_pipeline", "C05_weak_%s.cfg" % w, timeout=600, workers=4, label="weak_" + w)
        got = {v["name"] for v in rw.violations}
        if rw.errors or rw.timed_out or not (got & expect):
            raise Undecided("vacuity: Weak_%s is not refuted through %s (got %s, errors %s)" % (
                w, sorted(expect), sorted(got), rw.errors[:1]))
        nonvac["Weak_%s refuted by TLC (%s)" % (w, ",".join(sorted(got & expect)))] = True
        if w == "NoEndHeightRepair" and rw.violations and rw.violations[0]["trace"]:
            # attack-schedule synthesis: the counterexample's crash schedule is replayed on the real node
            last = rw.violations[0]["trace"][-1][1]
            synth, _ = run_specs_from_tlc([to_json(last["s"])["sched"]], "atk-tlc")
            attacks = ATTACKS + synth
        if w in ("HandshakeAcceptsAppAhead", "EmptyStoreAcceptsAppAhead") and rw.violations and rw.violations[0]["trace"]:
            last = rw.violations[0]["trace"][-1][1]
            synth, _ = run_specs_from_tlc([to_json(last["s"])["sched"]], "atk-tlc-" + w)
            triple_attacks += synth
        if w == "NoInitialHeightBase" and rw.violations and rw.violations[0]["trace"]:
            last = rw.violations[0]["trace"][-1][1]
            ih_attacks, _ = run_specs_from_tlc([to_json(last["s"])["sched"]], "atk-tlc-" + w, IH)
    for w in ("CommitWithoutMempoolLock", "NoFlushBeforeCommit"):
        rw = ctx.tlc("C05_mplock", "C05_mplock_weak_%s.cfg" % w, timeout=600, workers=4, label="mplock_weak_" + w)
        if rw.errors or rw.timed_out or not any(v["name"] == "NoNewCheckDuringCommit" for v in rw.violations):
            raise Undecided("vacuity: TMMempoolLock with Weak_%s does not violate NoNewCheckDuringCommit" % w)
        nonvac["TMMempoolLock Weak_%s refuted by TLC (NoNewCheckDuringCommit)" % w] = True
    # S11 at the design level: the v1 mempool, modelled as it is written, breaks the sentence
    v1_refuted = {}
    for cl in ("sync", "async"):
        rv = ctx.tlc("C05_mplock", "C05_mplock_v1_%s.cfg" % cl, timeout=600, workers=4, label="mplock_v1_" + cl)
        v1_refuted[cl] = any(v["name"] == "NoNewCheckDuringCommit" for v in rv.violations)

    # ---- 2. crash schedules out of TLC (every behaviour of the bounded model = one schedule) ----
    def export_schedules(base, name, consts, label):
        c = core.cfg_variant(ctx, base, name, consts)
        sched_path = os.path.join(ctx.spec_copy(), "c05_sched.json")
        if os.path.exists(sched_path):
            os.remove(sched_path)
        r = ctx.tlc("C05_pipeline", c, must_pass=True, timeout=1500, workers=1, heap="6g", label=label)
        if not os.path.exists(sched_path):
            raise Undecided("TLC did not export the crash schedules (%s)" % label)
        with open(sched_path) as f:
            return r, json.load(f)

    r_s, scheds = export_schedules("C05_sched.cfg", "C05_sched_run.cfg",
                                   {"MaxHeight": HEIGHTS, "MaxCrashes": 1 if quick else 2}, "schedules")
    tlc_runs, tlc_skipped = run_specs_from_tlc(scheds)
    # the application restarts too and has lost up to 2 commits: ReplayBlocks' "app is behind" branches
    r_rb, scheds_rb = export_schedules("C05_rollback.cfg", "C05_rollback_run.cfg",
                                       {"MaxHeight": HEIGHTS, "MaxCrashes": 1}, "schedules_app_rollback")
    rb_tlc_runs, rb_skipped = run_specs_from_tlc([sc for sc in scheds_rb if any(a.get("rb") for a in sc)], "tlcrb")
    exhaustive_runs.append(r_rb)
    # every (store, state, app) triple with cursors at most 2 apart: restored data directories, an app that
    # is ahead; ReplayBlocks' outcome table incl. its error and panic rows
    r_tr, scheds_tr = export_schedules("C05_triples.cfg", "C05_triples_run.cfg",
                                       {"MaxHeight": HEIGHTS, "MaxCrashes": 1}, "schedules_triples")
    tr_tlc_runs, tr_skipped = run_specs_from_tlc(
        [sc for sc in scheds_tr if any(a.get("fwd") or a.get("rbs") or a.get("rss") for a in sc)], "tlctr")
    n_tr_scheds = len(tr_tlc_runs)
    exhaustive_runs.append(r_tr)
    # a chain whose genesis InitialHeight is above 1: state.LastBlockHeight stays 0 until the first block,
    # the store height jumps from 0 to InitialHeight
    r_ih, scheds_ih = export_schedules("C05_ih.cfg", "C05_ih_run.cfg",
                                       {"MaxHeight": IH_BLOCKS, "MaxCrashes": 1 if quick else 2}, "schedules_initial_height")
    ih_tlc_runs, _ = run_specs_from_tlc(scheds_ih, "tlcih", IH)
    exhaustive_runs.append(r_ih)
    # the state store run with DiscardABCIResponses: only the crash-recovery copy of the responses is kept
    c_d = core.cfg_variant(ctx, "C05_discard.cfg", "C05_discard_run.cfg",
                           {"MaxHeight": 2 if quick else HEIGHTS, "MaxCrashes": 1 if quick else 2})
    exhaustive_runs.append(ctx.tlc("C05_pipeline", c_d, must_pass=True, timeout=1200, workers=tlcw, heap="6g",
                                   label="pipeline_discard_abci_responses"))
    n_tlc_scheds = len(tlc_runs)
    if quick:
        # single-crash schedules duplicate the index-exhaustive single crashes below: replay a seeded half
        rnd.shuffle(tlc_runs)
        tlc_runs = tlc_runs[:40]
    elif len(tlc_runs) > 1100:
        k1 = [r for r in tlc_runs if len(r["crashes"]) == 1]
        k2 = [r for r in tlc_runs if len(r["crashes"]) == 2]
        rnd.shuffle(k2)
        tlc_runs = k1 + k2[:1100 - len(k1)]

    # ---- 3. replay on the real node -------------------------------------------------------------
    binp = ctx.go_build_test("consensus", HARNESS)
    free = run_pipeline(ctx, binp, [{"id": "free", "crashes": []}], "free", 1)
    n0 = ops_of_incarnation(free, 0)
    if n0 < 40 or free[-1]["ev"] != "Done":
        ctx.save_log("free-run", json.dumps(free[-5:]))
        raise Undecided("crash-free run of the real node did not complete (%d ops)" % n0)
    # every operation index of the crash-free run is a crash point
    k1_runs = [{"id": "k1:%d" % i, "crashes": [{"idx": i, "label": "", "occ": 0}]} for i in range(1, n0 + 1)]
    rows_k1 = run_pipeline(ctx, binp, k1_runs, "k1", procs)
    # a second crash at any operation of the recovery and of the blocks committed after it
    pairs = []
    for rr in split_by_run(rows_k1):
        i = [r for r in rr if r["ev"] == "Crash"]
        if not i:
            continue
        first = i[0]["idx"]
        for j in range(1, ops_of_incarnation(rr, 1) + 1):
            pairs.append((first, j))
    rnd.shuffle(pairs)
    n_pairs_total = len(pairs)
    pairs = pairs[:(40 if quick else 800)]
    # and a third one during the second recovery (sampled)
    k2_runs = [{"id": "k2:%d,%d" % p, "crashes": [{"idx": p[0], "label": "", "occ": 0},
                                                    {"idx": p[1], "label": "", "occ": 0}]} for p in pairs]
    triples = []
    for p in pairs[:(6 if quick else 150)]:
        third = 1 + rnd.randrange(12)
        triples.append({"id": "k3:%d,%d,%d" % (p[0], p[1], third),
                        "crashes": [{"idx": x, "label": "", "occ": 0} for x in (p[0], p[1], third)]})
    rows_k2 = run_pipeline(ctx, binp, attacks + k2_runs + triples, "k2", procs)
    rows_tlc = run_pipeline(ctx, binp, tlc_runs, "tlc", procs)

    # application rollback (chain without pruning: an app that asked to prune what it then loses is its own problem)
    free_rb = run_pipeline(ctx, binp, [{"id": "free-noprune", "crashes": []}], "freerb", 1, retain={})
    n0rb = ops_of_incarnation(free_rb, 0)
    rb_points = [(i, n) for i in range(1, n0rb + 1) for n in (1, 2)]
    rnd.shuffle(rb_points)
    rb_points = rb_points[:(24 if quick else len(rb_points))]
    rb_runs = [{"id": "rb:%d-%d" % p, "crashes": [{"idx": p[0], "label": "", "occ": 0, "rollback": p[1]}]} for p in rb_points]
    for p in rb_points[:(6 if quick else 150)]:
        j = 1 + rnd.randrange(30)
        rb_runs.append({"id": "rb2:%d-%d,%d" % (p[0], p[1], j),
                        "crashes": [{"idx": p[0], "label": "", "occ": 0, "rollback": p[1]},
                                    {"idx": j, "label": "", "occ": 0, "rollback": rnd.randrange(2)}]})
    if quick and len(rb_tlc_runs) > 30:
        rnd.shuffle(rb_tlc_runs)
        rb_tlc_runs = rb_tlc_runs[:30]
    rows_rb = run_pipeline(ctx, binp, rb_runs + rb_tlc_runs, "rb", procs, retain={})

    # operator-made triples: the attack list always, TLC's triples schedules sampled in quick / all in thorough;
    # with an app hash that ignores empty blocks, and a sample again with one that covers the height
    rnd.shuffle(tr_tlc_runs)
    tr_txs = triple_attacks + tr_tlc_runs[:(60 if quick else len(tr_tlc_runs))]
    tr_c = [dict(r, id=r["id"] + "#hc") for r in (TRIPLE_ATTACKS + tr_tlc_runs[:(15 if quick else 200)])]
    rows_tr = run_pipeline(ctx, binp, tr_txs, "triples", procs, retain={}, hash_mode="txs")
    rows_tr += run_pipeline(ctx, binp, tr_c, "triples-hc", procs, retain={})
    tr_skipped_runs = [r["run"] for r in rows_tr if r["ev"] == "OperatorSkipped"]

    # InitialHeight > 1: every operation of the FIRST block's pipeline (quick) / of the whole run (thorough)
    # is a crash point; plus TLC's schedules of C05_ih
    ihkw = dict(retain={}, initial_height=IH, heights=IH_BLOCKS)
    free_ih = run_pipeline(ctx, binp, [{"id": "free-ih", "crashes": []}], "freeih", 1, **ihkw)
    n0ih = ops_of_incarnation(free_ih, 0)
    first_saved = [r["idx"] for r in free_ih if r["ev"] == "Op" and r["k"] == "ss:state" and r["h"] == IH]
    if free_ih[-1]["ev"] != "Done" or not first_saved:
        raise Undecided("crash-free run with InitialHeight %d did not complete" % IH)
    last_ih = n0ih if not quick else min(n0ih, first_saved[0] + 2)
    ih_runs = [{"id": "ih:%d" % i, "crashes": [{"idx": i, "label": "", "occ": 0}]} for i in range(1, last_ih + 1)]
    if quick:
        rnd.shuffle(ih_tlc_runs)
        ih_tlc_runs = ih_tlc_runs[:12]
    else:
        ih_runs += [{"id": "ih2:%d,%d" % (i, j), "crashes": [{"idx": i, "label": "", "occ": 0}, {"idx": j, "label": "", "occ": 0}]}
                    for i, j in [(1 + rnd.randrange(n0ih), 1 + rnd.randrange(25)) for _ in range(150)]]
        ih_runs = list({r["id"]: r for r in ih_runs}.values())
    rows_ih = run_pipeline(ctx, binp, ih_runs + ih_attacks + ih_tlc_runs, "ih", procs, **ihkw)

    # DiscardABCIResponses: the window between the app's Commit and the state save of every block (where the
    # Handshake rebuilds the state from the crash-recovery copy of the ABCI responses) in quick, every
    # operation of the run in thorough
    dkw = dict(retain={}, discard_abci=True)
    if quick:
        d_runs = [{"id": "disc:%s@%d" % (k.replace("/", "."), h), "crashes": [_op("%s/%d/%s" % (k, h + (2 if k == "db/ss:vals" else 1 if k == "db/ss:params" else 0), "0"))]}
                  for h in range(1, HEIGHTS + 1)
                  for k in ("mp/Update", "mp/Unlock", "evp/Update", "db/ss:vals", "db/ss:params", "db/ss:state")]
    else:
        free_d = run_pipeline(ctx, binp, [{"id": "free-disc", "crashes": []}], "freedisc", 1, **dkw)
        d_runs = [{"id": "disc:%d" % i, "crashes": [{"idx": i, "label": "", "occ": 0}]}
                  for i in range(1, ops_of_incarnation(free_d, 0) + 1)]
    rows_d = run_pipeline(ctx, binp, d_runs, "disc", procs, **dkw)
    d_unrealised = [rr[0]["run"] for rr in split_by_run(rows_d) if not any(r["ev"] == "Crash" for r in rr)]

    # TLC schedules that the real node did not realise (a crash label that never came up)
    want_by_id = {r["id"]: len(r["crashes"]) for r in tlc_runs}
    unrealised = [rr[0]["run"] for rr in split_by_run(rows_tlc)
                  if len([r for r in rr if r["ev"] == "Crash"]) != want_by_id[rr[0]["run"]]]

    # ---- 4. mempool lock: concurrent runs on real mempools ---------------------------------------
    nrep = 3 if quick else 14
    mruns = []
    for rep in range(nrep):
        for ver in ("v0", "v1"):
            for cl in ("local", "async"):
                mruns.append({"id": "%s-%s-%d" % (ver, cl, rep), "ver": ver, "client": cl,
                              "subs": 3 + (rep + ctx.seed) % 3, "txs": 8 + (rep * 3 + ctx.seed) % 7, "blocks": 3 + rep % 3})
    # one process per mempool version: broken locking can kill the v1 process with a Go fatal error
    # ("Unlock of unlocked RWMutex"), which must not take the v0 observations with it
    rows_m, dead = [], {}
    for ver in ("v0", "v1"):
        minp = os.path.join(ctx.work, "c05-mp-in-%s.json" % ver)
        mout = os.path.join(ctx.work, "c05-mp-out-%s.ndjson" % ver)
        with open(minp, "w") as f:
            json.dump({"runs": [r for r in mruns if r["ver"] == ver]}, f)
        rc, txt = ctx.run_test(binp, "^TestVerifC05Mempool$", {"VERIF_IN": minp, "VERIF_OUT": mout}, timeout=900,
                               label="mempool-" + ver)
        if rc != 0:
            ctx.save_log("harness-mempool-" + ver, txt)
            dead[ver] = txt[-600:]
            continue
        rows_m += core.read_ndjson(mout)
    if "v0" in dead:
        raise Undecided("C05 mempool harness (v0) died: %s" % dead["v0"])

    # ---- 5. trace validation (TLC judges the observed behaviour) ----------------------------------
    rows_p = free + rows_k1 + rows_k2 + rows_tlc + free_rb + rows_rb + rows_tr + free_ih + rows_ih + rows_d
    vp = core.validate_traces(ctx, "TMCommitPipelineTrace", rows_p, label="pipeline", max_events=3000 if quick else 6000,
                               timeout=1500)
    vm = core.validate_traces(ctx, "TMMempoolLockTrace", rows_m, label="mempool", max_events=4000, timeout=1200)

    # ---- 6. verdict --------------------------------------------------------------------------------
    specs_by_id = {r["id"]: r for r in [{"id": "free", "crashes": []}] + k1_runs + attacks + k2_runs + triples + tlc_runs}
    noprune_ids = {r["id"] for r in rb_runs + rb_tlc_runs} | {"free-noprune"}
    specs_by_id.update({r["id"]: r for r in rb_runs + rb_tlc_runs + tr_txs + tr_c})
    noprune_ids |= {r["id"] for r in tr_txs + tr_c}
    txs_hash_ids = {r["id"] for r in tr_txs}
    ih_ids = {r["id"] for r in ih_runs + ih_attacks + ih_tlc_runs} | {"free-ih"}
    specs_by_id.update({r["id"]: r for r in ih_runs + ih_attacks + ih_tlc_runs})
    noprune_ids |= ih_ids
    d_ids = {r["id"] for r in d_runs}
    specs_by_id.update({r["id"]: r for r in d_runs})
    noprune_ids |= d_ids
    mspec_by_id = {r["id"]: r for r in mruns}
    verdict = core.Verdict(ctx)
    for v in vp["viol"]:
        row = v["row"]
        sig = {"part": "pipeline", "inv": v["inv"], "class": v["class"], "ev": row["ev"], "op": row["op"], "k": row["k"],
               "phase": row["phase"]}
        verdict.add(sig, {"part": "pipeline", "failing_step": row, "run_spec": specs_by_id.get(row["run"]),
                          "retain": {} if row["run"] in noprune_ids else RETAIN,
                          "hash_mode": "txs" if row["run"] in txs_hash_ids else "commits",
                          "initial_height": IH if row["run"] in ih_ids else 1,
                          "discard_abci": row["run"] in d_ids,
                          "heights": IH_BLOCKS if row["run"] in ih_ids else HEIGHTS, "prefix": v["prefix"][-60:],
                          "tlc": {"inv": v["inv"], "class": v["class"]}})
    for v in vm["viol"]:
        row = v["row"]
        sig = {"part": "mempool", "inv": v["inv"], "class": v["class"], "ver": row["ver"], "client": row["client"],
               "ev": row["ev"]}
        verdict.add(sig, {"part": "mempool", "failing_step": row, "run_spec": mspec_by_id.get(row["run"]),
                          "prefix": v["prefix"][-40:], "tlc": {"inv": v["inv"], "class": v["class"]}})
    drift = vp["drift"] + vm["drift"]

    # ---- 7. evidence ---------------------------------------------------------------------------------
    all_runs = split_by_run(rows_p)
    crash_sigs = set(crash_signature(rr) for rr in all_runs)
    steps = set()
    for r in rows_p:
        if r["ev"] in ("Op", "Crash"):
            steps.add(hashlib.sha1(json.dumps([r["ev"], r["op"], r["k"], r["h"], r["i"], r["phase"], r["post"]],
                                              sort_keys=True).encode()).hexdigest())
    hs_cases = set()
    for rr in all_runs:
        for r in rr:
            if r["ev"] == "HandshakeDone":
                hs_cases.add((r["h"],))
    recov = {}
    for rr in all_runs:
        # the (store - state, app - state) cursors the Handshake of each (re)start was faced with
        # = the ReplayBlocks case exercised
        for r in rr:
            if r["ev"] == "Op" and r["k"] == "Info":
                p = r["post"]
                key = "store-state=%d,app-state=%d,app_h%s0" % (p["bs_h"] - p["ss_h"], p["app_h"] - p["ss_h"],
                                                                  "=" if p["app_h"] == 0 else ">")
                recov[key] = recov.get(key, 0) + 1
    hs_out = {}
    for rr in split_by_run(rows_tr):
        tag = None
        for r in rr:
            if r["ev"] in ("Restore", "Rollback"):
                tag = "pending"
            if tag and r["ev"] == "Op" and r["k"] == "Info":
                p = r["post"]
                tag = "store-state=%d,app-state=%d" % (p["bs_h"] - p["ss_h"], p["app_h"] - p["ss_h"])
            if tag and tag != "pending" and r["ev"] in ("HandshakeDone", "HandshakeError", "Panic"):
                key = "%s -> %s%s" % (tag, r["ev"], (":" + r["msg"]) if r["msg"] else "")
                hs_out[key] = hs_out.get(key, 0) + 1
                break
    ih_out = {}
    for rr in split_by_run(rows_ih):
        last = [r for r in rr if r["ev"] in ("Done", "Stuck", "Panic", "HandshakeError")][-1:]
        key = (last[0]["ev"] + (":" + last[0]["msg"] if last[0]["msg"] else "")) if last else "no outcome"
        ih_out[key] = ih_out.get(key, 0) + 1
    minter = {}
    for r in rows_m:
        if r["ev"] == "CheckIssue":
            key = "%s/%s/%s" % (r["ver"], r["client"], r["kind"])
            minter[key] = minter.get(key, 0) + 1
    sample_crash = [rr for rr in all_runs if any(r["ev"] == "Crash" and r["k"] == "Update" for r in rr)][:1]
    coverage = {
        "states": sum(r.distinct for r in exhaustive_runs) + r_s.distinct,
        "transitions": sum(r.generated for r in exhaustive_runs) + r_s.generated,
        "traces_validated_against_impl": vp["runs"] + vm["runs"],
        "evaluations": len(rows_p) + len(rows_m),
        "distinct_nontrivial": len(steps) + len(crash_sigs),
        "rule": "pipeline: a real single-validator node (real BlockStore, state store, WAL, proxy.AppConns, "
                "BlockExecutor, Handshaker, consensus.State) commits %d heights (txs, a validator-set change, a "
                "consensus-param change, pruning); EVERY operation of the crash-free run (%d DB writes, WAL writes, "
                "ABCI calls, mempool/evpool calls) is a crash point (one run each), then %d of the %d (first, second) "
                "crash-point pairs and %d triples (seeded sample), plus %d crash schedules enumerated by TLC from the "
                "bounded TMCommitPipeline model (of %d; %d not expressible); %d runs in which the application also loses 1-2 commits at "
                "the crash (ReplayBlocks' app-behind branches; index-exhaustive in thorough, plus TLC schedules); a step is distinct by (operation, height, "
                "phase, projected durable state), a run by its crash signature. operator triples: %d runs in which, at the "
                "restart, an older copy of the block store and/or state store (with its WAL and key state) is put back and/or "
                "the application is 1-2 blocks ahead or behind - every (store, state, app) triple with cursors at most 2 apart, "
                "enumerated by TLC (C05_triples) plus a fixed attack list, with an app hash that ignores empty blocks and with "
                "one that covers the height. initial height: a chain whose genesis InitialHeight is %d, every operation of its "
                "first block's pipeline (thorough: of the whole run, plus pairs) as a crash point, %d runs. mempool: %d concurrent runs "
                "(v0/v1 x local/queueing client), every stamped event validated" % (
                    HEIGHTS, n0, len(pairs), n_pairs_total, len(triples), len(tlc_runs), n_tlc_scheds, tlc_skipped, len(rb_runs) + len(rb_tlc_runs),
                    len(tr_txs) + len(tr_c), IH, len(ih_runs) + len(ih_attacks) + len(ih_tlc_runs), len(mruns)),
        "samples": [core.abridge([{k: r[k] for k in ("ev", "op", "k", "h", "i", "inc", "phase", "msg")} | {"post": r["post"]}
                                  for r in (sample_crash[0] if sample_crash else all_runs[1])][28:60], 32),
                    core.abridge([{k: r[k] for k in ("ev", "kind", "id", "n", "ver", "client", "seq")} for r in rows_m[:40]], 40)],
        "exhaustive": False,
        "exhaustive_parts": {
            "single crash at every operation of the crash-free run": True,
            "TLC crash schedules replayed": "all %d" % n_tlc_scheds if len(tlc_runs) == n_tlc_scheds
                                            else "%d of %d (seeded sample; all single-crash ones in thorough)" % (len(tlc_runs), n_tlc_scheds),
            "double / triple crashes at operation indexes": "sampled (seed %d)" % ctx.seed,
        },
        "tlc_runs": ctx.tlc_stats,
        "pipeline_runs": len(all_runs),
        "pipeline_events": len(rows_p),
        "crash_points_in_crash_free_run": n0,
        "distinct_crash_signatures": len(crash_sigs),
        "handshakes_by_replayblocks_case": recov,
        "tlc_schedules_not_realised_by_the_node": unrealised[:10],
        "tlc_schedules_not_realised_count": len(unrealised),
        "app_rollback_runs": len(rb_runs) + len(rb_tlc_runs),
        "discard_abci_responses_runs": {"runs": len(d_runs), "crash_label_never_came_up": d_unrealised[:5]},
        "saved_state_projection": "height, app hash, LastHeightValidatorsChanged, LastHeightConsensusParamsChanged, consensus "
                                  "params in force, Version.Consensus.App, size of NextValidators - compared by TLC with the "
                                  "spec's StateAfter(plan, height) after every logged step (StateIsChainState)",
        "initial_height_runs": {"initial_height": IH, "crash_points_of_the_crash_free_run": n0ih,
                                "crash_points_replayed": last_ih, "tlc_schedules": len(ih_tlc_runs),
                                "outcomes": ih_out},
        "operator_triple_runs": {"txs_only_app_hash": len(tr_txs), "height_covering_app_hash": len(tr_c),
                                 "tlc_triple_schedules": n_tr_scheds, "operator_action_skipped": tr_skipped_runs[:5]},
        "handshake_outcomes_on_operator_triples": hs_out,
        "attack_schedules": [a["id"] for a in attacks],
        "mempool_runs": len(mruns),
        "mempool_events": len(rows_m),
        "mempool_check_requests_by_version_client_kind": minter,
        "conformance_drift": [{"what": d["what"], "spec_pc": d.get("spec"), "run": d["row"].get("run"),
                               "step": {k: d["row"].get(k) for k in ("ev", "op", "k", "h", "i", "inc", "phase", "kind", "id")}}
                              for d in drift[:8]],
        "conformance_drift_count": len(drift),
        "nonvacuity": nonvac,
        "design_level_S11": {"TMMempoolLock with Version=v1 violates NoNewCheckDuringCommit (sync client)": v1_refuted["sync"],
                             "(async client)": v1_refuted["async"]},
        "known_findings_reproduced": dict(verdict.known),
    }
    rc = verdict.finish()
    if dead and rc == 0:
        raise Undecided("C05 mempool harness (%s) died and nothing else was found: %s" % (",".join(dead), list(dead.values())[0]))
    coverage["mempool_harness_processes_died"] = sorted(dead)
    ctx.write_evidence(coverage, [
        "crash model = process crash: completed DB writes survive, WAL content = what had been flushed to the file at "
        "the crash instant (the periodic flush ticker is disabled), privval files and the application survive",
        "single validator; consensus is driven single-threaded through handleMsg/handleTimeout (receive routine not started, "
        "explicit ticker), so crash points are deterministic",
        "the application is the harness's recording app (persistent-kvstore-like; a new BeginBlock discards an interrupted block)",
        "operator triples: a node that REFUSES to start on cursors an operator made inconsistent is not a Progress "
        "violation; if it does start, HeightsAgree and the journal property (relative to the height the app reports) apply; "
        "restored copies come from plans without pruning",
        "InitChain repeated while the app still reports height 0 (crash before the first Commit) is what the statement allows",
        "mempool window: from the Commit request until Update has returned and its last recheck request has been issued "
        "(FIFO connection); the queueing client stands for the socket client; interleavings are whatever the Go scheduler "
        "produced in this run (a violation can be missed, never invented)",
        "WalEndImpliesStored, MempoolBracket, ResponsesBeforeCommit are mechanism invariants named by the property's anchors; "
        "they are evaluated on observed states like the others",
        "a TLC verdict is accepted only if the verdict file covers every trace line",
    ], len(verdict.new))
    return rc


def replay(ctx, path):
    """Re-execute the stored run on the current tree and re-validate it with TLC."""
    with open(path) as f:
        rep = json.load(f)["replay"]
    binp = ctx.go_build_test("consensus", HARNESS)
    verdict = core.Verdict(ctx)
    if rep.get("part") == "mempool":
        spec = rep.get("run_spec") or {"id": "replay", "ver": "v0", "client": "local", "subs": 4, "txs": 10, "blocks": 4}
        runs = [dict(spec, id="%s#%d" % (spec["id"], k)) for k in range(12)]   # interleavings vary: repeat
        minp = os.path.join(ctx.work, "c05-mp-in.json")
        mout = os.path.join(ctx.work, "c05-mp-out.ndjson")
        with open(minp, "w") as f:
            json.dump({"runs": runs}, f)
        rc, txt = ctx.run_test(binp, "^TestVerifC05Mempool$", {"VERIF_IN": minp, "VERIF_OUT": mout}, timeout=600)
        if rc != 0:
            raise Undecided("harness failed: " + txt[-800:])
        v = core.validate_traces(ctx, "TMMempoolLockTrace", core.read_ndjson(mout), label="replay", max_events=4000)
        for x in v["viol"]:
            row = x["row"]
            verdict.add({"part": "mempool", "inv": x["inv"], "class": x["class"], "ver": row["ver"], "client": row["client"],
                         "ev": row["ev"]}, {"part": "mempool", "failing_step": row, "run_spec": spec, "prefix": x["prefix"][-40:]})
            log("replay: %s fails at %s" % (x["inv"], json.dumps(row)[:300]))
        return verdict.finish()
    spec = rep.get("run_spec") or {"id": "free", "crashes": []}
    rows = run_pipeline(ctx, binp, [spec], "replay", 1, retain=rep.get("retain"), hash_mode=rep.get("hash_mode", "commits"),
                        initial_height=rep.get("initial_height", 1), heights=rep.get("heights", HEIGHTS),
                        discard_abci=bool(rep.get("discard_abci")))
    v = core.validate_traces(ctx, "TMCommitPipelineTrace", rows, label="replay")
    for x in v["viol"]:
        row = x["row"]
        verdict.add({"part": "pipeline", "inv": x["inv"], "class": x["class"], "ev": row["ev"], "op": row["op"], "k": row["k"],
                     "phase": row["phase"]}, {"part": "pipeline", "failing_step": row, "run_spec": spec, "prefix": x["prefix"][-60:]})
        log("replay: %s (%s) fails at %s" % (x["inv"], x["class"], json.dumps(row)[:300]))
    return verdict.finish()
