#!/usr/bin/env python3
"""Write seeded/<id>/meta.json from the evaluation artefacts (result.txt, SEEDED.md, check logs).
usage: seeded_meta.py <id> <property> "<what it needs to manifest>" [detected_by ...]"""
import json, os, re, sys
sid, prop, needs = sys.argv[1:4]
extra = sys.argv[4:]
d = os.path.join('/verif/seeded', sid)
if needs == "auto":
    # the section of the author's SEEDED.md that says what the violation needs to manifest
    md = open(os.path.join(d, 'SEEDED.md')).read() if os.path.exists(os.path.join(d, 'SEEDED.md')) else ''
    mm = re.search(r'(?is)^#+[^\n]*need[^\n]*\n(.*?)(?=^#+ |\Z)', md, re.M)
    needs = re.sub(r'\s+', ' ', mm.group(1)).strip()[:1500] if mm else 'see SEEDED.md'
res = open(os.path.join(d, 'result.txt')).read() if os.path.exists(os.path.join(d, 'result.txt')) else ''
m = re.search(r'demo_with_patch_rc=(\d+).*demo_without_patch_rc=(\d+).*pkg_tests_rc=(\d+)', res)
mc = re.search(r'check_rc=(\d+) violations=(\d+)', res)
sigs = re.findall(r'signature: (\{.*?\})', res)
meta = {
 "id": sid, "breaks_property": prop, "needs_to_manifest": needs,
 "patch": "patch.diff", "demonstration": [f for f in os.listdir(d) if f.endswith('_test.go')],
 "confirmed": {
   "demo_fails_with_patch": bool(m and m.group(1) != '0'),
   "demo_passes_without_patch": bool(m and m.group(2) == '0'),
   "existing_tests_of_touched_packages_pass_with_patch": bool(m and m.group(3) == '0'),
   "how": "lib/eval_mutant.sh %s %s <scratch worktree>: go test -run TestSeededDemo with and without the patch (git stash), go test of the touched packages with the patch, then ./check %s with VERIF_REPO=<worktree>" % (sid, prop, prop),
 },
 "check_result": {"command": "VERIF_REPO=<worktree with patch> ./check %s --tier quick" % prop,
                  "exit": int(mc.group(1)) if mc else None, "violations": int(mc.group(2)) if mc else None,
                  "signatures": [json.loads(s) for s in sigs]},
 "notes": extra,
}
json.dump(meta, open(os.path.join(d, 'meta.json'), 'w'), indent=1)
print(json.dumps(meta)[:300])
