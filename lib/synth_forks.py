#!/usr/bin/env python3
"""Staged fork-attack synthesis (DESIGN 4.3): stage 1 is searched in the REAL spec (a state in which one correct
node has decided and the others are locked on that block), stage 2 in the WEAKENED spec from that state until
Agreement breaks.  Result: spec/attacks/C01/<weak>__<config>__fork.json"""
import json
import os
import sys

HERE = os.path.dirname(os.path.abspath(__file__))
sys.path.insert(0, HERE)
from vlib import core               # noqa: E402
from props import cons_common as cc   # noqa: E402
from synth_prefixes import last_state_text   # noqa: E402

CONFIGS = [("eq", [1, 1, 1, 1], 1), ("w", [2, 2, 1, 1], 1)]     # byz = proposer of round 1
WEAK = ["PolProposalOverridesLock", "PrevoteIgnoresLock", "UnlockOnOlderPolka", "RelockKeepsRound"]


INIT_ACT = '/\\ act = [name |-> "Init", n |-> "-", m |-> [t |-> "-", src |-> "-", r |-> -1, v |-> "-", pol |-> -2], k |-> "-"]'


def reset_act(txt):
    """the stage-2 corridor constrains act; the pasted initial state must not carry stage 1's last action"""
    import re
    parts = re.split(r'(?m)^(?=/\\ \w+ =)', txt)
    return "\n".join(INIT_ACT if p.startswith("/\\ act =") else p.rstrip() for p in parts if p.strip())


def main():
    weaks = sys.argv[1:] or WEAK
    ctx = core.Ctx("synthf", "thorough", int(os.environ.get("VERIF_SEED", "1")))
    outdir = os.path.join(core.VERIF, "spec", "attacks", "C01")
    budget = int(os.environ.get("SYNTH_TIMEOUT", "900"))
    binp = cc.build(ctx)
    try:
        for tag, powers, mr in CONFIGS:
            info = cc.run_driver(ctx, binp, {"mode": "info", "powers": powers, "byz": [], "maxround": mr + 1}, "info" + tag)
            byz = [info["proposers"][1]]
            if info["proposers"][0] in byz:
                core.log("config %s: proposer of round 0 is the byzantine validator, skipped" % tag)
                continue
            tag = "%s_byz%d" % (tag, info["names"].index(byz[0]))
            # stage 1, real spec, breadth-first inside a corridor (TLC as planner)
            m1 = cc.net_mc(ctx, "SynthF1_" + tag, info, byz, mr, lazy=False, view=False, invariants=["NoStageOneDecidedOthersLocked"])
            d = ctx.spec_copy()
            with open(os.path.join(d, m1 + ".cfg"), "a") as f:
                f.write("CONSTRAINT CorridorStage1\n")
            r1 = ctx.tlc(m1, m1 + ".cfg", timeout=budget, heap="12g", label="F1_" + tag)
            if not r1.violations:
                with open(os.path.join(d, m1 + ".cfg")) as f:
                    c = f.read()
                with open(os.path.join(d, m1 + ".cfg"), "w") as f:
                    f.write(c.replace("CONSTRAINT CorridorStage1", "CONSTRAINT CorridorStage1W"))
                r1 = ctx.tlc(m1, m1 + ".cfg", timeout=budget, heap="12g", label="F1W_" + tag)
            if not r1.violations:
                core.log("stage 1 not reached for %s" % tag)
                continue
            steps1 = cc.trace_to_sched(r1.violations[0]["trace"])["steps"]
            init_txt = reset_act(last_state_text(r1.out))
            core.log("stage 1 for %s: %d steps" % (tag, len(steps1)))
            for weak in weaks:
                name = "%s__%s__fork" % (weak, tag)
                if os.path.exists(os.path.join(outdir, name + ".json")):
                    continue
                mcname = "SynthF2_" + name
                cc.net_mc(ctx, mcname, info, byz, mr, weak=[weak], lazy=False, view=False, invariants=["Agreement"])
                d = ctx.spec_copy()
                with open(os.path.join(d, mcname + ".tla")) as f:
                    txt = f.read()
                with open(os.path.join(d, mcname + ".tla"), "w") as f:
                    f.write(txt.replace("====", "StageInit ==\n" + init_txt + "\n===="))
                with open(os.path.join(d, mcname + ".cfg")) as f:
                    c = f.read()
                with open(os.path.join(d, mcname + ".cfg"), "w") as f:
                    f.write(c.replace("INIT Init", "INIT StageInit") + "CONSTRAINT CorridorStage2\n")
                r2 = ctx.tlc(mcname, mcname + ".cfg", timeout=budget, heap="12g", label=name)
                if not r2.violations:
                    core.log("no fork found for %s" % name)
                    continue
                steps = steps1 + cc.trace_to_sched(r2.violations[0]["trace"][1:])["steps"]
                with open(os.path.join(outdir, name + ".json"), "w") as f:
                    json.dump({"name": name, "weak": weak, "powers": powers, "byz": byz, "maxround": mr,
                               "violates": r2.violations[0]["name"], "steps": steps}, f, indent=1)
                core.log("fork attack %s: %d steps" % (name, len(steps)))
    finally:
        ctx.cleanup()


if __name__ == "__main__":
    main()
