//go:build verif

package types

// C10 harness (see /verif/DESIGN.md section 5, C10).  Replays TLC-generated proof cases
// and part-set schedules on the real crypto/merkle and types.PartSet code, projects the
// real objects to the abstract state of spec/TMMerkle.tla / TMPartSet.tla and writes
// NDJSON traces that TLC validates (spec/trace/TMMerkleTrace.tla).  The harness gives no
// verdicts.

import (
	"bytes"
	"encoding/hex"
	"encoding/json"
	"fmt"
	"io"
	"math/rand"
	"os"
	"strconv"
	"testing"

	"github.com/tendermint/tendermint/crypto/merkle"
	"github.com/tendermint/tendermint/crypto/tmhash"
)

type c10Proof struct {
	Total int64    `json:"total"`
	Big   int64    `json:"big"` // the stated leaf count is Total + Big<<32
	Index int64    `json:"index"`
	Ibig  int64    `json:"ibig"` // the stated index is Index + Ibig<<32
	Leaf  string   `json:"leaf"`
	Aunts []string `json:"aunts"`
}

// the header a part set is created from (nil: the genuine header of the data)
type c10Hdr struct {
	Total int64  `json:"total"`
	Root  string `json:"root"`
}

type c10Case struct {
	Leaves []string `json:"leaves"`
	Pos    int      `json:"pos"`
	Proof  c10Proof `json:"proof"`
	Item   string   `json:"item"`
	Mut    string   `json:"mut"`
}

type c10Part struct {
	Index int64    `json:"index"`
	Bytes string   `json:"bytes"`
	Proof c10Proof `json:"proof"`
}

type c10Sched struct {
	Data  []string  `json:"data"`
	Hdr   *c10Hdr   `json:"hdr"`
	Parts []c10Part `json:"parts"`
}

type c10Input struct {
	Cases  []c10Case  `json:"cases"`
	Scheds []c10Sched `json:"scheds"`
	Random int        `json:"random"`
	Concurrent int    `json:"concurrent"` // concurrent-delivery trials
}

// symbolic hashing, mirrors TMMerkle.tla (used only to name concrete hashes)
func c10Split(n int) int {
	k := 1
	for 2*k < n {
		k *= 2
	}
	return k
}

func c10SymRoot(items []string) string {
	switch len(items) {
	case 0:
		return "E()"
	case 1:
		return "L(" + items[0] + ")"
	}
	k := c10Split(len(items))
	return "I(" + c10SymRoot(items[:k]) + "," + c10SymRoot(items[k:]) + ")"
}

// naming table between symbolic terms and the concrete bytes the REAL code computes
type c10Names struct {
	size      int
	itemBytes map[string][]byte
	itemName  map[string]string // hex(bytes) -> name
	hashBytes map[string][]byte // term -> hash
	hashName  map[string]string // hex(hash) -> term
	rng       *rand.Rand
}

func newC10Names(seed int64, size int) *c10Names {
	return &c10Names{size: size, itemBytes: map[string][]byte{}, itemName: map[string]string{},
		hashBytes: map[string][]byte{}, hashName: map[string]string{}, rng: rand.New(rand.NewSource(seed))}
}

func (nm *c10Names) item(name string) []byte {
	if b, ok := nm.itemBytes[name]; ok {
		return b
	}
	for {
		b := make([]byte, nm.size)
		nm.rng.Read(b)
		if _, dup := nm.itemName[hex.EncodeToString(b)]; dup && nm.size > 0 {
			if nm.size == 1 && len(nm.itemName) >= 200 {
				panic("item space exhausted")
			}
			continue
		}
		nm.itemBytes[name] = b
		nm.itemName[hex.EncodeToString(b)] = name
		return b
	}
}

func (nm *c10Names) nameOfItem(b []byte) string {
	if n, ok := nm.itemName[hex.EncodeToString(b)]; ok {
		return n
	}
	return "?" + hex.EncodeToString(b[:c10min(len(b), 4)])
}

// register every sub-range root of the tree over items (what TreeHashes enumerates)
func (nm *c10Names) registerTree(items []string) {
	n := len(items)
	for a := 0; a < n; a++ {
		for b := a; b < n; b++ {
			sub := items[a : b+1]
			bs := make([][]byte, len(sub))
			for i, s := range sub {
				bs[i] = nm.item(s)
			}
			nm.reg(c10SymRoot(sub), merkle.HashFromByteSlices(bs))
		}
	}
	nm.reg("E()", merkle.HashFromByteSlices(nil))
	nm.reg("L(zz)", merkle.HashFromByteSlices([][]byte{nm.item("zz")}))
	for _, it := range items {
		nm.reg("L("+it+")", merkle.HashFromByteSlices([][]byte{nm.item(it)}))
	}
}

func (nm *c10Names) reg(term string, h []byte) {
	nm.hashBytes[term] = h
	if _, ok := nm.hashName[hex.EncodeToString(h)]; !ok {
		nm.hashName[hex.EncodeToString(h)] = term
	}
}

func (nm *c10Names) hash(term string) ([]byte, error) {
	if h, ok := nm.hashBytes[term]; ok {
		return h, nil
	}
	// an inner node over two known terms that is not a node of the registered tree (crafted roots): RFC-6962
	// inner hash, sha256(0x01 || left || right)
	if len(term) > 3 && term[:2] == "I(" && term[len(term)-1] == ')' {
		body, depth := term[2:len(term)-1], 0
		for i := 0; i < len(body); i++ {
			switch body[i] {
			case '(':
				depth++
			case ')':
				depth--
			case ',':
				if depth == 0 {
					l, err := nm.hash(body[:i])
					if err != nil {
						return nil, err
					}
					r, err := nm.hash(body[i+1:])
					if err != nil {
						return nil, err
					}
					h := tmhash.Sum(append(append([]byte{1}, l...), r...))
					nm.reg(term, h)
					return h, nil
				}
			}
		}
	}
	return nil, fmt.Errorf("no concrete hash for term %q", term)
}

// the inner-hash construction used for crafted roots is the one of the real tree code
func c10CheckInner(t *testing.T) {
	a, b := []byte("left item"), []byte("right item")
	nm := newC10Names(1, 3)
	nm.reg("L(a)", merkle.HashFromByteSlices([][]byte{a}))
	nm.reg("L(b)", merkle.HashFromByteSlices([][]byte{b}))
	h, err := nm.hash("I(L(a),L(b))")
	if err != nil || !bytes.Equal(h, merkle.HashFromByteSlices([][]byte{a, b})) {
		t.Fatalf("harness inner hash differs from crypto/merkle: %v", err)
	}
}

func (nm *c10Names) nameOfHash(h []byte) string {
	if t, ok := nm.hashName[hex.EncodeToString(h)]; ok {
		return t
	}
	return "X(" + hex.EncodeToString(h[:c10min(len(h), 4)]) + ")"
}

func c10min(a, b int) int {
	if a < b {
		return a
	}
	return b
}

func (nm *c10Names) concProof(p c10Proof) (*merkle.Proof, error) {
	lh, err := nm.hash(p.Leaf)
	if err != nil {
		return nil, err
	}
	out := &merkle.Proof{Total: p.Total + p.Big<<32, Index: p.Index + p.Ibig<<32, LeafHash: lh, Aunts: [][]byte{}}
	for _, a := range p.Aunts {
		h, err := nm.hash(a)
		if err != nil {
			return nil, err
		}
		out.Aunts = append(out.Aunts, h)
	}
	return out, nil
}

func (nm *c10Names) absProof(p *merkle.Proof) c10Proof {
	out := c10Proof{Total: p.Total, Index: p.Index, Leaf: nm.nameOfHash(p.LeafHash), Aunts: []string{}}
	if p.Total >= 1<<32 {
		out.Total, out.Big = p.Total&(1<<32-1), p.Total>>32
	}
	if p.Index >= 1<<32 {
		out.Index, out.Ibig = p.Index&(1<<32-1), p.Index>>32
	}
	for _, a := range p.Aunts {
		out.Aunts = append(out.Aunts, nm.nameOfHash(a))
	}
	return out
}

type c10Writer struct {
	f   *os.File
	enc *json.Encoder
	n   int
}

func newC10Writer(path string) *c10Writer {
	f, err := os.Create(path)
	if err != nil {
		panic(err)
	}
	return &c10Writer{f: f, enc: json.NewEncoder(f)}
}

func (w *c10Writer) emit(v interface{}) {
	if err := w.enc.Encode(v); err != nil {
		panic(err)
	}
	w.n++
}

func c10Sizes(seed int64) []int {
	return []int{1, 3, 32, 33, int(BlockPartSizeBytes)}
}

func TestVerifC10(t *testing.T) {
	inPath, outDir := os.Getenv("VERIF_IN"), os.Getenv("VERIF_OUT")
	if inPath == "" || outDir == "" {
		t.Skip("VERIF_IN / VERIF_OUT not set")
	}
	seed, _ := strconv.ParseInt(os.Getenv("VERIF_SEED"), 10, 64)
	raw, err := os.ReadFile(inPath)
	if err != nil {
		t.Fatal(err)
	}
	var in c10Input
	if err := json.Unmarshal(raw, &in); err != nil {
		t.Fatal(err)
	}
	sizes := c10Sizes(seed)
	c10CheckInner(t)

	// ---------------- proof cases
	wc := newC10Writer(outDir + "/cases.ndjson")
	for ci, c := range in.Cases {
		size := sizes[(ci+int(seed))%len(sizes)]
		if size > 64 && ci%17 != 0 {
			size = sizes[(ci+int(seed))%3]
		}
		nm := newC10Names(seed*1000003+int64(ci), size)
		nm.registerTree(c.Leaves)
		items := make([][]byte, len(c.Leaves))
		for i, s := range c.Leaves {
			items[i] = nm.item(s)
		}
		root, proofs := merkle.ProofsFromByteSlices(items)
		// conformance data: what the real generator produces for the genuine position
		gen := nm.absProof(proofs[c.Pos])
		p, err := nm.concProof(c.Proof)
		if err != nil {
			t.Fatalf("case %d: %v", ci, err)
		}
		verr := p.Verify(root, nm.item(c.Item))
		wc.emit(map[string]interface{}{
			"ev": "Verify", "leaves": c.Leaves, "pos": c.Pos, "proof": c.Proof, "item": c.Item,
			"mut": c.Mut, "accepted": verr == nil, "genproof": gen, "root": nm.nameOfHash(root),
			"size": size,
		})
	}
	wc.f.Close()

	// ---------------- part-set schedules (from the TLC state graph) and random runs
	wp := newC10Writer(outDir + "/partset.ndjson")
	run := 0
	for si, s := range in.Scheds {
		size := sizes[(si+int(seed))%len(sizes)]
		if size > 64 && si%13 != 0 {
			size = sizes[(si+int(seed))%3]
		}
		run++
		c10RunSched(t, wp, run, seed, size, s)
	}
	rng := rand.New(rand.NewSource(seed))
	for k := 0; k < in.Random; k++ {
		run++
		c10RunRandom(t, wp, run, rng)
	}
	for k := 0; k < in.Concurrent; k++ {
		run++
		c10RunConcurrent(t, wp, run, rng)
	}
	wp.f.Close()
	t.Logf("C10 harness: %d case events, %d part-set events", wc.n, wp.n)
}

func c10Project(nm *c10Names, ps *PartSet, orig []byte) map[string]interface{} {
	slots := make([]string, ps.Total())
	for i := range slots {
		if p := ps.GetPart(i); p != nil {
			slots[i] = nm.nameOfItem(p.Bytes)
		} else {
			slots[i] = "nil"
		}
	}
	post := map[string]interface{}{"slots": slots, "count": int(ps.Count()), "complete": ps.IsComplete(),
		"bytesize": int(ps.ByteSize()), "reasm": "n/a", "root": "n/a"}
	if ps.IsComplete() && ps.Total() > 0 {
		// the Merkle root the real tree code computes over the admitted parts (the set's own total)
		leaves := make([][]byte, ps.Total())
		for i := range leaves {
			if p := ps.GetPart(i); p != nil {
				leaves[i] = p.Bytes
			}
		}
		post["root"] = nm.nameOfHash(merkle.HashFromByteSlices(leaves))
		// a panic of the product while reassembling is an observation ("panic"), not a failure of the harness
		func() {
			defer func() {
				if r := recover(); r != nil {
					post["reasm"] = "panic"
				}
			}()
			got, err := io.ReadAll(ps.GetReader())
			if err != nil {
				post["reasm"] = "error"
			} else if bytes.Equal(got, orig) {
				post["reasm"] = "equal"
			} else {
				post["reasm"] = "different"
			}
			// the same through Read calls with caller-chosen buffers: "reassembles to exactly the original bytes"
			// is a statement about the reader, whatever buffer sizes its consumer happens to use
			if post["reasm"] == "equal" {
				psz := 0
				if p0 := ps.GetPart(0); p0 != nil {
					psz = len(p0.Bytes)
				}
				bufs := []int{}
				if psz <= 64 {
					for b := 1; b <= 2*psz+3; b++ {
						bufs = append(bufs, b)
					}
				} else {
					bufs = []int{1000, 4096, psz/2 + 1, psz - 1, psz, psz + 1, psz + psz/3, 2*psz + 1}
				}
				for _, b := range bufs {
					rd := ps.GetReader()
					var acc []byte
					buf := make([]byte, b)
					for it := 0; it < 10*len(orig)+100; it++ {
						k, e := rd.Read(buf)
						acc = append(acc, buf[:k]...)
						if e != nil {
							break
						}
					}
					if !bytes.Equal(acc, orig) {
						post["reasm"] = "different:buffer"
						break
					}
				}
			}
		}()
	}
	return post
}

func c10ErrName(err error) string {
	switch err {
	case nil:
		return "none"
	case ErrPartSetUnexpectedIndex:
		return "UnexpectedIndex"
	case ErrPartSetInvalidProof:
		return "InvalidProof"
	}
	return "other:" + err.Error()
}

func c10RunSched(t *testing.T, w *c10Writer, run int, seed int64, size int, s c10Sched) {
	nm := newC10Names(seed*7919+int64(run), size)
	nm.registerTree(s.Data)
	var data []byte
	for _, it := range s.Data {
		data = append(data, nm.item(it)...)
	}
	src := NewPartSetFromData(data, uint32(size))
	if int(src.Total()) != len(s.Data) {
		t.Fatalf("run %d: part count %d != %d", run, src.Total(), len(s.Data))
	}
	header := src.Header()
	hdr := c10Hdr{Total: int64(src.Total()), Root: nm.nameOfHash(src.Hash())}
	if s.Hdr != nil {
		h, err := nm.hash(s.Hdr.Root)
		if err != nil {
			t.Fatalf("run %d: %v", run, err)
		}
		hdr = *s.Hdr
		header = PartSetHeader{Total: uint32(s.Hdr.Total), Hash: h}
	}
	ps := NewPartSetFromHeader(header)
	w.emit(map[string]interface{}{"ev": "Reset", "run": run, "data": s.Data, "size": size,
		"root": nm.nameOfHash(src.Hash()), "total": int(src.Total()), "hdr": hdr})
	for _, ap := range s.Parts {
		pr, err := nm.concProof(ap.Proof)
		if err != nil {
			t.Fatalf("run %d: %v", run, err)
		}
		part := &Part{Index: uint32(ap.Index), Bytes: nm.item(ap.Bytes), Proof: *pr}
		added, aerr := ps.AddPart(part)
		w.emit(map[string]interface{}{"ev": "AddPart", "run": run, "part": ap, "added": added,
			"err": c10ErrName(aerr), "post": c10Project(nm, ps, data)})
	}
}

// several goroutines deliver genuine parts (with repeats, often the same index at the same moment) to one
// PartSet; the outcome must be the outcome of SOME sequential order, which for genuine parts is unique
func c10RunConcurrent(t *testing.T, w *c10Writer, run int, rng *rand.Rand) {
	size := int(BlockPartSizeBytes)
	if rng.Intn(3) == 0 {
		size = 64
	}
	n := 2 + rng.Intn(3)
	data := make([]byte, n*size)
	rng.Read(data)
	src := NewPartSetFromData(data, uint32(size))
	names := make([]string, n)
	for i := range names {
		names[i] = "p" + strconv.Itoa(i)
	}
	nm := newC10Names(int64(run), size)
	for i := 0; i < n; i++ {
		b := src.GetPart(i).Bytes
		nm.itemBytes[names[i]] = b
		nm.itemName[hex.EncodeToString(b)] = names[i]
	}
	nm.registerTree(names)
	ps := NewPartSetFromHeader(src.Header())
	w.emit(map[string]interface{}{"ev": "Reset", "run": run, "data": names, "size": size,
		"root": nm.nameOfHash(src.Hash()), "total": n})
	g := 2 + rng.Intn(3)
	plans := make([][]int, g)
	hot := rng.Intn(n) // every goroutine starts with the same index: maximal contention
	delivered := []int{}
	for k := range plans {
		plans[k] = []int{hot}
		for j := 0; j < rng.Intn(3); j++ {
			plans[k] = append(plans[k], rng.Intn(n))
		}
		delivered = append(delivered, plans[k]...)
	}
	start := make(chan struct{})
	res := make(chan int, g)
	for k := 0; k < g; k++ {
		go func(plan []int) {
			<-start
			cnt := 0
			for _, i := range plan {
				gp := src.GetPart(i)
				if added, err := ps.AddPart(&Part{Index: gp.Index, Bytes: gp.Bytes, Proof: gp.Proof}); added && err == nil {
					cnt++
				}
			}
			res <- cnt
		}(plans[k])
	}
	close(start)
	addedCount := 0
	for k := 0; k < g; k++ {
		addedCount += <-res
	}
	post := func() (p map[string]interface{}) {
		defer func() {
			if r := recover(); r != nil {
				p = map[string]interface{}{"slots": []string{}, "count": int(ps.Count()), "complete": ps.IsComplete(),
					"bytesize": int(ps.ByteSize()), "reasm": "panic", "root": "n/a"}
				slots := make([]string, ps.Total())
				for i := range slots {
					slots[i] = "nil"
					if pt := ps.GetPart(i); pt != nil {
						slots[i] = nm.nameOfItem(pt.Bytes)
					}
				}
				p["slots"] = slots
			}
		}()
		return c10Project(nm, ps, data)
	}()
	w.emit(map[string]interface{}{"ev": "ConcurrentAdd", "run": run, "delivered": delivered, "goroutines": g,
		"added_count": addedCount, "post": post})
}

// random data lengths / part sizes / delivery orders with mutated parts, abstracted by
// first appearance
func c10RunRandom(t *testing.T, w *c10Writer, run int, rng *rand.Rand) {
	sizes := []int{1, 2, 5, 64, 1000, int(BlockPartSizeBytes)}
	size := sizes[rng.Intn(len(sizes))]
	nparts := 1 + rng.Intn(9)
	lastLen := 1 + rng.Intn(size)
	if rng.Intn(3) == 0 {
		lastLen = size
	}
	dataLen := (nparts-1)*size + lastLen
	data := make([]byte, dataLen)
	rng.Read(data)
	if size == 1 || rng.Intn(4) == 0 { // repeated content
		for i := range data {
			data[i] = byte(rng.Intn(2))
		}
	}
	src := NewPartSetFromData(data, uint32(size))
	n := int(src.Total())
	nm := newC10Names(int64(run), size)
	names := make([]string, n)
	for i := 0; i < n; i++ {
		b := src.GetPart(i).Bytes
		if nmx, ok := nm.itemName[hex.EncodeToString(b)]; ok {
			names[i] = nmx
		} else {
			name := "p" + strconv.Itoa(i)
			nm.itemBytes[name] = b
			nm.itemName[hex.EncodeToString(b)] = name
			names[i] = name
		}
	}
	foreign := make([]byte, len(src.GetPart(0).Bytes))
	for {
		rng.Read(foreign)
		if _, dup := nm.itemName[hex.EncodeToString(foreign)]; !dup {
			break
		}
	}
	nm.itemBytes["zz"] = foreign
	nm.itemName[hex.EncodeToString(foreign)] = "zz"
	nm.registerTree(names)
	// one run in four: the part set is created from a crafted header whose root wraps the genuine root
	header := src.Header()
	hdr := c10Hdr{Total: int64(n), Root: nm.nameOfHash(src.Hash())}
	extra, _ := nm.hash("L(zz)")
	if rng.Intn(4) == 0 {
		hdr.Root = "I(L(zz)," + hdr.Root + ")"
		if rng.Intn(3) == 0 {
			hdr.Root = "I(" + nm.nameOfHash(src.Hash()) + ",L(zz))"
		}
		h, err := nm.hash(hdr.Root)
		if err != nil {
			t.Fatalf("run %d: %v", run, err)
		}
		header = PartSetHeader{Total: uint32(n), Hash: h}
	}
	ps := NewPartSetFromHeader(header)
	w.emit(map[string]interface{}{"ev": "Reset", "run": run, "data": names, "size": size,
		"root": nm.nameOfHash(src.Hash()), "total": n, "hdr": hdr})
	steps := n*2 + rng.Intn(6)
	for k := 0; k < steps; k++ {
		i := rng.Intn(n)
		j := rng.Intn(n)
		g := src.GetPart(i)
		part := &Part{Index: g.Index, Bytes: g.Bytes, Proof: g.Proof}
		part.Proof.Aunts = append([][]byte{}, g.Proof.Aunts...)
		switch rng.Intn(10) {
		case 9: // index and total shifted by the same multiple of 2^32, one more aunt at the root end
			k := int64(1 + rng.Intn(2))
			part.Proof.Index += k << 32
			part.Proof.Total += k << 32
			part.Proof.Aunts = append(part.Proof.Aunts, extra)
		case 0: // whole transplant: bytes+proof of j presented at index i
			o := src.GetPart(j)
			part.Bytes, part.Proof = o.Bytes, o.Proof
		case 1: // bytes of j with proof of i
			part.Bytes = src.GetPart(j).Bytes
		case 2: // transplant with proof index rewritten
			o := src.GetPart(j)
			part.Bytes, part.Proof = o.Bytes, o.Proof
			part.Proof.Index = int64(i)
		case 3:
			part.Proof.Total = int64(n + 1 + rng.Intn(2))
		case 4:
			part.Index = uint32(n + rng.Intn(2))
		case 5:
			part.Bytes = foreign
			part.Proof.LeafHash = merkle.HashFromByteSlices([][]byte{foreign})
		case 6:
			if len(part.Proof.Aunts) > 0 {
				part.Proof.Aunts = part.Proof.Aunts[:len(part.Proof.Aunts)-1]
			}
		default: // genuine
		}
		ap := c10Part{Index: int64(part.Index), Bytes: nm.nameOfItem(part.Bytes), Proof: nm.absProof(&part.Proof)}
		added, aerr := ps.AddPart(part)
		w.emit(map[string]interface{}{"ev": "AddPart", "run": run, "part": ap, "added": added,
			"err": c10ErrName(aerr), "post": c10Project(nm, ps, data)})
	}
}
