//go:build verif

package types

// C07 harness (see /verif/DESIGN.md section 5, C07).  Realises abstract commit-verification
// cases (TLC-enumerated by spec/mc/C07_cases.tla, or drawn by the seeded random driver below)
// as real ValidatorSets with ed25519 keys and real Commits whose signatures are made over the
// production sign bytes, calls the three real functions
//     ValidatorSet.VerifyCommit / VerifyCommitLight / VerifyCommitLightTrusting
// at several power scalings and trust levels and logs what they returned (accept / error
// class / slot index / got / needed) as NDJSON.  Voting powers and fractions are logged as
// base-10^4 limb arrays so that TLC (spec/trace/TMCommitVerifyTrace.tla, TMBigNat) can judge
// them exactly.  The harness gives no verdicts.

import (
	"bufio"
	"bytes"
	"crypto/sha256"
	"encoding/json"
	"errors"
	"fmt"
	"math/big"
	"math/rand"
	"os"
	"regexp"
	"sort"
	"strconv"
	"sync"
	"testing"
	"time"

	"github.com/tendermint/tendermint/crypto/ed25519"
	tmmath "github.com/tendermint/tendermint/libs/math"
	tmproto "github.com/tendermint/tendermint/proto/tendermint/types"
	tmversion "github.com/tendermint/tendermint/proto/tendermint/version"
	"github.com/tendermint/tendermint/version"
)

// ---------------------------------------------------------------- abstract input

type c07Sig struct {
	By    string `json:"by"`
	Chain string `json:"chain"`
	Type  string `json:"type"`
	H     int64  `json:"h"`
	R     int32  `json:"r"`
	Bid   string `json:"bid"`
	Ts    int64  `json:"ts"`
}

type c07Slot struct {
	Flag string `json:"flag"`
	Addr string `json:"addr"`
	Ts   int64  `json:"ts"`
	Sig  c07Sig `json:"sig"`
}

type c07Commit struct {
	Height int64     `json:"height"`
	Round  int32     `json:"round"`
	Bid    string    `json:"bid"`
	Sigs   []c07Slot `json:"sigs"`
}

// how the ValidatorSet under test comes into being: built in memory (path "none") or decoded from its
// proto form after the unauthenticated fields of the encoded form were rewritten
type c07Wire struct {
	Path     string `json:"path"`     // none | valset | lightblock
	Total    string `json:"total"`    // tag of the number written into total_voting_power
	Proposer string `json:"proposer"` // same | other | outsider | nil
	Prio     string `json:"prio"`     // same | scrambled
}

type c07Dec struct {
	Ok       bool   `json:"ok"`
	Err      string `json:"err"`
	HashSame bool   `json:"hash_same"` // the decoded set hashes like the original (the hash covers none of the rewritten fields)
}

type c07Case struct {
	Pv    []int64   `json:"pv"` // base power vector (TLC cases)
	Frame string    `json:"frame"`
	Kinds []string  `json:"kinds"`
	Wire  c07Wire   `json:"wire"`
	Chain string    `json:"chain"`
	H     int64     `json:"h"`
	Bid   string    `json:"bid"`
	C     c07Commit `json:"c"`
	// explicit runs (replay of a stored line / random driver): decimal power vectors and fractions
	Powers [][]string  `json:"powers,omitempty"`
	Labels []string    `json:"labels,omitempty"`
	Fracs  [][2]uint64 `json:"fracs,omitempty"`
	Src    string      `json:"src,omitempty"`
	// build the ValidatorSet as a struct literal instead of NewValidatorSet (totals above
	// MaxTotalVotingPower cannot be built otherwise)
	HandBuilt bool `json:"handbuilt,omitempty"`
}

type c07Input struct {
	CasesFile string   `json:"cases_file"`
	Scales    []string `json:"scales"`     // scalings applied to every case
	RotScales []string `json:"rot_scales"` // one of these in addition, chosen round-robin by case number
	Random    int      `json:"random"`
	Workers   int      `json:"workers"`
}

// ---------------------------------------------------------------- observed output

type c07Res struct {
	Ok     bool    `json:"ok"`
	Err    string  `json:"err"`
	Idx    int     `json:"idx"`
	Got    []int64 `json:"got"`
	Needed []int64 `json:"needed"`
}

type c07Trust struct {
	Num []int64 `json:"num"`
	Den []int64 `json:"den"`
	Res c07Res  `json:"res"`
}

type c07Run struct {
	Scale    string     `json:"scale"`
	Pv       [][]int64  `json:"pv"`
	EncTotal []int64    `json:"enc_total"`
	Dec      c07Dec     `json:"dec"`
	Full  c07Res     `json:"full"`
	Light c07Res     `json:"light"`
	Trust []c07Trust `json:"trust"`
}

type c07Line struct {
	Ev    string    `json:"ev"`
	Src   string    `json:"src"`
	Hand  bool      `json:"handbuilt"`
	Frame string    `json:"frame"`
	Kinds []string  `json:"kinds"`
	Wire  c07Wire   `json:"wire"`
	Ids   []string  `json:"ids"`
	Chain string    `json:"chain"`
	H     int64     `json:"h"`
	Bid   string    `json:"bid"`
	C     c07Commit `json:"c"`
	Runs  []c07Run  `json:"runs"`
}

// base-10^4 limbs, least significant first; 0 = []
func c07Limbs(x int64) []int64 {
	out := []int64{}
	if x < 0 {
		panic("c07Limbs: negative")
	}
	for x > 0 {
		out = append(out, x%10000)
		x /= 10000
	}
	return out
}

func c07LimbsU(x uint64) []int64 {
	out := []int64{}
	for x > 0 {
		out = append(out, int64(x%10000))
		x /= 10000
	}
	return out
}

// ---------------------------------------------------------------- keys, block ids, signatures

const c07NKeys = 8

type c07World struct {
	keys  map[string]ed25519.PrivKey // "v1".."v8" (ascending address), "vx"
	mu    sync.Mutex
	sigs  map[c07Sig][]byte
	bids  map[string]BlockID
	nsign int
}

func c07NewWorld() *c07World {
	w := &c07World{keys: map[string]ed25519.PrivKey{}, sigs: map[c07Sig][]byte{}, bids: map[string]BlockID{}}
	ks := make([]ed25519.PrivKey, 0, c07NKeys+1)
	for i := 0; i < c07NKeys+1; i++ {
		ks = append(ks, ed25519.GenPrivKeyFromSecret([]byte("verif-c07-key-"+strconv.Itoa(i))))
	}
	// NewValidatorSet orders by power (descending) and then by address (ascending): name the
	// keys in ascending address order so that, for a non-increasing power vector, v<i> sits
	// at position i
	sort.Slice(ks, func(i, j int) bool {
		return bytes.Compare(ks[i].PubKey().Address(), ks[j].PubKey().Address()) < 0
	})
	for i := 0; i < c07NKeys; i++ {
		w.keys["v"+strconv.Itoa(i+1)] = ks[i]
	}
	w.keys["vx"] = ks[c07NKeys]
	h := func(s string) []byte { x := sha256.Sum256([]byte(s)); return x[:] }
	w.bids["A"] = BlockID{Hash: h("block-a"), PartSetHeader: PartSetHeader{Total: 1, Hash: h("parts-p")}}
	w.bids["Ap"] = BlockID{Hash: h("block-a"), PartSetHeader: PartSetHeader{Total: 1, Hash: h("parts-q")}}
	w.bids["B"] = BlockID{Hash: h("block-b"), PartSetHeader: PartSetHeader{Total: 1, Hash: h("parts-p")}}
	w.bids["Z"] = BlockID{}
	// incomplete ids: hash present, part-set header empty / with total 0 (Commit.ValidateBasic lets both through)
	w.bids["Ai"] = BlockID{Hash: h("block-a")}
	w.bids["Aj"] = BlockID{Hash: h("block-a"), PartSetHeader: PartSetHeader{Total: 0, Hash: h("parts-p")}}
	return w
}

func (w *c07World) bid(name string) (BlockID, error) {
	b, ok := w.bids[name]
	if !ok {
		return BlockID{}, fmt.Errorf("unknown abstract block id %q", name)
	}
	return b, nil
}

func c07Time(ts int64) time.Time {
	if ts == 0 {
		return time.Time{}
	}
	return time.Unix(1600000000+ts, 0).UTC()
}

// the signature bytes that realise an abstract signature: key `By` signs the production
// sign bytes (types.VoteSignBytes) of the stated canonical vote
func (w *c07World) sig(s c07Sig) ([]byte, error) {
	switch s.By {
	case "empty":
		return []byte{}, nil
	case "garbage":
		g := make([]byte, ed25519.SignatureSize)
		for i := range g {
			g[i] = byte(17*i + 3)
		}
		return g, nil
	}
	w.mu.Lock()
	defer w.mu.Unlock()
	if b, ok := w.sigs[s]; ok {
		return b, nil
	}
	k, ok := w.keys[s.By]
	if !ok {
		return nil, fmt.Errorf("unknown signer %q", s.By)
	}
	bid, err := w.bid(s.Bid)
	if err != nil {
		return nil, err
	}
	var ty tmproto.SignedMsgType
	switch s.Type {
	case "precommit":
		ty = tmproto.PrecommitType
	case "prevote":
		ty = tmproto.PrevoteType
	default:
		return nil, fmt.Errorf("unknown vote type %q", s.Type)
	}
	v := &tmproto.Vote{Type: ty, Height: s.H, Round: s.R, BlockID: bid.ToProto(), Timestamp: c07Time(s.Ts)}
	b, err := k.Sign(VoteSignBytes(s.Chain, v))
	if err != nil {
		return nil, err
	}
	w.sigs[s] = b
	w.nsign++
	return b, nil
}

func (w *c07World) addr(name string) (Address, error) {
	if name == "none" {
		return nil, nil
	}
	k, ok := w.keys[name]
	if !ok {
		return nil, fmt.Errorf("unknown address %q", name)
	}
	return k.PubKey().Address(), nil
}

func (w *c07World) commit(c c07Commit) (*Commit, error) {
	bid, err := w.bid(c.Bid)
	if err != nil {
		return nil, err
	}
	sigs := make([]CommitSig, len(c.Sigs))
	for i, s := range c.Sigs {
		var fl BlockIDFlag
		switch s.Flag {
		case "absent":
			fl = BlockIDFlagAbsent
		case "commit":
			fl = BlockIDFlagCommit
		case "nil":
			fl = BlockIDFlagNil
		case "unknown":
			fl = BlockIDFlag(4)
		default:
			return nil, fmt.Errorf("unknown flag %q", s.Flag)
		}
		a, err := w.addr(s.Addr)
		if err != nil {
			return nil, err
		}
		sb, err := w.sig(s.Sig)
		if err != nil {
			return nil, err
		}
		sigs[i] = CommitSig{BlockIDFlag: fl, ValidatorAddress: a, Timestamp: c07Time(s.Ts), Signature: sb}
	}
	return NewCommit(c.Height, c.Round, bid, sigs), nil
}

// the real validator set for a power vector; checks that the production ordering put
// v<i> at position i (anything else is a harness problem, not an observation)
func (w *c07World) valset(pv []int64, handBuilt bool) (vs *ValidatorSet, err error) {
	defer func() {
		if r := recover(); r != nil {
			vs, err = nil, fmt.Errorf("NewValidatorSet panicked: %v", r)
		}
	}()
	if len(pv) > c07NKeys {
		return nil, fmt.Errorf("too many validators: %d", len(pv))
	}
	vals := make([]*Validator, len(pv))
	for i, p := range pv {
		vals[i] = NewValidator(w.keys["v"+strconv.Itoa(i+1)].PubKey(), p)
	}
	if handBuilt {
		// already in the production order (power descending, address ascending)
		return &ValidatorSet{Validators: vals}, nil
	}
	// present them in another order than the final one: the set must sort them itself
	for i, j := 0, len(vals)-1; i < j; i, j = i+1, j-1 {
		vals[i], vals[j] = vals[j], vals[i]
	}
	vs = NewValidatorSet(vals)
	if vs.Size() != len(pv) {
		return nil, fmt.Errorf("validator set has %d members, want %d", vs.Size(), len(pv))
	}
	for i := range pv {
		want := w.keys["v"+strconv.Itoa(i+1)].PubKey().Address()
		if !bytes.Equal(vs.Validators[i].Address, want) || vs.Validators[i].VotingPower != pv[i] {
			return nil, fmt.Errorf("validator set order: position %d is not v%d with power %d (powers %v)", i, i+1, pv[i], pv)
		}
	}
	return vs, nil
}

// ---------------------------------------------------------------- the wire
// the concrete number behind a total tag, for a concrete power vector
func c07ForgedTotal(tag string, pv []int64) (int64, error) {
	sum := int64(0)
	for _, p := range pv {
		sum += p
	}
	switch tag {
	case "zero", "":
		return 0, nil
	case "one":
		return 1, nil
	case "small":
		if len(pv) == 0 {
			return 0, nil
		}
		return pv[0], nil
	case "half":
		return sum / 2, nil
	case "sum":
		return sum, nil
	case "sum_plus_1":
		return sum + 1, nil
	case "max":
		return MaxTotalVotingPower, nil
	case "over":
		return MaxTotalVotingPower + 1, nil
	}
	return 0, fmt.Errorf("unknown total tag %q", tag)
}

// Sends the validator set (and, for path "lightblock", the commit with it) through the proto
// form: ToProto, the adversary's rewriting of the unauthenticated fields, Marshal, Unmarshal,
// ValidatorSetFromProto / LightBlockFromProto.  Returns what the decoder handed back.
func (w *c07World) throughWire(vs *ValidatorSet, commit *Commit, wire c07Wire, forged int64, chain string) (dvs *ValidatorSet, dcommit *Commit, dec c07Dec, herr error) {
	defer func() {
		if r := recover(); r != nil {
			msg := fmt.Sprint(r)
			dvs, dcommit = nil, nil
			if c07ReTotal.MatchString(msg) {
				dec = c07Dec{Ok: false, Err: "panic_total"}
			} else {
				if len(msg) > 60 {
					msg = msg[:60]
				}
				dec = c07Dec{Ok: false, Err: "panic_other:" + msg}
			}
		}
	}()
	vp, err := vs.ToProto()
	if err != nil {
		return nil, nil, dec, err
	}
	vp.TotalVotingPower = forged
	switch wire.Proposer {
	case "same", "":
	case "other":
		cp := *vp.Validators[len(vp.Validators)-1]
		vp.Proposer = &cp
	case "outsider":
		o, err := NewValidator(w.keys["vx"].PubKey(), 1).ToProto()
		if err != nil {
			return nil, nil, dec, err
		}
		vp.Proposer = o
	case "nil":
		vp.Proposer = nil
	default:
		return nil, nil, dec, fmt.Errorf("unknown proposer tag %q", wire.Proposer)
	}
	if wire.Prio == "scrambled" {
		for i, v := range vp.Validators {
			v.ProposerPriority = int64(1000003*(i+1)) - 7
		}
		if vp.Proposer != nil {
			vp.Proposer.ProposerPriority = -424242
		}
	}
	var derr error
	dcommit = commit
	switch wire.Path {
	case "valset":
		bz, err := vp.Marshal()
		if err != nil {
			return nil, nil, dec, err
		}
		var vp2 tmproto.ValidatorSet
		if err := vp2.Unmarshal(bz); err != nil {
			return nil, nil, dec, err
		}
		dvs, derr = ValidatorSetFromProto(&vp2)
	case "lightblock":
		hh := func(s string) []byte { x := sha256.Sum256([]byte(s)); return x[:] }
		hdr := &Header{
			Version: tmversion.Consensus{Block: version.BlockProtocol}, ChainID: chain, Height: commit.Height,
			Time: c07Time(5), LastCommitHash: hh("lc"), DataHash: hh("d"), ValidatorsHash: vs.Hash(),
			NextValidatorsHash: vs.Hash(), ConsensusHash: hh("c"), AppHash: hh("a"), LastResultsHash: hh("r"),
			EvidenceHash: hh("e"), ProposerAddress: vs.Validators[0].Address,
		}
		sh := &SignedHeader{Header: hdr, Commit: commit}
		lbp := &tmproto.LightBlock{SignedHeader: sh.ToProto(), ValidatorSet: vp}
		bz, err := lbp.Marshal()
		if err != nil {
			return nil, nil, dec, err
		}
		var lbp2 tmproto.LightBlock
		if err := lbp2.Unmarshal(bz); err != nil {
			return nil, nil, dec, err
		}
		var lb *LightBlock
		lb, derr = LightBlockFromProto(&lbp2)
		if derr == nil {
			dvs, dcommit = lb.ValidatorSet, lb.Commit
		}
	default:
		return nil, nil, dec, fmt.Errorf("unknown wire path %q", wire.Path)
	}
	if derr != nil {
		msg := derr.Error()
		switch {
		case regexp.MustCompile(`validatorSet proposer error`).MatchString(msg):
			return nil, nil, c07Dec{Ok: false, Err: "proposer"}, nil
		case regexp.MustCompile(`validator set is nil or empty`).MatchString(msg):
			return nil, nil, c07Dec{Ok: false, Err: "empty"}, nil
		}
		if len(msg) > 60 {
			msg = msg[:60]
		}
		return nil, nil, c07Dec{Ok: false, Err: "other:" + msg}, nil
	}
	return dvs, dcommit, c07Dec{Ok: true, Err: "none", HashSame: bytes.Equal(dvs.Hash(), vs.Hash())}, nil
}

// ---------------------------------------------------------------- observing one call

var (
	c07ReWrongSig = regexp.MustCompile(`^wrong signature \(#(\d+)\)`)
	c07ReDouble   = regexp.MustCompile(`^double vote from .* \((\d+) and (\d+)\)$`)
	c07ReFlag     = regexp.MustCompile(`^Unknown BlockIDFlag`)
	c07ReTotal    = regexp.MustCompile(`^Total voting power should be guarded`)
	c07ReBlockID  = regexp.MustCompile(`^invalid commit -- wrong block ID`)
	c07ReOverflow = regexp.MustCompile(`^int64 overflow while calculating voting power needed`)
)

func c07Observe(call func() error) (res c07Res) {
	res = c07Res{Idx: -1, Got: []int64{}, Needed: []int64{}}
	defer func() {
		if r := recover(); r != nil {
			res.Ok = false
			msg := fmt.Sprint(r)
			switch {
			case c07ReFlag.MatchString(msg):
				res.Err = "panic_flag"
			case c07ReTotal.MatchString(msg):
				res.Err = "panic_total"
			default:
				if len(msg) > 60 {
					msg = msg[:60]
				}
				res.Err = "panic_other:" + msg
			}
		}
	}()
	err := call()
	if err == nil {
		res.Ok, res.Err = true, "none"
		return res
	}
	var eh ErrInvalidCommitHeight
	var es ErrInvalidCommitSignatures
	var en ErrNotEnoughVotingPowerSigned
	msg := err.Error()
	switch {
	case errors.As(err, &es):
		res.Err = "size"
	case errors.As(err, &eh):
		res.Err = "height"
	case errors.As(err, &en):
		res.Err = "notenough"
		if en.Got >= 0 && en.Needed >= 0 {
			res.Got, res.Needed = c07Limbs(en.Got), c07Limbs(en.Needed)
		} else {
			res.Err = "notenough_negative"
		}
	case c07ReBlockID.MatchString(msg):
		res.Err = "blockid"
	case c07ReWrongSig.MatchString(msg):
		res.Err = "wrongsig"
		res.Idx, _ = strconv.Atoi(c07ReWrongSig.FindStringSubmatch(msg)[1])
	case c07ReDouble.MatchString(msg):
		res.Err = "doublevote"
		res.Idx, _ = strconv.Atoi(c07ReDouble.FindStringSubmatch(msg)[2])
	case msg == "trustLevel has zero Denominator":
		res.Err = "zeroden"
	case c07ReOverflow.MatchString(msg):
		res.Err = "overflow"
	default:
		if len(msg) > 60 {
			msg = msg[:60]
		}
		res.Err = "other:" + msg
	}
	return res
}

var c07DefaultFracs = [][2]uint64{{1, 3}, {1, 2}, {2, 3}, {1, 1}, {0, 1}, {3, 4}, {4, 3}, {1, 0},
	// numerators around the safeMul boundary at totals next to MaxTotalVotingPower, and a
	// scaled 1/3
	{8, 9}, {9, 9}, {3333, 9999}}

// trust levels tried at the second and later scalings of a case
var c07ScaledFracs = [][2]uint64{{1, 3}, {2, 3}, {8, 9}, {9, 9}, {3333, 9999}}

// scale name -> multiplier for a base vector with the given total
func c07Multiplier(scale string, total int64) (int64, error) {
	if total == 0 {
		return 1, nil
	}
	switch scale {
	case "1":
		return 1, nil
	case "7":
		return 7, nil
	case "3x2^20":
		return 3 << 20, nil
	case "3x2^38":
		return 3 << 38, nil
	case "2^52":
		return 1 << 52, nil
	case "max":
		return MaxTotalVotingPower / total, nil
	}
	return 0, fmt.Errorf("unknown scale %q", scale)
}

// execute one case: for every run (power vector) call the three functions
func (w *c07World) execute(cs *c07Case, scales []string) (*c07Line, error) {
	n := len(cs.Pv)
	type runSpec struct {
		label string
		pv    []int64
	}
	var runs []runSpec
	if len(cs.Powers) > 0 {
		for k, dec := range cs.Powers {
			pv := make([]int64, len(dec))
			for i, d := range dec {
				x, ok := new(big.Int).SetString(d, 10)
				if !ok || !x.IsInt64() {
					return nil, fmt.Errorf("bad power %q", d)
				}
				pv[i] = x.Int64()
			}
			lab := "explicit"
			if k < len(cs.Labels) {
				lab = cs.Labels[k]
			}
			runs = append(runs, runSpec{lab, pv})
		}
		n = len(cs.Powers[0])
	} else {
		total := int64(0)
		for _, p := range cs.Pv {
			total += p
		}
		seen := map[int64]bool{}
		for _, sc := range scales {
			m, err := c07Multiplier(sc, total)
			if err != nil {
				return nil, err
			}
			if seen[m] {
				continue
			}
			seen[m] = true
			pv := make([]int64, n)
			for i, p := range cs.Pv {
				pv[i] = p * m
			}
			runs = append(runs, runSpec{sc, pv})
		}
	}
	fracs, laterFracs := cs.Fracs, cs.Fracs
	if len(fracs) == 0 {
		fracs, laterFracs = c07DefaultFracs, c07ScaledFracs
	}
	commit, err := w.commit(cs.C)
	if err != nil {
		return nil, err
	}
	argBid, err := w.bid(cs.Bid)
	if err != nil {
		return nil, err
	}
	src := cs.Src
	if src == "" {
		src = "case"
	}
	kinds := cs.Kinds
	if kinds == nil {
		kinds = []string{}
	}
	wire := cs.Wire
	if wire.Path == "" {
		wire = c07Wire{Path: "none", Total: "zero", Proposer: "same", Prio: "same"}
	}
	if wire.Path == "lightblock" && commit.ValidateBasic() != nil {
		wire.Path = "valset" // a commit that no decoder lets through cannot travel inside a light block
	}
	line := &c07Line{Ev: "Check", Src: src, Wire: wire, Hand: cs.HandBuilt, Frame: cs.Frame, Kinds: kinds, Ids: make([]string, n), Chain: cs.Chain,
		H: cs.H, Bid: cs.Bid, C: cs.C, Runs: []c07Run{}}
	for i := range line.Ids {
		line.Ids[i] = "v" + strconv.Itoa(i+1)
	}
	for ri, r := range runs {
		if ri > 0 {
			fracs = laterFracs
		}
		vs, err := w.valset(r.pv, cs.HandBuilt)
		if err != nil {
			return nil, err
		}
		run := c07Run{Scale: r.label, Pv: make([][]int64, n), Trust: []c07Trust{}, EncTotal: []int64{},
			Dec: c07Dec{Ok: true, Err: "none", HashSame: true}}
		for i, p := range r.pv {
			run.Pv[i] = c07Limbs(p)
		}
		uvs, ucommit := vs, commit // the objects the functions are called on
		if wire.Path != "none" {
			forged, err := c07ForgedTotal(wire.Total, r.pv)
			if err != nil {
				return nil, err
			}
			run.EncTotal = c07Limbs(forged)
			uvs, ucommit, run.Dec, err = w.throughWire(vs, commit, wire, forged, cs.Chain)
			if err != nil {
				return nil, err
			}
		}
		if !run.Dec.Ok {
			nd := c07Res{Ok: false, Err: "nodecode", Idx: -1, Got: []int64{}, Needed: []int64{}}
			run.Full, run.Light = nd, nd
			for _, f := range fracs {
				run.Trust = append(run.Trust, c07Trust{Num: c07LimbsU(f[0]), Den: c07LimbsU(f[1]), Res: nd})
			}
			line.Runs = append(line.Runs, run)
			continue
		}
		run.Full = c07Observe(func() error { return uvs.VerifyCommit(cs.Chain, argBid, cs.H, ucommit) })
		run.Light = c07Observe(func() error { return uvs.VerifyCommitLight(cs.Chain, argBid, cs.H, ucommit) })
		for _, f := range fracs {
			lvl := tmmath.Fraction{Numerator: f[0], Denominator: f[1]}
			res := c07Observe(func() error { return uvs.VerifyCommitLightTrusting(cs.Chain, ucommit, lvl) })
			run.Trust = append(run.Trust, c07Trust{Num: c07LimbsU(f[0]), Den: c07LimbsU(f[1]), Res: res})
		}
		line.Runs = append(line.Runs, run)
	}
	return line, nil
}

// ---------------------------------------------------------------- seeded random driver
// Validator sets of 1..8 members with powers of every magnitude up to MaxTotalVotingPower,
// the signed power tuned to sit exactly at / just above / just below a threshold, commits
// aligned with the set, made for another ordering, or foreign (own length, repeated signers at
// any index of the set -- the trusting variant's domain), slots of every kind.

func c07RandPower(rng *rand.Rand) int64 {
	switch rng.Intn(6) {
	case 0:
		return 1 + rng.Int63n(5)
	case 1:
		return 1 + rng.Int63n(1000)
	case 2:
		return 1 + rng.Int63n(1<<31)
	case 3:
		return 1 + rng.Int63n(1<<50)
	default:
		return 1 + rng.Int63n(MaxTotalVotingPower/8)
	}
}

func c07HonestSig(by string, chain string, h int64, r int32, bid string, ts int64) c07Sig {
	return c07Sig{By: by, Chain: chain, Type: "precommit", H: h, R: r, Bid: bid, Ts: ts}
}

var c07Blank = c07Sig{By: "empty", Chain: "-", Type: "-", Bid: "-"}
var c07Junk = c07Sig{By: "garbage", Chain: "-", Type: "-", Bid: "-"}

func c07RandSlot(rng *rand.Rand, kind string, own, oth string, chain string, h int64, r int32, bid string, ts int64) c07Slot {
	ok := c07HonestSig(own, chain, h, r, bid, ts)
	switch kind {
	case "absent":
		return c07Slot{Flag: "absent", Addr: "none", Ts: 0, Sig: c07Blank}
	case "ok":
		return c07Slot{Flag: "commit", Addr: own, Ts: ts, Sig: ok}
	case "nil_ok":
		return c07Slot{Flag: "nil", Addr: own, Ts: ts, Sig: c07HonestSig(own, chain, h, r, "Z", ts)}
	case "nil_bad":
		return c07Slot{Flag: "nil", Addr: own, Ts: ts, Sig: c07Junk}
	case "garbage":
		return c07Slot{Flag: "commit", Addr: own, Ts: ts, Sig: c07Junk}
	case "nil_as_commit":
		return c07Slot{Flag: "commit", Addr: own, Ts: ts, Sig: c07HonestSig(own, chain, h, r, "Z", ts)}
	case "commit_as_nil":
		return c07Slot{Flag: "nil", Addr: own, Ts: ts, Sig: ok}
	case "oth_block":
		return c07Slot{Flag: "commit", Addr: own, Ts: ts, Sig: c07HonestSig(own, chain, h, r, "B", ts)}
	case "oth_psh":
		return c07Slot{Flag: "commit", Addr: own, Ts: ts, Sig: c07HonestSig(own, chain, h, r, "Ap", ts)}
	case "oth_height":
		return c07Slot{Flag: "commit", Addr: own, Ts: ts, Sig: c07HonestSig(own, chain, h+1, r, bid, ts)}
	case "oth_round":
		return c07Slot{Flag: "commit", Addr: own, Ts: ts, Sig: c07HonestSig(own, chain, h, r+1, bid, ts)}
	case "oth_chain":
		return c07Slot{Flag: "commit", Addr: own, Ts: ts, Sig: c07HonestSig(own, "chain2", h, r, bid, ts)}
	case "oth_type":
		s := ok
		s.Type = "prevote"
		return c07Slot{Flag: "commit", Addr: own, Ts: ts, Sig: s}
	case "oth_ts":
		return c07Slot{Flag: "commit", Addr: own, Ts: ts, Sig: c07HonestSig(own, chain, h, r, bid, ts+50)}
	case "wrong_signer":
		return c07Slot{Flag: "commit", Addr: own, Ts: ts, Sig: c07HonestSig(oth, chain, h, r, bid, ts)}
	case "addr_oth":
		return c07Slot{Flag: "commit", Addr: oth, Ts: ts, Sig: ok}
	case "dup":
		return c07Slot{Flag: "commit", Addr: oth, Ts: ts, Sig: c07HonestSig(oth, chain, h, r, bid, ts)}
	case "unknown":
		return c07Slot{Flag: "commit", Addr: "vx", Ts: ts, Sig: c07HonestSig("vx", chain, h, r, bid, ts)}
	case "absent_sig":
		return c07Slot{Flag: "absent", Addr: own, Ts: ts, Sig: ok}
	}
	panic("c07RandSlot: kind " + kind)
}

var c07RareKinds = []string{"nil_bad", "garbage", "nil_as_commit", "commit_as_nil", "oth_block", "oth_psh", "oth_height",
	"oth_round", "oth_chain", "oth_type", "oth_ts", "wrong_signer", "addr_oth", "dup", "unknown", "absent_sig"}

func c07RandomCase(rng *rand.Rand) *c07Case {
	n := 1 + rng.Intn(c07NKeys)
	chain, h, r, bid := "chain", int64(1+rng.Intn(1000000)), int32(rng.Intn(3)), "A"
	// 1. who signs for the block / nil / not at all
	kinds := make([]string, n)
	for i := range kinds {
		switch x := rng.Intn(20); {
		case x < 11:
			kinds[i] = "ok"
		case x < 14:
			kinds[i] = "absent"
		case x < 17:
			kinds[i] = "nil_ok"
		default:
			kinds[i] = c07RareKinds[rng.Intn(len(c07RareKinds))]
		}
	}
	// 2. powers
	pw := make([]int64, n)
	mode := rng.Intn(4)
	for i := range pw {
		switch mode {
		case 0:
			pw[i] = 1 + rng.Int63n(4)
		case 1:
			pw[i] = c07RandPower(rng)
		default:
			pw[i] = 1 + rng.Int63n(MaxTotalVotingPower/int64(n))
		}
	}
	// 3. tune one signer's power so that the for-block power sits at num/den of the total + d
	fr := [][2]int64{{2, 3}, {2, 3}, {1, 3}, {1, 2}, {3, 4}}[rng.Intn(5)]
	d := []int64{0, 0, 1, 2, 3, -1, -2}[rng.Intn(7)]
	tun := -1
	for i, k := range kinds {
		if k == "ok" {
			tun = i
			break
		}
	}
	if tun >= 0 && rng.Intn(5) != 0 {
		a, b := new(big.Int), new(big.Int)
		for i, k := range kinds {
			if i == tun {
				continue
			}
			if k == "ok" {
				a.Add(a, big.NewInt(pw[i]))
			} else {
				b.Add(b, big.NewInt(pw[i]))
			}
		}
		// den*(a+x) = num*(a+b+x) + d   =>   x = (num*(a+b) - den*a + d) / (den - num)
		num, den := big.NewInt(fr[0]), big.NewInt(fr[1])
		x := new(big.Int).Add(a, b)
		x.Mul(x, num)
		x.Sub(x, new(big.Int).Mul(den, a))
		x.Add(x, big.NewInt(d))
		q, m := new(big.Int).QuoRem(x, new(big.Int).Sub(den, num), new(big.Int))
		tot := new(big.Int).Add(a, b)
		tot.Add(tot, q)
		if m.Sign() == 0 && q.Sign() > 0 && tot.Cmp(big.NewInt(MaxTotalVotingPower)) <= 0 {
			pw[tun] = q.Int64()
		}
	}
	// keep the total legal
	tot := new(big.Int)
	for _, p := range pw {
		tot.Add(tot, big.NewInt(p))
	}
	for tot.Cmp(big.NewInt(MaxTotalVotingPower)) > 0 {
		i := rng.Intn(n)
		tot.Sub(tot, big.NewInt(pw[i]-pw[i]/2))
		pw[i] = pw[i] / 2
		if pw[i] == 0 {
			pw[i] = 1
			tot.Add(tot, big.NewInt(1))
		}
	}
	// the edge of the legal range: total exactly MaxTotalVotingPower, or (hand-built set) just
	// above it, where updateTotalVotingPower panics
	handBuilt := false
	switch rng.Intn(25) {
	case 0, 1:
		pw[rng.Intn(n)] += MaxTotalVotingPower - tot.Int64()
	case 2:
		pw[rng.Intn(n)] += MaxTotalVotingPower - tot.Int64() + 1 + rng.Int63n(3)
		handBuilt = true
	}
	// 4. the set orders by power: sort (power, kind) pairs, position i is then v<i+1>
	idx := make([]int, n)
	for i := range idx {
		idx[i] = i
	}
	sort.SliceStable(idx, func(x, y int) bool { return pw[idx[x]] > pw[idx[y]] })
	spw, skinds := make([]int64, n), make([]string, n)
	for i, j := range idx {
		spw[i], skinds[i] = pw[j], kinds[j]
	}
	id := func(i int) string { return "v" + strconv.Itoa(i%n+1) }
	// 5. the commit: aligned with the set, or made for another ordering / membership
	style := rng.Intn(13)
	var slots []c07Slot
	var outKinds []string
	switch {
	case style >= 10:
		// foreign commit (the trusting variant's case): its own length m, unrelated to the set's size -- shorter
		// or longer -- and one member j of the set, preferably one whose index is >= m, signing several slots
		m := 1 + rng.Intn(n+2)
		j := rng.Intn(n)
		if m < n && rng.Intn(3) != 0 {
			j = m + rng.Intn(n-m)
		}
		literal := rng.Intn(2) == 0 // literal copies of one signature, or several signatures (timestamps) of j
		for k := 0; k < m; k++ {
			ts := int64(10 + k)
			switch x := rng.Intn(10); {
			case x < 6:
				if literal {
					ts = int64(10 + j)
				}
				slots = append(slots, c07RandSlot(rng, "ok", id(j), id(j), chain, h, r, bid, ts))
				outKinds = append(outKinds, "ok")
			case x < 8:
				o := rng.Intn(n)
				slots = append(slots, c07RandSlot(rng, "ok", id(o), id(o), chain, h, r, bid, ts))
				outKinds = append(outKinds, "ok")
			case x < 9:
				slots = append(slots, c07RandSlot(rng, "unknown", id(j), id(j), chain, h, r, bid, ts))
				outKinds = append(outKinds, "unknown")
			default:
				slots = append(slots, c07RandSlot(rng, "absent", id(j), id(j), chain, h, r, bid, ts))
				outKinds = append(outKinds, "absent")
			}
		}
	case style < 6: // aligned
		for i := 0; i < n; i++ {
			slots = append(slots, c07RandSlot(rng, skinds[i], id(i), id(i+1), chain, h, r, bid, int64(10+i)))
			outKinds = append(outKinds, skinds[i])
		}
	case style < 8: // rotated / permuted: a commit of a set with the same members in another order
		perm := rng.Perm(n)
		for k, i := range perm {
			slots = append(slots, c07RandSlot(rng, skinds[i], id(i), id(i+1), chain, h, r, bid, int64(10+k)))
			outKinds = append(outKinds, skinds[i])
		}
	default: // other membership: some members dropped, unknown signers and repeats inserted
		for i := 0; i < n; i++ {
			switch rng.Intn(6) {
			case 0:
				continue
			case 1:
				slots = append(slots, c07RandSlot(rng, "unknown", id(i), id(i+1), chain, h, r, bid, int64(40+i)))
				outKinds = append(outKinds, "unknown")
			case 2:
				slots = append(slots, c07RandSlot(rng, "dup", id(i), id(i+1), chain, h, r, bid, int64(60+i)))
				outKinds = append(outKinds, "dup")
			}
			slots = append(slots, c07RandSlot(rng, skinds[i], id(i), id(i+1), chain, h, r, bid, int64(10+i)))
			outKinds = append(outKinds, skinds[i])
		}
	}
	if slots == nil {
		slots, outKinds = []c07Slot{}, []string{}
	}
	cs := &c07Case{Frame: "random", Kinds: outKinds, Chain: chain, H: h, Bid: bid, Src: "random", HandBuilt: handBuilt,
		C: c07Commit{Height: h, Round: r, Bid: bid, Sigs: slots}}
	// occasionally disagree with the commit on an argument
	switch rng.Intn(25) {
	case 0:
		cs.H = h + 1
	case 1:
		cs.Bid = "B"
	case 2:
		cs.Bid = "Ap"
	case 3:
		cs.Chain = "chain2"
	}
	dec := make([]string, n)
	for i, p := range spw {
		dec[i] = strconv.FormatInt(p, 10)
	}
	cs.Powers, cs.Labels = [][]string{dec}, []string{"random"}
	// every sixth set goes through the wire, with the unauthenticated fields rewritten
	if !handBuilt && rng.Intn(6) == 0 {
		cs.Wire = c07Wire{
			Path:     []string{"valset", "lightblock"}[rng.Intn(2)],
			Total:    []string{"zero", "one", "one", "small", "half", "half", "sum", "sum_plus_1", "max", "over"}[rng.Intn(10)],
			Proposer: []string{"same", "same", "same", "other", "outsider", "nil"}[rng.Intn(6)],
			Prio:     []string{"same", "scrambled"}[rng.Intn(2)],
		}
	}
	// trust levels: the usual ones plus a few random small ones (num, den < 10^4)
	fr2 := [][2]uint64{{1, 3}, {2, 3}, {1, 2}, {uint64(fr[0]), uint64(fr[1])}}
	for k := 0; k < 3; k++ {
		den := uint64(1 + rng.Intn(9999))
		fr2 = append(fr2, [2]uint64{uint64(rng.Intn(int(den) + 1)), den})
	}
	fr2 = append(fr2, [2]uint64{uint64(1 + rng.Intn(12)), uint64(1 + rng.Intn(12))})
	cs.Fracs = fr2
	return cs
}

// ---------------------------------------------------------------- the test

func TestVerifC07(t *testing.T) {
	inPath, outDir := os.Getenv("VERIF_IN"), os.Getenv("VERIF_OUT")
	if inPath == "" || outDir == "" {
		t.Skip("VERIF_IN / VERIF_OUT not set")
	}
	seed, _ := strconv.ParseInt(os.Getenv("VERIF_SEED"), 10, 64)
	raw, err := os.ReadFile(inPath)
	if err != nil {
		t.Fatal(err)
	}
	var in c07Input
	if err := json.Unmarshal(raw, &in); err != nil {
		t.Fatal(err)
	}
	if in.Workers <= 0 {
		in.Workers = 4
	}
	w := c07NewWorld()

	// ---- jobs: the TLC cases (in file order), then the random cases
	var jobs []*c07Case
	var jobScales [][]string
	if in.CasesFile != "" {
		f, err := os.Open(in.CasesFile)
		if err != nil {
			t.Fatal(err)
		}
		sc := bufio.NewScanner(f)
		sc.Buffer(make([]byte, 1<<20), 1<<24)
		k := 0
		for sc.Scan() {
			if len(bytes.TrimSpace(sc.Bytes())) == 0 {
				continue
			}
			cs := &c07Case{}
			if err := json.Unmarshal(sc.Bytes(), cs); err != nil {
				t.Fatalf("case %d: %v", k, err)
			}
			scales := append([]string{}, in.Scales...)
			if len(in.RotScales) > 0 {
				scales = append(scales, in.RotScales[(k+int(seed))%len(in.RotScales)])
			}
			jobs = append(jobs, cs)
			jobScales = append(jobScales, scales)
			k++
		}
		if err := sc.Err(); err != nil {
			t.Fatal(err)
		}
		f.Close()
	}
	ncases := len(jobs)
	rng := rand.New(rand.NewSource(seed*7919 + 13))
	for k := 0; k < in.Random; k++ {
		jobs = append(jobs, c07RandomCase(rng))
		jobScales = append(jobScales, nil)
	}

	out, err := os.Create(outDir + "/c07.ndjson")
	if err != nil {
		t.Fatal(err)
	}
	bw := bufio.NewWriterSize(out, 1<<20)
	const batch = 2048
	nruns := 0
	for lo := 0; lo < len(jobs); lo += batch {
		hi := lo + batch
		if hi > len(jobs) {
			hi = len(jobs)
		}
		res := make([][]byte, hi-lo)
		errs := make([]error, hi-lo)
		var wg sync.WaitGroup
		next := make(chan int, hi-lo)
		for i := lo; i < hi; i++ {
			next <- i
		}
		close(next)
		for g := 0; g < in.Workers; g++ {
			wg.Add(1)
			go func() {
				defer wg.Done()
				for i := range next {
					line, err := w.execute(jobs[i], jobScales[i])
					if err != nil {
						errs[i-lo] = err
						continue
					}
					res[i-lo], errs[i-lo] = json.Marshal(line)
				}
			}()
		}
		wg.Wait()
		for i := range res {
			if errs[i] != nil {
				t.Fatalf("job %d: %v", lo+i, errs[i])
			}
			bw.Write(res[i])
			bw.WriteByte('\n')
			nruns++
		}
	}
	if err := bw.Flush(); err != nil {
		t.Fatal(err)
	}
	out.Close()
	t.Logf("C07 harness: %d TLC cases + %d random cases executed, %d distinct signatures made", ncases, in.Random, w.nsign)
}
