//go:build verif

package types

// C08 harness, part 1 (see /verif/DESIGN.md section 5, C08): the real types.ValidatorSet
// under update batches and proposer rotation.
//
// It replays TLC-enumerated update cases (every permutation of every batch), TLC-generated
// histories of API calls and rotation cases on REAL ValidatorSet objects, runs its own
// seeded random histories (VERIF_SEED) including extreme voting powers, projects the real
// object after every call (addresses as ranks in a key pool sorted by address, powers,
// priorities, the raw Proposer field and whether it aliases a member) and writes NDJSON
// that TLC validates (spec/trace/TMValSetTrace.tla).  The harness gives no verdicts.

import (
	"bytes"
	"encoding/json"
	"fmt"
	"math"
	"math/rand"
	"os"
	"sort"
	"strconv"
	"strings"
	"testing"

	"github.com/tendermint/tendermint/crypto"
	"github.com/tendermint/tendermint/crypto/ed25519"
)

type c08Change struct {
	A int   `json:"a"`
	P int64 `json:"p"`
}

type c08Val struct {
	A  int   `json:"a"`
	P  int64 `json:"p"`
	Pr int64 `json:"pr"`
}

type c08Set struct {
	Vals  []c08Val `json:"vals"`
	Prop  c08Val   `json:"prop"`
	Alias bool     `json:"alias"`
}

type c08Case struct {
	Init  []c08Change `json:"init"`
	Warm  int         `json:"warm"`
	First []c08Change `json:"first"`
	Batch []c08Change `json:"batch"`
}

type c08Op struct {
	Op    string      `json:"op"`
	Batch []c08Change `json:"batch"`
	Times  int         `json:"times"`
	TimesB int         `json:"timesb"`
}

type c08Hist struct {
	Init []c08Change `json:"init"`
	Ops  []c08Op     `json:"ops"`
}

type c08Input struct {
	Cases   []c08Case `json:"cases"`
	Rotate  []c08Case `json:"rotate"`
	Hists   []c08Hist `json:"hists"`
	Random  int       `json:"random"`
	Extreme int       `json:"extreme"`
}

// ---------------------------------------------------------------- key pool
// ids are ranks in a pool of keys sorted by address: id order = address byte order
type c08Pool struct {
	keys []crypto.PubKey // index id-1
	ids  map[string]int
}

func newC08Pool(seed int64, n int) *c08Pool {
	ks := make([]crypto.PubKey, n)
	for i := range ks {
		ks[i] = ed25519.GenPrivKeyFromSecret([]byte(fmt.Sprintf("verif-c08-%d-%d", seed, i))).PubKey()
	}
	sort.Slice(ks, func(i, j int) bool { return bytes.Compare(ks[i].Address(), ks[j].Address()) < 0 })
	p := &c08Pool{keys: ks, ids: map[string]int{}}
	for i, k := range ks {
		p.ids[string(k.Address())] = i + 1
	}
	return p
}

func (p *c08Pool) val(c c08Change) *Validator {
	k := p.keys[c.A-1]
	return &Validator{Address: k.Address(), PubKey: k, VotingPower: c.P, ProposerPriority: 0}
}

func (p *c08Pool) vals(cs []c08Change) []*Validator {
	out := make([]*Validator, len(cs))
	for i, c := range cs {
		out[i] = p.val(c)
	}
	return out
}

func (p *c08Pool) projVal(v *Validator) c08Val {
	if v == nil {
		return c08Val{}
	}
	id, ok := p.ids[string(v.Address)]
	if !ok {
		id = 99
	}
	return c08Val{A: id, P: v.VotingPower, Pr: v.ProposerPriority}
}

func (p *c08Pool) project(vs *ValidatorSet) c08Set {
	out := c08Set{Vals: []c08Val{}}
	if vs == nil {
		return out
	}
	for _, v := range vs.Validators {
		out.Vals = append(out.Vals, p.projVal(v))
		if v == vs.Proposer {
			out.Alias = true
		}
	}
	out.Prop = p.projVal(vs.Proposer)
	return out
}

// ---------------------------------------------------------------- calls with panic capture
func c08ErrClass(err error) string {
	if err == nil {
		return "none"
	}
	s := err.Error()
	switch {
	case err == ErrTotalVotingPowerOverflow || strings.Contains(s, "total voting power of resulting valset exceeds"):
		return "overflow"
	case strings.Contains(s, "duplicate entry"):
		return "duplicate"
	case strings.Contains(s, "voting power can't be negative"):
		return "negative"
	case strings.Contains(s, "to prevent clipping/overflow"):
		return "toobig"
	case strings.Contains(s, "cannot process validators with voting power 0"):
		return "nodeletes"
	case strings.Contains(s, "would result in empty set"):
		return "empty"
	case strings.Contains(s, "failed to find validator"):
		return "notfound"
	}
	return "other:" + s
}

func c08Update(vs *ValidatorSet, changes []*Validator) (cls string) {
	defer func() {
		if r := recover(); r != nil {
			cls = "panic"
		}
	}()
	return c08ErrClass(vs.UpdateWithChangeSet(changes))
}

func c08Inc(vs *ValidatorSet, times int32) (cls string) {
	defer func() {
		if r := recover(); r != nil {
			cls = "panic"
		}
	}()
	vs.IncrementProposerPriority(times)
	return "none"
}

func c08New(valz []*Validator) (vs *ValidatorSet, cls string) {
	defer func() {
		if r := recover(); r != nil {
			vs, cls = nil, "panic"
		}
	}()
	return NewValidatorSet(valz), "none"
}

// ---------------------------------------------------------------- output
type c08Writer struct {
	f   *os.File
	enc *json.Encoder
	n   int
}

func newC08Writer(path string) *c08Writer {
	f, err := os.Create(path)
	if err != nil {
		panic(err)
	}
	return &c08Writer{f: f, enc: json.NewEncoder(f)}
}

func (w *c08Writer) emit(v interface{}) {
	if err := w.enc.Encode(v); err != nil {
		panic(err)
	}
	w.n++
}

type c08M = map[string]interface{}

func c08Changes(cs []c08Change) []c08Change {
	if cs == nil {
		return []c08Change{}
	}
	return cs
}

// all permutations of 0..n-1 (n <= 4), else `limit` random ones (identity first)
func c08Perms(n int, rng *rand.Rand, limit int) [][]int {
	id := make([]int, n)
	for i := range id {
		id[i] = i
	}
	if n > 4 {
		out := [][]int{id}
		for len(out) < limit {
			out = append(out, rng.Perm(n))
		}
		return out
	}
	var out [][]int
	var rec func(cur []int, used []bool)
	rec = func(cur []int, used []bool) {
		if len(cur) == n {
			out = append(out, append([]int{}, cur...))
			return
		}
		for i := 0; i < n; i++ {
			if !used[i] {
				used[i] = true
				rec(append(cur, i), used)
				used[i] = false
			}
		}
	}
	rec(nil, make([]bool, n))
	return out
}

// one Update event: the batch in every order on copies, then in the given order on the
// live object (live) or on one more copy (the live object stays as it is)
func c08UpdateEvent(w *c08Writer, run int, pool *c08Pool, vs *ValidatorSet, batch []c08Change, rng *rand.Rand, live bool) {
	perms := []c08M{}
	for _, pm := range c08Perms(len(batch), rng, 12) {
		cp := vs.Copy()
		chg := make([]*Validator, len(batch))
		order := make([]int, len(batch))
		for i, j := range pm {
			chg[i] = pool.val(batch[j])
			order[i] = j + 1
		}
		cls := c08Update(cp, chg)
		perms = append(perms, c08M{"order": order, "err": cls, "post": pool.project(cp)})
	}
	target := vs
	if !live {
		target = vs.Copy()
	}
	cls := c08Update(target, pool.vals(batch))
	w.emit(c08M{"ev": "Update", "run": run, "batch": c08Changes(batch), "err": cls, "post": pool.project(target),
		"perms": perms, "live": live, "cur": pool.project(vs)})
}

func c08NewEvent(w *c08Writer, run int, pool *c08Pool, init []c08Change) *ValidatorSet {
	vs, cls := c08New(pool.vals(init))
	w.emit(c08M{"ev": "New", "run": run, "batch": c08Changes(init), "err": cls, "post": pool.project(vs)})
	return vs
}

func c08IncEvent(w *c08Writer, run int, pool *c08Pool, vs *ValidatorSet, times int) {
	cls := c08Inc(vs, int32(times))
	w.emit(c08M{"ev": "Inc", "run": run, "times": times, "err": cls, "post": pool.project(vs)})
}

// IncrementProposerPriority(times) on a copy; the live object stays as it is
func c08IncCopyEvent(w *c08Writer, run int, pool *c08Pool, vs *ValidatorSet, times int) {
	cp := vs.Copy()
	cls := c08Inc(cp, int32(times))
	w.emit(c08M{"ev": "IncCopy", "run": run, "times": times, "err": cls, "res": pool.project(cp), "post": pool.project(vs)})
}

// W consecutive IncrementProposerPriority(1) calls, proposer after each
func c08RotateEvent(w *c08Writer, run int, pool *c08Pool, vs *ValidatorSet, rounds int) {
	props := []int{}
	cls := "none"
	for i := 0; i < rounds && cls == "none"; i++ {
		cls = c08Inc(vs, 1)
		if cls == "none" {
			props = append(props, pool.projVal(vs.Proposer).A)
		}
	}
	w.emit(c08M{"ev": "Rotate", "run": run, "n": rounds, "props": props, "err": cls, "post": pool.project(vs)})
}

// observation: one call with a+b rounds against two calls with a and b rounds (on copies)
func c08SplitEvent(w *c08Writer, run int, pool *c08Pool, vs *ValidatorSet, a, b int) {
	j := vs.Copy()
	e1 := c08Inc(j, int32(a+b))
	s := vs.Copy()
	e2 := c08Inc(s, int32(a))
	if e2 == "none" {
		e2 = c08Inc(s, int32(b))
	}
	w.emit(c08M{"ev": "Split", "run": run, "a": a, "b": b, "err": e1 + "/" + e2, "joint": pool.project(j),
		"split": pool.project(s), "post": pool.project(vs)})
}

func (c c08Case) pre(w *c08Writer, run int, pool *c08Pool) *ValidatorSet {
	vs := c08NewEvent(w, run, pool, c.Init)
	if vs == nil {
		return nil
	}
	if c.Warm > 0 {
		c08IncEvent(w, run, pool, vs, c.Warm)
	}
	if len(c.First) > 0 {
		cls := c08Update(vs, pool.vals(c.First))
		w.emit(c08M{"ev": "Update", "run": run, "batch": c08Changes(c.First), "err": cls, "post": pool.project(vs),
			"perms": []c08M{}, "live": true, "cur": pool.project(vs)})
	}
	return vs
}

func TestVerifC08(t *testing.T) {
	inPath, outDir := os.Getenv("VERIF_IN"), os.Getenv("VERIF_OUT")
	if inPath == "" || outDir == "" {
		t.Skip("VERIF_IN / VERIF_OUT not set")
	}
	seed, _ := strconv.ParseInt(os.Getenv("VERIF_SEED"), 10, 64)
	raw, err := os.ReadFile(inPath)
	if err != nil {
		t.Fatal(err)
	}
	var in c08Input
	if err := json.Unmarshal(raw, &in); err != nil {
		t.Fatal(err)
	}
	pool := newC08Pool(seed, 10)
	rng := rand.New(rand.NewSource(seed))
	run := 0

	// ---------------- update cases enumerated by TLC (C08_update)
	wc := newC08Writer(outDir + "/cases.ndjson")
	var vs *ValidatorSet
	prevKey := ""
	for _, c := range in.Cases {
		// cases sharing (init, warm, first) share one real pre-set; their batches run on copies of it
		kb, _ := json.Marshal([]interface{}{c.Init, c.Warm, c.First})
		if string(kb) != prevKey || vs == nil {
			prevKey = string(kb)
			run++
			wc.emit(c08M{"ev": "Reset", "run": run, "kind": "case"})
			vs = c.pre(wc, run, pool)
			if vs == nil {
				continue
			}
		}
		c08UpdateEvent(wc, run, pool, vs, c.Batch, rng, false)
	}
	wc.f.Close()

	// ---------------- rotation cases enumerated by TLC (C08_rotate)
	wr := newC08Writer(outDir + "/rotate.ndjson")
	for _, c := range in.Rotate {
		run++
		wr.emit(c08M{"ev": "Reset", "run": run, "kind": "rotate"})
		vs := c.pre(wr, run, pool)
		if vs == nil {
			continue
		}
		total := int(vs.TotalVotingPower())
		for _, ab := range [][2]int{{1, 1}, {2, 3}, {1, 5}} {
			c08SplitEvent(wr, run, pool, vs, ab[0], ab[1])
		}
		for k := 1; k <= 3; k++ { // one call with k rounds, on a copy
			c08IncCopyEvent(wr, run, pool, vs, k)
		}
		c08RotateEvent(wr, run, pool, vs, 2*total+1)
	}
	wr.f.Close()

	// ---------------- histories from the C08_hist state graph / simulation
	wh := newC08Writer(outDir + "/hist.ndjson")
	for _, h := range in.Hists {
		run++
		wh.emit(c08M{"ev": "Reset", "run": run, "kind": "hist"})
		vs := c08NewEvent(wh, run, pool, h.Init)
		if vs == nil {
			continue
		}
		for _, op := range h.Ops {
			vs = c08Apply(wh, run, pool, vs, op, rng)
		}
	}
	// ---------------- seeded random histories
	for k := 0; k < in.Random; k++ {
		run++
		wh.emit(c08M{"ev": "Reset", "run": run, "kind": "random"})
		c08Random(wh, run, pool, rng)
	}
	wh.f.Close()

	// ---------------- extreme powers (limb encoded, judged without an arithmetic oracle)
	wx := newC08Writer(outDir + "/extreme.ndjson")
	for k := 0; k < in.Extreme; k++ {
		run++
		wx.emit(c08M{"ev": "Reset", "run": run, "kind": "extreme"})
		if k%2 == 0 {
			c08ExtremeJoin(wx, run, pool, rng)
		} else {
			c08Extreme(wx, run, pool, rng)
		}
	}
	wx.f.Close()
	t.Logf("C08 types harness: %d case, %d rotate, %d hist, %d extreme events", wc.n, wr.n, wh.n, wx.n)
}

func c08Apply(w *c08Writer, run int, pool *c08Pool, vs *ValidatorSet, op c08Op, rng *rand.Rand) *ValidatorSet {
	switch op.Op {
	case "Update":
		c08UpdateEvent(w, run, pool, vs, op.Batch, rng, true)
	case "UpdateCopy":
		c08UpdateEvent(w, run, pool, vs, op.Batch, rng, false)
	case "Inc":
		c08IncEvent(w, run, pool, vs, op.Times)
	case "Copy":
		vs = vs.Copy()
		w.emit(c08M{"ev": "Copy", "run": run, "post": pool.project(vs)})
	case "GetProposer":
		p := vs.GetProposer()
		w.emit(c08M{"ev": "GetProposer", "run": run, "prop": pool.projVal(p), "post": pool.project(vs)})
	case "IncCopy":
		c08IncCopyEvent(w, run, pool, vs, op.Times)
	case "Rotate":
		c08RotateEvent(w, run, pool, vs, op.Times)
	case "Split":
		c08SplitEvent(w, run, pool, vs, op.Times, op.TimesB)
	}
	return vs
}

var c08Powers = []int64{1, 1, 2, 3, 5, 10, 10, 50, 100, 1000, 12345, 1000000}

func c08RandBatch(pool *c08Pool, vs *ValidatorSet, rng *rand.Rand, npool int) []c08Change {
	n := rng.Intn(5)
	if rng.Intn(8) == 0 {
		n = 5 + rng.Intn(3)
	}
	var out []c08Change
	used := map[int]bool{}
	for len(out) < n {
		a := 1 + rng.Intn(npool)
		if used[a] && rng.Intn(12) != 0 { // duplicates now and then
			continue
		}
		used[a] = true
		p := c08Powers[rng.Intn(len(c08Powers))]
		switch rng.Intn(10) {
		case 0, 1, 2:
			p = 0
		case 3:
			if rng.Intn(6) == 0 {
				p = -1 - int64(rng.Intn(3))
			}
		}
		out = append(out, c08Change{A: a, P: p})
	}
	// now and then: remove everybody / everybody but one
	if rng.Intn(15) == 0 && vs != nil {
		out = out[:0]
		for i, v := range vs.Validators {
			if i == 0 && rng.Intn(2) == 0 {
				continue
			}
			out = append(out, c08Change{A: pool.projVal(v).A, P: 0})
		}
		rng.Shuffle(len(out), func(i, j int) { out[i], out[j] = out[j], out[i] })
	}
	return out
}

func c08Random(w *c08Writer, run int, pool *c08Pool, rng *rand.Rand) {
	npool := 3 + rng.Intn(6)
	n := 1 + rng.Intn(5)
	small := rng.Intn(3) == 0 // small totals: rotation windows are cheap to judge
	var init []c08Change
	for _, a := range rng.Perm(npool)[:c08min(n, npool)] {
		p := c08Powers[rng.Intn(len(c08Powers))]
		if small {
			p = 1 + int64(rng.Intn(6))
		}
		init = append(init, c08Change{A: a + 1, P: p})
	}
	vs := c08NewEvent(w, run, pool, init)
	if vs == nil {
		return
	}
	if small {
		c08RotateEvent(w, run, pool, vs, 2*int(vs.TotalVotingPower())+1+rng.Intn(4))
	}
	steps := 3 + rng.Intn(12)
	for s := 0; s < steps; s++ {
		switch r := rng.Intn(10); {
		case r < 4:
			c08UpdateEvent(w, run, pool, vs, c08RandBatch(pool, vs, rng, npool), rng, rng.Intn(4) != 0)
		case r < 7:
			k := 1 + rng.Intn(3)
			if rng.Intn(5) == 0 {
				k = 1 + rng.Intn(60)
			}
			c08IncEvent(w, run, pool, vs, k)
		case r < 8:
			vs = c08Apply(w, run, pool, vs, c08Op{Op: "Copy"}, rng)
		case r < 9:
			c08SplitEvent(w, run, pool, vs, 1+rng.Intn(4), 1+rng.Intn(4))
		default:
			if t := vs.TotalVotingPower(); t <= 40 {
				c08RotateEvent(w, run, pool, vs, int(t)+rng.Intn(int(t)+1))
			} else {
				c08RotateEvent(w, run, pool, vs, 1+rng.Intn(40))
			}
		}
	}
}

func c08min(a, b int) int {
	if a < b {
		return a
	}
	return b
}

// ---------------------------------------------------------------- extreme powers
// int64 values near MaxTotalVotingPower = MaxInt64/8 do not fit TLC's 32-bit integers: they
// are logged as sign + three 24-bit limbs (little endian); TLC compares and adds them limb
// by limb (spec/TMValBig.tla).
type c08Big struct {
	S int   `json:"s"`
	M []int `json:"m"`
}

func c08Limbs(x int64) c08Big {
	s := 0
	var m uint64
	switch {
	case x > 0:
		s, m = 1, uint64(x)
	case x < 0:
		s, m = -1, uint64(-(x+1))+1
	}
	return c08Big{S: s, M: []int{int(m & 0xffffff), int((m >> 24) & 0xffffff), int(m >> 48)}}
}

type c08BigVal struct {
	A  int    `json:"a"`
	P  c08Big `json:"p"`
	Pr c08Big `json:"pr"`
}

func (p *c08Pool) projectBig(vs *ValidatorSet) []c08BigVal {
	out := []c08BigVal{}
	if vs == nil {
		return out
	}
	for _, v := range vs.Validators {
		id := p.ids[string(v.Address)]
		out = append(out, c08BigVal{A: id, P: c08Limbs(v.VotingPower), Pr: c08Limbs(v.ProposerPriority)})
	}
	return out
}

func (p *c08Pool) propID(vs *ValidatorSet) int {
	if vs == nil || vs.Proposer == nil {
		return 0
	}
	return p.ids[string(vs.Proposer.Address)]
}

func c08BigBatch(batch []*Validator, pool *c08Pool) []c08BigVal {
	desc := []c08BigVal{}
	for _, v := range batch {
		desc = append(desc, c08BigVal{A: pool.ids[string(v.Address)], P: c08Limbs(v.VotingPower), Pr: c08Limbs(0)})
	}
	return desc
}

func c08XNew(w *c08Writer, run int, pool *c08Pool, init []*Validator) *ValidatorSet {
	vs, cls := c08New(init)
	w.emit(c08M{"ev": "XNew", "run": run, "err": cls, "batch": c08BigBatch(init, pool), "post": pool.projectBig(vs),
		"prop": pool.propID(vs), "max": c08Limbs(MaxTotalVotingPower), "imax": c08Limbs(math.MaxInt64), "imin": c08Limbs(math.MinInt64)})
	return vs
}

func c08XInc(w *c08Writer, run int, pool *c08Pool, vs *ValidatorSet, k int) {
	cls := c08Inc(vs, int32(k))
	w.emit(c08M{"ev": "XInc", "run": run, "times": k, "err": cls, "post": pool.projectBig(vs), "prop": pool.propID(vs)})
}

func c08XUpdate(w *c08Writer, run int, pool *c08Pool, vs *ValidatorSet, batch []*Validator, rng *rand.Rand) {
	perms := []c08M{}
	for _, pm := range c08Perms(len(batch), rng, 12) {
		cp := vs.Copy()
		chg := make([]*Validator, len(batch))
		for i, j := range pm {
			chg[i] = batch[j].Copy()
		}
		cls := c08Update(cp, chg)
		perms = append(perms, c08M{"err": cls, "post": pool.projectBig(cp)})
	}
	chg := make([]*Validator, len(batch))
	for i := range batch {
		chg[i] = batch[i].Copy()
	}
	cls := c08Update(vs, chg)
	w.emit(c08M{"ev": "XUpdate", "run": run, "batch": c08BigBatch(batch, pool), "err": cls, "post": pool.projectBig(vs),
		"perms": perms, "prop": pool.propID(vs)})
}

// directed: the total sits in the top 15% of the allowed range (or the batch swaps a huge
// validator for large ones, so that the total before removals approaches 2*Max); the batch
// ADDS validators; the set is then rotated round by round
func c08ExtremeJoin(w *c08Writer, run int, pool *c08Pool, rng *rand.Rand) {
	max := MaxTotalVotingPower
	small := func() int64 { return 1 + int64(rng.Intn(1000)) }
	// members: ids 1..k, newcomers from k+1..
	k := 1 + rng.Intn(3)
	total := max - max/100*int64(rng.Intn(15)) - int64(rng.Intn(100000)) // 85%..100% of max
	slack := int64(0)
	if rng.Intn(2) == 0 {
		slack = 2 + int64(rng.Intn(2000)) // room for small newcomers
		if rng.Intn(3) == 0 {
			slack = max / 50
		}
	}
	total -= slack
	var init []*Validator
	rest := total
	for i := 1; i <= k; i++ {
		p := rest
		if i < k {
			switch rng.Intn(3) {
			case 0:
				p = rest / 2
			case 1:
				p = rest/int64(k-i+1) - int64(rng.Intn(200))
			default:
				p = small()
			}
		}
		if p <= 0 {
			p = 1
		}
		rest -= p
		init = append(init, pool.val(c08Change{A: i, P: p}))
	}
	vs := c08XNew(w, run, pool, init)
	if vs == nil {
		return
	}
	if n := rng.Intn(9); n > 0 {
		c08XInc(w, run, pool, vs, n)
	}
	for step := 0; step < 2+rng.Intn(3); step++ {
		cur := vs.TotalVotingPower()
		room := max - cur
		var batch []*Validator
		next := 0
		for id := 1; id <= 10; id++ {
			if !vs.HasAddress(pool.keys[id-1].Address()) {
				next = id
				break
			}
		}
		if next == 0 {
			break
		}
		switch r := rng.Intn(6); {
		case r < 2 && room >= 1: // one small newcomer, nothing else
			p := small()
			if p > room {
				p = room
			}
			batch = append(batch, pool.val(c08Change{A: next, P: p}))
		case r < 3 && room >= 2: // two newcomers
			batch = append(batch, pool.val(c08Change{A: next, P: 1 + rng.Int63n(room/2+1)}))
			if next < 10 && !vs.HasAddress(pool.keys[next].Address()) {
				batch = append(batch, pool.val(c08Change{A: next + 1, P: 1 + rng.Int63n(room/2+1)}))
			}
		case r < 5 && len(vs.Validators) >= 1: // swap the biggest member for newcomers: tvp approaches 2*max
			big := vs.Validators[0]
			batch = append(batch, &Validator{Address: big.Address, PubKey: big.PubKey, VotingPower: 0})
			free := room + big.VotingPower
			p := free - int64(rng.Intn(1000))
			if rng.Intn(3) == 0 {
				p = free / 2
			}
			if p <= 0 {
				p = 1
			}
			batch = append(batch, pool.val(c08Change{A: next, P: p}))
			if rng.Intn(2) == 0 && free-p >= 1 && next < 10 && !vs.HasAddress(pool.keys[next].Address()) {
				batch = append(batch, pool.val(c08Change{A: next + 1, P: 1 + rng.Int63n(free-p)}))
			}
		default: // shrink a member, then the room is used by a newcomer in the same batch
			m := vs.Validators[rng.Intn(len(vs.Validators))]
			np := m.VotingPower/2 + 1
			batch = append(batch, &Validator{Address: m.Address, PubKey: m.PubKey, VotingPower: np})
			free := room + m.VotingPower - np
			if free >= 1 {
				batch = append(batch, pool.val(c08Change{A: next, P: 1 + rng.Int63n(free)}))
			}
		}
		if len(batch) == 0 {
			continue
		}
		rng.Shuffle(len(batch), func(i, j int) { batch[i], batch[j] = batch[j], batch[i] })
		c08XUpdate(w, run, pool, vs, batch, rng)
		for n := 1 + rng.Intn(4); n > 0; n-- { // who proposes next, round by round
			c08XInc(w, run, pool, vs, 1)
		}
		if rng.Intn(3) == 0 {
			c08XInc(w, run, pool, vs, 2+rng.Intn(6))
		}
	}
}

func c08Extreme(w *c08Writer, run int, pool *c08Pool, rng *rand.Rand) {
	max := MaxTotalVotingPower
	pick := func() int64 {
		switch rng.Intn(9) {
		case 0:
			return max
		case 1:
			return max - 1
		case 2:
			return max / 2
		case 3:
			return max/2 + 1
		case 4:
			return max / 3
		case 5:
			return max - int64(rng.Intn(1000))
		case 6:
			return 1 + int64(rng.Intn(5))
		case 7:
			return max/4 + int64(rng.Intn(3)) - 1
		}
		return 1 + rng.Int63n(max)
	}
	npool := 3 + rng.Intn(4)
	// an initial set that fits
	var init []*Validator
	var sum int64
	for _, a := range rng.Perm(npool)[:1+rng.Intn(npool)] {
		p := pick()
		if sum+p > max {
			p = max - sum
		}
		if p <= 0 {
			break
		}
		sum += p
		init = append(init, pool.val(c08Change{A: a + 1, P: p}))
	}
	vs := c08XNew(w, run, pool, init)
	if vs == nil {
		return
	}
	steps := 2 + rng.Intn(8)
	for s := 0; s < steps; s++ {
		if rng.Intn(3) == 0 {
			c08XInc(w, run, pool, vs, 1+rng.Intn(5))
			continue
		}
		n := 1 + rng.Intn(4)
		var batch []*Validator
		for _, a := range rng.Perm(npool)[:c08min(n, npool)] {
			p := pick()
			switch rng.Intn(8) {
			case 0, 1:
				p = 0
			case 2:
				if rng.Intn(4) == 0 {
					p = max + 1 + int64(rng.Intn(3))
				}
			}
			batch = append(batch, pool.val(c08Change{A: a + 1, P: p}))
		}
		c08XUpdate(w, run, pool, vs, batch, rng)
	}
}
