//go:build verif

package p2p

// SWITCH harness (auxiliary check; spec/TMSwitch.tla, spec/TMSwitchSys.tla, spec/trace/TMSwitchTrace.tla).
//
// A REAL Switch with two recording reactors runs on a transport that is the real MultiplexTransport minus the
// network: connections are net.Pipe ends with scripted remote addresses, filterConn / conns / wrapPeer / Cleanup /
// newPeer / peer.Start / peer.Stop / MConnection are the real code, the secret-connection upgrade and the NodeInfo
// handshake (C16's subject) are skipped.  Every call OUT of the Switch (Transport.Dial, Transport.Cleanup, the peer
// filter, Peer.Start, Reactor.InitPeer / AddPeer / RemovePeer, the log line "Reconnecting to peer") is a gate at
// which the calling goroutine waits until the schedule releases it, so a schedule computed by TLC from the model is
// executed step by step: "release thread t; it runs real code up to its next gate or its end".  After every step the
// harness waits until all goroutines inside the Switch are blocked again, projects the real objects to the model's
// state and logs one NDJSON line.  Nothing is judged here.

import (
	"bytes"
	"encoding/json"
	"errors"
	"fmt"
	"net"
	"os"
	"regexp"
	"runtime"
	"sort"
	"strconv"
	"strings"
	"sync"
	"sync/atomic"
	"testing"
	"time"

	"github.com/tendermint/tendermint/config"
	"github.com/tendermint/tendermint/crypto/ed25519"
	"github.com/tendermint/tendermint/libs/log"
	"github.com/tendermint/tendermint/p2p/conn"
	tmp2p "github.com/tendermint/tendermint/proto/tendermint/p2p"
)

// ------------------------------------------------------------------------------------------------ input / output

type switchCmd struct {
	Name string `json:"name"` // Dial | Stop | Incoming | AccTake | Step
	T    string `json:"t"`
	A    string `json:"a"`
	B    string `json:"b"`
	N    int    `json:"n"`
	ID   string `json:"id"` // node id of the thread (for the trace spec; not used here)
	Opt  bool   `json:"opt"` // the run simply ends here when this command cannot be executed (hand-made schedules)
}

type switchRunDef struct {
	ID         string      `json:"id"`
	AllowDupIP bool        `json:"allowDupIP"`
	SameIP     bool        `json:"sameIP"`
	MaxInbound int         `json:"maxInbound"`
	Cmds       []switchCmd `json:"cmds"`
}

type switchInput struct {
	Runs       []switchRunDef `json:"runs"`
	ConcTrials int            `json:"concTrials"`
	SleepOK    bool           `json:"sleepOK"`
}

type switchThrObs struct {
	Name string `json:"name"`
	K    string `json:"k"`
	Pc   string `json:"pc"`
	ID   string `json:"id"`
	I    int    `json:"i"`
	Cur  string `json:"cur"`
	Out  string `json:"out"`
}

type switchInstObs struct {
	ID   string `json:"id"`
	Out  bool   `json:"out"`
	Pers bool   `json:"pers"`
	Addr string `json:"addr"`
	IP   string `json:"ip"`
	St   bool   `json:"st"`
	Sp   bool   `json:"sp"`
	Remf bool   `json:"remf"`
}

type switchCb struct {
	R   string `json:"r"`
	I   int    `json:"i"`
	C   string `json:"c"`
	Seq int    `json:"seq"`
}

type switchPost struct {
	Peers   map[string]int  `json:"peers"`
	Dialing []string        `json:"dialing"`
	Reconn  []string        `json:"reconn"`
	Conns   []string        `json:"conns"`
	Pend    []int           `json:"pend"`
	Inst    []switchInstObs `json:"inst"`
	Thr     []switchThrObs  `json:"thr"`
}

var switchNodes = []string{"a", "b"}

func switchRealID(n string) ID { return ID(strings.Repeat(n+n, 20)) }
func switchNodeOf(id ID) string {
	s := string(id)
	if len(s) == 40 {
		return s[:1]
	}
	return "?"
}

// ------------------------------------------------------------------------------------------------ gates

type switchTicket struct {
	seq  int
	kind string
	inst int
	id   string
	r    string
	goid int64
	rel  chan string
}

type switchThread struct {
	name   string
	k      string
	goid   int64
	id     string
	inst   int
	done   bool
	out    string
	gated  bool // went through at least one gate
	ticket *switchTicket
	asleep bool
	idle   bool // acceptRoutine inside Transport.Accept
}

type switchInst struct {
	id      string
	out     bool
	addr    string // abstract: o-<id> | i-<n>
	raddr   string // real remote address
	ip      string
	peer    Peer // as handed to the Switch (gating wrapper)
	inner   Peer
	local   net.Conn
	remote  net.Conn
	started bool
	owner   string
}

type switchHarness struct {
	mu      sync.Mutex
	aborted atomic.Bool
	free    atomic.Bool // no gating (stress driver)
	seq     int
	tickets []*switchTicket
	threads map[string]*switchThread
	byGoid  map[int64]string
	insts   []*switchInst
	byPeer  map[Peer]int
	pend    []int
	cbs     []switchCb
	cbSeq   map[string]int
	def     switchRunDef
	sw      *Switch
	tr      *switchTransport
	selfGo  int64
	oldGo   map[int64]bool
	// stress counters
	holdDial atomic.Bool
	holdRec  atomic.Bool
	held     int32
	rel      chan struct{}
}

var switchGoidRe = regexp.MustCompile(`^goroutine (\d+) \[([^\]]*)\]`)

func switchGoid() int64 {
	var buf [64]byte
	n := runtime.Stack(buf[:], false)
	m := switchGoidRe.FindSubmatch(buf[:n])
	if m == nil {
		return -1
	}
	g, _ := strconv.ParseInt(string(m[1]), 10, 64)
	return g
}

func (h *switchHarness) gate(kind string, inst int, id, r string) string {
	if h.aborted.Load() || h.free.Load() {
		return "abort"
	}
	t := &switchTicket{kind: kind, inst: inst, id: id, r: r, goid: switchGoid(), rel: make(chan string, 1)}
	h.mu.Lock()
	if h.aborted.Load() {
		h.mu.Unlock()
		return "abort"
	}
	h.seq++
	t.seq = h.seq
	h.tickets = append(h.tickets, t)
	h.mu.Unlock()
	return <-t.rel
}

func (h *switchHarness) instOf(p Peer) int {
	h.mu.Lock()
	defer h.mu.Unlock()
	if n, ok := h.byPeer[p]; ok {
		return n
	}
	return 0
}

func (h *switchHarness) callback(r string, inst int, c string) {
	h.mu.Lock()
	h.cbSeq[r]++
	h.cbs = append(h.cbs, switchCb{R: r, I: inst, C: c, Seq: h.cbSeq[r]})
	h.mu.Unlock()
}

// ------------------------------------------------------------------------------------------------ reactor, peer, logger

type switchReactor struct {
	BaseReactor
	name string
	ch   byte
	h    *switchHarness
}

func switchNewReactor(h *switchHarness, name string, ch byte) *switchReactor {
	r := &switchReactor{name: name, ch: ch, h: h}
	r.BaseReactor = *NewBaseReactor(name, r)
	return r
}

func (r *switchReactor) GetChannels() []*conn.ChannelDescriptor {
	return []*conn.ChannelDescriptor{{ID: r.ch, Priority: 1, SendQueueCapacity: 10, MessageType: &tmp2p.Message{}}}
}

func (r *switchReactor) InitPeer(p Peer) Peer {
	n := r.h.instOf(p)
	r.h.gate("Init", n, "", r.name)
	r.h.callback(r.name, n, "I")
	return p
}

func (r *switchReactor) AddPeer(p Peer) {
	n := r.h.instOf(p)
	r.h.gate("AddPeer", n, "", r.name)
	r.h.callback(r.name, n, "A")
}

func (r *switchReactor) RemovePeer(p Peer, reason interface{}) {
	n := r.h.instOf(p)
	r.h.gate("Rem", n, "", r.name)
	r.h.callback(r.name, n, "R")
}

func (r *switchReactor) Receive(chID byte, p Peer, msgBytes []byte) {
	r.h.callback(r.name, r.h.instOf(p), "V")
}
func (r *switchReactor) ReceiveEnvelope(e Envelope) { r.h.callback(r.name, r.h.instOf(e.Src), "V") }

type switchGPeer struct {
	Peer
	h    *switchHarness
	inst int
}

func (p *switchGPeer) Start() error {
	p.h.gate("Start", p.inst, "", "")
	err := p.Peer.Start()
	if err == nil {
		p.h.mu.Lock()
		p.h.insts[p.inst-1].started = true
		p.h.mu.Unlock()
	}
	p.h.gate("Add", p.inst, "", "")
	return err
}

type switchLogger struct{ h *switchHarness }

func (l *switchLogger) Debug(msg string, kv ...interface{}) {}
func (l *switchLogger) Error(msg string, kv ...interface{}) {}
func (l *switchLogger) With(kv ...interface{}) log.Logger   { return l }
func (l *switchLogger) Info(msg string, kv ...interface{}) {
	if msg != "Reconnecting to peer" {
		return
	}
	if l.h.free.Load() {
		if l.h.holdRec.Load() {
			rel := l.h.rel
			atomic.AddInt32(&l.h.held, 1)
			<-rel
		}
		return
	}
	id := "?"
	for i := 0; i+1 < len(kv); i += 2 {
		if k, ok := kv[i].(string); ok && k == "addr" {
			if a, ok := kv[i+1].(*NetAddress); ok {
				id = switchNodeOf(a.ID)
			}
		}
	}
	l.h.gate("RecLog", 0, id, "")
}

// ------------------------------------------------------------------------------------------------ transport

// switchConn: a pipe end with a scripted remote address.  Close is recorded and carried out at the end of the run:
// closing the connection under a running MConnection makes its recvRoutine call StopPeerForError by itself, racing
// with the caller of transport.Cleanup (which closes BEFORE it stops the peer) - a real trigger of concurrent stops,
// but one the schedule does not control; in the model it is an environment step (Stop) like any other.
type switchConn struct {
	net.Conn
	raddr  net.Addr
	closed atomic.Bool
}

func (c *switchConn) RemoteAddr() net.Addr { return c.raddr }
func (c *switchConn) Close() error         { c.closed.Store(true); return nil }
func (c *switchConn) reallyClose()         { _ = c.Conn.Close() }

type switchAccepted struct {
	inst int
	err  error
}

type switchTransport struct {
	h       *switchHarness
	mt      *MultiplexTransport
	acceptc chan switchAccepted
	closec  chan struct{}
}

func (t *switchTransport) NetAddress() NetAddress { return t.mt.NetAddress() }

func (t *switchTransport) Accept(cfg peerConfig) (Peer, error) {
	select {
	case a := <-t.acceptc:
		if a.err != nil {
			return nil, a.err
		}
		h := t.h
		h.mu.Lock()
		in := h.insts[a.inst-1]
		h.mu.Unlock()
		cfg.outbound = false
		ni := switchNodeInfo(h, in.id)
		na := NewNetAddress(switchRealID(in.id), in.local.RemoteAddr())
		inner := t.mt.wrapPeer(in.local, ni, cfg, na)
		gp := &switchGPeer{Peer: inner, h: h, inst: a.inst}
		h.mu.Lock()
		in.peer, in.inner, in.owner = gp, inner, "acc"
		h.byPeer[gp] = a.inst
		h.byPeer[inner] = a.inst
		h.mu.Unlock()
		return gp, nil
	case <-t.closec:
		return nil, ErrTransportClosed{}
	}
}

func (h *switchHarness) ipOf(id string) string {
	if h.def.SameIP {
		return "10.0.0.9"
	}
	if id == "a" {
		return "10.0.0.1"
	}
	return "10.0.0.2"
}

func (h *switchHarness) absIP(id string) string {
	if h.def.SameIP {
		return "ip"
	}
	return "ip-" + id
}

func switchNodeInfo(h *switchHarness, id string) NodeInfo {
	return DefaultNodeInfo{
		ProtocolVersion: defaultProtocolVersion,
		DefaultNodeID:   switchRealID(id),
		ListenAddr:      h.ipOf(id) + ":26656",
		Network:         "testing",
		Version:         "1.2.3-rc0-deadbeef",
		Channels:        []byte{0x71, 0x72},
		Moniker:         id,
		Other:           DefaultNodeInfoOther{TxIndex: "on", RPCAddress: "127.0.0.1:26657"},
	}
}

var errSwitchDial = errors.New("verif: dial failed")

func (t *switchTransport) Dial(addr NetAddress, cfg peerConfig) (Peer, error) {
	h := t.h
	id := switchNodeOf(addr.ID)
	if h.free.Load() {
		if h.holdDial.Load() {
			rel := h.rel
			atomic.AddInt32(&h.held, 1)
			<-rel
		}
		return nil, errSwitchDial
	}
	o := h.gate("Dial", 0, id, "")
	if o == "abort" {
		return nil, ErrCurrentlyDialingOrExistingAddress{"verif: run is over"} // ends a reconnect loop without its sleep
	}
	if o != "ok" {
		return nil, errSwitchDial
	}
	local, remote := net.Pipe()
	ra := &net.TCPAddr{IP: net.ParseIP(h.ipOf(id)), Port: 26656}
	c := &switchConn{Conn: local, raddr: ra}
	if err := t.mt.filterConn(c); err != nil {
		remote.Close()
		return nil, err
	}
	cfg.outbound = true
	a := addr
	inner := t.mt.wrapPeer(c, switchNodeInfo(h, id), cfg, &a)
	h.mu.Lock()
	n := len(h.insts) + 1
	gp := &switchGPeer{Peer: inner, h: h, inst: n}
	owner := h.byGoid[switchGoid()]
	h.insts = append(h.insts, &switchInst{id: id, out: true, addr: "o-" + id, raddr: ra.String(), ip: h.absIP(id), peer: gp, inner: inner,
		local: c, remote: remote, owner: owner})
	h.byPeer[gp] = n
	h.byPeer[inner] = n
	if th := h.threads[owner]; th != nil {
		th.inst = n
	}
	h.mu.Unlock()
	return gp, nil
}

func (t *switchTransport) Cleanup(p Peer) {
	n := t.h.instOf(p)
	t.h.gate("Cleanup", n, "", "")
	t.mt.Cleanup(p)
}

// ------------------------------------------------------------------------------------------------ run set-up

func switchNewHarness(def switchRunDef) *switchHarness {
	h := &switchHarness{threads: map[string]*switchThread{}, byGoid: map[int64]string{}, byPeer: map[Peer]int{}, cbSeq: map[string]int{},
		def: def, oldGo: map[int64]bool{}}
	h.selfGo = switchGoid()
	for g := range switchDump() {
		h.oldGo[g] = true
	}
	cfg := config.DefaultP2PConfig()
	cfg.MaxNumInboundPeers = def.MaxInbound
	cfg.AllowDuplicateIP = def.AllowDupIP
	nodeKey := NodeKey{PrivKey: ed25519.GenPrivKey()}
	self := DefaultNodeInfo{ProtocolVersion: defaultProtocolVersion, DefaultNodeID: nodeKey.ID(), ListenAddr: "10.0.0.100:26656",
		Network: "testing", Version: "1.2.3-rc0-deadbeef", Channels: []byte{0x71, 0x72}, Moniker: "self",
		Other: DefaultNodeInfoOther{TxIndex: "on", RPCAddress: "127.0.0.1:26657"}}
	mt := NewMultiplexTransport(self, nodeKey, MConnConfig(cfg))
	if !def.AllowDupIP {
		MultiplexTransportConnFilters(ConnDuplicateIPFilter())(mt)
	}
	h.tr = &switchTransport{h: h, mt: mt, acceptc: make(chan switchAccepted), closec: make(chan struct{})}
	filter := func(_ IPeerSet, p Peer) error {
		h.gate("Filter", h.instOf(p), "", "")
		return nil
	}
	sw := NewSwitch(cfg, h.tr, SwitchPeerFilters(filter), SwitchFilterTimeout(time.Hour))
	sw.SetLogger(&switchLogger{h: h})
	sw.AddReactor("r1", switchNewReactor(h, "r1", 0x71))
	sw.AddReactor("r2", switchNewReactor(h, "r2", 0x72))
	sw.SetNodeInfo(self)
	sw.SetNodeKey(&nodeKey)
	if err := sw.AddPersistentPeers([]string{string(switchRealID("a")) + "@" + h.ipOf("a") + ":26656"}); err != nil {
		panic(err)
	}
	if err := sw.AddUnconditionalPeerIDs([]string{string(switchRealID("b"))}); err != nil {
		panic(err)
	}
	h.sw = sw
	h.threads["acc"] = &switchThread{name: "acc", k: "acc"}
	if err := sw.Start(); err != nil {
		panic(err)
	}
	return h
}

func (h *switchHarness) teardown() {
	h.mu.Lock()
	h.aborted.Store(true)
	ts := h.tickets
	h.tickets = nil
	h.mu.Unlock()
	for _, t := range ts {
		t.rel <- "abort"
	}
	close(h.tr.closec)
	_ = h.sw.Stop()
	h.mu.Lock()
	for _, in := range h.insts {
		// a peer whose Start() has returned and that nobody stopped: stop it, or its goroutines stay for ever
		if in.started && in.inner != nil && in.inner.IsRunning() {
			_ = in.inner.Stop()
		}
		if sc, ok := in.local.(*switchConn); ok {
			sc.reallyClose()
		}
		if in.remote != nil {
			in.remote.Close()
		}
	}
	h.mu.Unlock()
}

// ------------------------------------------------------------------------------------------------ quiescence

type switchG struct {
	state string
	stack string
}

func switchDump() map[int64]switchG {
	buf := make([]byte, 1<<20)
	for {
		n := runtime.Stack(buf, true)
		if n < len(buf) {
			buf = buf[:n]
			break
		}
		buf = make([]byte, 2*len(buf))
	}
	out := map[int64]switchG{}
	for _, blk := range bytes.Split(buf, []byte("\n\n")) {
		m := switchGoidRe.FindSubmatch(blk)
		if m == nil {
			continue
		}
		g, _ := strconv.ParseInt(string(m[1]), 10, 64)
		st := string(m[2])
		if i := strings.Index(st, ","); i >= 0 {
			st = st[:i]
		}
		out[g] = switchG{state: st, stack: string(blk)}
	}
	return out
}

func switchRelevant(g switchG) bool {
	return strings.Contains(g.stack, "/p2p.(*Switch).") || strings.Contains(g.stack, "switchThreadMain") ||
		strings.Contains(g.stack, "/p2p.(*switchHarness).incoming")
}

// settle waits until every goroutine of this run that is inside the Switch is blocked (gate, sleep, Accept, waiting
// for a filter); returns the goroutine table and whether quiescence was reached in time.
func (h *switchHarness) settle() (map[int64]switchG, bool) {
	deadline := time.Now().Add(20 * time.Second)
	prev, same := "", 0
	for {
		d := switchDump()
		var sig []string
		busy := false
		for g, x := range d {
			if g == h.selfGo || h.oldGo[g] || !switchRelevant(x) {
				continue
			}
			sig = append(sig, fmt.Sprintf("%d:%s", g, x.state))
			switch x.state {
			case "chan receive", "chan send", "select", "sleep", "sync.Mutex.Lock", "sync.RWMutex.Lock", "sync.RWMutex.RLock", "semacquire",
				"sync.Cond.Wait", "IO wait", "sync.WaitGroup.Wait":
			default: // running, runnable, syscall, GC assist wait, preempted, ...: will move by itself
				busy = true
			}
		}
		sort.Strings(sig)
		h.mu.Lock()
		s := strings.Join(sig, " ") + fmt.Sprintf(" #%d", h.seq)
		h.mu.Unlock()
		if !busy && s == prev {
			same++
			if same >= 1 {
				return d, true
			}
		} else {
			same = 0
		}
		prev = s
		if time.Now().After(deadline) {
			return d, false
		}
		time.Sleep(100 * time.Microsecond)
	}
}

// attribute tickets to threads, find sleeping / vanished reconnect loops
func (h *switchHarness) observe(d map[int64]switchG) {
	h.mu.Lock()
	defer h.mu.Unlock()
	for _, th := range h.threads {
		th.ticket = nil
		th.asleep = false
	}
	for _, t := range h.tickets {
		name, ok := h.byGoid[t.goid]
		if !ok {
			switch {
			case t.kind == "Filter":
				name = h.insts[t.inst-1].owner
			case t.kind == "RecLog":
				name = "rec:" + t.id
				if _, dup := h.threads[name]; dup {
					name = fmt.Sprintf("rec:%s:%d", t.id, t.goid)
				}
				h.threads[name] = &switchThread{name: name, k: "rec", goid: t.goid, id: t.id}
				h.byGoid[t.goid] = name
			default:
				name = "acc"
				h.threads["acc"].goid = t.goid
				h.byGoid[t.goid] = "acc"
			}
		}
		th := h.threads[name]
		if th == nil {
			continue
		}
		th.ticket = t
		th.gated = true
		if t.inst != 0 {
			th.inst = t.inst
		}
	}
	if acc := h.threads["acc"]; acc != nil {
		acc.idle = false
		for g, x := range d {
			if !h.oldGo[g] && strings.Contains(x.stack, "(*Switch).acceptRoutine") && strings.Contains(x.stack, "(*switchTransport).Accept") {
				acc.idle = true
			}
		}
	}
	for name, th := range h.threads {
		if th.k != "rec" || th.ticket != nil {
			continue
		}
		g, ok := d[th.goid]
		if !ok || !strings.Contains(g.stack, "reconnectToPeer") {
			delete(h.threads, name)
			delete(h.byGoid, th.goid)
			continue
		}
		if g.state == "sleep" {
			th.asleep = true
			th.inst = 0
		}
	}
}

// ------------------------------------------------------------------------------------------------ projection

func (h *switchHarness) project() switchPost {
	p := switchPost{Peers: map[string]int{}, Dialing: []string{}, Reconn: []string{}, Conns: []string{}, Pend: []int{}, Inst: []switchInstObs{},
		Thr: []switchThrObs{}}
	h.mu.Lock()
	defer h.mu.Unlock()
	for _, n := range switchNodes {
		p.Peers[n] = 0
		if q := h.sw.peers.Get(switchRealID(n)); q != nil {
			p.Peers[n] = h.byPeer[q]
		}
	}
	for _, k := range h.sw.dialing.Keys() {
		p.Dialing = append(p.Dialing, switchNodeOf(ID(k)))
	}
	for _, k := range h.sw.reconnecting.Keys() {
		p.Reconn = append(p.Reconn, switchNodeOf(ID(k)))
	}
	sort.Strings(p.Dialing)
	sort.Strings(p.Reconn)
	cs := h.tr.mt.conns.(*connSet)
	cs.RLock()
	for k := range cs.conns {
		name := "?" + k
		for i, in := range h.insts {
			if in.raddr == k {
				name = in.addr
				_ = i
			}
		}
		p.Conns = append(p.Conns, name)
	}
	cs.RUnlock()
	sort.Strings(p.Conns)
	p.Pend = append(p.Pend, h.pend...)
	for _, in := range h.insts {
		o := switchInstObs{ID: in.id, Out: in.out, Pers: in.id == "a", Addr: in.addr, IP: in.ip}
		if in.inner != nil {
			o.St = in.started
			o.Sp = in.started && !in.inner.IsRunning()
			o.Remf = in.inner.GetRemovalFailed()
		}
		p.Inst = append(p.Inst, o)
	}
	names := make([]string, 0, len(h.threads))
	for n := range h.threads {
		names = append(names, n)
	}
	sort.Strings(names)
	for _, n := range names {
		th := h.threads[n]
		o := switchThrObs{Name: n, K: th.k, ID: th.id, I: th.inst, Cur: "-", Out: "-"}
		if o.ID == "" {
			o.ID = "-"
		}
		switch {
		case th.ticket != nil:
			o.Pc = th.ticket.kind
			if th.ticket.r != "" {
				o.Cur = th.ticket.r
			}
			if th.k == "acc" || o.ID == "-" {
				if th.inst > 0 {
					o.ID = h.insts[th.inst-1].id
				}
			}
		case th.done:
			o.Pc, o.Out = "done", th.out
		case th.asleep:
			o.Pc = "Sleep"
		case th.k == "acc" && th.idle:
			o.Pc, o.I, o.ID = "idle", 0, "-"
		default:
			o.Pc = "running"
		}
		p.Thr = append(p.Thr, o)
	}
	return p
}

func switchErrClass(err error) string {
	if err == nil {
		return "ok"
	}
	switch e := err.(type) {
	case ErrCurrentlyDialingOrExistingAddress:
		return "ErrExisting"
	case ErrSwitchDuplicatePeerID:
		return "ErrDupID"
	case ErrPeerRemoval:
		return "ErrPeerRemoval"
	case ErrRejected:
		if e.conn != nil {
			return "ErrConnRejected"
		}
		if e.isDuplicate {
			return "ErrRejectedDup"
		}
		return "ErrRejected"
	}
	if err == errSwitchDial {
		return "ErrDial"
	}
	return "other:" + err.Error()
}

// ------------------------------------------------------------------------------------------------ threads

func (h *switchHarness) switchThreadMain(th *switchThread, fn func() string, started chan struct{}) {
	h.mu.Lock()
	th.goid = switchGoid()
	h.byGoid[th.goid] = th.name
	h.mu.Unlock()
	close(started)
	out := fn()
	h.mu.Lock()
	if th.k == "stop" {
		if th.gated {
			out = "ok"
		} else {
			out = "noop"
		}
	}
	th.done, th.out = true, out
	h.mu.Unlock()
}

func (h *switchHarness) spawn(name, k, id string, inst int, fn func() string) {
	th := &switchThread{name: name, k: k, id: id, inst: inst}
	h.mu.Lock()
	if old := h.threads[name]; old != nil {
		delete(h.byGoid, old.goid)
	}
	h.threads[name] = th
	h.mu.Unlock()
	started := make(chan struct{})
	go h.switchThreadMain(th, fn, started)
	<-started
}

// the transport's acceptPeers goroutine for one incoming connection: filterConn, (upgrade), hand-over
func (h *switchHarness) incoming(id string) string {
	h.mu.Lock()
	n := len(h.insts) + 1
	h.mu.Unlock()
	local, remote := net.Pipe()
	ra := &net.TCPAddr{IP: net.ParseIP(h.ipOf(id)), Port: 40000 + n}
	c := &switchConn{Conn: local, raddr: ra}
	if err := h.tr.mt.filterConn(c); err != nil {
		remote.Close()
		select {
		case h.tr.acceptc <- switchAccepted{err: err}: // acceptRoutine logs the rejection and calls Accept again
		case <-time.After(5 * time.Second):
			return "rejected (accept routine busy)"
		}
		return "rejected"
	}
	h.mu.Lock()
	h.insts = append(h.insts, &switchInst{id: id, addr: fmt.Sprintf("i-%d", n), raddr: ra.String(), ip: h.absIP(id), local: c, remote: remote})
	h.pend = append(h.pend, n)
	h.mu.Unlock()
	return "pending"
}

func (h *switchHarness) exec(c switchCmd, sleepOK bool) (string, bool) {
	switch c.Name {
	case "Dial":
		addr := NewNetAddressIPPort(net.ParseIP(h.ipOf(c.A)), 26656)
		addr.ID = switchRealID(c.A)
		h.spawn(c.T, "dial", c.A, 0, func() string { return switchErrClass(h.sw.DialPeerWithAddress(addr)) })
	case "Stop":
		h.mu.Lock()
		if c.N < 1 || c.N > len(h.insts) || h.insts[c.N-1].peer == nil {
			h.mu.Unlock()
			return "no such instance", false
		}
		in := h.insts[c.N-1]
		h.mu.Unlock()
		why := c.A
		h.spawn(c.T, "stop", in.id, c.N, func() string {
			if why == "err" {
				h.sw.StopPeerForError(in.peer, "verif:"+c.T)
			} else {
				h.sw.StopPeerGracefully(in.peer)
			}
			return "ok"
		})
	case "Incoming":
		return h.incoming(c.A), true
	case "AccTake":
		h.mu.Lock()
		if len(h.pend) == 0 {
			h.mu.Unlock()
			return "nothing pending", false
		}
		n := h.pend[0]
		h.pend = h.pend[1:]
		h.mu.Unlock()
		select {
		case h.tr.acceptc <- switchAccepted{inst: n}:
		case <-time.After(5 * time.Second):
			return "accept routine not idle", false
		}
	case "Step":
		h.mu.Lock()
		th := h.threads[c.T]
		if th == nil || th.done {
			h.mu.Unlock()
			return "thread not live", false
		}
		if th.ticket == nil {
			asleep := th.asleep
			h.mu.Unlock()
			if !asleep {
				return "thread not at a gate", false
			}
			if !sleepOK {
				return "sleeping thread (not waited for in this tier)", false
			}
			// wait for the sleeping reconnect loop to come back (5 s + up to 3 s)
			deadline := time.Now().Add(12 * time.Second)
			for time.Now().Before(deadline) {
				time.Sleep(20 * time.Millisecond)
				d := switchDump()
				if g, ok := d[th.goid]; !ok || g.state != "sleep" {
					break
				}
			}
			return "woke", true
		}
		t := th.ticket
		th.ticket = nil
		for i, x := range h.tickets {
			if x == t {
				h.tickets = append(h.tickets[:i], h.tickets[i+1:]...)
				break
			}
		}
		h.mu.Unlock()
		o := c.B
		if t.kind != "Dial" {
			o = "go"
		}
		t.rel <- o
	default:
		return "unknown command", false
	}
	return "", true
}

func (h *switchHarness) takeCbs() []switchCb {
	h.mu.Lock()
	defer h.mu.Unlock()
	out := h.cbs
	h.cbs = nil
	if out == nil {
		out = []switchCb{}
	}
	return out
}

func switchRun(def switchRunDef, sleepOK bool, emit func(map[string]interface{})) {
	h := switchNewHarness(def)
	defer h.teardown()
	d, ok := h.settle()
	h.observe(d)
	emit(map[string]interface{}{"ev": "Reset", "run": def.ID, "allowDupIP": def.AllowDupIP, "sameIP": def.SameIP, "maxInbound": def.MaxInbound,
		"settled": ok, "post": h.project()})
	for k, c := range def.Cmds {
		note, did := h.exec(c, sleepOK)
		if !did {
			if c.Opt {
				break
			}
			emit(map[string]interface{}{"ev": "Skip", "k": k, "c": c, "why": note})
			return
		}
		d, ok := h.settle()
		h.observe(d)
		post := h.project()
		blocked := ""
		for _, t := range post.Thr {
			if t.Pc == "running" {
				blocked = t.Name
			}
		}
		if blocked != "" && ok {
			// a thread waits for a lock (not at a gate): outside the grain of the model - the run ends here, not judged
			emit(map[string]interface{}{"ev": "Skip", "k": k, "c": c, "why": "thread " + blocked + " is blocked outside a gate after this command"})
			return
		}
		emit(map[string]interface{}{"ev": "Cmd", "k": k, "c": c, "note": note, "settled": ok, "cbs": h.takeCbs(), "post": post})
		if !ok {
			return
		}
	}
	emit(map[string]interface{}{"ev": "End", "run": def.ID})
}

// ------------------------------------------------------------------------------------------------ stress driver
// The two check-then-set pairs (dialing.Has..Set in DialPeerWithAddress, reconnecting.Has..Set in reconnectToPeer) have
// no call-out in between: `par` goroutines enter at the same moment; whoever gets past the check is HELD (in
// Transport.Dial / in the log line "Reconnecting to peer") until every goroutine is either held or has returned, so
// `held` is the number of goroutines that are inside at the same time.  One line per family; TLC judges the counts.
func (h *switchHarness) stressTrial(par int, call func()) int {
	atomic.StoreInt32(&h.held, 0)
	h.rel = make(chan struct{})
	var returned int32
	var wg sync.WaitGroup
	start := make(chan struct{})
	for j := 0; j < par; j++ {
		wg.Add(1)
		go func() { defer wg.Done(); <-start; call(); atomic.AddInt32(&returned, 1) }()
	}
	close(start)
	deadline := time.Now().Add(5 * time.Second)
	for int(atomic.LoadInt32(&h.held)+atomic.LoadInt32(&returned)) < par && time.Now().Before(deadline) {
		runtime.Gosched()
	}
	n := int(atomic.LoadInt32(&h.held))
	close(h.rel)
	wg.Wait()
	return n
}

func switchStress(trials int, emit func(map[string]interface{})) {
	if trials <= 0 {
		return
	}
	h := switchNewHarness(switchRunDef{ID: "stress", AllowDupIP: true, MaxInbound: 1})
	defer h.teardown()
	emit(map[string]interface{}{"ev": "Reset", "run": "stress", "allowDupIP": true, "sameIP": false, "maxInbound": 1, "settled": true, "post": h.project()})
	h.free.Store(true)
	addr := NewNetAddressIPPort(net.ParseIP("10.0.0.2"), 26656)
	addr.ID = switchRealID("b")
	const par = 4
	maxDial, maxRec, hitsDial, hitsRec := 0, 0, 0, 0
	h.holdDial.Store(true)
	for i := 0; i < trials; i++ {
		n := h.stressTrial(par, func() { _ = h.sw.DialPeerWithAddress(addr) })
		if n > maxDial {
			maxDial = n
		}
		if n > 1 {
			hitsDial++
		}
	}
	h.holdDial.Store(false)
	// reconnect loops: with a dialing mark present every loop returns right after its "Reconnecting to peer" line
	h.sw.dialing.Set(string(addr.ID), addr)
	h.holdRec.Store(true)
	for i := 0; i < trials; i++ {
		n := h.stressTrial(par, func() { h.sw.reconnectToPeer(addr) })
		if n > maxRec {
			maxRec = n
		}
		if n > 1 {
			hitsRec++
		}
	}
	h.holdRec.Store(false)
	h.sw.dialing.Delete(string(addr.ID))
	emit(map[string]interface{}{"ev": "Stress", "trials": trials, "par": par, "maxDial": maxDial, "hitsDial": hitsDial, "maxRec": maxRec, "hitsRec": hitsRec,
		"marksLeft": h.sw.dialing.Size() + h.sw.reconnecting.Size()})
}

func TestVerifSwitch(t *testing.T) {
	inPath, outPath := os.Getenv("VERIF_IN"), os.Getenv("VERIF_OUT")
	if inPath == "" || outPath == "" {
		t.Skip("VERIF_IN / VERIF_OUT not set")
	}
	runtime.GOMAXPROCS(4) // the goroutine dumps stop the world: keep it small on a shared box
	raw, err := os.ReadFile(inPath)
	if err != nil {
		t.Fatal(err)
	}
	var in switchInput
	if err := json.Unmarshal(raw, &in); err != nil {
		t.Fatal(err)
	}
	f, err := os.Create(outPath)
	if err != nil {
		t.Fatal(err)
	}
	defer f.Close()
	enc := json.NewEncoder(f)
	n := 0
	emit := func(m map[string]interface{}) {
		n++
		m["n"] = n
		if err := enc.Encode(m); err != nil {
			t.Fatal(err)
		}
	}
	for _, def := range in.Runs {
		switchRun(def, in.SleepOK, emit)
	}
	switchStress(in.ConcTrials, emit)
	emit(map[string]interface{}{"ev": "Done"})
}
