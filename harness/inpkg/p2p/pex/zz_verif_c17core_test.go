//go:build verif

package pex

// C17 harness core, hostile half (identical copy in every reactor package; only the package
// clause differs -- regenerate the copies from consensus/zz_verif_c17core_test.go).
//
// A REAL p2p.Switch ("node") carries the reactor under test.  A second real switch ("evil")
// is connected to it through net.Pipe + secret connection + real MConnections, exactly like
// p2p.MakeConnectedSwitches does.  The evil side sends arbitrary bytes on the reactor's
// channels with Peer.Send, so that on the node every byte goes through production code only:
// MConnection.recvRoutine -> p2p/peer.go onReceive (Unmarshal, Unwrap) -> Reactor.ReceiveEnvelope,
// under MConnection._recover -> stopForError -> Switch.StopPeerForError.  A third switch
// ("honest") stays connected all the time.  An echo reactor on a private channel gives a
// barrier ("everything sent before has been handled by the node's recvRoutine").
// The harness records what happened (outcome flags); TLC judges (spec/trace/TMReactorTrace.tla).
// A panic outside the production recover kills this process: the runner records that as the
// outcome of the case that was executing and restarts the harness after it.

import (
	"encoding/binary"
	"encoding/json"
	"fmt"
	"os"
	"runtime"
	"strings"
	"sync"
	"sync/atomic"
	"time"

	"github.com/gogo/protobuf/proto"

	cfgpkg "github.com/tendermint/tendermint/config"
	tmlog "github.com/tendermint/tendermint/libs/log"
	"github.com/tendermint/tendermint/p2p"
	tmp2pproto "github.com/tendermint/tendermint/proto/tendermint/p2p"
)

const c17EchoChannel = byte(0x7e)

type c17Case struct {
	Unit    int    `json:"unit"`
	Reactor string `json:"reactor"`
	Kind    string `json:"kind"`
	FC      string `json:"fc"`
	PS      string `json:"ps"`
	Enc     string `json:"enc"`
}

type c17CaseInput struct {
	Cases  []c17Case `json:"cases"`
	Start  int       `json:"start"`
	Settle int       `json:"settle_ms"`
}

// ---------------------------------------------------------------- output
type c17Out struct {
	mu sync.Mutex
	f  *os.File
	n  int
}

func (o *c17Out) emit(m map[string]interface{}) {
	b, err := json.Marshal(m)
	if err != nil {
		panic(err)
	}
	o.mu.Lock()
	o.f.Write(append(b, '\n'))
	o.n++
	o.mu.Unlock()
}

// ---------------------------------------------------------------- recording logger (node side)
type c17RecLogger struct {
	mu     *sync.Mutex
	counts map[string]int
	last   *[]string
}

func c17NewRecLogger() *c17RecLogger {
	l := []string{}
	return &c17RecLogger{mu: &sync.Mutex{}, counts: map[string]int{}, last: &l}
}
func (l *c17RecLogger) Debug(msg string, kv ...interface{}) {}
func (l *c17RecLogger) Info(msg string, kv ...interface{})  {}
func (l *c17RecLogger) Error(msg string, kv ...interface{}) {
	l.mu.Lock()
	l.counts[msg]++
	if len(*l.last) < 2000 {
		*l.last = append(*l.last, msg)
	}
	l.mu.Unlock()
}
func (l *c17RecLogger) With(kv ...interface{}) tmlog.Logger { return l }
func (l *c17RecLogger) count(sub string) int {
	l.mu.Lock()
	defer l.mu.Unlock()
	n := 0
	for k, v := range l.counts {
		if strings.Contains(k, sub) {
			n += v
		}
	}
	return n
}

// ---------------------------------------------------------------- echo + stub reactors
type c17Echo struct { // node side: answers on the private channel
	p2p.BaseReactor
}

func c17NewEcho() *c17Echo {
	e := &c17Echo{}
	e.BaseReactor = *p2p.NewBaseReactor("c17Echo", e)
	return e
}
func (e *c17Echo) GetChannels() []*p2p.ChannelDescriptor {
	return []*p2p.ChannelDescriptor{{ID: c17EchoChannel, Priority: 1, SendQueueCapacity: 10,
		RecvMessageCapacity: 1024, MessageType: &tmp2pproto.PacketMsg{}}}
}
func (e *c17Echo) ReceiveEnvelope(env p2p.Envelope) {
	b, _ := proto.Marshal(env.Message)
	env.Src.TrySend(c17EchoChannel, b)
}

type c17Stub struct { // remote side: declares the same channels, records what comes back
	p2p.BaseReactor
	descs   []*p2p.ChannelDescriptor
	echo    chan uint64
	replies int32
}

func c17NewStub(descs []*p2p.ChannelDescriptor) *c17Stub {
	s := &c17Stub{echo: make(chan uint64, 256)}
	for _, d := range descs {
		c := *d
		s.descs = append(s.descs, &c)
	}
	s.descs = append(s.descs, c17NewEcho().GetChannels()[0])
	s.BaseReactor = *p2p.NewBaseReactor("c17Stub", s)
	return s
}
func (s *c17Stub) GetChannels() []*p2p.ChannelDescriptor { return s.descs }
func (s *c17Stub) ReceiveEnvelope(env p2p.Envelope) {
	if env.ChannelID == c17EchoChannel {
		if pm, ok := env.Message.(*tmp2pproto.PacketMsg); ok && len(pm.Data) == 8 {
			s.echo <- binary.BigEndian.Uint64(pm.Data)
		}
		return
	}
	atomic.AddInt32(&s.replies, 1)
}

// ---------------------------------------------------------------- environment
type c17Env struct {
	wedged   string // set once a liveness probe failed: later cases of this environment are not executed
	name     string
	switches []*p2p.Switch // 0 node, 1 evil, 2 honest
	stubs    [3]*c17Stub
	nlog     *c17RecLogger
	nonce    uint64
	caps     map[byte]int
}

func c17P2PConfig() *cfgpkg.P2PConfig {
	c := cfgpkg.DefaultP2PConfig()
	c.AllowDuplicateIP = true
	c.FlushThrottleTimeout = time.Millisecond
	c.SendRate = 1 << 30
	c.RecvRate = 1 << 30
	c.PexReactor = false
	return c
}

// reactors: the node's reactors by name (already constructed, not started)
func c17NewEnv(name string, reactors map[string]p2p.Reactor, order []string) *c17Env {
	env := &c17Env{name: name, nlog: c17NewRecLogger(), caps: map[byte]int{}}
	var descs []*p2p.ChannelDescriptor
	for _, n := range order {
		for _, d := range reactors[n].GetChannels() {
			descs = append(descs, d)
			env.caps[d.ID] = d.FillDefaults().RecvMessageCapacity
		}
	}
	cfg := c17P2PConfig()
	for i := 0; i < 3; i++ {
		i := i
		sw := p2p.MakeSwitch(cfg, i, "c17host", "123.123.123", func(_ int, sw *p2p.Switch) *p2p.Switch {
			if i == 0 {
				for _, n := range order {
					sw.AddReactor(n, reactors[n])
				}
				sw.AddReactor("c17echo", c17NewEcho())
			} else {
				env.stubs[i] = c17NewStub(descs)
				sw.AddReactor("c17stub", env.stubs[i])
			}
			return sw
		})
		if i == 0 {
			sw.SetLogger(env.nlog)
		} else {
			sw.SetLogger(tmlog.NewNopLogger())
		}
		env.switches = append(env.switches, sw)
	}
	if err := p2p.StartSwitches(env.switches); err != nil {
		panic(err)
	}
	p2p.Connect2Switches(env.switches, 0, 2)
	return env
}

func (env *c17Env) node() *p2p.Switch { return env.switches[0] }

func (env *c17Env) waitFor(cond func() bool, d time.Duration) bool {
	end := time.Now().Add(d)
	for !cond() {
		if time.Now().After(end) {
			return false
		}
		time.Sleep(200 * time.Microsecond)
	}
	return true
}

func (env *c17Env) peerOf(i int) p2p.Peer { // the peer object (towards the node) held by switch i
	l := env.switches[i].Peers().List()
	if len(l) == 0 {
		return nil
	}
	return l[0]
}

// (re)connect the evil switch with a brand-new connection, hence a brand-new peer state on the node
func (env *c17Env) reconnect() bool {
	evil := env.switches[1]
	if p := env.peerOf(1); p != nil {
		evil.StopPeerGracefully(p)
	}
	id := evil.NodeInfo().ID()
	if !env.waitFor(func() bool { return evil.Peers().Size() == 0 && !env.node().Peers().Has(id) }, 5*time.Second) {
		return false
	}
	for len(env.stubs[1].echo) > 0 {
		<-env.stubs[1].echo
	}
	p2p.Connect2Switches(env.switches, 0, 1)
	return env.waitFor(func() bool { return env.node().Peers().Has(id) && env.peerOf(1) != nil }, 5*time.Second)
}

func (env *c17Env) send(i int, ch byte, b []byte) bool {
	p := env.peerOf(i)
	if p == nil || !p.IsRunning() {
		return false
	}
	return p.Send(ch, b)
}

// everything switch i sent before has been handled by the node's recvRoutine for that peer
func (env *c17Env) barrier(i int) string {
	p := env.peerOf(i)
	id := env.switches[i].NodeInfo().ID()
	if p == nil || !p.IsRunning() || !env.node().Peers().Has(id) {
		return "stopped"
	}
	// wait until the queues towards the node are empty, so that the echo request cannot overtake
	env.waitFor(func() bool {
		for _, c := range p.Status().Channels {
			if c.SendQueueSize > 0 {
				return false
			}
		}
		return true
	}, 3*time.Second)
	env.nonce++
	var nb [8]byte
	binary.BigEndian.PutUint64(nb[:], env.nonce)
	b, _ := proto.Marshal(&tmp2pproto.PacketMsg{Data: nb[:]})
	p.Send(c17EchoChannel, b)
	end := time.After(12 * time.Second)
	tick := time.NewTicker(time.Millisecond)
	defer tick.Stop()
	for {
		select {
		case n := <-env.stubs[i].echo:
			if n == env.nonce {
				return "echo"
			}
		case <-tick.C:
			if !env.node().Peers().Has(id) {
				return "stopped"
			}
		case <-end:
			if !env.node().Peers().Has(id) {
				return "stopped"
			}
			return "timeout"
		}
	}
}

// heap probe.  Forcing a GC for every case is expensive; bytes allocated during a case (monotonic
// TotalAlloc) bound what the case can retain, so the precise measurement (GC, then HeapAlloc against
// the HeapAlloc after the previous forced GC) is taken only when a case allocated a lot.
var c17LastGCHeap int64 = -1

func c17TotalAlloc() int64 {
	var m runtime.MemStats
	runtime.ReadMemStats(&m)
	return int64(m.TotalAlloc)
}

func c17HeapAfterGC() int64 {
	runtime.GC()
	var m runtime.MemStats
	runtime.ReadMemStats(&m)
	return int64(m.HeapAlloc)
}

func c17Retained(allocated int64) int64 {
	if c17LastGCHeap < 0 {
		c17LastGCHeap = c17HeapAfterGC()
	}
	if allocated <= 256*1024 {
		return allocated
	}
	h := c17HeapAfterGC()
	ret := h - c17LastGCHeap
	c17LastGCHeap = h
	if ret < 0 {
		ret = 0
	}
	if ret > allocated {
		ret = allocated
	}
	return ret
}

func (env *c17Env) stop() {
	for _, sw := range env.switches {
		sw.Stop() //nolint:errcheck
	}
}

// ---------------------------------------------------------------- package hooks + generic runner
type c17Hooks interface {
	// environment (node state class) a peer-state class lives in
	envOf(ps string) string
	newEnv(name string) *c17Env
	// bring the evil peer into the peer-state class (valid messages through the real connection)
	prepare(env *c17Env, ps string)
	// concrete instance of the message class: channel and bytes
	build(env *c17Env, c c17Case) (byte, []byte, bool)
	// node-level liveness probe: "ok" or what hangs
	probe(env *c17Env) string
}

func c17WithTimeout(d time.Duration, f func()) bool {
	done := make(chan struct{})
	go func() { f(); close(done) }()
	select {
	case <-done:
		return true
	case <-time.After(d):
		return false
	}
}

func c17Mutate(enc string, b []byte) []byte {
	out := append([]byte{}, b...)
	switch enc {
	case "truncated":
		return out[:len(out)/2]
	case "truncated1":
		if len(out) > 0 {
			return out[:len(out)-1]
		}
	case "bitflip_first":
		if len(out) > 0 {
			out[0] ^= 0x08
		}
	case "bitflip_len":
		if len(out) > 1 {
			out[1] ^= 0x40
		}
	case "bitflip_mid":
		if len(out) > 0 {
			out[len(out)/2] ^= 0x80
		}
	case "bitflip_last":
		if len(out) > 0 {
			out[len(out)-1] ^= 0x01
		}
	case "garbage":
		for i := range out {
			out[i] = 0xff
		}
		if len(out) == 0 {
			out = []byte{0xff, 0xff, 0xff, 0xff}
		}
	case "append_junk":
		out = append(out, 0x7a, 0xff, 0xff, 0xff, 0xff, 0x0f)
	}
	return out
}

func c17Run(h c17Hooks, reactor string) {
	inPath, outPath := os.Getenv("VERIF_IN"), os.Getenv("VERIF_OUT")
	raw, err := os.ReadFile(inPath)
	if err != nil {
		panic(err)
	}
	var in c17CaseInput
	if err := json.Unmarshal(raw, &in); err != nil {
		panic(err)
	}
	f, err := os.OpenFile(outPath, os.O_CREATE|os.O_WRONLY|os.O_APPEND, 0o644)
	if err != nil {
		panic(err)
	}
	defer f.Close()
	out := &c17Out{f: f}
	settle := time.Duration(in.Settle) * time.Millisecond
	envs := map[string]*c17Env{}
	for _, c := range in.Cases {
		if c.Unit < in.Start || c.Reactor != reactor {
			continue
		}
		en := h.envOf(c.PS)
		env := envs[en]
		if env == nil {
			env = h.newEnv(en)
			envs[en] = env
		}
		base := map[string]interface{}{"run": c.Unit + 1, "unit": c.Unit, "reactor": c.Reactor, "kind": c.Kind,
			"fc": c.FC, "ps": c.PS, "enc": c.Enc}
		rs := map[string]interface{}{"ev": "Reset"}
		for k, v := range base {
			rs[k] = v
		}
		out.emit(rs)
		res := map[string]interface{}{"ev": "Hostile"}
		for k, v := range base {
			res[k] = v
		}
		t0 := time.Now()
		if env.wedged != "" {
			res["supported"], res["note"] = false, "node wedged by an earlier case: "+env.wedged
			c17Fill(res)
			out.emit(res)
			continue
		}
		if !env.reconnect() {
			res["supported"], res["note"] = false, "cannot (re)connect"
			c17Fill(res)
			out.emit(res)
			continue
		}
		var ch byte
		var msg []byte
		var ok bool
		if !c17WithTimeout(20*time.Second, func() {
			h.prepare(env, c.PS)
			ch, msg, ok = h.build(env, c)
		}) {
			env.wedged = "preparing the case hangs"
			res["supported"], res["note"] = false, "node wedged by an earlier case: "+env.wedged
			c17Fill(res)
			out.emit(res)
			continue
		}
		if !ok {
			res["supported"], res["note"] = false, "no builder"
			c17Fill(res)
			out.emit(res)
			continue
		}
		msg = c17Mutate(c.Enc, msg)
		pre := env.barrier(1)
		t1 := time.Now()
		if c17LastGCHeap < 0 || c.Unit%64 == 0 {
			c17LastGCHeap = c17HeapAfterGC()
		}
		alloc0 := c17TotalAlloc()
		t2 := time.Now()
		panics0, consfail0 := env.nlog.count("MConnection panicked"), env.nlog.count("CONSENSUS FAILURE")
		replies0 := atomic.LoadInt32(&env.stubs[1].replies)
		sent := env.send(1, ch, msg)
		bar := env.barrier(1)
		t3 := time.Now()
		time.Sleep(settle)
		id := env.switches[1].NodeInfo().ID()
		res["supported"], res["note"] = true, ""
		res["pre"] = pre
		res["sent"] = sent
		res["len"] = len(msg)
		res["barrier"] = bar
		res["stopped"] = !env.node().Peers().Has(id)
		res["panic_caught"] = env.nlog.count("MConnection panicked") - panics0
		res["consensus_failure"] = env.nlog.count("CONSENSUS FAILURE") - consfail0
		res["replies"] = int(atomic.LoadInt32(&env.stubs[1].replies) - replies0)
		res["honest"] = env.barrier(2)
		res["probe"] = h.probe(env)
		allocated := c17TotalAlloc() - alloc0
		res["allocated"] = allocated
		res["retained"] = c17Retained(allocated)
		res["cap"] = env.caps[ch]
		if res["probe"] != "ok" || bar == "timeout" {
			env.wedged = fmt.Sprintf("%v/%v after %s:%s:%s", res["probe"], bar, c.Kind, c.FC, c.PS)
		}
		res["us"] = []int64{t1.Sub(t0).Microseconds(), t2.Sub(t1).Microseconds(), t3.Sub(t2).Microseconds(), time.Since(t3).Microseconds()}
		out.emit(res)
	}
	out.emit(map[string]interface{}{"ev": "Done", "run": 0})
	for _, env := range envs {
		env.stop()
	}
}

func c17Fill(res map[string]interface{}) {
	for k, v := range map[string]interface{}{"pre": "n/a", "sent": false, "len": 0, "barrier": "n/a", "stopped": false,
		"panic_caught": 0, "consensus_failure": 0, "replies": 0, "honest": "n/a", "probe": "n/a", "retained": 0, "allocated": 0, "cap": 0, "us": []int64{}} {
		if _, ok := res[k]; !ok {
			res[k] = v
		}
	}
}
