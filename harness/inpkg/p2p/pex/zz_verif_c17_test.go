//go:build verif

package pex

// C17 harness, hostile half, PEX reactor (spec/TMReactorAlphabet.tla PexKinds/PexFC/PexPS).

import (
	"fmt"
	"os"
	"testing"
	"time"

	"github.com/gogo/protobuf/proto"

	"github.com/tendermint/tendermint/p2p"
	tmp2p "github.com/tendermint/tendermint/proto/tendermint/p2p"
)

type c17PexHooks struct {
	r    map[string]*Reactor
	book map[string]AddrBook
	n    int
}

func (h *c17PexHooks) envOf(ps string) string { return "node" }

func (h *c17PexHooks) newEnv(name string) *c17Env {
	r, book := createReactor(&ReactorConfig{})
	h.r[name], h.book[name] = r, book
	env := c17NewEnv(name, map[string]p2p.Reactor{"PEX": r}, []string{"PEX"})
	r.SetLogger(env.nlog)
	book.SetLogger(env.nlog)
	return env
}

func c17PexWrap(m proto.Message) []byte {
	if w, ok := m.(p2p.Wrapper); ok {
		m = w.Wrap()
	}
	b, err := proto.Marshal(m)
	if err != nil {
		panic(err)
	}
	return b
}

func (h *c17PexHooks) prepare(env *c17Env, ps string) {
	if ps == "requested" {
		id := env.switches[1].NodeInfo().ID()
		if p := env.node().Peers().Get(id); p != nil {
			h.r[env.name].RequestAddrs(p)
		}
	}
}

func (h *c17PexHooks) addr(k int) tmp2p.NetAddress {
	h.n++
	return tmp2p.NetAddress{ID: fmt.Sprintf("%040x", h.n*1000+k), IP: fmt.Sprintf("8.%d.%d.%d", 1+h.n%200, 1+k%250, 1+(h.n/200)%250), Port: 26656}
}

func (h *c17PexHooks) build(env *c17Env, c c17Case) (byte, []byte, bool) {
	switch c.Kind {
	case "PexRequest":
		req := c17PexWrap(&tmp2p.PexRequest{})
		switch c.FC {
		case "valid":
		case "twice":
			env.send(1, PexChannel, req)
		case "thrice":
			env.send(1, PexChannel, req)
			env.send(1, PexChannel, req)
		default:
			return 0, nil, false
		}
		return PexChannel, req, true
	case "PexAddrs":
		var addrs []tmp2p.NetAddress
		switch c.FC {
		case "unsolicited", "valid":
			addrs = []tmp2p.NetAddress{h.addr(0)}
		case "list_empty":
		case "id_bad":
			a := h.addr(0)
			a.ID = "zz-not-hex"
			addrs = []tmp2p.NetAddress{a}
		case "ip_bad":
			a := h.addr(0)
			a.IP = "999.1.1.1"
			addrs = []tmp2p.NetAddress{a}
		case "port_zero":
			a := h.addr(0)
			a.Port = 0
			addrs = []tmp2p.NetAddress{a}
		case "port_big":
			a := h.addr(0)
			a.Port = 65536 + 80
			addrs = []tmp2p.NetAddress{a}
		case "self":
			na, _ := env.node().NodeInfo().NetAddress()
			addrs = []tmp2p.NetAddress{na.ToProto()}
		case "private_ip":
			a := h.addr(0)
			a.IP = "10.0.0.1"
			addrs = []tmp2p.NetAddress{a}
		case "many":
			for k := 0; k < 900; k++ {
				addrs = append(addrs, h.addr(k))
			}
		case "dup":
			a := h.addr(0)
			addrs = []tmp2p.NetAddress{a, a, a}
		default:
			return 0, nil, false
		}
		if c.FC == "list_empty" {
			// PexAddrs{} inside the oneof is two bytes
			return PexChannel, c17PexWrap(&tmp2p.PexAddrs{}), true
		}
		return PexChannel, c17PexWrap(&tmp2p.PexAddrs{Addrs: addrs}), true
	case "Empty":
		return PexChannel, []byte{0x78, 0x01}, true
	}
	return 0, nil, false
}

func (h *c17PexHooks) probe(env *c17Env) string {
	book := h.book[env.name]
	if !c17WithTimeout(10*time.Second, func() { _ = book.Size(); _ = book.GetSelection() }) {
		return "address book locked"
	}
	return "ok"
}

func TestVerifC17Reactor(t *testing.T) {
	if os.Getenv("VERIF_IN") == "" || os.Getenv("VERIF_OUT") == "" {
		t.Skip("VERIF_IN / VERIF_OUT not set")
	}
	h := &c17PexHooks{r: map[string]*Reactor{}, book: map[string]AddrBook{}}
	c17Run(h, "pex")
	for _, b := range h.book {
		teardownReactor(b)
	}
}
