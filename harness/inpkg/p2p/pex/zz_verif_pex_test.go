//go:build verif

package pex

// PEX auxiliary check, address-book half: drives a REAL addrBook through its public API (schedules
// exported by TLC from spec/TMAddrBookSM.tla, plus seeded random / collision-heavy drivers), projects
// the real object to the abstract state of spec/TMAddrBook.tla after every call and writes NDJSON.
// No judgement is made here: spec/trace/TMAddrBookTrace.tla (TLC) decides.

import (
	"crypto/sha256"
	"encoding/hex"
	"encoding/json"
	"fmt"
	"math"
	"math/rand"
	"net"
	"os"
	"path/filepath"
	"sort"
	"strconv"
	"strings"
	"testing"
	"time"

	"github.com/tendermint/tendermint/libs/log"
	tmrand "github.com/tendermint/tendermint/libs/rand"
	"github.com/tendermint/tendermint/p2p"
)

type pexAbsAddr struct {
	ID   string `json:"id"`
	Ep   string `json:"ep"`
	Kind string `json:"kind,omitempty"` // ok | unroutable | invalid
}

type pexStep struct {
	Op   string     `json:"op"`
	A    pexAbsAddr `json:"a"`
	S    pexAbsAddr `json:"s"`
	ID   string     `json:"id"`
	D    int        `json:"d"`
	Bias int        `json:"bias"`
	Coin string     `json:"coin"`
}

type pexRun struct {
	ID     string    `json:"id"`
	Strict bool      `json:"strict"`
	Steps  []pexStep `json:"steps"`
	Raw    bool      `json:"raw"`
	Key    string    `json:"key"` // raw replays: the book's key and the hash key of every epoch, as logged
	HKs    []string  `json:"hks"`
}

type pexModel struct {
	Addrs []pexAbsAddr `json:"addrs"`
	Srcs  []pexAbsAddr `json:"srcs"`
	NB    int          `json:"nb"`
	OB    int          `json:"ob"`
	Nbt   [][4]int     `json:"nbt"` // addr index, src index, epoch, bucket
	Obt   [][3]int     `json:"obt"` // addr index, epoch, bucket
}

type pexInput struct {
	Model  pexModel `json:"model"`
	Runs   []pexRun `json:"runs"`
	Random int      `json:"random"`
	RandN  int      `json:"rand_steps"`
	Big    int      `json:"big"`
}

type pexDriver struct {
	t      *testing.T
	out    *os.File
	dir    string
	rng    *rand.Rand
	book   *addrBook
	strict bool
	epoch0 time.Time
	shift  time.Duration
	file   string
	nfile  int
	// realisation of the model universe
	real     map[string]*p2p.NetAddress // "id@ep" -> real address
	ids      map[string]string          // abstract id -> real id
	key      string
	hashKeys [][]byte
	hepoch   int
	forced   bool
	dead     bool
}

func pexHexID(n int) string { return fmt.Sprintf("%040x", n) }

func (d *pexDriver) emit(m map[string]interface{}) {
	b, err := json.Marshal(m)
	if err != nil {
		d.t.Fatal(err)
	}
	d.out.Write(append(b, '\n'))
}

func (d *pexDriver) vnow() time.Time { return time.Now().Add(d.shift) }

func (d *pexDriver) min(t time.Time) int {
	if t.IsZero() {
		return -1
	}
	return int(math.Round(float64(t.Add(d.shift).Sub(d.epoch0)) / float64(time.Minute)))
}

func pexAddrJSON(a *p2p.NetAddress) map[string]interface{} {
	if a == nil {
		return map[string]interface{}{"id": "nil", "ep": "nil"}
	}
	return map[string]interface{}{"id": string(a.ID), "ep": a.DialString()}
}

func pexKeyJSON(s string) map[string]interface{} {
	i := strings.Index(s, "@")
	if i < 0 {
		return map[string]interface{}{"id": "", "ep": s}
	}
	return map[string]interface{}{"id": s[:i], "ep": s[i+1:]}
}

func (d *pexDriver) kaJSON(ka *knownAddress) map[string]interface{} {
	typ := "other"
	if ka.BucketType == bucketTypeNew {
		typ = "new"
	} else if ka.BucketType == bucketTypeOld {
		typ = "old"
	}
	bk := make([]int, 0, len(ka.Buckets))
	bk = append(bk, ka.Buckets...)
	return map[string]interface{}{"addr": pexAddrJSON(ka.Addr), "src": pexAddrJSON(ka.Src), "bkts": bk,
		"att": int(ka.Attempts), "typ": typ, "la": d.min(ka.LastAttempt), "ls": d.min(ka.LastSuccess), "lb": d.min(ka.LastBanTime)}
}

func (d *pexDriver) sentinelKA() map[string]interface{} {
	return map[string]interface{}{"addr": pexAddrJSON(nil), "src": pexAddrJSON(nil), "bkts": []int{},
		"att": 0, "typ": "none", "la": -1, "ls": -1, "lb": -1}
}

// projection of the real object: addrLookup, badPeers, counters, own/private sets and the RAW
// content of both bucket arrays (redundant representation, compared by the trace spec)
func (d *pexDriver) post() map[string]interface{} {
	a := d.book
	ka := map[string]interface{}{"_": d.sentinelKA()}
	for id, k := range a.addrLookup {
		ka[string(id)] = d.kaJSON(k)
	}
	bad := map[string]interface{}{"_": d.sentinelKA()}
	for id, k := range a.badPeers {
		bad[string(id)] = d.kaJSON(k)
	}
	our := []interface{}{}
	for s := range a.ourAddrs {
		our = append(our, pexKeyJSON(s))
	}
	priv := []string{}
	for id := range a.privateIDs {
		priv = append(priv, string(id))
	}
	sort.Strings(priv)
	ents := []interface{}{}
	add := func(t string, bs []map[string]*knownAddress) {
		for i, b := range bs {
			for key, k := range b {
				same := a.addrLookup[k.ID()] == k
				ents = append(ents, map[string]interface{}{"t": t, "b": i, "key": key, "id": string(k.ID()), "same": same})
			}
		}
	}
	add("new", a.bucketsNew)
	add("old", a.bucketsOld)
	return map[string]interface{}{"nNew": a.nNew, "nOld": a.nOld, "ka": ka, "bad": bad, "our": our, "priv": priv, "ents": ents}
}

func pexErrName(err error) string {
	switch err.(type) {
	case nil:
		return "nil"
	case ErrAddrBookNilAddr:
		return "nil_addr"
	case ErrAddrBookInvalidAddr:
		return "invalid"
	case ErrAddressBanned:
		return "banned"
	case ErrAddrBookPrivate:
		return "private"
	case ErrAddrBookPrivateSrc:
		return "private_src"
	case ErrAddrBookSelf:
		return "self"
	case ErrAddrBookNonRoutable:
		return "nonroutable"
	case errAddrBookOldAddressNewBucket:
		return "old_in_new"
	}
	return "other"
}

func (d *pexDriver) params() map[string]interface{} {
	return map[string]interface{}{"nb": newBucketCount, "ob": oldBucketCount, "nbs": newBucketSize, "obs": oldBucketSize,
		"maxper": maxNewBucketsPerAddress, "minsel": minGetSelection, "maxsel": maxGetSelection,
		"selpct": getSelectionPercent, "need": needAddressThreshold}
}

func (d *pexDriver) newBook(strict bool) *addrBook {
	d.nfile++
	d.file = filepath.Join(d.dir, fmt.Sprintf("book%d.json", d.nfile))
	b := NewAddrBook(d.file, strict).(*addrBook)
	b.SetLogger(log.NewNopLogger())
	return b
}

func (d *pexDriver) force() {
	if d.forced {
		d.book.hashKey = d.hashKeys[d.hepoch%len(d.hashKeys)]
		if d.hepoch == 0 {
			d.book.key = d.key
		}
	}
}

func (d *pexDriver) reset(id string, strict bool, forced bool, kind string) {
	d.strict = strict
	d.shift = 0
	d.epoch0 = time.Now()
	d.forced = forced
	d.hepoch = 0
	d.dead = false
	d.book = d.newBook(strict)
	d.force()
	d.book.rand.Seed(d.rng.Int63())
	d.emit(map[string]interface{}{"ev": "Reset", "run": id, "kind": kind, "strict": strict, "p": d.params(), "now": 0, "post": d.post(),
		"key": d.book.key, "hk": hex.EncodeToString(d.book.hashKey)})
}

// call f on the real book; a panic is data, not a verdict
func pexGuard(f func()) (p string) {
	defer func() {
		if r := recover(); r != nil {
			p = fmt.Sprint(r)
			if len(p) > 200 {
				p = p[:200]
			}
		}
	}()
	f()
	return ""
}

func (d *pexDriver) bucketOf(addr, src *p2p.NetAddress) int {
	if addr == nil || src == nil || addr.IP == nil || src.IP == nil {
		return -1
	}
	b, err := d.book.calcNewBucket(addr, src)
	if err != nil {
		return -1
	}
	return b
}

func (d *pexDriver) nbfOf(kas map[p2p.ID]*knownAddress) map[string]interface{} {
	m := map[string]interface{}{"_": -1}
	for id, k := range kas {
		m[string(id)] = d.bucketOf(k.Addr, k.Src)
	}
	return m
}

// give book.rand a state whose next Int31n(factor) is zero (want) or non-zero
func (d *pexDriver) forceCoin(factor int32, add bool) {
	for s := int64(1); s < 10000; s++ {
		r := tmrand.NewRand()
		r.Seed(s)
		if (r.Int31n(factor) == 0) == add {
			d.book.rand.Seed(s)
			return
		}
	}
}

func (d *pexDriver) tick(mins int) {
	dd := time.Duration(mins) * time.Minute
	sh := func(k *knownAddress) {
		k.LastAttempt = k.LastAttempt.Add(-dd)
		if !k.LastSuccess.IsZero() {
			k.LastSuccess = k.LastSuccess.Add(-dd)
		}
		if !k.LastBanTime.IsZero() {
			k.LastBanTime = k.LastBanTime.Add(-dd)
		}
	}
	for _, k := range d.book.addrLookup {
		sh(k)
	}
	for _, k := range d.book.badPeers {
		sh(k)
	}
	d.shift += dd
}

func pexSelJSON(sel []*p2p.NetAddress) []interface{} {
	out := []interface{}{}
	for _, a := range sel {
		out = append(out, pexAddrJSON(a))
	}
	return out
}

// one API call on the real book; addr/src are REAL addresses (nil allowed for AddAddress)
func (d *pexDriver) do(op string, addr, src *p2p.NetAddress, id string, n int, coin string) {
	if d.dead {
		return
	}
	a := d.book
	ev := map[string]interface{}{"ev": op, "now": d.min(time.Now()), "pwhere": ""}
	var pn string
	switch op {
	case "AddOurAddress":
		ev["a"] = pexAddrJSON(addr)
		pn = pexGuard(func() { a.AddOurAddress(addr) })
	case "AddPrivateIDs":
		ev["ids"] = []string{id}
		pn = pexGuard(func() { a.AddPrivateIDs([]string{id}) })
	case "AddAddress":
		ev["a"], ev["s"] = pexAddrJSON(addr), pexAddrJSON(src)
		valid, routable := false, false
		if addr != nil {
			valid, routable = addr.Valid() == nil, addr.Routable()
		}
		ev["valid"], ev["routable"], ev["nb"] = valid, routable, d.bucketOf(addr, src)
		if addr != nil {
			if k := a.addrLookup[addr.ID]; k != nil && len(k.Buckets) > 0 && (coin == "add" || coin == "skip") {
				d.forceCoin(int32(2*len(k.Buckets)), coin == "add")
			}
		}
		var err error
		pn = pexGuard(func() { err = a.AddAddress(addr, src) })
		ev["err"] = pexErrName(err)
	case "RemoveAddress":
		ev["a"] = pexAddrJSON(addr)
		pn = pexGuard(func() { a.RemoveAddress(addr) })
	case "MarkGood":
		ev["id"] = id
		ob := -1
		members := map[p2p.ID]*knownAddress{}
		if k := a.addrLookup[p2p.ID(id)]; k != nil {
			if x, err := a.calcOldBucket(k.Addr); err == nil {
				ob = x
				for _, m := range a.bucketsOld[ob] {
					members[m.ID()] = m
				}
			}
		}
		ev["ob"], ev["nbf"] = ob, d.nbfOf(members)
		pn = pexGuard(func() { a.MarkGood(p2p.ID(id)) })
	case "MarkAttempt":
		ev["a"] = pexAddrJSON(addr)
		pn = pexGuard(func() { a.MarkAttempt(addr) })
	case "MarkBad":
		ev["a"], ev["d"] = pexAddrJSON(addr), n
		pn = pexGuard(func() { a.MarkBad(addr, time.Duration(n)*time.Minute) })
	case "ReinstateBadPeers":
		ev["nbf"] = d.nbfOf(a.badPeers)
		pn = pexGuard(func() { a.ReinstateBadPeers() })
	case "PickAddress":
		ev["bias"] = n
		var res *p2p.NetAddress
		done := make(chan string, 1)
		go func() { done <- pexGuard(func() { res = a.PickAddress(n) }) }()
		select {
		case pn = <-done:
		case <-time.After(5 * time.Second):
			pn = "hang: PickAddress did not return within 5s"
			d.dead = true
		}
		if res == nil {
			ev["res"] = map[string]interface{}{"id": "none", "ep": "none"}
		} else {
			ev["res"] = pexAddrJSON(res)
		}
	case "GetSelection":
		var sel []*p2p.NetAddress
		pn = pexGuard(func() { sel = a.GetSelection() })
		ev["sel"] = pexSelJSON(sel)
	case "GetSelectionWithBias":
		ev["bias"] = n
		var sel []*p2p.NetAddress
		pn = pexGuard(func() { sel = a.GetSelectionWithBias(n) })
		ev["sel"] = pexSelJSON(sel)
	case "Queries":
		ev["a"] = pexAddrJSON(addr)
		ev["has"], ev["good"], ev["banned"], ev["ourq"], ev["size"], ev["empty"], ev["need"] = false, false, false, false, -1, false, false
		pn = pexGuard(func() {
			ev["has"], ev["banned"], ev["ourq"] = a.HasAddress(addr), a.IsBanned(addr), a.OurAddress(addr)
			ev["size"], ev["empty"], ev["need"] = a.Size(), a.Empty(), a.NeedMoreAddrs()
		})
		if p2 := pexGuard(func() { ev["good"] = a.IsGood(addr) }); p2 != "" {
			pn = p2
			ev["pwhere"] = "IsGood"
		}
	case "Tick":
		ev["d"] = n
		d.tick(n)
		ev["now"] = d.min(time.Now())
	case "Restart":
		// Save(); the process goes away; NewAddrBook + what OnStart does before saveRoutine
		pn = pexGuard(func() { a.Save() })
		file := d.file
		nb := d.newBook(d.strict)
		d.hepoch++
		d.book = nb
		d.force()
		if pn == "" {
			pn = pexGuard(func() { nb.loadFromFile(file) })
		}
		nb.rand.Seed(d.rng.Int63())
		ev["hk"] = hex.EncodeToString(nb.hashKey)
	default:
		d.t.Fatalf("unknown op %q", op)
	}
	ev["panic"] = pn
	ev["post"] = d.post()
	d.emit(ev)
	if pn != "" && op != "Queries" {
		// a panic inside a critical section leaves the object (e.g. the lock of its tmrand.Rand) in an
		// undefined state: the run ends here, the panic is on record
		d.dead = true
	}
}

// ------------------------------------------------------------------ model universe -> real addresses
func (d *pexDriver) randIP() net.IP {
	for {
		ip := net.IPv4(byte(1+d.rng.Intn(222)), byte(d.rng.Intn(256)), byte(d.rng.Intn(256)), byte(1+d.rng.Intn(254)))
		na := p2p.NewNetAddressIPPort(ip, 26656)
		na.ID = p2p.ID(pexHexID(1))
		if na.Routable() && na.Valid() == nil {
			return ip
		}
	}
}

func (d *pexDriver) realize(m pexModel, seed int64) {
	d.real = map[string]*p2p.NetAddress{}
	d.ids = map[string]string{}
	d.key = fmt.Sprintf("%024x", seed)
	d.hashKeys = nil
	for e := 0; e < 3; e++ {
		h := sha256.Sum256([]byte(fmt.Sprintf("verif-pex-%d-%d", seed, e)))
		d.hashKeys = append(d.hashKeys, h[:])
	}
	nid := 0
	idOf := func(abs string) string {
		if _, ok := d.ids[abs]; !ok {
			nid++
			d.ids[abs] = pexHexID(0xabc000 + nid)
		}
		return d.ids[abs]
	}
	probe := NewAddrBook(filepath.Join(d.dir, "probe.json"), true).(*addrBook)
	probe.key = d.key
	match := newBucketCount == m.NB && oldBucketCount == m.OB
	srcs := make([]*p2p.NetAddress, len(m.Srcs))
	for j, s := range m.Srcs {
		na := p2p.NewNetAddressIPPort(net.IPv4(byte(60+j), byte(10+j), 1, 1), 26656)
		na.ID = p2p.ID(idOf(s.ID))
		srcs[j] = na
		d.real[s.ID+"@"+s.Ep] = na
	}
	for i, a := range m.Addrs {
		var na *p2p.NetAddress
		switch a.Kind {
		case "invalid":
			na = p2p.NewNetAddressIPPort(net.IPv4(byte(70+i), 1, 1, 1), 26656)
			na.ID = p2p.ID("nothex-" + a.ID)
		case "unroutable":
			na = p2p.NewNetAddressIPPort(net.IPv4(192, 168, byte(i), 7), 26656)
			na.ID = p2p.ID(idOf(a.ID))
		default:
			for try := 0; ; try++ {
				na = p2p.NewNetAddressIPPort(d.randIP(), uint16(26000+d.rng.Intn(1000)))
				na.ID = p2p.ID(idOf(a.ID))
				ok := true
				if match && try < 2000000 {
					for _, c := range m.Nbt {
						if c[0] != i {
							continue
						}
						probe.hashKey = d.hashKeys[c[2]]
						if b, _ := probe.calcNewBucket(na, srcs[c[1]]); b != c[3] {
							ok = false
							break
						}
					}
					for _, c := range m.Obt {
						if !ok || c[0] != i {
							continue
						}
						probe.hashKey = d.hashKeys[c[1]]
						if b, _ := probe.calcOldBucket(na); b != c[2] {
							ok = false
						}
					}
				}
				if ok {
					break
				}
			}
		}
		d.real[a.ID+"@"+a.Ep] = na
	}
}

func (d *pexDriver) lookup(a pexAbsAddr) *p2p.NetAddress {
	if a.ID == "nil" || a.ID == "" || a.ID == "none" {
		return nil
	}
	if a.Kind == "raw" {
		host, port, err := net.SplitHostPort(a.Ep)
		if err != nil {
			return nil
		}
		pn, _ := strconv.Atoi(port)
		na := p2p.NewNetAddressIPPort(net.ParseIP(host), uint16(pn))
		na.ID = p2p.ID(a.ID)
		return na
	}
	return d.real[a.ID+"@"+a.Ep]
}

func (d *pexDriver) modelRun(r pexRun) {
	if r.Raw && len(r.HKs) > 0 {
		d.key = r.Key
		d.hashKeys = nil
		for _, h := range r.HKs {
			b, _ := hex.DecodeString(h)
			d.hashKeys = append(d.hashKeys, b)
		}
	}
	d.reset(r.ID, r.Strict, !r.Raw || len(r.HKs) > 0, "model")
	for _, s := range r.Steps {
		id := s.ID
		if rid, ok := d.ids[id]; ok {
			id = rid
		}
		n := s.D
		if s.Op == "PickAddress" || s.Op == "GetSelectionWithBias" {
			n = s.Bias
		}
		d.do(s.Op, d.lookup(s.A), d.lookup(s.S), id, n, s.Coin)
	}
}

// ------------------------------------------------------------------ random drivers
type pexUniverse struct {
	addrs []*p2p.NetAddress
	srcs  []*p2p.NetAddress
	odd   []*p2p.NetAddress // invalid / unroutable / nil candidates
}

// addresses from few /16 groups (so that new buckets collide), some sharing an ID
func (d *pexDriver) universe(n, groups int) *pexUniverse {
	u := &pexUniverse{}
	gs := make([][2]byte, groups)
	for i := range gs {
		ip := d.randIP().To4()
		gs[i] = [2]byte{ip[0], ip[1]}
	}
	for i := 0; i < n; i++ {
		g := gs[d.rng.Intn(groups)]
		na := p2p.NewNetAddressIPPort(net.IPv4(g[0], g[1], byte(d.rng.Intn(256)), byte(1+d.rng.Intn(254))), uint16(26000+d.rng.Intn(100)))
		na.ID = p2p.ID(pexHexID(0x100000 + i))
		if i > 0 && d.rng.Intn(12) == 0 {
			na.ID = u.addrs[d.rng.Intn(i)].ID // same peer, other endpoint
		}
		u.addrs = append(u.addrs, na)
	}
	for j := 0; j < 3; j++ {
		g := gs[j%groups]
		na := p2p.NewNetAddressIPPort(net.IPv4(g[0], g[1], 200, byte(1+j)), 26656)
		if j == 2 {
			na = p2p.NewNetAddressIPPort(d.randIP(), 26656)
		}
		na.ID = p2p.ID(pexHexID(0x900000 + j))
		u.srcs = append(u.srcs, na)
	}
	bad := p2p.NewNetAddressIPPort(net.IPv4(10, 1, 2, 3), 26656)
	bad.ID = p2p.ID(pexHexID(0x800001))
	lo := p2p.NewNetAddressIPPort(net.IPv4(127, 0, 0, 1), 26656)
	lo.ID = p2p.ID(pexHexID(0x800002))
	inv := p2p.NewNetAddressIPPort(net.IPv4(0, 0, 0, 0), 26656)
	inv.ID = p2p.ID(pexHexID(0x800003))
	inv2 := p2p.NewNetAddressIPPort(d.randIP(), 26656)
	inv2.ID = p2p.ID("zz")
	u.odd = []*p2p.NetAddress{bad, lo, inv, inv2}
	return u
}

func (d *pexDriver) randomRun(id string, steps int, u *pexUniverse, strict bool, kind string) {
	d.reset(id, strict, false, kind)
	biases := []int{-5, 0, 10, 30, 50, 90, 99, 100, 150}
	pick := func() *p2p.NetAddress { return u.addrs[d.rng.Intn(len(u.addrs))] }
	for i := 0; i < steps && !d.dead; i++ {
		x := d.rng.Intn(100)
		switch {
		case x < 38:
			a, s := pick(), u.srcs[d.rng.Intn(len(u.srcs))]
			if d.rng.Intn(15) == 0 {
				a = u.odd[d.rng.Intn(len(u.odd))]
			}
			if d.rng.Intn(60) == 0 {
				a = nil
			}
			if d.rng.Intn(20) == 0 {
				s = a // inbound peer: its own source
			}
			d.do("AddAddress", a, s, "", 0, "")
		case x < 58:
			d.do("MarkGood", nil, nil, string(pick().ID), 0, "")
		case x < 66:
			d.do("MarkAttempt", pick(), nil, "", 0, "")
		case x < 71:
			d.do("MarkBad", pick(), nil, "", []int{0, 3, 7}[d.rng.Intn(3)], "")
		case x < 75:
			d.do("ReinstateBadPeers", nil, nil, "", 0, "")
		case x < 78:
			d.do("RemoveAddress", pick(), nil, "", 0, "")
		case x < 82:
			d.do("Tick", nil, nil, "", []int{2, 2, 4, 10082}[d.rng.Intn(4)], "")
		case x < 86:
			d.do("PickAddress", nil, nil, "", biases[d.rng.Intn(len(biases))], "")
		case x < 89:
			d.do("GetSelection", nil, nil, "", 0, "")
		case x < 93:
			d.do("GetSelectionWithBias", nil, nil, "", biases[d.rng.Intn(len(biases))], "")
		case x < 96:
			d.do("Queries", pick(), nil, "", 0, "")
		case x < 97:
			d.do("AddOurAddress", pick(), nil, "", 0, "")
		case x < 98:
			d.do("AddPrivateIDs", nil, nil, string(pick().ID), 0, "")
		default:
			d.do("Restart", nil, nil, "", 0, "")
		}
	}
}

// many addresses that share ONE new bucket (same group, same source) and ONE old bucket: fills the
// buckets of the production constants to the brim (eviction, displacement, selection limits)
func (d *pexDriver) bigRun(id string, k int) {
	d.reset(id, true, false, "big")
	a := d.book
	src := p2p.NewNetAddressIPPort(d.randIP(), 26656)
	src.ID = p2p.ID(pexHexID(0x700000))
	g := d.randIP().To4()
	want := -1
	var addrs []*p2p.NetAddress
	n := newBucketSize + 4 + d.rng.Intn(4)
	for i := 0; len(addrs) < n && i < 100000; i++ {
		na := p2p.NewNetAddressIPPort(net.IPv4(g[0], g[1], byte(d.rng.Intn(256)), byte(1+d.rng.Intn(254))), uint16(20000+i%20000))
		na.ID = p2p.ID(pexHexID(0x200000 + k*100000 + i))
		ob, err := a.calcOldBucket(na)
		if err != nil {
			continue
		}
		if want < 0 {
			want = ob
		}
		if ob == want {
			addrs = append(addrs, na)
		}
	}
	for i, na := range addrs {
		d.do("AddAddress", na, src, "", 0, "")
		if i%9 == 4 {
			d.do("MarkAttempt", na, nil, "", 0, "")
			d.do("MarkAttempt", na, nil, "", 0, "")
			d.do("MarkAttempt", na, nil, "", 0, "")
		}
		if i == len(addrs)/2 {
			d.do("Tick", nil, nil, "", 2, "")
		}
	}
	d.do("GetSelection", nil, nil, "", 0, "")
	d.do("GetSelectionWithBias", nil, nil, "", 100, "")
	d.do("GetSelectionWithBias", nil, nil, "", 30, "")
	d.do("PickAddress", nil, nil, "", 100, "")
	perm := d.rng.Perm(len(addrs))
	for j, i := range perm {
		d.do("MarkGood", nil, nil, string(addrs[i].ID), 0, "")
		if j%7 == 3 {
			d.do("Tick", nil, nil, "", 2, "")
		}
		if j == 10 {
			d.do("GetSelectionWithBias", nil, nil, "", 100, "")
			d.do("GetSelectionWithBias", nil, nil, "", 0, "")
			d.do("GetSelectionWithBias", nil, nil, "", 99, "")
		}
		if j == 2*len(perm)/3 {
			// the addresses evicted from the crowded new bucket come back
			for _, na := range addrs {
				d.do("AddAddress", na, src, "", 0, "")
			}
		}
	}
	d.do("PickAddress", nil, nil, "", 100, "")
	d.do("PickAddress", nil, nil, "", 0, "")
	for _, i := range d.rng.Perm(len(addrs))[:12] {
		d.do("MarkBad", addrs[i], nil, "", []int{0, 3}[d.rng.Intn(2)], "")
	}
	d.do("Tick", nil, nil, "", 2, "")
	d.do("ReinstateBadPeers", nil, nil, "", 0, "")
	d.do("Tick", nil, nil, "", 2, "")
	d.do("ReinstateBadPeers", nil, nil, "", 0, "")
	d.do("Restart", nil, nil, "", 0, "")
	for _, i := range d.rng.Perm(len(addrs))[:20] {
		d.do("AddAddress", addrs[i], src, "", 0, "")
		d.do("Queries", addrs[i], nil, "", 0, "")
	}
	d.do("GetSelection", nil, nil, "", 0, "")
}

func TestVerifPEX(t *testing.T) {
	inp, outDir := os.Getenv("VERIF_IN"), os.Getenv("VERIF_OUT")
	if inp == "" || outDir == "" {
		t.Skip("VERIF_IN / VERIF_OUT not set")
	}
	raw, err := os.ReadFile(inp)
	if err != nil {
		t.Fatal(err)
	}
	var in pexInput
	if err := json.Unmarshal(raw, &in); err != nil {
		t.Fatal(err)
	}
	seed, _ := strconv.ParseInt(os.Getenv("VERIF_SEED"), 10, 64)
	dir, err := os.MkdirTemp("", "verif-pex")
	if err != nil {
		t.Fatal(err)
	}
	defer os.RemoveAll(dir)
	out, err := os.Create(filepath.Join(outDir, "book.ndjson"))
	if err != nil {
		t.Fatal(err)
	}
	defer out.Close()
	d := &pexDriver{t: t, out: out, dir: dir, rng: rand.New(rand.NewSource(seed*7919 + 17))}
	if len(in.Runs) > 0 {
		d.realize(in.Model, seed)
		for _, r := range in.Runs {
			d.modelRun(r)
		}
	}
	for i := 0; i < in.Random; i++ {
		n, g := 6+d.rng.Intn(10), 1+d.rng.Intn(2)
		if newBucketCount > 8 {
			n, g = 20+d.rng.Intn(30), 1+d.rng.Intn(3)
		}
		d.randomRun(fmt.Sprintf("rnd%d", i), in.RandN, d.universe(n, g), d.rng.Intn(4) != 0, "random")
	}
	for i := 0; i < in.Big; i++ {
		d.bigRun(fmt.Sprintf("big%d", i), i)
	}
}
