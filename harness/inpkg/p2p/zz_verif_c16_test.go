//go:build verif

package p2p

// C16 harness, IdentityBound part (see /verif/DESIGN.md section 5, C16; spec/TMPeerUpgrade.tla).
//
// Every case enumerated by TLC from TMPeerUpgrade!Cases is executed on the REAL
// MultiplexTransport.upgrade over a net.Pipe: the remote side is played by this driver (a
// real MakeSecretConnection with the case's key, then a NodeInfo claiming the case's ID, or
// the case's failure).  The outcome and the identities the transport returned are logged;
// spec/trace/TMPeerUpgradeTrace.tla judges them.  No verdicts here.

import (
	"encoding/json"
	"fmt"
	"net"
	"os"
	"strings"
	"testing"
	"time"

	"github.com/tendermint/tendermint/crypto/ed25519"
	"github.com/tendermint/tendermint/libs/protoio"
	"github.com/tendermint/tendermint/p2p/conn"
	tmp2p "github.com/tendermint/tendermint/proto/tendermint/p2p"
)

type c16UpCase struct {
	Dialed  string `json:"dialed"`
	ScOK    bool   `json:"scOK"`
	ConnKey string `json:"connKey"`
	InfoOK  bool   `json:"infoOK"`
	InfoID  string `json:"infoID"`
	Valid   bool   `json:"valid"`
	Compat  bool   `json:"compat"`
}

func c16UpNodeInfo(id ID, moniker, network string) DefaultNodeInfo {
	return DefaultNodeInfo{
		ProtocolVersion: defaultProtocolVersion,
		DefaultNodeID:   id,
		ListenAddr:      "127.0.0.1:26656",
		Network:         network,
		Version:         "1.2.3-rc0-deadbeef",
		Channels:        []byte{testCh},
		Moniker:         moniker,
		Other:           DefaultNodeInfoOther{TxIndex: "on", RPCAddress: "127.0.0.1:26657"},
	}
}

func c16UpClass(err error) string {
	if err == nil {
		return "ok"
	}
	r, ok := err.(ErrRejected)
	if !ok {
		return "other:" + err.Error()
	}
	s := ""
	if r.err != nil {
		s = r.err.Error()
	}
	switch {
	case r.IsSelf():
		return "self"
	case r.IsIncompatible():
		return "incompatible"
	case r.IsNodeInfoInvalid():
		return "nodeinfo_invalid"
	case r.IsAuthFailure() && strings.HasPrefix(s, "secret conn failed"):
		return "secret_conn_failed"
	case r.IsAuthFailure() && strings.Contains(s, "dialed ID"):
		return "dialed_id_mismatch"
	case r.IsAuthFailure() && strings.HasPrefix(s, "handshake failed"):
		return "handshake_failed"
	case r.IsAuthFailure() && strings.Contains(s, "NodeInfo.ID"):
		return "nodeinfo_id_mismatch"
	}
	return "other:" + err.Error()
}

func TestVerifC16Upgrade(t *testing.T) {
	inPath, outDir := os.Getenv("VERIF_IN"), os.Getenv("VERIF_OUT")
	if inPath == "" || outDir == "" {
		t.Skip("VERIF_IN / VERIF_OUT not set")
	}
	raw, err := os.ReadFile(inPath)
	if err != nil {
		t.Fatal(err)
	}
	var cases []c16UpCase
	if err := json.Unmarshal(raw, &cases); err != nil {
		t.Fatal(err)
	}
	seed := os.Getenv("VERIF_SEED")
	keys := map[string]ed25519.PrivKey{}
	ids := map[ID]string{}
	for _, n := range []string{"S", "P", "Q"} {
		keys[n] = ed25519.GenPrivKeyFromSecret([]byte("c16-upgrade/" + seed + "/" + n))
		ids[PubKeyToID(keys[n].PubKey())] = n
	}
	idName := func(id ID) string {
		if n, ok := ids[id]; ok {
			return n
		}
		return "?" + string(id)
	}
	f, err := os.Create(outDir + "/upgrade.ndjson")
	if err != nil {
		t.Fatal(err)
	}
	defer f.Close()
	enc := json.NewEncoder(f)

	selfID := PubKeyToID(keys["S"].PubKey())
	for ci, c := range cases {
		mt := NewMultiplexTransport(c16UpNodeInfo(selfID, "self", "testing"), NodeKey{PrivKey: keys["S"]},
			conn.DefaultMConnConfig())
		mt.handshakeTimeout = 2 * time.Second
		c1, c2 := net.Pipe()
		remoteDone := make(chan struct{})
		go func(c c16UpCase) {
			defer close(remoteDone)
			defer c2.Close()
			if !c.ScOK {
				return // the remote hangs up before the key exchange
			}
			_ = c2.SetDeadline(time.Now().Add(3 * time.Second))
			sc, err := conn.MakeSecretConnection(c2, keys[c.ConnKey])
			if err != nil {
				return
			}
			if !c.InfoOK {
				// ... or after it, once the transport has started the NodeInfo exchange
				var theirs tmp2p.DefaultNodeInfo
				_, _ = protoio.NewDelimitedReader(sc, MaxNodeInfoSize()).ReadMsg(&theirs)
				return
			}
			moniker, network := "remote", "testing"
			if !c.Valid {
				moniker = ""
			}
			if !c.Compat {
				network = "some-other-chain"
			}
			ni := c16UpNodeInfo(PubKeyToID(keys[c.InfoID].PubKey()), moniker, network)
			wrote := make(chan struct{})
			go func() {
				defer close(wrote)
				_, _ = protoio.NewDelimitedWriter(sc).WriteMsg(ni.ToProto())
			}()
			var theirs tmp2p.DefaultNodeInfo
			_, _ = protoio.NewDelimitedReader(sc, MaxNodeInfoSize()).ReadMsg(&theirs)
			<-wrote
			// keep the pipe open until the transport has decided
			buf := make([]byte, 1)
			_, _ = sc.Read(buf)
		}(c)

		var dialed *NetAddress
		if c.Dialed != "none" {
			dialed = &NetAddress{ID: PubKeyToID(keys[c.Dialed].PubKey()), IP: net.ParseIP("127.0.0.1"), Port: 26656}
		}
		sc, ni, uerr := mt.upgrade(c1, dialed)
		obsConn, obsInfo := "none", "none"
		if uerr == nil {
			obsConn = idName(PubKeyToID(sc.RemotePubKey()))
			obsInfo = idName(ni.ID())
		}
		_ = c1.Close()
		<-remoteDone
		row := map[string]interface{}{"ev": "Upgrade", "case": ci, "dialed": c.Dialed, "scOK": c.ScOK, "connKey": c.ConnKey,
			"infoOK": c.InfoOK, "infoID": c.InfoID, "valid": c.Valid, "compat": c.Compat,
			"res": c16UpClass(uerr), "obsConn": obsConn, "obsInfo": obsInfo}
		if err := enc.Encode(row); err != nil {
			t.Fatal(err)
		}
	}
	t.Logf("C16 upgrade harness: %d cases", len(cases))
	_ = fmt.Sprintf
}
