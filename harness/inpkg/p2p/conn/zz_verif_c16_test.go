//go:build verif

package conn

// C16 harness (see /verif/DESIGN.md section 5, C16; spec/TMSecretConn.tla).
//
// Two REAL MakeSecretConnection endpoints (A, B) run over an interposed pipe owned by this
// driver.  The driver is the Dolev-Yao attacker M of the specification: it sees every byte
// the endpoints write, decides which bytes reach them and when, substitutes ephemeral keys
// (its own, the victim's own, low-order points), speaks the protocol itself with its own
// long-term key, and edits sealed frames (flip, drop, swap, replay, reflect, inject,
// truncate, cut).  Schedules come from TLC (state graph of spec/mc/C16_*.cfg) and from the
// driver's own seeded random generator.
//
// After every step the real objects are projected to the abstract state of the
// specification and written as NDJSON.  Concrete bytes are NAMED with a symbolic table
// that is independent of the code under test (own HKDF / merlin / X25519 calls, trial
// decryption of every captured frame with every key the table can derive).  The harness
// takes no decisions about the property; spec/trace/TMSecretConnTrace.tla does.

import (
	"bytes"
	"crypto/cipher"
	crand "crypto/rand"
	"crypto/sha256"
	"encoding/binary"
	"encoding/hex"
	"encoding/json"
	"errors"
	"fmt"
	"io"
	"math/rand"
	"os"
	"sort"
	"strconv"
	"strings"
	"sync"
	"testing"
	"time"

	gogotypes "github.com/gogo/protobuf/types"
	"github.com/gtank/merlin"
	"golang.org/x/crypto/chacha20poly1305"
	"golang.org/x/crypto/curve25519"
	"golang.org/x/crypto/hkdf"

	"github.com/tendermint/tendermint/crypto"
	"github.com/tendermint/tendermint/crypto/ed25519"
	"github.com/tendermint/tendermint/crypto/secp256k1"
	cryptoenc "github.com/tendermint/tendermint/crypto/encoding"
	"github.com/tendermint/tendermint/libs/protoio"
	pcrypto "github.com/tendermint/tendermint/proto/tendermint/crypto"
	tmp2p "github.com/tendermint/tendermint/proto/tendermint/p2p"
)

const c16SealedSize = 1024 + 4 + 16 // totalFrameSize + aeadSizeOverhead, as a literal on purpose

// ------------------------------------------------------------------ abstract values (JSON)

type c16Key struct {
	DH   []string `json:"dh"`
	Half int      `json:"half"`
}

type c16Chal struct {
	Lo string   `json:"lo"`
	Hi string   `json:"hi"`
	DH []string `json:"dh"`
}

type c16Sig struct {
	Signer string  `json:"signer"`
	Msg    c16Chal `json:"msg"`
}

type c16Frame struct {
	Key   c16Key `json:"key"`
	Nonce int    `json:"nonce"`
	Kind  string `json:"kind"`
	Pub   string `json:"pub"`
	Sig   c16Sig `json:"sig"`
	Src   string `json:"src"`
	Lo    int    `json:"lo"`
	Hi    int    `json:"hi"`
	St    string `json:"st"`
}

type c16Seg struct {
	Src string `json:"src"`
	Lo  int    `json:"lo"`
	Hi  int    `json:"hi"`
}

var (
	c16NoChal = c16Chal{Lo: "", Hi: "", DH: []string{}}
	c16NoSig  = c16Sig{Signer: "none", Msg: c16NoChal}
	c16NoSeg  = c16Seg{Src: "none"}
	c16MKey   = c16Key{DH: []string{"mkey"}, Half: 0}
	c16Old    = c16Chal{Lo: "eM", Hi: "eOld", DH: []string{"eM", "eOld"}}
)

func c16J(v interface{}) string {
	b, err := json.Marshal(v)
	if err != nil {
		panic(err)
	}
	return string(b)
}

// ------------------------------------------------------------------ schedules (input)

type c16Step struct {
	Name  string  `json:"name"`
	P     string  `json:"p"`
	Eph   string  `json:"eph"`
	Size  int     `json:"size"`
	Op    string  `json:"op"`
	I     int     `json:"i"`
	Pub   string  `json:"pub"`
	Sig   *c16Sig `json:"sig"`
	Nonce int     `json:"nonce"`
	Fail  int     `json:"fail"` // Write: the pipe reports a late error for the Fail-th sealed frame of the call (0 = none)
	Opt   bool    `json:"opt"` // appended by the runner ("consume what is still on the wire"): not counted when not enabled
}

type c16Sched struct {
	Rank  map[string]int `json:"rank"`
	Steps []c16Step      `json:"steps"`
}

type c16Input struct {
	Scheds    []c16Sched `json:"scheds"`
	Random    int        `json:"random"`     // random attack / stream runs
	RandomBig int        `json:"random_big"` // long untampered-or-lightly-tampered stream runs
}

// ------------------------------------------------------------------ scripted crypto/rand

// genEphKeys reads crand.Reader; the driver hands each endpoint the 32 bytes of the
// ephemeral private key the schedule wants it to have (so the byte order of the ephemeral
// public keys -- sort32 / locIsLeast -- is the schedule's, and the symbolic table can be
// computed without looking into the code under test).
type c16Rand struct {
	mu       sync.Mutex
	next     []byte
	fallback io.Reader
}

func (r *c16Rand) Read(b []byte) (int, error) {
	r.mu.Lock()
	if len(r.next) >= len(b) && len(b) > 0 {
		n := copy(b, r.next)
		r.next = r.next[n:]
		r.mu.Unlock()
		return n, nil
	}
	r.mu.Unlock()
	return r.fallback.Read(b)
}

func (r *c16Rand) set(b []byte) {
	r.mu.Lock()
	r.next = append([]byte{}, b...)
	r.mu.Unlock()
}

func (r *c16Rand) pending() int {
	r.mu.Lock()
	defer r.mu.Unlock()
	return len(r.next)
}

// ------------------------------------------------------------------ the interposed pipe

var c16ErrWouldBlock = errors.New("c16: read would block")

// what a transport returns when it notices a failure only after the bytes have gone out (a write deadline
// that fires late, a wrapper that reports asynchronously): the frame IS on the wire, the caller gets an error
var c16ErrTransport = errors.New("c16: transport reported a write error after the frame had left")

// One endpoint's view of the connection: what it writes is captured in out, what it reads
// is whatever the driver has released into in.
type c16Pipe struct {
	mu       sync.Mutex
	cond     *sync.Cond
	in       []byte
	inEOF    bool
	out      []byte
	closed   bool // the endpoint closed its side
	block    bool // Read blocks (handshake goroutine) or returns c16ErrWouldBlock (driver-called Read)
	consumed int
	done     bool // the endpoint's MakeSecretConnection returned
	failAt   int  // >0: the failAt-th Write call from now keeps the bytes and returns c16ErrTransport
}

func newC16Pipe() *c16Pipe {
	p := &c16Pipe{block: true}
	p.cond = sync.NewCond(&p.mu)
	return p
}

func (p *c16Pipe) Read(b []byte) (int, error) {
	p.mu.Lock()
	defer p.mu.Unlock()
	for len(p.in) == 0 {
		if p.inEOF || p.closed {
			return 0, io.EOF
		}
		if !p.block {
			return 0, c16ErrWouldBlock
		}
		p.cond.Wait()
	}
	n := copy(b, p.in)
	p.in = p.in[n:]
	p.consumed += n
	p.cond.Broadcast()
	return n, nil
}

func (p *c16Pipe) Write(b []byte) (int, error) {
	p.mu.Lock()
	defer p.mu.Unlock()
	if p.closed {
		return 0, io.ErrClosedPipe
	}
	p.out = append(p.out, b...)
	p.cond.Broadcast()
	if p.failAt > 0 {
		p.failAt--
		if p.failAt == 0 {
			return len(b), c16ErrTransport
		}
	}
	return len(b), nil
}

func (p *c16Pipe) Close() error {
	p.mu.Lock()
	p.closed = true
	p.cond.Broadcast()
	p.mu.Unlock()
	return nil
}

func (p *c16Pipe) release(b []byte, eof bool) {
	p.mu.Lock()
	p.in = append(p.in, b...)
	if eof {
		p.inEOF = true
	}
	p.cond.Broadcast()
	p.mu.Unlock()
}

// wait until pred holds (evaluated under the lock) or the deadline passes
func (p *c16Pipe) waitFor(pred func() bool, d time.Duration) bool {
	deadline := time.Now().Add(d)
	stop := make(chan struct{})
	go func() { // wake the waiter up periodically so that the deadline is honoured
		t := time.NewTicker(20 * time.Millisecond)
		defer t.Stop()
		for {
			select {
			case <-stop:
				return
			case <-t.C:
				p.mu.Lock()
				p.cond.Broadcast()
				p.mu.Unlock()
			}
		}
	}()
	defer close(stop)
	p.mu.Lock()
	defer p.mu.Unlock()
	for !pred() {
		if time.Now().After(deadline) {
			return false
		}
		p.cond.Wait()
	}
	return true
}

// ------------------------------------------------------------------ spying private key

type c16SpyKey struct {
	crypto.PrivKey
	mu     sync.Mutex
	signed [][]byte
}

func (k *c16SpyKey) Sign(msg []byte) ([]byte, error) {
	k.mu.Lock()
	k.signed = append(k.signed, append([]byte{}, msg...))
	k.mu.Unlock()
	return k.PrivKey.Sign(msg)
}

func (k *c16SpyKey) last() []byte {
	k.mu.Lock()
	defer k.mu.Unlock()
	if len(k.signed) == 0 {
		return nil
	}
	return k.signed[len(k.signed)-1]
}

// ------------------------------------------------------------------ low-order points

func c16Hex32(s string) [32]byte {
	b, err := hex.DecodeString(s)
	if err != nil || len(b) != 32 {
		panic("bad point " + s)
	}
	var out [32]byte
	copy(out[:], b)
	return out
}

// the small-order points of Curve25519 (and their non-canonical encodings); every honest
// ephemeral key of a run starts with a byte in [0x60, 0xdf], so the first group sorts below
// and the second above all of them
var c16LowMin = [][32]byte{
	c16Hex32("0000000000000000000000000000000000000000000000000000000000000000"),
	c16Hex32("0100000000000000000000000000000000000000000000000000000000000000"),
	c16Hex32("5f9c95bca3508c24b1d0b1559c83ef5b04445cc4581c8e86d8224eddd09f1157"),
	c16Hex32("0000000000000000000000000000000000000000000000000000000000000080"),
	c16Hex32("0100000000000000000000000000000000000000000000000000000000000080"),
	c16Hex32("5f9c95bca3508c24b1d0b1559c83ef5b04445cc4581c8e86d8224eddd09f11d7"),
}
var c16LowMax = [][32]byte{
	c16Hex32("ecffffffffffffffffffffffffffffffffffffffffffffffffffffffffffff7f"),
	c16Hex32("edffffffffffffffffffffffffffffffffffffffffffffffffffffffffffff7f"),
	c16Hex32("eeffffffffffffffffffffffffffffffffffffffffffffffffffffffffffff7f"),
	c16Hex32("e0eb7a7c3b41b8ae1656e3faf19fc46ada098deb9c32b1fd866205165f49b800"),
	c16Hex32("e0eb7a7c3b41b8ae1656e3faf19fc46ada098deb9c32b1fd866205165f49b880"),
	c16Hex32("ecffffffffffffffffffffffffffffffffffffffffffffffffffffffffffffff"),
	c16Hex32("edffffffffffffffffffffffffffffffffffffffffffffffffffffffffffffff"),
	c16Hex32("eeffffffffffffffffffffffffffffffffffffffffffffffffffffffffffffff"),
}

// ------------------------------------------------------------------ symbolic table

type c16KeyEnt struct {
	name  c16Key
	bytes [32]byte
	aead  cipher.AEAD
	fp    string
}

var c16ProbeNonce = []byte{0xff, 0xff, 0xff, 0xff, 0, 0, 0, 0, 0, 0, 0, 0} // never a protocol nonce

func c16Fingerprint(a cipher.AEAD) string {
	out := a.Seal(nil, c16ProbeNonce, make([]byte, 16), nil)
	return hex.EncodeToString(out[:16])
}

func c16Nonce(n int) []byte {
	var b [12]byte
	binary.LittleEndian.PutUint64(b[4:], uint64(n))
	return b[:]
}

func c16Counter(n *[aeadNonceSize]byte) int {
	if n == nil {
		return -1
	}
	if n[0] != 0 || n[1] != 0 || n[2] != 0 || n[3] != 0 {
		return -2
	}
	return int(binary.LittleEndian.Uint64(n[4:]))
}

type c16Eph struct {
	name string
	priv *[32]byte // nil for low-order points
	pub  [32]byte
}

type c16Party struct {
	name    string
	key     ed25519.PrivKey
	spy     *c16SpyKey
	pipe    *c16Pipe
	eph     *c16Eph
	started bool
	sc      *SecretConnection
	hsErr   error
	wg      sync.WaitGroup

	outTaken   int        // bytes of pipe.out already turned into frames
	frames     [][]byte   // raw sealed frames written, in order (handshake frame first)
	aframes    []c16Frame // their abstract form
	remEph     string
	pendingEph []byte
	processed  bool
	hsOver     bool // MakeSecretConnection returned (either way)
	held       [][]byte
	heldClose  bool
	closedIn   bool
	stream     []byte // plaintext written so far
	hsPlain    []byte // plaintext chunk of the own handshake frame
	authSig    []byte // the signature this party really put into its AuthSigMessage
	fwd        int    // how many of the peer's frames the driver has passed on / skipped
	cursor     int    // bytes returned by Read so far that continued the peer's stream
	gen        *rand.Rand
}

type c16World struct {
	t       *testing.T
	out     *c16Writer
	run     int
	rng     *rand.Rand
	rank    map[string]int
	ephs    map[string]*c16Eph
	parties map[string]*c16Party
	mKey    ed25519.PrivKey
	kKey    secp256k1.PrivKey // M's key of the OTHER type the wire format can carry
	zPub    crypto.PubKey
	pubs    map[string]crypto.PubKey // identity name -> long-term public key
	keys    []*c16KeyEnt
	chalN   map[string]c16Chal // hex(challenge bytes) -> name
	chalB   map[string][]byte  // json(name) -> bytes
	sigB    map[string][]byte  // json(c16Sig) -> bytes
	mKeyEnt *c16KeyEnt
	exch    map[string][3]string // loc|rem -> json(send), json(recv), json(chal)
	lastSig []byte               // signature bytes of the last handshake frame abstractFrame opened
	skipped int
	events  int
}

func c16DHName(loc, rem string) []string {
	if strings.HasPrefix(rem, "low") {
		return []string{"zero"}
	}
	if loc == rem {
		return []string{loc}
	}
	s := []string{loc, rem}
	sort.Strings(s)
	return s
}

func (w *c16World) addKey(name c16Key, kb []byte) *c16KeyEnt {
	for _, e := range w.keys {
		if c16J(e.name) == c16J(name) {
			return e
		}
	}
	a, err := chacha20poly1305.New(kb)
	if err != nil {
		panic(err)
	}
	e := &c16KeyEnt{name: name, aead: a}
	copy(e.bytes[:], kb)
	e.fp = c16Fingerprint(a)
	w.keys = append(w.keys, e)
	return e
}

func (w *c16World) keyByName(name c16Key) *c16KeyEnt {
	for _, e := range w.keys {
		if c16J(e.name) == c16J(name) {
			return e
		}
	}
	return nil
}

func (w *c16World) keyNameByFP(fp string) c16Key {
	for _, e := range w.keys {
		if e.fp == fp {
			return e.name
		}
	}
	return c16Key{DH: []string{"?k" + fp[:8]}, Half: 0}
}

// what an exchange between the holder of loc's private key and the public key rem yields,
// computed from first principles (X25519, HKDF-SHA256, merlin) -- NOT with the functions of
// the package under test
func (w *c16World) registerExchange(loc, rem *c16Eph) (send, recv c16Key, chal c16Chal) {
	ck := loc.name + "|" + rem.name
	if c, ok := w.exch[ck]; ok {
		_ = json.Unmarshal([]byte(c[0]), &send)
		_ = json.Unmarshal([]byte(c[1]), &recv)
		_ = json.Unmarshal([]byte(c[2]), &chal)
		return
	}
	defer func() { w.exch[ck] = [3]string{c16J(send), c16J(recv), c16J(chal)} }()
	var dh [32]byte
	if !strings.HasPrefix(rem.name, "low") {
		curve25519.ScalarMult(&dh, loc.priv, &rem.pub) //nolint:staticcheck // no low-order check wanted here
	}
	dhn := c16DHName(loc.name, rem.name)
	rd := hkdf.New(sha256.New, dh[:], nil, []byte("TENDERMINT_SECRET_CONNECTION_KEY_AND_CHALLENGE_GEN"))
	res := make([]byte, 96)
	if _, err := io.ReadFull(rd, res); err != nil {
		panic(err)
	}
	k1 := w.addKey(c16Key{DH: dhn, Half: 1}, res[0:32])
	k2 := w.addKey(c16Key{DH: dhn, Half: 2}, res[32:64])
	least := bytes.Compare(loc.pub[:], rem.pub[:]) <= 0
	lo, hi := loc, rem
	if !least {
		lo, hi = rem, loc
	}
	tr := merlin.NewTranscript("TENDERMINT_SECRET_CONNECTION_TRANSCRIPT_HASH")
	tr.AppendMessage([]byte("EPHEMERAL_LOWER_PUBLIC_KEY"), lo.pub[:])
	tr.AppendMessage([]byte("EPHEMERAL_UPPER_PUBLIC_KEY"), hi.pub[:])
	tr.AppendMessage([]byte("DH_SECRET"), dh[:])
	cb := tr.ExtractBytes([]byte("SECRET_CONNECTION_MAC"), 32)
	chal = c16Chal{Lo: lo.name, Hi: hi.name, DH: dhn}
	w.addChal(chal, cb)
	if least {
		return k2.name, k1.name, chal
	}
	return k1.name, k2.name, chal
}

func (w *c16World) addChal(name c16Chal, b []byte) {
	w.chalN[hex.EncodeToString(b)] = name
	w.chalB[c16J(name)] = append([]byte{}, b...)
}

func (w *c16World) chalName(b []byte) c16Chal {
	if b == nil {
		return c16NoChal
	}
	if n, ok := w.chalN[hex.EncodeToString(b)]; ok {
		return n
	}
	n := c16Chal{Lo: "?", Hi: "?", DH: []string{"?c" + hex.EncodeToString(b[:4])}}
	w.addChal(n, b)
	return n
}

func (w *c16World) pubName(pk crypto.PubKey) string {
	if pk == nil {
		return "none"
	}
	for _, n := range []string{"A", "B", "M", "Z", "K"} {
		if w.pubs[n].Equals(pk) {
			return n
		}
	}
	return "?" + hex.EncodeToString(pk.Bytes()[:4])
}

// who signed what: decided by verification against every known identity and challenge
func (w *c16World) sigName(sig []byte) c16Sig {
	names := make([]string, 0, len(w.chalB))
	for k := range w.chalB {
		names = append(names, k)
	}
	sort.Strings(names)
	for _, id := range []string{"A", "B", "M", "Z", "K"} {
		for _, cn := range names {
			if w.pubs[id].VerifySignature(w.chalB[cn], sig) {
				var c c16Chal
				_ = json.Unmarshal([]byte(cn), &c)
				s := c16Sig{Signer: id, Msg: c}
				w.sigB[c16J(s)] = append([]byte{}, sig...)
				return s
			}
		}
	}
	return c16Sig{Signer: "bad", Msg: c16NoChal}
}

// where a run of plaintext bytes comes from: the expected continuation first
func (w *c16World) locate(b []byte, hintSrc string, hintOff int) c16Seg {
	if len(b) == 0 {
		return c16Seg{Src: hintSrc, Lo: hintOff, Hi: hintOff}
	}
	streams := []string{hintSrc}
	for _, n := range []string{"A", "B", "hs:A", "hs:B"} {
		if n != hintSrc {
			streams = append(streams, n)
		}
	}
	for _, n := range streams {
		var s []byte
		if strings.HasPrefix(n, "hs:") {
			if p := w.parties[n[3:]]; p != nil {
				s = p.hsPlain
			}
		} else if p := w.parties[n]; p != nil {
			s = p.stream
		}
		if s == nil {
			continue
		}
		if n == hintSrc && hintOff >= 0 && hintOff+len(b) <= len(s) && bytes.Equal(s[hintOff:hintOff+len(b)], b) {
			return c16Seg{Src: n, Lo: hintOff, Hi: hintOff + len(b)}
		}
		if i := bytes.Index(s, b); i >= 0 {
			return c16Seg{Src: n, Lo: i, Hi: i + len(b)}
		}
	}
	return c16Seg{Src: "junk", Lo: 0, Hi: len(b)}
}

// split returned bytes into located segments (normally one)
func (w *c16World) locateAll(b []byte, hintSrc string, hintOff int) []c16Seg {
	out := []c16Seg{}
	for len(b) > 0 {
		best := 0
		var seg c16Seg
		for n := len(b); n >= 1; n-- { // longest located prefix
			s := w.locate(b[:n], hintSrc, hintOff)
			if s.Src != "junk" {
				best, seg = n, s
				break
			}
			if n > 64 { // long junk: do not search every length
				n = n/2 + 1
			}
		}
		if best == 0 {
			out = append(out, c16Seg{Src: "junk", Lo: 0, Hi: len(b)})
			break
		}
		out = append(out, seg)
		b = b[best:]
		hintSrc, hintOff = seg.Src, seg.Hi
	}
	return out
}

// project a sealed frame to [key, nonce, plaintext]: trial decryption with every key of the
// table, the hinted (key, nonce) first
func (w *c16World) abstractFrame(raw []byte, hintKey c16Key, hintNonce int, hintSrc string, hintOff int, maxNonce int) c16Frame {
	unknown := c16Frame{Key: c16Key{DH: []string{"?"}, Half: 0}, Nonce: -1, Kind: "none", Pub: "none", Sig: c16NoSig,
		Src: "none", St: "ok"}
	if len(raw) != c16SealedSize {
		unknown.St = "part"
		return unknown
	}
	try := func(e *c16KeyEnt, n int) ([]byte, bool) {
		pt, err := e.aead.Open(nil, c16Nonce(n), raw, nil)
		return pt, err == nil
	}
	var pt []byte
	var ke *c16KeyEnt
	nn := -1
	if e := w.keyByName(hintKey); e != nil && hintNonce >= 0 {
		if p, ok := try(e, hintNonce); ok {
			pt, ke, nn = p, e, hintNonce
		}
	}
	if ke == nil {
	search:
		for _, e := range w.keys {
			for n := 0; n <= maxNonce; n++ {
				if p, ok := try(e, n); ok {
					pt, ke, nn = p, e, n
					break search
				}
			}
		}
	}
	if ke == nil {
		return unknown
	}
	f := c16Frame{Key: ke.name, Nonce: nn, Kind: "data", Pub: "none", Sig: c16NoSig, Src: "junk", St: "ok"}
	if len(pt) != 1028 {
		f.Kind = "malformed"
		return f
	}
	clen := int(binary.LittleEndian.Uint32(pt[:4]))
	if clen > 1024 {
		f.Kind = "malformed"
		return f
	}
	chunk := pt[4 : 4+clen]
	// a handshake frame?
	if clen > 64 && clen < 256 {
		var pba tmp2p.AuthSigMessage
		if err := protoio.UnmarshalDelimited(chunk, &pba); err == nil && len(pba.Sig) > 0 {
			if pk, err := cryptoenc.PubKeyFromProto(pba.PubKey); err == nil {
				f.Kind = "auth"
				f.Pub = w.pubName(pk)
				f.Sig = w.sigName(pba.Sig)
				w.lastSig = append([]byte{}, pba.Sig...)
				f.Src = hintSrc
				if ke.name.Half == 0 || hintSrc == "" {
					f.Src = "M"
				}
				return f
			}
		}
	}
	seg := w.locate(chunk, hintSrc, hintOff)
	f.Src, f.Lo, f.Hi = seg.Src, seg.Lo, seg.Hi
	return f
}

// ------------------------------------------------------------------ NDJSON writer

type c16Writer struct {
	f   *os.File
	enc *json.Encoder
	n   int
}

func newC16Writer(path string) *c16Writer {
	f, err := os.Create(path)
	if err != nil {
		panic(err)
	}
	return &c16Writer{f: f, enc: json.NewEncoder(f)}
}

func (w *c16Writer) emit(v interface{}) {
	if err := w.enc.Encode(v); err != nil {
		panic(err)
	}
	w.n++
}

func (w *c16World) emit(ev string, p string, kv map[string]interface{}) {
	kv["ev"] = ev
	kv["run"] = w.run
	kv["p"] = p
	w.out.emit(kv)
	w.events++
}

// ------------------------------------------------------------------ world set-up

var c16RandReader = &c16Rand{fallback: crand.Reader}

func c16ErrClass(err error) string {
	if err == nil {
		return "none"
	}
	s := err.Error()
	switch {
	case errors.Is(err, io.ErrUnexpectedEOF) || s == "unexpected EOF":
		return "unexpected_eof"
	case errors.Is(err, io.EOF) || s == "EOF":
		return "eof"
	case errors.Is(err, c16ErrWouldBlock):
		return "would_block"
	case errors.Is(err, c16ErrTransport):
		return "transport"
	case strings.Contains(s, "failed to decrypt"):
		return "decrypt"
	case strings.Contains(s, "low order point"):
		return "low_order"
	case strings.Contains(s, "challenge verification failed"):
		return "challenge"
	case strings.Contains(s, "expected ed25519"):
		return "keytype"
	case strings.Contains(s, "chunkLength is greater"):
		return "chunk_length"
	case strings.Contains(s, "proto") || strings.Contains(s, "wireType") || strings.Contains(s, "message length") ||
		strings.Contains(s, "expected ed25519") || strings.Contains(s, "toproto") || strings.Contains(s, "fromproto") ||
		strings.Contains(s, "overflow") || strings.Contains(s, "varint") || strings.Contains(s, "invalid size for PubKey"):
		return "parse"
	}
	return "other:" + s
}

func newC16World(t *testing.T, out *c16Writer, run int, seed int64, rank map[string]int, kind string) *c16World {
	w := &c16World{t: t, out: out, run: run, rng: rand.New(rand.NewSource(seed*1000003 + int64(run)*7919)), rank: rank,
		ephs: map[string]*c16Eph{}, parties: map[string]*c16Party{}, pubs: map[string]crypto.PubKey{},
		chalN: map[string]c16Chal{}, chalB: map[string][]byte{}, sigB: map[string][]byte{}, exch: map[string][3]string{}}
	sec := func(tag string) ed25519.PrivKey {
		return ed25519.GenPrivKeyFromSecret([]byte(fmt.Sprintf("c16/%d/%d/%s", seed, run, tag)))
	}
	w.mKey = sec("M")
	w.zPub = sec("Z").PubKey() // the private key is dropped: nobody holds it
	w.pubs["M"], w.pubs["Z"] = w.mKey.PubKey(), w.zPub
	w.kKey = secp256k1.GenPrivKeySecp256k1([]byte(fmt.Sprintf("c16/%d/%d/K", seed, run)))
	w.pubs["K"] = w.kKey.PubKey()
	// ephemeral keys in the byte order the schedule asks for
	names := []string{"eA", "eB", "eM"}
	sort.Slice(names, func(i, j int) bool { return rank[names[i]] < rank[names[j]] })
	cands := make([]*c16Eph, 0, 3)
	for len(cands) < 3 {
		e := &c16Eph{priv: new([32]byte)}
		w.rng.Read(e.priv[:])
		curve25519.ScalarBaseMult(&e.pub, e.priv) //nolint:staticcheck
		if e.pub[0] < 0x60 || e.pub[0] > 0xdf {
			continue
		}
		cands = append(cands, e)
	}
	sort.Slice(cands, func(i, j int) bool { return bytes.Compare(cands[i].pub[:], cands[j].pub[:]) < 0 })
	for i, n := range names {
		cands[i].name = n
		w.ephs[n] = cands[i]
	}
	w.ephs["lowMin"] = &c16Eph{name: "lowMin", pub: c16LowMin[(run+int(seed))%len(c16LowMin)]}
	w.ephs["lowMax"] = &c16Eph{name: "lowMax", pub: c16LowMax[(run+int(seed))%len(c16LowMax)]}
	for _, n := range []string{"A", "B"} {
		k := sec(n)
		p := &c16Party{name: n, key: k, spy: &c16SpyKey{PrivKey: k}, pipe: newC16Pipe(), eph: w.ephs["e"+n],
			gen: rand.New(rand.NewSource(seed*31 + int64(run)*7 + int64(n[0])))}
		w.parties[n] = p
		w.pubs[n] = k.PubKey()
	}
	// a key of M's own for injected frames, and the challenge of an earlier session
	mk := make([]byte, 32)
	w.rng.Read(mk)
	w.mKeyEnt = w.addKey(c16MKey, mk)
	old := make([]byte, 32)
	w.rng.Read(old)
	w.addChal(c16Old, old)
	rk := map[string]interface{}{}
	for _, n := range []string{"lowMin", "eA", "eB", "eM", "lowMax"} {
		rk[n] = rank[n]
	}
	w.emit("Reset", "-", map[string]interface{}{"rank": rk, "kind": kind})
	return w
}

func (w *c16World) peer(p *c16Party) *c16Party {
	if p.name == "A" {
		return w.parties["B"]
	}
	return w.parties["A"]
}

const c16Wait = 90 * time.Second // generous: the box may be heavily oversubscribed; a timeout is exit 2, never a verdict

func (w *c16World) finish() {
	for _, p := range w.parties {
		p.pipe.release(nil, true)
		if p.started {
			p.wg.Wait()
		}
		if p.sc != nil {
			_ = p.sc.Close()
		}
	}
}

// take the bytes the endpoint has written since the last call, as whole sealed frames
func (w *c16World) takeFrames(p *c16Party, offHint int) []c16Frame {
	p.pipe.mu.Lock()
	buf := append([]byte{}, p.pipe.out[p.outTaken:]...)
	p.pipe.mu.Unlock()
	out := []c16Frame{}
	for len(buf) >= c16SealedSize {
		raw := buf[:c16SealedSize]
		buf = buf[c16SealedSize:]
		p.outTaken += c16SealedSize
		var hintKey c16Key
		if rem := w.ephs[p.remEph]; rem != nil {
			hintKey, _, _ = w.registerExchange(p.eph, rem)
		}
		f := w.abstractFrame(raw, hintKey, len(p.frames), p.name, offHint, len(p.frames)+3)
		if f.Kind == "auth" {
			f.Src = p.name
			if p.authSig == nil {
				p.authSig = w.lastSig
			}
			if p.hsPlain == nil {
				// remember the plaintext chunk so that it can be recognised if it is ever read as data
				if e := w.keyByName(f.Key); e != nil {
					if pt, err := e.aead.Open(nil, c16Nonce(f.Nonce), raw, nil); err == nil {
						p.hsPlain = append([]byte{}, pt[4:4+int(binary.LittleEndian.Uint32(pt[:4]))]...)
					}
				}
			}
		} else if f.Kind == "data" {
			offHint = f.Hi
		}
		p.frames = append(p.frames, append([]byte{}, raw...))
		p.aframes = append(p.aframes, f)
		out = append(out, f)
	}
	return out
}

// ------------------------------------------------------------------ steps

func (w *c16World) sendEph(p *c16Party) bool {
	if p.started {
		return false
	}
	p.started = true
	c16RandReader.set(p.eph.priv[:])
	p.wg.Add(1)
	go func() {
		defer p.wg.Done()
		sc, err := MakeSecretConnection(p.pipe, p.spy)
		p.pipe.mu.Lock()
		p.sc, p.hsErr = sc, err
		p.pipe.done = true
		p.pipe.cond.Broadcast()
		p.pipe.mu.Unlock()
	}()
	ok := p.pipe.waitFor(func() bool { return len(p.pipe.out) >= 35 || p.pipe.done }, c16Wait)
	if !ok {
		w.t.Fatalf("run %d: %s did not write its ephemeral key", w.run, p.name)
	}
	if c16RandReader.pending() != 0 {
		w.t.Fatalf("run %d: %s did not draw its ephemeral key from crypto/rand.Reader", w.run, p.name)
	}
	p.pipe.mu.Lock()
	msg := append([]byte{}, p.pipe.out...)
	p.pipe.mu.Unlock()
	name := "?"
	var bv gogotypes.BytesValue
	if err := protoio.UnmarshalDelimited(msg, &bv); err == nil && len(bv.Value) == 32 {
		name = "?" + hex.EncodeToString(bv.Value[:4])
		for n, e := range w.ephs {
			if bytes.Equal(e.pub[:], bv.Value) {
				name = n
			}
		}
		p.outTaken = len(msg)
	}
	w.emit("SendEph", p.name, map[string]interface{}{"eph": name})
	return true
}

func (w *c16World) mEph(p *c16Party, eph string) bool {
	e := w.ephs[eph]
	if e == nil || p.pendingEph != nil || p.processed {
		return false
	}
	bz, err := protoio.MarshalDelimited(&gogotypes.BytesValue{Value: e.pub[:]})
	if err != nil {
		panic(err)
	}
	p.pendingEph = bz
	p.remEph = eph
	w.emit("MEph", p.name, map[string]interface{}{"eph": eph})
	return true
}

func (w *c16World) processEph(p *c16Party) bool {
	if !p.started || p.pendingEph == nil || p.processed {
		return false
	}
	p.processed = true
	before := p.outTaken
	p.pipe.release(p.pendingEph, false)
	ok := p.pipe.waitFor(func() bool { return len(p.pipe.out)-before >= c16SealedSize || p.pipe.done }, c16Wait)
	if !ok {
		w.t.Fatalf("run %d: %s neither answered the ephemeral key nor failed", w.run, p.name)
	}
	p.pipe.mu.Lock()
	done, herr := p.pipe.done, p.hsErr
	wrote := len(p.pipe.out)-before >= c16SealedSize
	p.pipe.mu.Unlock()
	if !wrote && done {
		p.hsOver = true
		w.emit("ProcessEph", p.name, map[string]interface{}{"ok": false, "err": c16ErrClass(herr),
			"frames": []c16Frame{}, "signed": c16NoChal})
		return true
	}
	if rem := w.ephs[p.remEph]; rem != nil {
		w.registerExchange(p.eph, rem)
	}
	signed := w.chalName(p.spy.last()) // names (and registers) whatever was really signed
	frames := w.takeFrames(p, 0)
	w.emit("ProcessEph", p.name, map[string]interface{}{"ok": true, "err": "none", "frames": frames, "signed": signed})
	return true
}

// put one item on the wire towards p
func (w *c16World) deliver(p *c16Party, raw []byte) {
	if p.hsOver && p.sc != nil {
		p.pipe.release(raw, false)
	} else {
		p.held = append(p.held, raw)
	}
}

func (w *c16World) closeIn(p *c16Party) {
	p.closedIn = true
	if p.hsOver && p.sc != nil {
		p.pipe.release(nil, true)
	} else {
		p.heldClose = true
	}
}

func (w *c16World) mOp(p *c16Party, st c16Step) bool {
	if !p.processed || p.closedIn || (p.hsOver && p.sc == nil) {
		return false
	}
	q := w.peer(p)
	items := []c16Frame{}
	adv, closed := 0, false
	i := st.I
	switch st.Op {
	case "fwd", "flip", "drop", "trunc":
		if p.fwd >= len(q.frames) {
			return false
		}
		raw := append([]byte{}, q.frames[p.fwd]...)
		f := q.aframes[p.fwd]
		i = p.fwd + 1
		adv = 1
		switch st.Op {
		case "fwd":
			w.deliver(p, raw)
			items = append(items, f)
		case "flip":
			pos := w.rng.Intn(len(raw))
			switch w.rng.Intn(4) {
			case 0:
				pos = w.rng.Intn(4) // the encrypted length prefix
			case 1:
				pos = len(raw) - 1 - w.rng.Intn(16) // the tag
			}
			raw[pos] ^= byte(1 << uint(w.rng.Intn(8)))
			w.deliver(p, raw)
			f.St = "flip"
			items = append(items, f)
		case "drop":
		case "trunc":
			k := 1 + w.rng.Intn(c16SealedSize-1)
			w.deliver(p, raw[:k])
			w.closeIn(p)
			closed = true
			f.St = "part"
			items = append(items, f)
		}
	case "swap":
		if p.fwd+2 > len(q.frames) {
			return false
		}
		i = p.fwd + 1
		w.deliver(p, q.frames[p.fwd+1])
		w.deliver(p, q.frames[p.fwd])
		items = append(items, q.aframes[p.fwd+1], q.aframes[p.fwd])
		adv = 2
	case "replay":
		if i < 1 || i > p.fwd || i > len(q.frames) {
			return false
		}
		w.deliver(p, q.frames[i-1])
		items = append(items, q.aframes[i-1])
	case "reflect":
		if i < 1 || i > len(p.frames) {
			return false
		}
		w.deliver(p, p.frames[i-1])
		items = append(items, p.aframes[i-1])
	case "inject":
		frame := make([]byte, 1028)
		binary.LittleEndian.PutUint32(frame, 1)
		frame[4] = byte(w.rng.Intn(256))
		raw := w.mKeyEnt.aead.Seal(nil, c16Nonce(0), frame, nil)
		w.deliver(p, raw)
		items = append(items, c16Frame{Key: c16MKey, Nonce: 0, Kind: "data", Pub: "none", Sig: c16NoSig, Src: "M",
			Lo: 0, Hi: 1, St: "ok"})
		i = 0
	case "eof":
		w.closeIn(p)
		closed = true
		i = 0
	case "forge":
		// M speaks the protocol towards p: possible iff it can compute p's receive key
		rem := w.ephs[p.remEph]
		if rem == nil || st.Sig == nil || p.hsOver {
			return false
		}
		_, recvName, _ := w.registerExchange(p.eph, rem)
		ke := w.keyByName(recvName)
		pub := w.pubs[st.Pub]
		if ke == nil || (pub == nil && st.Pub != "U") {
			return false
		}
		var sig []byte
		if st.Sig.Signer == "K" {
			// a signature that IS valid under M's secp256k1 key
			cb := w.chalB[c16J(st.Sig.Msg)]
			if cb == nil {
				return false
			}
			sig, _ = w.kKey.Sign(cb)
		} else if st.Sig.Signer == "M" {
			cb := w.chalB[c16J(st.Sig.Msg)]
			if cb == nil {
				return false
			}
			sig, _ = w.mKey.Sign(cb)
		} else if c16J(st.Sig.Msg) == c16J(c16Old) && w.parties[st.Sig.Signer] != nil {
			// what the earlier session recorded: the party's signature over that session's challenge
			sig, _ = w.parties[st.Sig.Signer].key.Sign(w.chalB[c16J(c16Old)])
		} else if y := w.parties[st.Sig.Signer]; y != nil && y.authSig != nil {
			// the signature M found in y's AuthSigMessage (a frame it could open), whatever y really signed
			sig = y.authSig
		} else {
			return false
		}
		actual := w.sigName(sig) // what goes on the wire, named from the bytes
		var pbpk pcrypto.PublicKey
		switch {
		case st.Pub == "U" && w.run%2 == 0:
			// undecodable: the oneof is empty
		case st.Pub == "U":
			pbpk = pcrypto.PublicKey{Sum: &pcrypto.PublicKey_Ed25519{Ed25519: make([]byte, 31)}} // wrong length
		default:
			var err error
			if pbpk, err = cryptoenc.PubKeyToProto(pub); err != nil {
				panic(err)
			}
		}
		bz, err := protoio.MarshalDelimited(&tmp2p.AuthSigMessage{PubKey: pbpk, Sig: sig})
		if err != nil {
			panic(err)
		}
		frame := make([]byte, 1028)
		binary.LittleEndian.PutUint32(frame, uint32(len(bz)))
		copy(frame[4:], bz)
		raw := ke.aead.Seal(nil, c16Nonce(st.Nonce), frame, nil)
		w.deliver(p, raw)
		items = append(items, c16Frame{Key: recvName, Nonce: st.Nonce, Kind: "auth", Pub: st.Pub, Sig: actual,
			Src: "M", St: "ok"})
		w.emit("M", p.name, map[string]interface{}{"op": "forge", "i": 0, "items": items, "adv": 0, "closed": false,
			"pub": st.Pub, "sig": actual, "nonce": st.Nonce})
		return true
	default:
		return false
	}
	p.fwd += adv
	w.emit("M", p.name, map[string]interface{}{"op": st.Op, "i": i, "items": items, "adv": adv, "closed": closed,
		"pub": "none", "sig": c16NoSig, "nonce": 0})
	return true
}

func (w *c16World) recvAuth(p *c16Party) bool {
	if !p.processed || p.hsOver {
		return false
	}
	if len(p.held) == 0 && !p.heldClose {
		return false
	}
	if len(p.held) > 0 {
		head := p.held[0]
		p.held = p.held[1:]
		// a truncated frame is followed by the end of the stream
		p.pipe.release(head, len(head) < c16SealedSize && p.heldClose)
	} else {
		p.pipe.release(nil, true)
	}
	ok := p.pipe.waitFor(func() bool { return p.pipe.done }, c16Wait)
	if !ok {
		w.t.Fatalf("run %d: %s did not finish the handshake after one frame", w.run, p.name)
	}
	p.hsOver = true
	p.pipe.mu.Lock()
	sc, herr := p.sc, p.hsErr
	p.pipe.block = false
	p.pipe.mu.Unlock()
	none := c16Key{DH: []string{}, Half: 0}
	if sc == nil {
		w.emit("RecvAuth", p.name, map[string]interface{}{"ok": false, "err": c16ErrClass(herr), "remPub": "none",
			"recvNonce": 0, "sendNonce": 0, "sendKey": none, "recvKey": none})
		return true
	}
	// the rest of what the driver held back is on the wire now
	for _, h := range p.held {
		p.pipe.release(h, false)
	}
	p.held = nil
	if p.heldClose {
		p.pipe.release(nil, true)
	}
	w.emit("RecvAuth", p.name, map[string]interface{}{"ok": true, "err": c16ErrClass(herr),
		"remPub": w.pubName(sc.RemotePubKey()), "recvNonce": c16Counter(sc.recvNonce), "sendNonce": c16Counter(sc.sendNonce),
		"sendKey": w.keyNameByFP(c16Fingerprint(sc.sendAead)), "recvKey": w.keyNameByFP(c16Fingerprint(sc.recvAead))})
	return true
}

func (w *c16World) write(p *c16Party, size int, fail int) bool {
	if p.sc == nil || !p.hsOver || size <= 0 || fail < 0 || fail > (size+1023)/1024 {
		return false
	}
	data := make([]byte, size)
	p.gen.Read(data)
	off := len(p.stream)
	p.stream = append(p.stream, data...)
	p.pipe.mu.Lock()
	p.pipe.failAt = fail
	p.pipe.mu.Unlock()
	n, err := p.sc.Write(data)
	p.pipe.mu.Lock()
	p.pipe.failAt = 0
	p.pipe.mu.Unlock()
	frames := w.takeFrames(p, off)
	// the writer's stream is what was sealed and left the host; the rest of a failed call never existed
	sealed := len(frames) * 1024
	if sealed > size {
		sealed = size
	}
	p.stream = p.stream[:off+sealed]
	w.emit("Write", p.name, map[string]interface{}{"size": size, "fail": fail, "n": n, "err": c16ErrClass(err),
		"frames": frames, "sealed": sealed, "sendNonce": c16Counter(p.sc.sendNonce)})
	return true
}

func (w *c16World) readable(p *c16Party) bool {
	if p.sc == nil || !p.hsOver {
		return false
	}
	p.pipe.mu.Lock()
	defer p.pipe.mu.Unlock()
	return len(p.sc.recvBuffer) > 0 || len(p.pipe.in) > 0 || p.pipe.inEOF
}

func (w *c16World) read(p *c16Party, size int) bool {
	if !w.readable(p) || size < 0 {
		return false
	}
	q := w.peer(p)
	buf := make([]byte, size)
	p.pipe.mu.Lock()
	before := p.pipe.consumed
	p.pipe.mu.Unlock()
	n, err := p.sc.Read(buf)
	p.pipe.mu.Lock()
	used := p.pipe.consumed - before
	p.pipe.mu.Unlock()
	took := 0
	if used > 0 {
		took = 1
	}
	if n < 0 || n > size {
		n = 0
	}
	segs := w.locateAll(buf[:n], q.name, p.cursor)
	for _, s := range segs {
		if s.Src == q.name && s.Lo == p.cursor {
			p.cursor = s.Hi
		}
	}
	rb := c16NoSeg
	if len(p.sc.recvBuffer) > 0 {
		hs, ho := q.name, p.cursor
		if len(segs) > 0 {
			hs, ho = segs[len(segs)-1].Src, segs[len(segs)-1].Hi
		}
		rb = w.locate(p.sc.recvBuffer, hs, ho)
	}
	w.emit("Read", p.name, map[string]interface{}{"size": size, "n": n, "err": c16ErrClass(err), "took": took,
		"segs": segs, "buf": rb, "recvNonce": c16Counter(p.sc.recvNonce)})
	return true
}

func (w *c16World) exec(st c16Step) bool {
	p := w.parties[st.P]
	if p == nil {
		return false
	}
	switch st.Name {
	case "SendEph":
		return w.sendEph(p)
	case "MEph":
		return w.mEph(p, st.Eph)
	case "ProcessEph":
		return w.processEph(p)
	case "RecvAuth":
		return w.recvAuth(p)
	case "Write":
		return w.write(p, st.Size, st.Fail)
	case "Read":
		return w.read(p, st.Size)
	case "M":
		return w.mOp(p, st)
	}
	return false
}

// ------------------------------------------------------------------ the driver's own random runs

func c16RandRank(rng *rand.Rand) map[string]int {
	r := map[string]int{"lowMin": 0, "lowMax": 9, "eA": 2, "eB": 4, "eM": []int{1, 3, 5}[rng.Intn(3)]}
	if rng.Intn(2) == 0 {
		r["eA"], r["eB"] = 4, 2
	}
	return r
}

var c16WriteSizes = []int{1, 2, 17, 500, 1023, 1024, 1025, 2047, 2048, 2049, 3000, 4096, 5000}
var c16ReadSizes = []int{0, 1, 2, 100, 1023, 1024, 1025, 4096, 6000}

func c16PickSize(rng *rand.Rand, classes []int, max int) int {
	if rng.Intn(3) == 0 {
		return rng.Intn(max + 1)
	}
	return classes[rng.Intn(len(classes))]
}

// honest key exchange with M forwarding; returns false if an endpoint did not get through
func (w *c16World) honestHandshake() bool {
	ab := []string{"A", "B"}
	for _, n := range ab {
		w.exec(c16Step{Name: "SendEph", P: n})
	}
	for _, n := range ab {
		w.exec(c16Step{Name: "MEph", P: n, Eph: "e" + map[string]string{"A": "B", "B": "A"}[n]})
	}
	if w.rng.Intn(2) == 0 {
		ab = []string{"B", "A"}
	}
	for _, n := range ab {
		w.exec(c16Step{Name: "ProcessEph", P: n})
	}
	for _, n := range ab {
		w.exec(c16Step{Name: "M", Op: "fwd", P: n})
		w.exec(c16Step{Name: "RecvAuth", P: n})
	}
	return w.parties["A"].sc != nil && w.parties["B"].sc != nil
}

// a stream phase: random writes, deliveries, edits and reads in both directions
func (w *c16World) randomStream(steps, maxEdits int, drain bool) {
	rng := w.rng
	edits, faults, maxFaults := 0, 0, 2
	ops := []string{"flip", "drop", "swap", "replay", "reflect", "inject", "trunc", "eof"}
	for k := 0; k < steps; k++ {
		p := w.parties[[]string{"A", "B"}[rng.Intn(2)]]
		q := w.peer(p)
		switch r := rng.Intn(100); {
		case r < 30:
			if len(p.frames) < 60 {
				sz := 1 + c16PickSize(rng, c16WriteSizes, 5000)
				fail := 0
				if faults < maxFaults && rng.Intn(8) == 0 { // the transport reports a late error for one of the frames
					fail = 1 + rng.Intn((sz+1023)/1024)
					faults++
				}
				w.exec(c16Step{Name: "Write", P: p.name, Size: sz, Fail: fail})
			}
		case r < 60:
			w.exec(c16Step{Name: "M", Op: "fwd", P: p.name})
		case r < 92:
			w.exec(c16Step{Name: "Read", P: p.name, Size: c16PickSize(rng, c16ReadSizes, 3000)})
		default:
			if edits < maxEdits {
				op := ops[rng.Intn(len(ops))]
				i := 1
				switch op {
				case "replay":
					if p.fwd > 0 {
						i = 1 + rng.Intn(p.fwd)
					}
				case "reflect":
					if len(p.frames) > 0 {
						i = 1 + rng.Intn(len(p.frames))
					}
				}
				if w.exec(c16Step{Name: "M", Op: op, P: p.name, I: i}) {
					edits++
				}
			}
		}
		_ = q
	}
	if !drain {
		return
	}
	// pass everything on and read until nothing is left
	for _, n := range []string{"A", "B"} {
		p := w.parties[n]
		for w.exec(c16Step{Name: "M", Op: "fwd", P: n}) {
		}
		for guard := 0; guard < 400 && w.readable(p); guard++ {
			p.pipe.mu.Lock()
			eofOnly := len(p.sc.recvBuffer) == 0 && len(p.pipe.in) == 0
			p.pipe.mu.Unlock()
			w.exec(c16Step{Name: "Read", P: n, Size: c16PickSize(rng, c16ReadSizes, 3000)})
			if eofOnly {
				break
			}
		}
	}
}

func (w *c16World) randomAttackHandshake() {
	rng := w.rng
	for _, n := range []string{"A", "B"} {
		w.exec(c16Step{Name: "SendEph", P: n})
	}
	choices := func(n string) []string {
		other := map[string]string{"A": "eB", "B": "eA"}[n]
		return []string{other, other, "e" + n, "eM", "eM", "lowMin", "lowMax"}
	}
	for _, n := range []string{"A", "B"} {
		c := choices(n)
		w.exec(c16Step{Name: "MEph", P: n, Eph: c[rng.Intn(len(c))]})
	}
	order := []string{"A", "B"}
	if rng.Intn(2) == 0 {
		order = []string{"B", "A"}
	}
	for _, n := range order {
		w.exec(c16Step{Name: "ProcessEph", P: n})
	}
	for _, n := range order {
		p := w.parties[n]
		if p.hsOver {
			continue
		}
		q := w.peer(p)
		rem := w.ephs[p.remEph]
		mKnows := rem != nil && (rem.name == "eM" || strings.HasPrefix(rem.name, "low"))
		var st c16Step
		switch r := rng.Intn(10); {
		case r < 3 && mKnows:
			// M speaks the protocol: own identity with its own signature, or somebody else's
			_, _, chal := w.registerExchange(p.eph, rem)
			pubs := []string{"M", "M", "A", "B", "Z", "K", "K", "U"}
			sigs := []c16Sig{{Signer: "M", Msg: chal}, {Signer: "K", Msg: chal}, {Signer: "M", Msg: c16Old}, {Signer: "A", Msg: c16Old}, {Signer: "B", Msg: c16Old}}
			for _, x := range []*c16Party{p, q} {
				for _, f := range x.aframes {
					if f.Kind == "auth" && f.Sig.Signer != "bad" && (strings.Contains(c16J(f.Key.DH), "eM") || strings.Contains(c16J(f.Key.DH), "zero")) {
						sigs = append(sigs, f.Sig)
					}
				}
			}
			s := sigs[rng.Intn(len(sigs))]
			st = c16Step{Name: "M", Op: "forge", P: n, Pub: pubs[rng.Intn(len(pubs))], Sig: &s, Nonce: 0}
			if rng.Intn(8) == 0 {
				st.Nonce = 1
			}
		case r < 6:
			st = c16Step{Name: "M", Op: "fwd", P: n}
		default:
			ops := []string{"flip", "drop", "replay", "reflect", "inject", "trunc", "eof"}
			st = c16Step{Name: "M", Op: ops[rng.Intn(len(ops))], P: n, I: 1}
		}
		if !w.exec(st) {
			w.exec(c16Step{Name: "M", Op: "eof", P: n})
		}
		if !w.exec(c16Step{Name: "RecvAuth", P: n}) {
			w.exec(c16Step{Name: "M", Op: "eof", P: n})
			w.exec(c16Step{Name: "RecvAuth", P: n})
		}
	}
}

// ------------------------------------------------------------------ entry point

func TestVerifC16(t *testing.T) {
	inPath, outDir := os.Getenv("VERIF_IN"), os.Getenv("VERIF_OUT")
	if inPath == "" || outDir == "" {
		t.Skip("VERIF_IN / VERIF_OUT not set")
	}
	seed, _ := strconv.ParseInt(os.Getenv("VERIF_SEED"), 10, 64)
	raw, err := os.ReadFile(inPath)
	if err != nil {
		t.Fatal(err)
	}
	var in c16Input
	if err := json.Unmarshal(raw, &in); err != nil {
		t.Fatal(err)
	}
	// every low-order encoding the driver uses must be one (independent of the code under test)
	for _, pts := range [][][32]byte{c16LowMin, c16LowMax} {
		for _, pt := range pts {
			var sk, out [32]byte
			sk[0] = 8
			sk[5] = 77
			curve25519.ScalarMult(&out, &sk, &pt) //nolint:staticcheck
			if out != [32]byte{} {
				t.Fatalf("%x is not a low-order point", pt)
			}
		}
	}
	saved := crand.Reader
	crand.Reader = c16RandReader
	defer func() { crand.Reader = saved }()

	out := newC16Writer(outDir + "/trace.ndjson")
	defer out.f.Close()
	run, skipped, events := 0, 0, 0
	account := func(w *c16World) {
		w.finish()
		skipped += w.skipped
		events += w.events
	}
	for _, s := range in.Scheds {
		run++
		w := newC16World(t, out, run, seed, s.Rank, "graph")
		for _, st := range s.Steps {
			if !w.exec(st) && !st.Opt {
				w.skipped++
			}
		}
		account(w)
	}
	rng := rand.New(rand.NewSource(seed*7919 + 13))
	for k := 0; k < in.Random; k++ {
		run++
		w := newC16World(t, out, run, seed, c16RandRank(rng), "random")
		switch k % 3 {
		case 0:
			w.randomAttackHandshake()
			if w.parties["A"].sc != nil || w.parties["B"].sc != nil {
				w.randomStream(6, 1, false)
			}
		default:
			if w.honestHandshake() {
				w.randomStream(10+w.rng.Intn(25), k%3, w.rng.Intn(2) == 0)
			}
		}
		account(w)
	}
	for k := 0; k < in.RandomBig; k++ {
		run++
		w := newC16World(t, out, run, seed, c16RandRank(rng), "random_big")
		if w.honestHandshake() {
			w.randomStream(60+w.rng.Intn(120), k%2, true)
		}
		account(w)
	}
	meta, _ := json.Marshal(map[string]int{"runs": run, "events": events, "skipped_steps": skipped})
	if err := os.WriteFile(outDir+"/meta.json", meta, 0o644); err != nil {
		t.Fatal(err)
	}
	t.Logf("C16 harness: %d runs, %d events, %d schedule steps skipped", run, events, skipped)
}
