//go:build verif

package conn

// C17 harness, connection half (see /verif/DESIGN.md section 5, C17; spec/TMMConn.tla,
// spec/TMMConnSys.tla, spec/trace/TMMConnTrace.tla).
//
// Three drivers, all on REAL MConnections over net.Pipe:
//   lockstep   : the sender's sendRoutine is parked; the driver calls Send/TrySend and
//                sendPacketMsg itself (the entry points the sendRoutine uses) following a
//                schedule (from the TLC state graph / simulation / weakened-spec counterexample /
//                seeded random), flushes, and waits on a ping/pong barrier so that the receiver
//                has consumed everything before the state is projected.
//   concurrent : both routines run; one goroutine per channel sends; a tap on the wire records
//                the packets; onReceive records deliveries.
//   hostile    : the driver is the remote peer and writes arbitrary packets; a second, honest
//                connection pair in the same process carries a probe message after every packet.
// The harness records only; every judgement is made by TLC on the NDJSON it writes.

import (
	"encoding/json"
	"fmt"
	"math/rand"
	"net"
	"os"
	"strconv"
	"strings"
	"sync"
	"sync/atomic"
	"testing"
	"time"

	"github.com/gogo/protobuf/proto"

	"github.com/tendermint/tendermint/libs/log"
	"github.com/tendermint/tendermint/libs/protoio"
	tmp2p "github.com/tendermint/tendermint/proto/tendermint/p2p"
)

type c17Cfg struct {
	Chans   []int `json:"chans"`
	QCap    []int `json:"qcap"`
	RCap    []int `json:"rcap"`
	Payload int   `json:"payload"`
	Slack   int   `json:"slack"`
}

type c17Step struct {
	A   string `json:"a"` // Send | SendPacket | Recv | SendPing
	Ch  int    `json:"ch"`
	Len int    `json:"len"`
	Nil bool   `json:"nil"` // a zero-length message is passed as a nil slice (TMMConnSys!Send, nilrep)
}

type c17Pkt struct {
	T    string `json:"t"`
	Ch   int    `json:"ch"`
	EOF  bool   `json:"eof"`
	Data []int  `json:"data"`
}

type c17Sched struct {
	Src   string    `json:"src"`
	Steps []c17Step `json:"steps"`
}

type c17HSched struct {
	Src  string   `json:"src"`
	Pkts []c17Pkt `json:"pkts"`
}

type c17Input struct {
	Cfg        c17Cfg       `json:"cfg"`
	Scheds     []c17Sched   `json:"scheds"`
	Hostile    []c17HSched  `json:"hostile"`
	Random     int          `json:"random"`
	Concurrent int          `json:"concurrent"`
	HRandom    int          `json:"hrandom"`
	Start      int          `json:"start"`
}

// ---------------------------------------------------------------- log
type c17Log struct {
	mu sync.Mutex
	f  *os.File
	n  int
}

func (l *c17Log) emit(m map[string]interface{}) {
	b, err := json.Marshal(m)
	if err != nil {
		panic(err)
	}
	l.mu.Lock()
	l.f.Write(append(b, '\n'))
	l.n++
	l.mu.Unlock()
}

func c17Ints(b []byte) []int {
	out := make([]int, len(b))
	for i, x := range b {
		out[i] = int(x)
	}
	return out
}

func c17Bytes(v []int) []byte {
	out := make([]byte, len(v))
	for i, x := range v {
		out[i] = byte(x)
	}
	return out
}

// ---------------------------------------------------------------- wire tap (sender side)
// Parses the varint-delimited packets the sender writes and logs the PacketMsgs before they
// reach the pipe (so a Pkt line always precedes the Dlv line it causes).
type c17Tap struct {
	net.Conn
	lg      *c17Log
	run     int
	carry   []byte
	timeout time.Duration
	failed  int32
}

func (t *c17Tap) Write(b []byte) (int, error) {
	t.carry = append(t.carry, b...)
	for {
		l, n := proto.DecodeVarint(t.carry)
		if n == 0 || len(t.carry) < n+int(l) {
			break
		}
		var p tmp2p.Packet
		if err := proto.Unmarshal(t.carry[n:n+int(l)], &p); err == nil {
			if pm, ok := p.Sum.(*tmp2p.Packet_PacketMsg); ok {
				t.lg.emit(map[string]interface{}{"ev": "Pkt", "run": t.run, "pkt": map[string]interface{}{
					"t": "msg", "ch": int(pm.PacketMsg.ChannelID), "eof": pm.PacketMsg.EOF, "data": c17Ints(pm.PacketMsg.Data)}})
			}
		}
		t.carry = t.carry[n+int(l):]
	}
	if t.timeout > 0 {
		t.Conn.SetWriteDeadline(time.Now().Add(t.timeout))
	}
	n, err := t.Conn.Write(b)
	if err != nil {
		atomic.StoreInt32(&t.failed, 1)
	}
	return n, err
}

// ---------------------------------------------------------------- receiving end (the node under test)
type c17Node struct {
	lg      *c17Log
	run     int
	mc      *MConnection
	nerr    int32
	errCls  atomic.Value
	stopped chan struct{}
	once    sync.Once
	ndlv    int32
	probe   chan struct{}
	quiet   bool
}

func c17ErrClass(r interface{}) string {
	s := fmt.Sprintf("%v", r)
	switch {
	case strings.Contains(s, "unknown channel"):
		return "unknown_channel"
	case strings.Contains(s, "exceeds available capacity"):
		return "capacity"
	case strings.Contains(s, "recovered from panic"):
		return "panic"
	}
	return "read"
}

func c17MConfig(cfg c17Cfg) MConnConfig {
	mc := DefaultMConnConfig()
	mc.SendRate = 1 << 30
	mc.RecvRate = 1 << 30
	mc.MaxPacketMsgPayloadSize = cfg.Payload
	mc.FlushThrottle = time.Millisecond
	mc.PingInterval = 10 * time.Hour
	mc.PongTimeout = 5 * time.Hour
	return mc
}

func c17Descs(cfg c17Cfg) []*ChannelDescriptor {
	var out []*ChannelDescriptor
	for i, id := range cfg.Chans {
		out = append(out, &ChannelDescriptor{ID: byte(id), Priority: 1 + i, SendQueueCapacity: cfg.QCap[i],
			RecvBufferCapacity: 1, RecvMessageCapacity: cfg.RCap[i]})
	}
	return out
}

func c17NewNode(lg *c17Log, run int, cfg c17Cfg, conn net.Conn, quiet bool) *c17Node {
	nd := &c17Node{lg: lg, run: run, stopped: make(chan struct{}), probe: make(chan struct{}, 64), quiet: quiet}
	nd.errCls.Store("none")
	onReceive := func(chID byte, msg []byte) {
		cp := append([]byte{}, msg...)
		if nd.quiet {
			nd.probe <- struct{}{}
			return
		}
		lg.emit(map[string]interface{}{"ev": "Dlv", "run": run, "ch": int(chID), "m": c17Ints(cp)})
		atomic.AddInt32(&nd.ndlv, 1)
		// the two content classes a connection can see (TMMConn!OnReceiveClass): what
		// p2p/peer.go's onReceive does with an undecodable message, and what a reactor does
		// with an invalid one (Switch.StopPeerForError -> peer.Stop -> mconn.Stop)
		if len(cp) > 0 && cp[0] == 0 {
			panic("c17: onReceive cannot decode")
		}
		if len(cp) > 0 && cp[0] == 1 {
			nd.mc.Stop() //nolint:errcheck
			nd.once.Do(func() { close(nd.stopped) })
		}
	}
	onError := func(r interface{}) {
		atomic.AddInt32(&nd.nerr, 1)
		nd.errCls.Store(c17ErrClass(r))
		nd.once.Do(func() { close(nd.stopped) })
	}
	nd.mc = NewMConnectionWithConfig(conn, c17Descs(cfg), onReceive, onError, c17MConfig(cfg))
	nd.mc.SetLogger(log.NewNopLogger())
	return nd
}

func (nd *c17Node) project(cfg c17Cfg) map[string]interface{} {
	if !nd.mc.IsRunning() {
		// the connection is down: onError (if any) is called right after Stop returns
		select {
		case <-nd.stopped:
		case <-time.After(2 * time.Second):
		}
	}
	lens := make([]int, len(cfg.Chans))
	for i, id := range cfg.Chans {
		lens[i] = len(nd.mc.channelsIdx[byte(id)].recving)
	}
	return map[string]interface{}{"recving": lens, "up": nd.mc.IsRunning(), "err": nd.errCls.Load().(string),
		"nerr": int(atomic.LoadInt32(&nd.nerr))}
}

// ---------------------------------------------------------------- sending end, lockstep
type c17Sender struct {
	mc  *MConnection
	tap *c17Tap
	cfg c17Cfg
	seq map[int]int
}

func c17NewSender(lg *c17Log, run int, cfg c17Cfg, conn net.Conn, park bool) *c17Sender {
	tap := &c17Tap{Conn: conn, lg: lg, run: run, timeout: 10 * time.Second}
	mc := NewMConnectionWithConfig(tap, c17Descs(cfg), func(byte, []byte) {}, func(interface{}) {}, c17MConfig(cfg))
	mc.SetLogger(log.NewNopLogger())
	if err := mc.Start(); err != nil {
		panic(err)
	}
	if park {
		// park the sendRoutine: from here on the driver is the only caller of sendPacketMsg
		// (what FlushStop does after the routine has exited)
		close(mc.quitSendRoutine)
		<-mc.doneSendRoutine
	}
	return &c17Sender{mc: mc, tap: tap, cfg: cfg, seq: map[int]int{}}
}

func (s *c17Sender) close(parked bool) {
	if parked {
		s.mc.flushTimer.Stop()
		s.mc.pingTimer.Stop()
		s.mc.chStatsTimer.Stop()
		close(s.mc.quitRecvRoutine)
		s.mc.conn.Close()
	} else {
		s.mc.Stop() //nolint:errcheck
	}
}

func (s *c17Sender) project() map[string]interface{} {
	q := make([]int, len(s.cfg.Chans))
	sending := make([]int, len(s.cfg.Chans))
	qsize := make([]int, len(s.cfg.Chans))
	for i, id := range s.cfg.Chans {
		ch := s.mc.channelsIdx[byte(id)]
		q[i] = len(ch.sendQueue)
		sending[i] = len(ch.sending)
		qsize[i] = ch.loadSendQueueSize()
	}
	return map[string]interface{}{"q": q, "sending": sending, "qsize": qsize}
}

// the two representations of a zero-length message a caller can pass to Send/TrySend
func c17Rep(m []byte, nilrep bool) []byte {
	if len(m) == 0 && nilrep {
		return nil
	}
	return m
}

func c17Content(ch, n, ln int) []byte {
	b := make([]byte, ln)
	for k := range b {
		b[k] = byte(2 + (ch*37+n*11+k*3)%250)
	}
	return b
}

// barrier: everything written so far has been consumed by the peer's recvRoutine (it answers the
// ping only after the packets before it), or the peer is down, or nothing happens for 10 s.
func c17Barrier(s *c17Sender, nd *c17Node) string {
	select {
	case <-s.mc.pongTimeoutCh:
	default:
	}
	w := protoio.NewDelimitedWriter(s.mc.bufConnWriter)
	if _, err := w.WriteMsg(mustWrapPacket(&tmp2p.PacketPing{})); err != nil {
		return "stopped"
	}
	s.mc.flush()
	select {
	case <-s.mc.pongTimeoutCh:
		return "pong"
	case <-nd.stopped:
		return "stopped"
	case <-time.After(10 * time.Second):
		if atomic.LoadInt32(&s.tap.failed) == 1 && !nd.mc.IsRunning() {
			return "stopped"
		}
		return "timeout"
	}
}

func c17RunLockstep(lg *c17Log, run int, cfg c17Cfg, sc c17Sched, unit int) {
	ca, cb := NetPipe()
	nd := c17NewNode(lg, run, cfg, cb, false)
	if err := nd.mc.Start(); err != nil {
		panic(err)
	}
	s := c17NewSender(lg, run, cfg, ca, true)
	lg.emit(map[string]interface{}{"ev": "Reset", "run": run, "unit": unit, "mode": "lockstep", "src": sc.Src, "cfg": cfg})
	buffered := false
	sync := func(final bool) {
		bar := c17Barrier(s, nd)
		e := nd.project(cfg)
		if !nd.mc.IsRunning() {
			// the peer is down: our side notices the closed pipe and stops itself; wait for that so
			// that what Send answers afterwards does not depend on timing
			for i := 0; i < 4000 && s.mc.IsRunning(); i++ {
				time.Sleep(500 * time.Microsecond)
			}
		}
		e["ev"], e["run"], e["barrier"], e["final"], e["honest"] = "Sync", run, bar, final, "n/a"
		e["up_a"] = s.mc.IsRunning()
		e["snd"] = s.project()
		lg.emit(e)
		buffered = false
	}
	for _, st := range sc.Steps {
		switch st.A {
		case "Send":
			n := s.seq[st.Ch] + 1
			m := c17Rep(c17Content(st.Ch, n, st.Len), st.Nil)
			ch := s.mc.channelsIdx[byte(st.Ch)]
			try := ch == nil || len(ch.sendQueue) >= cap(ch.sendQueue) || (n+st.Len)%2 == 0
			lg.emit(map[string]interface{}{"ev": "Send", "run": run, "ch": st.Ch, "m": c17Ints(m), "try": try, "nil": m == nil})
			var ok bool
			up := s.mc.IsRunning()
			if try {
				ok = s.mc.TrySend(byte(st.Ch), m)
			} else {
				ok = s.mc.Send(byte(st.Ch), m)
			}
			if ok {
				s.seq[st.Ch] = n
			}
			lg.emit(map[string]interface{}{"ev": "SendRes", "run": run, "ch": st.Ch, "ok": ok, "up_a": up, "snd": s.project()})
		case "SendPacket":
			up := s.mc.IsRunning()
			ex := s.mc.sendPacketMsg()
			buffered = true
			lg.emit(map[string]interface{}{"ev": "Step", "run": run, "exhausted": ex, "up_a": up, "snd": s.project()})
		case "Recv":
			if buffered {
				sync(false)
			}
		}
	}
	// drain: push out whatever is pending, then the final projection
	for i := 0; i < 1000; i++ {
		up := s.mc.IsRunning()
		ex := s.mc.sendPacketMsg()
		lg.emit(map[string]interface{}{"ev": "Step", "run": run, "exhausted": ex, "up_a": up, "snd": s.project()})
		if ex {
			break
		}
	}
	sync(true)
	s.close(true)
	nd.mc.Stop() //nolint:errcheck
}

// seeded random schedule for a random configuration
func c17RandomSched(rng *rand.Rand) (c17Cfg, c17Sched) {
	nch := 1 + rng.Intn(3)
	cfg := c17Cfg{Payload: []int{1, 2, 3, 5, 8, 64, 1024}[rng.Intn(7)]}
	ids := rng.Perm(120)
	for i := 0; i < nch; i++ {
		cfg.Chans = append(cfg.Chans, 1+ids[i])
		cfg.QCap = append(cfg.QCap, 1+rng.Intn(3))
		cfg.RCap = append(cfg.RCap, cfg.Payload*(1+rng.Intn(4))+rng.Intn(cfg.Payload+1))
	}
	sc := c17Sched{Src: "random"}
	nsteps := 8 + rng.Intn(30)
	for i := 0; i < nsteps; i++ {
		switch rng.Intn(10) {
		case 0, 1, 2, 3:
			k := rng.Intn(nch)
			p, rc := cfg.Payload, cfg.RCap[k]
			sizes := []int{0, 1, p - 1, p, p + 1, 2 * p, 2*p + 1, 3 * p, rc - 1, rc, rc, rc + 1, rng.Intn(rc + 2)}
			ln := sizes[rng.Intn(len(sizes))]
			if ln < 0 {
				ln = 0
			}
			if rng.Intn(12) != 0 && ln > rc {
				ln = rc
			}
			sc.Steps = append(sc.Steps, c17Step{A: "Send", Ch: cfg.Chans[k], Len: ln, Nil: ln == 0 && (i/2+k)%2 == 0}) // derived, so that the seeded schedules stay what they were
		case 4, 5, 6, 7:
			sc.Steps = append(sc.Steps, c17Step{A: "SendPacket"})
		default:
			sc.Steps = append(sc.Steps, c17Step{A: "Recv"})
		}
	}
	return cfg, sc
}

// ---------------------------------------------------------------- concurrent driver
func c17RunConcurrent(lg *c17Log, run int, rng *rand.Rand, unit int) {
	cfg, _ := c17RandomSched(rng)
	ca, cb := NetPipe()
	nd := c17NewNode(lg, run, cfg, cb, false)
	if err := nd.mc.Start(); err != nil {
		panic(err)
	}
	s := c17NewSender(lg, run, cfg, ca, false)
	lg.emit(map[string]interface{}{"ev": "Reset", "run": run, "unit": unit, "mode": "concurrent", "src": "random", "cfg": cfg})
	var wg sync.WaitGroup
	var accepted int32
	for k := range cfg.Chans {
		nmsg := 2 + rng.Intn(8)
		lens := make([]int, nmsg)
		tries := make([]bool, nmsg)
		nils := make([]bool, nmsg)
		for i := range lens {
			p, rc := cfg.Payload, cfg.RCap[k]
			sizes := []int{0, 1, p - 1, p, p + 1, 2 * p, 2*p + 1, rc - 1, rc, rng.Intn(rc + 1)}
			lens[i] = sizes[rng.Intn(len(sizes))]
			if lens[i] < 0 {
				lens[i] = 0
			}
			if lens[i] > rc {
				lens[i] = rc
			}
			tries[i] = rng.Intn(3) == 0
			nils[i] = (i/2+k)%2 == 0
		}
		wg.Add(1)
		go func(k int, lens []int, tries []bool) {
			defer wg.Done()
			ch := cfg.Chans[k]
			n := 0
			for i, ln := range lens {
				m := c17Rep(c17Content(ch, n+1, ln), nils[i])
				lg.emit(map[string]interface{}{"ev": "Send", "run": run, "ch": ch, "m": c17Ints(m), "try": tries[i], "nil": m == nil})
				var ok bool
				if tries[i] {
					ok = s.mc.TrySend(byte(ch), m)
				} else {
					ok = s.mc.Send(byte(ch), m)
				}
				if ok {
					n++
					atomic.AddInt32(&accepted, 1)
				}
				lg.emit(map[string]interface{}{"ev": "SendRes", "run": run, "ch": ch, "ok": ok, "up_a": true, "snd": s.project()})
			}
		}(k, lens, tries)
	}
	wg.Wait()
	// wait (up to 15 s) until as many messages were handed over as were accepted
	deadline := time.Now().Add(15 * time.Second)
	for time.Now().Before(deadline) && atomic.LoadInt32(&nd.ndlv) < atomic.LoadInt32(&accepted) && nd.mc.IsRunning() {
		time.Sleep(200 * time.Microsecond)
	}
	e := nd.project(cfg)
	e["ev"], e["run"], e["barrier"], e["final"], e["honest"] = "Sync", run, "idle", true, "n/a"
	e["up_a"] = s.mc.IsRunning()
	e["snd"] = s.project()
	lg.emit(e)
	s.close(false)
	nd.mc.Stop() //nolint:errcheck
}

// ---------------------------------------------------------------- hostile driver
type c17Raw struct {
	conn  net.Conn
	pong  chan struct{}
	eof   chan struct{}
	maxSz int
}

func c17NewRaw(conn net.Conn) *c17Raw {
	r := &c17Raw{conn: conn, pong: make(chan struct{}, 16), eof: make(chan struct{})}
	go func() {
		rd := protoio.NewDelimitedReader(conn, 1<<20)
		for {
			var p tmp2p.Packet
			if _, err := rd.ReadMsg(&p); err != nil {
				close(r.eof)
				return
			}
			if _, ok := p.Sum.(*tmp2p.Packet_PacketPong); ok {
				r.pong <- struct{}{}
			}
		}
	}()
	return r
}

func c17Delimited(body []byte) []byte {
	return append(proto.EncodeVarint(uint64(len(body))), body...)
}

func c17Encode(p c17Pkt) []byte {
	switch p.T {
	case "ping":
		b, _ := proto.Marshal(mustWrapPacket(&tmp2p.PacketPing{}))
		return c17Delimited(b)
	case "pong":
		b, _ := proto.Marshal(mustWrapPacket(&tmp2p.PacketPong{}))
		return c17Delimited(b)
	case "garbage":
		return c17Delimited([]byte{0xff, 0xff, 0xff})
	case "emptysum":
		return c17Delimited(nil)
	}
	b, _ := proto.Marshal(mustWrapPacket(&tmp2p.PacketMsg{ChannelID: int32(p.Ch), EOF: p.EOF, Data: c17Bytes(p.Data)}))
	return c17Delimited(b)
}

func (r *c17Raw) write(b []byte) error {
	r.conn.SetWriteDeadline(time.Now().Add(10 * time.Second))
	_, err := r.conn.Write(b)
	return err
}

func (r *c17Raw) barrier(nd *c17Node) string {
	for len(r.pong) > 0 {
		<-r.pong
	}
	if err := r.write(c17Encode(c17Pkt{T: "ping"})); err != nil {
		if !nd.mc.IsRunning() {
			return "stopped"
		}
		return "timeout"
	}
	select {
	case <-r.pong:
		return "pong"
	case <-nd.stopped:
		return "stopped"
	case <-r.eof:
		return "stopped"
	case <-time.After(10 * time.Second):
		return "timeout"
	}
}

// honest pair living in the same process: one probe message after every hostile packet
type c17Honest struct {
	s  *c17Sender
	nd *c17Node
	n  int
}

func c17NewHonest(lg *c17Log, cfg c17Cfg) *c17Honest {
	ca, cb := NetPipe()
	nd := c17NewNode(lg, -1, cfg, cb, true)
	if err := nd.mc.Start(); err != nil {
		panic(err)
	}
	mc := NewMConnectionWithConfig(ca, c17Descs(cfg), func(byte, []byte) {}, func(interface{}) {}, c17MConfig(cfg))
	mc.SetLogger(log.NewNopLogger())
	if err := mc.Start(); err != nil {
		panic(err)
	}
	return &c17Honest{s: &c17Sender{mc: mc, cfg: cfg, seq: map[int]int{}}, nd: nd}
}

func (h *c17Honest) probe() string {
	for len(h.nd.probe) > 0 {
		<-h.nd.probe
	}
	h.n++
	if !h.s.mc.Send(byte(h.s.cfg.Chans[0]), c17Content(h.s.cfg.Chans[0], h.n, 1+h.n%h.s.cfg.RCap[0])) {
		return "refused"
	}
	select {
	case <-h.nd.probe:
		return "ok"
	case <-time.After(10 * time.Second):
		return "timeout"
	}
}

func (h *c17Honest) close() {
	h.s.mc.Stop()  //nolint:errcheck
	h.nd.mc.Stop() //nolint:errcheck
}

func c17RunHostile(lg *c17Log, run int, cfg c17Cfg, hs c17HSched, hon *c17Honest, unit int) {
	ca, cb := NetPipe()
	nd := c17NewNode(lg, run, cfg, cb, false)
	if err := nd.mc.Start(); err != nil {
		panic(err)
	}
	raw := c17NewRaw(ca)
	// how many data bytes beyond `payload` still fit into maxPacketMsgSize (not-EOF packet, 1-byte channel id)
	slack := 0
	for {
		b, _ := proto.Marshal(mustWrapPacket(&tmp2p.PacketMsg{ChannelID: int32(cfg.Chans[0]), Data: make([]byte, cfg.Payload+slack+1)}))
		if len(b) > nd.mc._maxPacketMsgSize {
			break
		}
		slack++
	}
	cfg.Slack = slack
	lg.emit(map[string]interface{}{"ev": "Reset", "run": run, "unit": unit, "mode": "hostile", "src": hs.Src, "cfg": cfg})
	for _, p := range hs.Pkts {
		if p.T == "oversize" {
			p = c17Pkt{T: "msg", Ch: cfg.Chans[0], Data: c17Ints(make([]byte, cfg.Payload+slack+1))}
			for i := range p.Data {
				p.Data[i] = 7
			}
		}
		// data of the symbolic classes is stretched to this configuration's sizes by the caller;
		// here only "does the encoding fit into one maximal packet" is measured
		enc := c17Encode(p)
		l, n := proto.DecodeVarint(enc)
		_ = n
		fits := int(l) <= nd.mc._maxPacketMsgSize
		if p.Data == nil {
			p.Data = []int{}
		}
		lg.emit(map[string]interface{}{"ev": "Inject", "run": run, "pkt": p, "fits": fits})
		werr := raw.write(enc)
		bar := raw.barrier(nd)
		e := nd.project(cfg)
		e["ev"], e["run"], e["barrier"], e["final"] = "Sync", run, bar, false
		e["honest"] = hon.probe()
		e["up_a"] = werr == nil
		e["snd"] = map[string]interface{}{"q": []int{}, "sending": []int{}, "qsize": []int{}}
		lg.emit(e)
	}
	ca.Close()
	nd.mc.Stop() //nolint:errcheck
}

func c17RandomHostile(rng *rand.Rand) (c17Cfg, c17HSched) {
	cfg, _ := c17RandomSched(rng)
	if cfg.Payload > 64 {
		cfg.Payload = 64
		for i := range cfg.RCap {
			cfg.RCap[i] = 64 + rng.Intn(130)
		}
	}
	hs := c17HSched{Src: "random"}
	n := 1 + rng.Intn(7)
	for i := 0; i < n; i++ {
		var p c17Pkt
		switch rng.Intn(14) {
		case 0:
			p.T = []string{"ping", "pong", "garbage", "emptysum", "oversize"}[rng.Intn(5)]
		default:
			p.T = "msg"
			chs := append([]int{-1, 0, 127, 200, 255, 256 + cfg.Chans[0], 1 << 20}, cfg.Chans...)
			if rng.Intn(4) != 0 {
				p.Ch = cfg.Chans[rng.Intn(len(cfg.Chans))]
			} else {
				p.Ch = chs[rng.Intn(len(chs))]
			}
			p.EOF = rng.Intn(3) == 0
			lens := []int{0, 1, cfg.Payload - 1, cfg.Payload, cfg.Payload + 1, cfg.Payload + 2, cfg.Payload + 3}
			ln := lens[rng.Intn(len(lens))]
			if ln < 0 {
				ln = 0
			}
			p.Data = make([]int, ln)
			for k := range p.Data {
				p.Data[k] = 7
			}
			if ln > 0 {
				p.Data[0] = []int{0, 1, 7, 7, 7, 7, 7, 7}[rng.Intn(8)]
			}
		}
		hs.Pkts = append(hs.Pkts, p)
	}
	return cfg, hs
}

// ---------------------------------------------------------------- entry point
func TestVerifC17(t *testing.T) {
	inPath, outPath := os.Getenv("VERIF_IN"), os.Getenv("VERIF_OUT")
	if inPath == "" || outPath == "" {
		t.Skip("VERIF_IN / VERIF_OUT not set")
	}
	seed, _ := strconv.ParseInt(os.Getenv("VERIF_SEED"), 10, 64)
	raw, err := os.ReadFile(inPath)
	if err != nil {
		t.Fatal(err)
	}
	var in c17Input
	if err := json.Unmarshal(raw, &in); err != nil {
		t.Fatal(err)
	}
	f, err := os.OpenFile(outPath, os.O_CREATE|os.O_WRONLY|os.O_APPEND, 0o644)
	if err != nil {
		t.Fatal(err)
	}
	defer f.Close()
	lg := &c17Log{f: f}
	hon := c17NewHonest(lg, in.Cfg)
	defer hon.close()

	unit := 0
	next := func() bool { unit++; return unit-1 >= in.Start }
	for _, sc := range in.Scheds {
		if next() {
			c17RunLockstep(lg, unit, in.Cfg, sc, unit-1)
		}
	}
	for _, hs := range in.Hostile {
		if next() {
			c17RunHostile(lg, unit, in.Cfg, hs, hon, unit-1)
		}
	}
	// every random unit has its own generator so that a restart after a crash reproduces it
	for k := 0; k < in.Random; k++ {
		if next() {
			rng := rand.New(rand.NewSource(seed*1000003 + int64(k)))
			cfg, sc := c17RandomSched(rng)
			c17RunLockstep(lg, unit, cfg, sc, unit-1)
		}
	}
	for k := 0; k < in.Concurrent; k++ {
		if next() {
			c17RunConcurrent(lg, unit, rand.New(rand.NewSource(seed*7919+int64(k))), unit-1)
		}
	}
	for k := 0; k < in.HRandom; k++ {
		if next() {
			rng := rand.New(rand.NewSource(seed*104729 + int64(k)))
			cfg, hs := c17RandomHostile(rng)
			c17RunHostile(lg, unit, cfg, hs, hon, unit-1)
		}
	}
	lg.emit(map[string]interface{}{"ev": "Done", "run": 0, "units": unit})
	t.Logf("C17 conn harness: %d events, %d units", lg.n, unit)
}
