//go:build verif

package txindex_test

// C19 harness, indexing half (see /verif/DESIGN.md section 5, C19).
//
// Commits histories of blocks the way state/execution.go fireEvents publishes them, on a
// REAL types.EventBus with the REAL txindex.IndexerService, kv tx indexer and kv block
// indexer attached (plus user subscriptions, some with queries that cannot be evaluated
// on some events, some that never read).  After every block the content of both stores is
// dumped and projected to the abstract index of spec/TMIndexer.tla; after the history
// every search query is run through TxIndex.Search / BlockerIndexer.Search.  "direct"
// histories bypass the bus and call AddBatch / Index directly (used for the large case
// sets).  Output is NDJSON validated by TLC (spec/trace/TMIndexerTrace.tla); the harness
// gives no verdicts.

import (
	"bytes"
	"context"
	"encoding/json"
	"fmt"
	"os"
	"sort"
	"strings"
	"sync"
	"testing"
	"time"

	"github.com/gogo/protobuf/proto"
	"github.com/google/orderedcode"
	dbm "github.com/tendermint/tm-db"

	abci "github.com/tendermint/tendermint/abci/types"
	"github.com/tendermint/tendermint/libs/pubsub/query"
	blockidxkv "github.com/tendermint/tendermint/state/indexer/block/kv"
	"github.com/tendermint/tendermint/state/txindex"
	"github.com/tendermint/tendermint/state/txindex/kv"
	"github.com/tendermint/tendermint/types"
)

type c19Cond struct {
	Key  string `json:"key"`
	Op   string `json:"op"`
	Kind string `json:"kind"`
	Arg  string `json:"arg"`
}

type c19Attr struct {
	K   string `json:"k"`
	V   string `json:"v"`
	Idx bool   `json:"idx"`
}

type c19Event struct {
	Type  string    `json:"type"`
	Attrs []c19Attr `json:"attrs"`
}

type c19Tx struct {
	Tx     string     `json:"tx"`
	Height int64      `json:"height"`
	Index  uint32     `json:"index"`
	Code   uint32     `json:"code"`
	Events []c19Event `json:"events"`
}

type c19Block struct {
	Height int64      `json:"height"`
	Begin  []c19Event `json:"begin"`
	End    []c19Event `json:"end"`
	Txs    []c19Tx    `json:"txs"`
}

type c19UserSub struct {
	C   string    `json:"c"`
	Q   []c19Cond `json:"q"`
	Cap int       `json:"cap"`
}

type c19Hist struct {
	Tag    string       `json:"tag"`
	Direct string       `json:"direct"` // "" = through the event bus, "batch" = AddBatch, "index" = Index per tx
	Subs   []c19UserSub `json:"subs"`
	Blocks []c19Block   `json:"blocks"`
	TxQ    [][]c19Cond  `json:"txq"`
	BlkQ   [][]c19Cond  `json:"blkq"`
}

type c19Input struct {
	Hists []c19Hist `json:"hists"`
}

func c19HashName(tx string) string { return "H(" + tx + ")" }

func c19HashHex(tx string) string { return fmt.Sprintf("%X", types.Tx(tx).Hash()) }

// concrete syntax; the abstract hash H(t) of a tx.hash condition becomes the real hash
func c19Render(conds []c19Cond) string {
	parts := make([]string, 0, len(conds))
	for _, c := range conds {
		arg := c.Arg
		if c.Key == types.TxHashKey && strings.HasPrefix(arg, "H(") && strings.HasSuffix(arg, ")") {
			arg = c19HashHex(arg[2 : len(arg)-1])
		}
		switch {
		case c.Op == "EXISTS":
			parts = append(parts, c.Key+" EXISTS")
		case c.Kind == "str":
			parts = append(parts, c.Key+" "+c.Op+" '"+arg+"'")
		default:
			parts = append(parts, c.Key+" "+c.Op+" "+arg)
		}
	}
	return strings.Join(parts, " AND ")
}

func c19AbciEvents(evs []c19Event) []abci.Event {
	out := make([]abci.Event, 0, len(evs))
	for _, e := range evs {
		ae := abci.Event{Type: e.Type}
		for _, a := range e.Attrs {
			ae.Attributes = append(ae.Attributes, abci.EventAttribute{Key: []byte(a.K), Value: []byte(a.V), Index: a.Idx})
		}
		out = append(out, ae)
	}
	return out
}

func c19TxResult(t c19Tx) abci.TxResult {
	return abci.TxResult{Height: t.Height, Index: t.Index, Tx: types.Tx(t.Tx),
		Result: abci.ResponseDeliverTx{Code: t.Code, Events: c19AbciEvents(t.Events)}}
}

type c19Writer struct {
	f   *os.File
	enc *json.Encoder
	n   int
}

func (w *c19Writer) emit(v interface{}) {
	if err := w.enc.Encode(v); err != nil {
		panic(err)
	}
	w.n++
}

// a user subscription on the event bus next to the indexer's own
type c19User struct {
	us     c19UserSub
	sub    types.Subscription
	mu     sync.Mutex
	got    []string
	syncCh chan chan struct{}
}

func c19Label(data interface{}) string {
	switch d := data.(type) {
	case types.EventDataTx:
		return "tx:" + string(d.Tx)
	case types.EventDataNewBlock:
		return fmt.Sprintf("blk:%d", d.Block.Height)
	case types.EventDataNewBlockHeader:
		return fmt.Sprintf("hdr:%d", d.Header.Height)
	}
	return fmt.Sprintf("other:%T", data)
}

// eager reader of an unbuffered user subscription
func (u *c19User) reader(stop chan struct{}) {
	for {
		select {
		case m := <-u.sub.Out():
			u.mu.Lock()
			u.got = append(u.got, c19Label(m.Data()))
			u.mu.Unlock()
		case ack := <-u.syncCh:
			close(ack)
		case <-stop:
			return
		}
	}
}

func (u *c19User) project(wedged bool) map[string]interface{} {
	if u.us.Cap == 0 && !wedged {
		ack := make(chan struct{})
		select {
		case u.syncCh <- ack:
			<-ack
		case <-time.After(c19SettleLong):
		}
	}
	cancelled := false
	select {
	case <-u.sub.Cancelled():
		cancelled = true
	default:
	}
	errs := "nil"
	if err := u.sub.Err(); err != nil {
		errs = err.Error()
	}
	u.mu.Lock()
	got := append([]string{}, u.got...)
	u.mu.Unlock()
	return map[string]interface{}{"c": u.us.C, "cap": u.us.Cap, "got": got, "nbuf": len(u.sub.Out()),
		"cancelled": cancelled, "err": errs}
}

type c19Env struct {
	users       []*c19User
	txDB, blkDB dbm.DB
	txi         *kv.TxIndex
	bli         *blockidxkv.BlockerIndexer
	bus         *types.EventBus
	svc         *txindex.IndexerService
	names       map[string]string // hex(hash) -> H(tx)
	stops       []chan struct{}
}

// dump of the tx store: primary records (key = hash) and index keys
func (e *c19Env) projectTx() (keys []interface{}, prim []interface{}) {
	keys, prim = []interface{}{}, []interface{}{}
	it, err := e.txDB.Iterator(nil, nil)
	if err != nil {
		panic(err)
	}
	defer it.Close()
	for ; it.Valid(); it.Next() {
		k, v := it.Key(), it.Value()
		res := new(abci.TxResult)
		if len(k) == 32 && proto.Unmarshal(v, res) == nil && bytes.Equal(types.Tx(res.Tx).Hash(), k) {
			prim = append(prim, map[string]interface{}{"h": c19HashName(string(res.Tx)), "tx": string(res.Tx),
				"height": res.Height, "index": res.Index, "code": res.Result.Code})
			continue
		}
		h := fmt.Sprintf("%X", v)
		name, ok := e.names[h]
		if !ok {
			name = "X(" + h + ")"
		}
		keys = append(keys, map[string]interface{}{"k": string(k), "h": name})
	}
	return keys, prim
}

func (e *c19Env) projectBlk() (prim []int64, keys []interface{}) {
	prim, keys = []int64{}, []interface{}{}
	it, err := e.blkDB.Iterator(nil, nil)
	if err != nil {
		panic(err)
	}
	defer it.Close()
	for ; it.Valid(); it.Next() {
		var ck, val, typ string
		var h int64
		if rem, err := orderedcode.Parse(string(it.Key()), &ck, &val, &h, &typ); err == nil && rem == "" {
			keys = append(keys, map[string]interface{}{"key": ck, "value": val, "height": h, "typ": typ})
			continue
		}
		if rem, err := orderedcode.Parse(string(it.Key()), &ck, &h); err == nil && rem == "" && ck == types.BlockHeightKey {
			prim = append(prim, h)
			continue
		}
		keys = append(keys, map[string]interface{}{"key": "?" + fmt.Sprintf("%X", it.Key()), "value": "", "height": int64(0), "typ": "?"})
	}
	sort.Slice(prim, func(i, j int) bool { return prim[i] < prim[j] })
	return prim, keys
}

func (e *c19Env) post() map[string]interface{} {
	tk, tp := e.projectTx()
	bp, bk := e.projectBlk()
	return map[string]interface{}{"txkeys": tk, "prim": tp, "blkprim": bp, "blkkeys": bk}
}

// generous (starved machines); after two blocks that were never indexed the wait is cut short
const c19SettleLong = 15 * time.Second

var c19Unsettled = 0

func c19SettleTimeout() time.Duration {
	if c19Unsettled >= 2 {
		return 300 * time.Millisecond
	}
	return c19SettleLong
}

// publish one block's events as fireEvents does; false if the bus does not take them
func (e *c19Env) publish(b c19Block, timeout time.Duration) bool {
	done := make(chan struct{})
	go func() {
		defer close(done)
		bb, eb := abci.ResponseBeginBlock{Events: c19AbciEvents(b.Begin)}, abci.ResponseEndBlock{Events: c19AbciEvents(b.End)}
		hdr := types.Header{Height: b.Height}
		_ = e.bus.PublishEventNewBlock(types.EventDataNewBlock{Block: &types.Block{Header: hdr},
			ResultBeginBlock: bb, ResultEndBlock: eb})
		_ = e.bus.PublishEventNewBlockHeader(types.EventDataNewBlockHeader{Header: hdr, NumTxs: int64(len(b.Txs)),
			ResultBeginBlock: bb, ResultEndBlock: eb})
		for _, t := range b.Txs {
			_ = e.bus.PublishEventTx(types.EventDataTx{TxResult: c19TxResult(t)})
		}
		// the command channel is unbuffered: once one more command has been accepted the
		// loop has finished sending the last publication to every subscriber
		_ = e.bus.Publish("VerifFlush", types.EventDataString("flush"))
		_ = e.bus.Publish("VerifFlush", types.EventDataString("flush"))
	}()
	select {
	case <-done:
		return true
	case <-time.After(timeout):
		return false
	}
}

func (e *c19Env) settled(b c19Block, timeout time.Duration) bool {
	deadline := time.Now().Add(timeout)
	for {
		ok, err := e.bli.Has(b.Height)
		if err == nil && ok {
			if len(b.Txs) == 0 {
				return true
			}
			last := b.Txs[len(b.Txs)-1]
			if res, err := e.txi.Get(types.Tx(last.Tx).Hash()); err == nil && res != nil && res.Height == b.Height {
				return true
			}
		}
		if time.Now().After(deadline) {
			return false
		}
		time.Sleep(100 * time.Microsecond)
	}
}

func c19RunHist(t *testing.T, w *c19Writer, run int, h c19Hist) {
	e := &c19Env{txDB: dbm.NewMemDB(), blkDB: dbm.NewMemDB(), names: map[string]string{}}
	e.txi = kv.NewTxIndex(e.txDB)
	e.bli = blockidxkv.New(e.blkDB)
	for _, b := range h.Blocks {
		for _, tx := range b.Txs {
			e.names[c19HashHex(tx.Tx)] = c19HashName(tx.Tx)
		}
	}
	usubs := h.Subs
	if usubs == nil {
		usubs = []c19UserSub{}
	}
	w.emit(map[string]interface{}{"ev": "Reset", "run": run, "tag": h.Tag, "direct": h.Direct, "subs": usubs})
	wedged := false
	if h.Direct == "" {
		e.bus = types.NewEventBus()
		if err := e.bus.Start(); err != nil {
			t.Fatal(err)
		}
		e.svc = txindex.NewIndexerService(e.txi, e.bli, e.bus, false)
		if err := e.svc.Start(); err != nil {
			t.Fatal(err)
		}
		for _, us := range h.Subs {
			q, err := query.New(c19Render(us.Q))
			if err != nil {
				t.Fatalf("run %d: user query %q: %v", run, c19Render(us.Q), err)
			}
			u := &c19User{us: us, got: []string{}, syncCh: make(chan chan struct{})}
			if us.Cap == 0 {
				u.sub, err = e.bus.SubscribeUnbuffered(context.Background(), us.C, q)
			} else { // buffered, never read
				u.sub, err = e.bus.Subscribe(context.Background(), us.C, q, us.Cap)
			}
			if err != nil {
				t.Fatalf("run %d: %v", run, err)
			}
			e.users = append(e.users, u)
			if us.Cap == 0 {
				stop := make(chan struct{})
				e.stops = append(e.stops, stop)
				go u.reader(stop)
			}
		}
	}
	for _, b := range h.Blocks {
		published, settled := true, true
		switch h.Direct {
		case "":
			published = e.publish(b, c19SettleTimeout())
			settled = published && e.settled(b, c19SettleTimeout())
			if !settled {
				c19Unsettled++
			}
		default:
			hdr := types.EventDataNewBlockHeader{Header: types.Header{Height: b.Height}, NumTxs: int64(len(b.Txs)),
				ResultBeginBlock: abci.ResponseBeginBlock{Events: c19AbciEvents(b.Begin)},
				ResultEndBlock:   abci.ResponseEndBlock{Events: c19AbciEvents(b.End)}}
			if err := e.bli.Index(hdr); err != nil {
				t.Fatalf("run %d: block index: %v", run, err)
			}
			if h.Direct == "index" {
				for _, tx := range b.Txs {
					r := c19TxResult(tx)
					if err := e.txi.Index(&r); err != nil {
						t.Fatalf("run %d: tx index: %v", run, err)
					}
				}
			} else {
				batch := txindex.NewBatch(int64(len(b.Txs)))
				for _, tx := range b.Txs {
					r := c19TxResult(tx)
					if err := batch.Add(&r); err != nil {
						t.Fatalf("run %d: batch add: %v", run, err)
					}
				}
				if err := e.txi.AddBatch(batch); err != nil {
					t.Fatalf("run %d: add batch: %v", run, err)
				}
			}
		}
		if b.Begin == nil {
			b.Begin = []c19Event{}
		}
		if b.End == nil {
			b.End = []c19Event{}
		}
		if b.Txs == nil {
			b.Txs = []c19Tx{}
		}
		users := []interface{}{}
		for _, u := range e.users {
			users = append(users, u.project(!published))
		}
		w.emit(map[string]interface{}{"ev": "Block", "run": run, "b": b, "published": published, "settled": settled,
			"post": e.post(), "users": users})
		if !published {
			wedged = true
			break // the bus does not take events any more; nothing further can be committed
		}
	}
	ctx := context.Background()
	for _, conds := range h.TxQ {
		qs := c19Render(conds)
		q, err := query.New(qs)
		if err != nil {
			t.Fatalf("run %d: tx query %q: %v", run, qs, err)
		}
		var res []*abci.TxResult
		var serr error
		func() { // a panic of the search code is an observation, not the end of the driver
			defer func() {
				if p := recover(); p != nil {
					res, serr = nil, fmt.Errorf("panic: %v", p)
				}
			}()
			res, serr = e.txi.Search(ctx, q)
		}()
		txs := []interface{}{}
		for _, r := range res {
			if r == nil {
				txs = append(txs, map[string]interface{}{"tx": "<nil>", "height": int64(-1), "index": uint32(0)})
				continue
			}
			txs = append(txs, map[string]interface{}{"tx": string(r.Tx), "height": r.Height, "index": r.Index})
		}
		errs := "nil"
		if serr != nil {
			errs = serr.Error()
		}
		w.emit(map[string]interface{}{"ev": "TxSearch", "run": run, "q": conds, "qstr": qs, "txs": txs, "err": errs})
	}
	for _, conds := range h.BlkQ {
		qs := c19Render(conds)
		q, err := query.New(qs)
		if err != nil {
			t.Fatalf("run %d: block query %q: %v", run, qs, err)
		}
		var res []int64
		var serr error
		func() {
			defer func() {
				if p := recover(); p != nil {
					res, serr = nil, fmt.Errorf("panic: %v", p)
				}
			}()
			res, serr = e.bli.Search(ctx, q)
		}()
		if res == nil {
			res = []int64{}
		}
		errs := "nil"
		if serr != nil {
			errs = serr.Error()
		}
		w.emit(map[string]interface{}{"ev": "BlockSearch", "run": run, "q": conds, "qstr": qs, "heights": res, "err": errs})
	}
	for _, s := range e.stops {
		close(s)
	}
	if e.bus != nil && !wedged {
		_ = e.svc.Stop()
		_ = e.bus.Stop()
	}
}

func TestVerifC19Indexer(t *testing.T) {
	inPath, outDir := os.Getenv("VERIF_IN"), os.Getenv("VERIF_OUT")
	if inPath == "" || outDir == "" {
		t.Skip("VERIF_IN / VERIF_OUT not set")
	}
	raw, err := os.ReadFile(inPath)
	if err != nil {
		t.Fatal(err)
	}
	var in c19Input
	if err := json.Unmarshal(raw, &in); err != nil {
		t.Fatal(err)
	}
	f, err := os.Create(outDir + "/indexer.ndjson")
	if err != nil {
		t.Fatal(err)
	}
	w := &c19Writer{f: f, enc: json.NewEncoder(f)}
	for i, h := range in.Hists {
		c19RunHist(t, w, i+1, h)
	}
	f.Close()
	t.Logf("C19 indexer harness: %d histories, %d events", len(in.Hists), w.n)
}
